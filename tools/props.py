"""Per-property configuration of ./check."""

# steps that never push a program variable (every other step does, so the minimiser must keep it)
NON_PRODUCERS = {"T", "UT", "transpose", "at", "atbox", "setat", "memset", "zero", "copy", "copyto", "reshape",
                 "iter", "dump", "calcS", "calcT", "calcRepeat", "calcConcat", "harden", "soften", "setmask", "mq", "mruns", "miter", "mdump",
                 "msetat", "mseti", "mreset", "mfromslice", "mfromdense"}

TRUSTED_BASE = [
    "Lean 4.33.0 kernel (thorough tier: re-checked with leanchecker); axioms limited to propext, Classical.choice, Quot.sound (audited with #print axioms on every run)",
    "hand-written Lean model M of the Go code (lean/TensorModel/*.lean), tied to /repo only by the correspondence run of this check (bounded domain)",
    "Go harness tools/harness (program executor, term evaluator with Go's own operators, comparator) and the driver's line protocol",
    "Go compiler/runtime/reflect; third-party packages used by gorgonia/tensor are modelled by contract, not verified",
]

ASSUMPTIONS = [
    "index arithmetic is modelled over unbounded integers (all sizes in the runs are far below 2^63)",
    "element values are symbolic terms in the model; the harness evaluates them with Go's own operators on the original inputs",
    "the Triangle flag of access patterns is not modelled",
]

GOL = "cd tools/gol && go run . -repo /repo -out ../../lean/TensorModel/Generated/Core.lean"
GOX = "cd tools/gox && go run . -repo /repo -out ../../lean/TensorModel/Generated"
GOX_TRUST = "tools/gox (go/ast -> MiniGo tables: type abstraction, alpha-renaming) and the meaning of MiniGo constructs; operator tokens are names, evaluated by the Go compiler in the harness - Props/C17 proves every generated kernel and dispatch arm this property runs through to be the instance of its family's template"
GLUE = "cd tools/gluex && go run . -repo /repo -out ../../lean/TensorModel/Generated/Glue.lean"
GLUE_TRUST = ("tools/gluex (go/ast -> table of the engine / method / package-function glue: per function the id of its body with the "
              "operation's own name and the element-type class abstracted; the abstraction is textual on identifiers and string literals) - "
              "Props/C17glue proves one pattern per family from the regenerated table, which is what entitles the model to one "
              "operation-parameterised definition per family")
GOL_TRUST = ("tools/gol (Go -> Lean do-notation, statement by statement; functions outside its subset are not emitted) and "
             "lean/TensorModel/GoLib.lean (meaning of the Go primitives: int = unbounded Int, slices = lists with value semantics "
             "(aliasing-checked), index / slice / division panics, error values); the regenerated definitions are proved equal to "
             "the model functions in Proofs/CoreEq.lean")

PROPS = {
    "C01": {
        "lean_modules": ["C01"],
        "pre_cmds": [GOL],
        "trusted_extra": [GOL_TRUST],
        "rule": "programs = element type x constructor {row-major, column-major over raw backing, column-major converting} x shape (rank 0-3 quick / 0-4 thorough, dims incl. length-one axes) x layout {as built, lazily transposed, physically transposed, sliced}; every coordinate of the box [-2,d+1]^rank is read (atbox), wrong arities, one in-range and one near-miss write followed by full dumps of parent and view; distinct = distinct (op sequence, shape, strides, order flags, view/old flags) tuples observed in dumps",
    },
    "C02": {
        "lean_modules": ["C02"],
        "pre_cmds": [GOL],
        "trusted_extra": [GOL_TRUST],
        "rule": "rank-1: complete per-axis argument space (nil, indices -1..d, all triples s in [-1,d], e in [s-1,d+2], st in [0,d+1]) x 3 constructors; rank-2: cross product of the per-axis spaces (sampled 1/9 in quick, complete in thorough) incl. transposed sources and short slice lists; rank 3-4 and nested slicing to depth 3: seeded sampling; distinct = distinct (op sequence, result shape, strides, flags)",
    },
    "C03": {
        "lean_modules": ["C03"],
        "builds": [["default", "verif"], ["inplace", "verif inplacetranspose"]],
        "rule": "shapes of rank 0-3 (quick) / 0-4 (thorough) with dims {1,2,3} plus equal-dim and rank-5 shapes x all axis permutations x element widths {1,2,4,8,16 bytes, string} x sources {row-major, column-major raw, column-major converting, sliced view} x random continuations of T/UT/Transpose/SafeT/tensor.T/tensor.Transpose/RollAxis, RollAxis over every (axis, start) pair; dumps of tensor and parent after every step; every program also runs on the harness built with the tag inplacetranspose (the in-place data movement), which must equal the same model",
    },
    "C05": {
        "lean_modules": ["C05", "C05mult"],
        "pre_cmds": [GOL],
        "trusted_extra": [GOL_TRUST],
        "rule": "every shape of rank 0-3 and vector-like rank-4 shapes x constructors x {as built, every transpose, random slices, slices of transposes} x scripts of Next/Reset/SetReverse/SetForward/Coord/Done; offsets, coordinates, exhaustion and the cells read at the offsets are compared; multi-iterator (IteratorFromDense over 2-4 tensors): shapes of rank 0-4 incl. (n), (1,n), (n,1), (1,1,n), all-ones x every pair (thorough: triple) of operand layouts {contiguous, lazily transposed, offset slice, stepped slice, column-major raw / converting, materialised, row vector with inner stride 3} x {same variable twice, same strides twice, swapped / rotated operands} x scripts {N, rN, nnxN, nrN, Nd, mixed direction switches / Start / Reset / Done / LastIndex}; per call the returned index, LastIndex(j) of every operand, Coord, exhaustion and the cells of every operand at its LastIndex(j) are compared; unequal shapes and masked operands: correspondence only",
        "assumptions": ["hashIntArray (64-bit FNV-1a) does not collide on the stride lists of the operands of one NewMultIterator call: the model keys stride blocks by the stride list itself"],
    },
    "C04": {
        "lean_modules": ["C04"],
        "rule": "parents of rank 1-3 (quick) / 1-4 (thorough), dims 1-4, 8 element types, 3 constructors; views = slice / lazy transpose / slice of transpose / slice of slice; one of 9 scenarios per program: Memset, Zero, Copy into the view, write through the parent, Clone + writes on both sides, Materialize, SafeT, CopyTo, Copy out; the parent's and the view's full dumps (elements by At, raw window) are compared after the writes",
    },
    "C06": {
        "lean_modules": ["C06", "C17glue", "C17"],
        "pre_cmds": [GOX, GLUE, GOL],
        "trusted_extra": [GOX_TRUST, GLUE_TRUST, GOL_TRUST],
        "rule": "every arithmetic op (add sub mul div mod pow) x 14 numeric element types x {tensor-tensor, tensor-scalar, scalar-tensor} x {package function, method} with rotating shapes (rank 0-4 incl. scalar, (1), (1,1), row/column vectors) and operand layouts {contiguous, lazily transposed, offset slice, stepped slice, materialised}; all 25 layout pairs on every shape; refusals (bool/string operands, mismatched dtypes and shapes); value sets with overflow, negatives, zero divisors (floats), NaN/Inf; model terms are evaluated with Go's own operators and compared bit-exactly with the library's result; every operand is dumped after the call",
    },
    "C07": {
        "lean_modules": ["C07", "C17glue"],
        "pre_cmds": [GLUE],
        "trusted_extra": [GLUE_TRUST],
        "rule": "every arithmetic and comparison op x {safe, unsafe, reuse, incr, reuse aliasing the first / second operand, incr aliasing an operand} x {TT, TS, ST} x operand layouts as C06 x destination layouts {contiguous, sliced view, lazily transposed}; identity of the returned tensor and full dumps (elements + raw window) of result, every operand, the destination and the first parent after the call",
    },
    "C08": {
        "lean_modules": ["C08", "C17"],
        "pre_cmds": [GOX],
        "trusted_extra": [GOX_TRUST],
        "rule": "Sum/Max/Min (engine function and Dense method), Argmax/Argmin (function and method) and (*Dense).Reduce(x+y) x element types (Sum 14 numeric, Max/Min 12 ordered numeric, Arg 13 ordered incl. string, Reduce all 16; bool/string/complex refusals) x 24 shapes of rank 1-4 (vector-like, length-one axes, rank-4 shapes whose middle axes have extent 1,2,3,4) x every non-empty axis subset in ascending and shuffled order plus 'no axes' (every single axis and AllAxes for arg-reductions and Reduce) x operand layouts {contiguous, lazily transposed, offset slice, stepped slice, materialised} plus low-volume column-major, contiguous leading-axis view, clone of a stepped view x value sets {distinct, special: overflow/extremes/NaN/Inf, small positive, ties+negatives}, ties forced by memset/zero/setat on sub-views; malformed stream. Model terms name the kernel's exact fold order and scalar function and are evaluated with Go's operators (bit-exact); S folds canonically and is value-checked where every fold order agrees, shape-checked always; arg indices are computed in Lean from the known order of the generated values; result, operand and first parent are dumped after each call.",
    },
    "C09": {
        "lean_modules": ["C09"],
        "rule": "element types float32/float64/complex64/complex128 (trace: all sixteen; refusals: int, uint, bool, string, mismatched types) x products {Inner, MatVecMul, MatMul, Outer, Contract/TensorMul, Dot, Trace} x {package function, method}; operand shapes: vector forms (n), (n,1), (1,n) for n in 1..4, all matrices with dims 1..4, rank-3/4 tensors with dims <= 4; TensorMul with every valid single contraction axis pair for ranks 1..4 x 1..4, pairs of axes and no axes, invalid axes; Dot over the full rank table 0..4 x 0..4; every pair of operand layouts {contiguous, lazily transposed, offset slice, stepped slice, materialised} x {safe, reuse, incr}, a column-major block; destinations {fresh, same size other shape, wrong size, view, lazily transposed, other element type}; small-integer value sets so every sum is exact and the comparison is bit-exact in any accumulation order; result, operands, destination and parents of views are dumped after the call",
    },
    "C10": {
        "lean_modules": ["C10"],
        "rule": '1-4 operands x base shapes of rank 1-4 (vector-like shapes included) x every valid axis (concat 0..rank-1 and AllAxes = the outermost axis, stack 0..rank, repeat 0..rank-1 and AllAxes) x operand layouts {contiguous, lazily transposed, offset slice, stepped slice, materialised, contiguous row-slice} independently per operand x {function, method} for Concat/Stack/Repeat, Hstack, Vstack, RepeatReuse (right, wrong and non-contiguous reuse) x counts {one broadcast 0-3, per-entry 0-3, exactly one survivor} x u8,i16,f32,f64,c128,str; every program runs the calculator (Shape.Concat/Shape.Repeat) on the same arguments first; malformed stream (axes rank, rank+1, -1 (valid for concat), -2, -3; wrong count length; off-axis/rank mismatches; permuted equal-size shapes; the same tensor repeated; rank-0; vector-axis-1 extension; masked Concat operands); after each op: result dump, returned-tensor identity, opsame (metadata + mask of every operand unchanged), dumps of every pre-existing tensor',
    },
    "C11": {
        "lean_modules": ["C11", "C17glue", "C17"],
        "pre_cmds": [GOX, GLUE],
        "trusted_extra": [GOX_TRUST, GLUE_TRUST],
        "rule": "6 comparisons x all ordered (for eq/ne: all comparable, incl. bool, complex, string) element types x {TT, TS, ST} x {bool result, AsSameType, unsafe, bool reuse, same-type reuse} x operand layouts as C06, values with ties, NaN, extremes; refusals of unordered / mismatched types and shapes",
    },
    "C12": {
        "lean_modules": ["C12", "C17glue", "C17"],
        "pre_cmds": [GOX, GLUE],
        "trusted_extra": [GOX_TRUST, GLUE_TRUST],
        "rule": "15 unary operations (neg inv square cube exp tanh log log2 log10 sqrt cbrt invsqrt abs sign clamp) and Dense.Apply x 16 element types (accepted and refused ones) x {safe, unsafe, reuse, incr, reuse aliasing the operand} x operand/destination layouts as C06/C07; value sets with 0, negatives, extremes, NaN/Inf; the model's term is evaluated with the same Go maths routine the kernel names and compared bit-exactly",
    },
    "C14": {
        "lean_modules": ["C14"],
        "rule": "5 formats (gob, NumPy .npy, CSV, protobuf, flatbuffers) x 16 element types (accepted and refused ones) x shapes of rank 0-4 (scalars, length-one axes, row / column vectors) x layouts {contiguous, column-major raw, column-major converting, lazily transposed, lazily transposed column-major, non-contiguous slice, stepped slice, contiguous row view, materialised, physically transposed} x masks {none, some, first row only, all, all clear} x value sets {distinct, extremes / NaN / Inf / -0}; one step encodes to a buffer and decodes into a new tensor (encode and decode outcomes reported separately), the decoded tensor and the source are dumped and compared logically (element type, shape, every element, mask by coordinate); the bytes WriteNpy produced are additionally parsed by an independent .npy reader in the harness; random chains of slice / T / Transpose / Clone / Materialize before the round trip, a second round trip on the decoded tensor, and a malformed stream",
    },
    "C15": {
        "lean_modules": ["C15", "C15ops"],
        "rule": "9 masking predicates x 16 element types x soft/hard x prior mask {none, all false, random, all true}, each followed by full dumps and a second predicate in another mode; the same over layouts {contiguous, lazily transposed, physically transposed, row slice, offset slice with gaps, stepped slice, column-major, materialised} and on views of unmasked tensors; special values / ties through boolean terms; every mask over n <= 8 (quick) / 10 (thorough) elements on the vector shape and seeded samples on scalar, row/column-vector, matrix and rank-3 shapes with MaskedCount/NonMaskedCount/MaskedAny/MaskedAll (whole tensor and per axis), the six run and edge finders, NextValid/NextInvalid/NextValidity to exhaustion forward and reverse, Filled; iteration scripts; Filled/FilledInplace x 16 types; chains of T/UT/Transpose/Slice/Materialize/Clone on masked tensors with the logical mask dumped after every step; arithmetic / comparison / unary / Apply on masked operands x option modes x TT/TS/ST x layouts compared at the positions valid in all operands; malformed cases; family MaskOps (gen_maskops.go): Argmax/Argmin of masked tensors x 13 ordered element types x 8 layouts x mask classes {random, none set, all set, no mask, alternating, whole lanes set} x every axis + flat x value sets with ties / negatives / NaN / Inf, Sum/Max/Min of masked tensors, SetMaskAt (every coordinate class incl. out of range / negative / wrong arity) and SetMaskAtIndex (every index incl. out of range) x 8 layouts x masked / unmasked with the parent dumped, ResetMask x value / none x layouts, MaskFromSlice x 16 slice types + unsupported inputs x size relations, MaskFromDense with 1-3 operands (nil, the receiver itself, other sizes, other layouts), New(...) with WithMask in 14 option orders x mask types x size relations, and div / mod / pow / gte / lte / ne, MinBetween / MaxBetween and 7 further unary operations on masked operands",
    },
    "C16": {
        "lean_modules": ["C16"],
        "pre_cmds": [GOL],
        "trusted_extra": [GOL_TRUST],
        "rule": "the programs of the C01, C02, C03, C04, C05 and C13 generators that build a column-major tensor (both constructors: column-major over the raw backing, converting a row-major sequence) + the arithmetic / comparison / min-max / unary matrices with every operand and the reuse / incr destination drawn independently from {column-major raw, column-major converting, lazily transposed column-major, row-major contiguous, lazily transposed, sliced}, at least one operand column-major; results are compared with the specification on logical contents (= the row-major run)",
    },
    "C17": {
        "lean_modules": ["C17", "C17compat", "C17glue"],
        "pre_cmds": [GLUE, "cd tools/gox && go run . -repo /repo -out ../../lean/TensorModel/Generated"],
        "rule": "X: every FuncDecl of internal/execution/generic_*.go (2 808 kernels) and every case arm of the eng_*.go dispatchers (103 methods, 1 208 arms) is regenerated into Lean tables on every run and proved to be the instance, for its own element type, of the type-generic template of its family (decide +kernel per chunk); conversions: ToMat64 / FromMat64 / native accessors x every element type x layouts {contiguous, lazily transposed, sliced, stepped, materialised, column-major raw / converting} x value sets with negatives, extremes, NaN / Inf (terms tof64 / cvt.<dt> evaluated by Go's own conversions); H: the arithmetic, comparison, unary / Apply and reduction matrices (every operation x every element type x kernel variants vv / vs / sv / incr / iter / iter-incr / same / recv reached through layouts and option modes), results compared with Go's own operators",
        "trusted_extra": [GLUE_TRUST, "tools/gox (go/ast -> MiniGo tables: type abstraction, alpha-renaming) and the meaning of MiniGo constructs; operator tokens are names, evaluated by the Go compiler in the harness"],
    },
    "C18": {
        "lean_modules": ["C18"],
        "mode": "race",
        "rule": "sets of 2-4 (thorough: up to 16) goroutines; a shared prefix builds read-only tensors in three layouts (contiguous, lazily transposed, sliced); every goroutine runs a seeded program of reads (dump, At sweep, iteration, slicing, Clone, Materialize, safe arithmetic / comparison / unary operations on the shared tensors) and of writes to its own private tensors; harness built with -race, run under GOMAXPROCS 1,2,4,16 with seeded Gosched injection and repetitions; every goroutine's observations are compared with the sequential model run of prefix+its program; any race report or divergence is a violation",
        "assumptions": ["the Go race detector only reports races that occur in the explored schedules; the Lean theorem is about interleavings of the abstract effect model, not about the Go memory model"],
    },
    "C19": {
        "lean_modules": ["C19"],
        "own_pass": True,
        "rule": "seeded operation histories of 5-40 (thorough: 5-200) steps over a population of 2-8 live tensors (construction row-/column-major, lazy and physical transposes, UT, slicing, Clone, Materialize, SafeT, Reshape, Memset, arithmetic / unary operations in safe, unsafe, reuse and incr modes with destinations drawn from the population, ReturnTensor, pool on/off, forced GC); after every step every live tensor is dumped (metadata, elements, raw storage) and compared with the value-semantics model; every int slice the harness passes to the library is kept, re-checked after every later step (argmut) and occasionally overwritten by the harness (scribble) to expose retained caller slices; second pass over the same histories with the library's pool-event hook (build tag verif) switched on: the trace of BorrowInts / ReturnInts events, of the metadata slices (shape, strides, backup shape / strides, transposeWith) every live tensor refers to before and after each step, and of the slices the harness passed in is judged by the Lean function TM.Own.checkTraceR (no double return, no return of a referenced or caller-owned slice, no tensor referring to a pooled, caller-owned or shared slice)",
    },
    "C20": {
        "lean_modules": ["C20"],
        "pre_cmds": ["python3 tools/asmx/asmx.py /repo/divmod_amd64.s lean/TensorModel/Generated/DivmodAsm.lean", GOL],
        "trusted_extra": ["tools/asmx (Plan-9 amd64 text -> instruction list; unknown forms become Instr.unknown, on which the interpreter is stuck) and the meaning lean/TensorModel/Asm.lean gives to MOVQ/CMPQ/JEQ/JNE/JMP/CQO/IDIVQ/NEGQ/RET", GOL_TRUST],
        "builds": [["default", "verif"], ["noasm", "verif noasm"], ["inplace", "verif inplacetranspose"]],
        "rule": "engines {default, Float64Engine, Float32Engine} x Add in modes {safe, unsafe, reuse, incr} x operand layouts {contiguous, lazily transposed, sliced, column-major}; FMA with tensor and scalar multiplier; mismatched shapes; plus samples of the C03 (transposition sequences), C05 (iterators) and C06 (arithmetic) domains; every program is executed by three harness binaries built from the current tree with tags {verif}, {verif,noasm}, {verif,inplacetranspose}, and each must equal the single, configuration-independent model and specification output",
    },
    "C13": {
        "lean_modules": ["C13"],
        "pre_cmds": [GOL],
        "trusted_extra": [GOL_TRUST],
        "rule": "shapes of rank 0-4 with dims 1-4 (quick) / 1-5 (thorough); Shape.S and AP.T calculators vs the executed Slice / T on the same (valid and invalid) arguments; Reshape to every factorisation of the size (and to a wrong size) after slicing, transposing, cloning, materialising; the metadata invariant wf (one stride per axis, size = product of shape, distinct in-window addresses) is evaluated in every dump of every check",
    },
}

HOOK_COMMITS = ["b42be2f", "8d020dd"]
NOT_YET = {}
DEFAULT_LEVEL_TEXT = ("Unbounded: Lean 4 theorems (kernel-checked, axioms audited) state that the executable model M of the anchored Go functions "
                      "computes the coordinate-wise specification S for every rank, shape, stride vector and argument. Bounded: that M is what /repo does is "
                      "re-established on every run by executing M and the real library on the same generated operation programs and comparing every observation; "
                      "the same run compares the library directly with S (property oracle). Defect regions are explicit decidable predicates (known_findings.json).")
DEFAULT_LEVEL_NOTE = ("Trusted: Lean kernel + {propext, Classical.choice, Quot.sound}; the hand-written model is tied to the source only by the bounded correspondence run "
                      "(program domain described in the evidence file); Go runtime and third-party packages; harness/driver/comparator. Theorems cover the functions named in DESIGN.md §4 for this property, "
                      "not every line the property touches: the rest is covered by the correspondence + oracle only.")
