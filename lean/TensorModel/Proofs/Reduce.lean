import TensorModel.Ext.Reduce
/-! Helper lemmas for C08 (reductions): chunking, slab folds, the `reduceDefault` walk. -/
namespace TM.Red

section
variable {α : Type}

/-! ### chunks -/

theorem chunks_eq (m : Nat) : ∀ (n : Nat) (l : List α),
    chunks m n l = (List.range n).map (fun i => (l.drop (i * m)).take m)
  | 0, _ => by simp [chunks]
  | n + 1, l => by
    rw [chunks, chunks_eq m n (l.drop m), List.range_succ_eq_map]
    simp only [List.map_cons, List.map_map, Nat.zero_mul, List.drop_zero]
    congr 1
    apply List.map_congr_left
    intro i _
    simp only [Function.comp, List.drop_drop, Nat.succ_eq_add_one, Nat.add_mul, Nat.one_mul]
    rw [Nat.add_comm]

theorem chunks_length (m n : Nat) (l : List α) : (chunks m n l).length = n := by
  simp [chunks_eq]

theorem chunks_mem_length (m : Nat) : ∀ (n : Nat) (l : List α), n * m ≤ l.length →
    ∀ c ∈ chunks m n l, c.length = m
  | 0, _, _ => by simp [chunks]
  | n + 1, l, h => by
    intro c hc
    simp only [chunks, List.mem_cons] at hc
    have hm : m ≤ l.length := by
      have : m ≤ (n + 1) * m := Nat.le_mul_of_pos_left m (Nat.succ_pos n)
      omega
    rcases hc with hc | hc
    · subst hc; simp [List.length_take]; omega
    · apply chunks_mem_length m n (l.drop m) _ c hc
      simp only [List.length_drop]
      have : (n + 1) * m = n * m + m := by rw [Nat.add_mul, Nat.one_mul]
      omega

theorem chunks_add (m : Nat) : ∀ (a b : Nat) (l : List α),
    chunks m (a + b) l = chunks m a l ++ chunks m b (l.drop (a * m))
  | 0, b, l => by simp [chunks]
  | a + 1, b, l => by
    have : a + 1 + b = (a + b) + 1 := by omega
    rw [this, chunks, chunks, chunks_add m a b (l.drop m), List.drop_drop]
    simp only [List.cons_append]
    congr 3
    rw [Nat.add_mul, Nat.one_mul, Nat.add_comm]

/-- only the first `n*m` cells matter -/
theorem chunks_take (m : Nat) : ∀ (n k : Nat) (l : List α), n * m ≤ k →
    chunks m n (l.take k) = chunks m n l
  | 0, _, _, _ => by simp [chunks]
  | n + 1, k, l, h => by
    have e : (n + 1) * m = n * m + m := by rw [Nat.add_mul, Nat.one_mul]
    rw [chunks, chunks, List.take_take, Nat.min_eq_left (by omega)]
    congr 1
    rw [List.drop_take, chunks_take m n (k - m) (l.drop m) (by omega)]

theorem flatMap_congr' {β γ : Type} (l : List β) (f g : β → List γ) (h : ∀ a ∈ l, f a = g a) :
    l.flatMap f = l.flatMap g := by
  induction l with
  | nil => rfl
  | cons x xs ih =>
    simp only [List.flatMap_cons]
    rw [h x (by simp), ih (fun a ha => h a (by simp [ha]))]

/-- chunks of chunks -/
theorem chunks_chunks (m n : Nat) : ∀ (e : Nat) (l : List α),
    (chunks (n * m) e l).flatMap (chunks m n) = chunks m (e * n) l
  | 0, _ => by simp [chunks]
  | e + 1, l => by
    have h : (e + 1) * n = n + e * n := by rw [Nat.add_mul, Nat.one_mul, Nat.add_comm]
    rw [chunks, List.flatMap_cons, chunks_chunks m n e (l.drop (n * m)), h, chunks_add,
      chunks_take m n (n * m) l (Nat.le_refl _)]

/-! ### products -/

theorem prodN_append (a b : List Nat) : prodN (a ++ b) = prodN a * prodN b := by
  induction a with
  | nil => simp [prodN]
  | cons x xs ih => simp [prodN, ih, Nat.mul_assoc]

theorem prodN_pos (l : List Nat) (h : ∀ d ∈ l, 0 < d) : 0 < prodN l := by
  induction l with
  | nil => simp [prodN]
  | cons x xs ih =>
    simp only [prodN]
    exact Nat.mul_pos (h x (by simp)) (ih (fun d hd => h d (by simp [hd])))

/-! ### reduceFirst: slab-wise accumulation = fold of the columns -/

theorem kFirst_eq_foldl (f : α → α → α) (m : Nat) : ∀ (n : Nat) (acc rest : List α),
    kFirst f m n acc rest = (chunks m n rest).foldl (List.zipWith f) acc
  | 0, _, _ => by simp [kFirst, chunks]
  | n + 1, acc, rest => by
    rw [kFirst, chunks, List.foldl_cons, kFirst_eq_foldl f m n]

theorem fold1_cons_cons [Inhabited α] (f : α → α → α) (x y : α) (r : List α) :
    fold1 f (x :: y :: r) = fold1 f (f x y :: r) := by
  simp [fold1]

/-- column `j` of a list of slabs -/
def col (slabs : List (List α)) (j : Nat) : List α := slabs.filterMap (fun s => s[j]?)

theorem columns_eq (m : Nat) (slabs : List (List α)) : columns m slabs = (List.range m).map (col slabs) := rfl

theorem foldl_zipWith_columns [Inhabited α] (f : α → α → α) (m : Nat) : ∀ (slabs : List (List α)) (acc : List α),
    acc.length = m → (∀ s ∈ slabs, s.length = m) →
    slabs.foldl (List.zipWith f) acc = (columns m (acc :: slabs)).map (fold1 f)
  | [], acc, ha, _ => by
    apply List.ext_getElem?
    intro i
    simp only [List.foldl_nil, columns_eq, List.map_map, List.getElem?_map]
    by_cases hi : i < m
    · rw [List.getElem?_range hi]
      have : i < acc.length := by omega
      simp [col, List.getElem?_eq_getElem this, fold1]
    · have h1 : (List.range m)[i]? = none := by simp; omega
      have h2 : acc[i]? = none := by simp; omega
      simp [h1, h2]
  | s :: slabs, acc, ha, hs => by
    have hsl : s.length = m := hs s (by simp)
    rw [List.foldl_cons, foldl_zipWith_columns f m slabs (List.zipWith f acc s)
      (by simp [List.length_zipWith, ha, hsl]) (fun t ht => hs t (by simp [ht]))]
    simp only [columns_eq, List.map_map]
    apply List.map_congr_left
    intro j hj
    have hj : j < m := List.mem_range.1 hj
    have h1 : j < acc.length := by omega
    have h2 : j < s.length := by omega
    simp only [Function.comp, col, List.filterMap_cons, List.getElem?_zipWith,
      List.getElem?_eq_getElem h1, List.getElem?_eq_getElem h2]
    exact (fold1_cons_cons f _ _ _).symm

/-- `reduceFirst` on the row-major listing of an array of shape `d :: ds` is S's reduction of axis 0. -/
theorem reduceFirstK_spec' [Inhabited α] (f : α → α → α) (d : Nat) (ds : List Nat) (data : List α)
    (hd : 1 ≤ d) (hlen : data.length = d * prodN ds) :
    reduceFirstK f data (prodN ds) d = specAxis (fold1 f) (d :: ds) 0 data := by
  obtain ⟨n, rfl⟩ : ∃ n, d = n + 1 := ⟨d - 1, by omega⟩
  have e : (n + 1) * prodN ds = n * prodN ds + prodN ds := by rw [Nat.add_mul, Nat.one_mul]
  simp only [reduceFirstK, specAxis, Nat.add_sub_cancel, chunks]
  rw [kFirst_eq_foldl, foldl_zipWith_columns f (prodN ds)]
  · simp [List.length_take]; omega
  · apply chunks_mem_length
    simp only [List.length_drop]; omega

/-! ### an axis below a prefix of outer axes -/

theorem specAxis_prefix (F : List α → α) (d : Nat) (rest : List Nat) : ∀ (pre : List Nat) (l : List α),
    l.length = prodN (pre ++ d :: rest) →
    specAxis F (pre ++ d :: rest) pre.length l =
      (chunks (d * prodN rest) (prodN pre) l).flatMap (specAxis F (d :: rest) 0)
  | [], l, h => by
    simp only [List.nil_append, prodN] at h
    simp [prodN, chunks, List.take_of_length_le (Nat.le_of_eq h)]
  | e :: pre, l, h => by
    have hp : prodN (pre ++ d :: rest) = prodN pre * (d * prodN rest) := by rw [prodN_append]; rfl
    simp only [List.cons_append, prodN] at h
    simp only [List.cons_append, List.length_cons, specAxis, prodN]
    rw [flatMap_congr' _ _ (fun c => (chunks (d * prodN rest) (prodN pre) c).flatMap (specAxis F (d :: rest) 0))]
    · rw [← List.flatMap_assoc, hp, chunks_chunks]; rfl
    · intro c hc
      apply specAxis_prefix F d rest pre c
      exact chunks_mem_length _ _ _ (Nat.le_of_eq h.symm) c hc

theorem filterMap_chunks_one : ∀ (d : Nat) (c : List α), (chunks 1 d c).filterMap (fun s => s[0]?) = c.take d
  | 0, _ => by simp [chunks]
  | d + 1, [] => by
    rw [chunks]
    simp only [List.take_nil, List.drop_nil, List.filterMap_cons, List.getElem?_nil]
    rw [filterMap_chunks_one d []]; simp
  | d + 1, x :: xs => by
    simp [chunks, filterMap_chunks_one d xs]

theorem specAxis_single (F : List α → α) (d : Nat) (c : List α) (h : c.length = d) :
    specAxis F [d] 0 c = [F c] := by
  simp [specAxis, prodN, columns, filterMap_chunks_one, List.take_of_length_le (Nat.le_of_eq h)]

/-- `reduceLast` on the row-major listing of an array of shape `pre ++ [d]` is S's reduction of the last axis. -/
theorem reduceLastK_spec' (F : List α → α) (pre : List Nat) (d : Nat) (data : List α) (hd : 0 < d)
    (hlen : data.length = prodN (pre ++ [d])) :
    reduceLastK F data d = specAxis F (pre ++ [d]) pre.length data := by
  have hp : prodN (pre ++ [d]) = prodN pre * d := by simp [prodN_append, prodN]
  rw [specAxis_prefix F d [] pre data hlen]
  simp only [prodN, Nat.mul_one, reduceLastK, hlen, hp, Nat.mul_div_cancel _ hd]
  rw [flatMap_congr' _ _ (fun c => [F c])]
  · induction (chunks d (prodN pre) data) with
    | nil => rfl
    | cons x xs ih => simp [List.flatMap_cons, ih]
  · intro c hc
    exact specAxis_single F d c (chunks_mem_length _ _ _ (by rw [hlen, hp]; exact Nat.le_refl _) c hc)

/-! ### reduceDefault: the `innerStart / strideTrack` walk -/

theorem walk_run (stride jump : Nat) : ∀ (m n is st : Nat), st + m < stride →
    walk stride jump (m + n) is st = (List.range m).map (fun q => is + q) ++ walk stride jump n (is + m) (st + m)
  | 0, n, is, st, _ => by simp
  | m + 1, n, is, st, h => by
    have e : m + 1 + n = (m + n) + 1 := by omega
    have hlt : ¬ (st + 1 ≥ stride) := by omega
    rw [e, walk, if_neg hlt, walk_run stride jump m n (is + 1) (st + 1) (by omega), List.range_succ_eq_map]
    simp only [List.map_cons, List.map_map, List.cons_append, Nat.add_zero]
    congr 2
    · apply List.map_congr_left; intro q _; simp only [Function.comp, Nat.succ_eq_add_one]; omega
    · congr 1 <;> omega

/-- one block of `stride` consecutive output cells, then the jump -/
theorem walk_block (stride jump n is : Nat) (hs : 1 ≤ stride) :
    walk stride jump (stride + n) is 0 =
      (List.range stride).map (fun q => is + q) ++ walk stride jump n (is + stride + jump) 0 := by
  obtain ⟨s, rfl⟩ : ∃ s, stride = s + 1 := ⟨stride - 1, by omega⟩
  have e : s + 1 + n = s + (n + 1) := by omega
  rw [e, walk_run (s + 1) jump s (n + 1) is 0 (by omega), walk, if_pos (by omega), List.range_succ, List.map_append]
  simp only [List.map_cons, List.map_nil, List.append_assoc, List.cons_append, List.nil_append]
  congr 3
  omega

theorem walk_blocks (stride jump : Nat) (hs : 1 ≤ stride) : ∀ (P b : Nat),
    walk stride jump (P * stride) b 0 =
      (List.range P).flatMap (fun p => (List.range stride).map (fun q => b + p * (stride + jump) + q))
  | 0, b => by simp [walk]
  | P + 1, b => by
    have e : (P + 1) * stride = stride + P * stride := by rw [Nat.add_mul, Nat.one_mul, Nat.add_comm]
    rw [e, walk_block stride jump _ b hs, walk_blocks stride jump hs P (b + stride + jump), List.range_succ_eq_map,
      List.flatMap_cons, List.flatMap_map]
    simp only [Nat.zero_mul, Nat.add_zero]
    congr 1
    apply flatMap_congr'
    intro p _
    apply List.map_congr_left
    intro q _
    simp only [Nat.succ_eq_add_one, Nat.add_mul, Nat.one_mul]
    omega

theorem filterMap_congr' {β γ : Type} (l : List β) (f g : β → Option γ) (h : ∀ a ∈ l, f a = g a) :
    l.filterMap f = l.filterMap g := by
  induction l with
  | nil => rfl
  | cons x xs ih =>
    simp only [List.filterMap_cons]
    rw [h x (by simp), ih (fun a ha => h a (by simp [ha]))]

/-- the cells `sliced[a + q + k*stride]`, `k < d`, are column `q` of the block starting at `a` -/
theorem defaultRow_eq_col (slab : List α) (d stride a q : Nat) (hq : q < stride) :
    defaultRow slab d stride (a + q) = col (chunks stride d ((slab.drop a).take (d * stride))) q := by
  simp only [defaultRow, col, chunks_eq, List.filterMap_map]
  apply filterMap_congr'
  intro k hk
  have hk : k < d := List.mem_range.1 hk
  have h1 : (k + 1) * stride ≤ d * stride := Nat.mul_le_mul_right stride hk
  have h2 : (k + 1) * stride = k * stride + stride := by rw [Nat.add_mul, Nat.one_mul]
  simp only [Function.comp, List.getElem?_take, List.getElem?_drop, if_pos hq]
  rw [if_pos (by omega)]
  congr 1
  omega

/-- One outer slab: the walk with a jump that lands on the next block computes S's reduction of the
    axis below the prefix `pre`. The Go code has `jump = (dimSize-1)*stride` (before the repair of finding
    F40 it had `jump = stride`, which satisfies `hj` only for one block per slab or an extent of 2). -/
theorem reduceDefaultSlab_spec [Inhabited α] (f : α → α → α) (pre : List Nat) (d : Nat) (rest : List Nat) (jump : Nat)
    (slab : List α) (hs : 1 ≤ prodN rest)
    (hj : ∀ p, p < prodN pre → p * (prodN rest + jump) = p * (d * prodN rest))
    (hlen : slab.length = prodN (pre ++ d :: rest)) :
    reduceDefaultSlab f slab d (prodN rest) (prodN pre * prodN rest) jump =
      specAxis (fold1 f) (pre ++ d :: rest) pre.length slab := by
  rw [specAxis_prefix (fold1 f) d rest pre slab hlen, chunks_eq, List.flatMap_map, reduceDefaultSlab,
    walk_blocks _ _ hs, List.map_flatMap]
  apply flatMap_congr'
  intro p hp
  have hp : p < prodN pre := List.mem_range.1 hp
  simp only [specAxis, columns_eq, List.map_map]
  apply List.map_congr_left
  intro q hq
  have hq : q < prodN rest := List.mem_range.1 hq
  simp only [Function.comp, Nat.zero_add, hj p hp]
  rw [defaultRow_eq_col slab d (prodN rest) _ q hq]

/-- `reduceDefault` on the row-major listing of an array of shape `d0 :: pre ++ d :: rest`, reducing
    the axis of extent `d`. -/
theorem reduceDefaultK_spec' [Inhabited α] (f : α → α → α) (d0 : Nat) (pre : List Nat) (d : Nat) (rest : List Nat) (jump : Nat)
    (data : List α) (hs : 1 ≤ prodN rest)
    (hj : ∀ p, p < prodN pre → p * (prodN rest + jump) = p * (d * prodN rest))
    (hlen : data.length = prodN (d0 :: (pre ++ d :: rest))) :
    reduceDefaultK f data d0 d (prodN (pre ++ d :: rest)) (prodN rest) (prodN pre * prodN rest) jump =
      specAxis (fold1 f) (d0 :: (pre ++ d :: rest)) (pre.length + 1) data := by
  simp only [reduceDefaultK, specAxis, chunks_eq, List.flatMap_map]
  apply flatMap_congr'
  intro i hi
  have hi : i < d0 := List.mem_range.1 hi
  apply reduceDefaultSlab_spec f pre d rest jump _ hs hj
  simp only [prodN] at hlen
  have h1 : (i + 1) * prodN (pre ++ d :: rest) ≤ d0 * prodN (pre ++ d :: rest) := Nat.mul_le_mul_right _ hi
  have h2 : (i + 1) * prodN (pre ++ d :: rest) = i * prodN (pre ++ d :: rest) + prodN (pre ++ d :: rest) := by
    rw [Nat.add_mul, Nat.one_mul]
  simp only [List.length_take, List.length_drop]
  omega

/-- every read of the walk stays inside its slab when the jump lands on the next block -/
theorem defaultOk_of_jump (dataLen d0 P d stride jump : Nat) (hs : 1 ≤ stride) (hd : 1 ≤ d)
    (hj : stride + jump = d * stride) (hlen : d0 * (P * (d * stride)) ≤ dataLen) :
    defaultOk dataLen d0 d (P * (d * stride)) stride (P * stride) jump = true := by
  unfold defaultOk
  simp only [Bool.and_eq_true, decide_eq_true_eq, Bool.or_eq_true, List.all_eq_true]
  refine ⟨hlen, Or.inr ⟨?_, hd⟩⟩
  rw [walk_blocks stride jump hs P 0]
  intro s hsm k hk
  have hk : k < d := List.mem_range.1 hk
  simp only [List.mem_flatMap, List.mem_map, List.mem_range] at hsm
  obtain ⟨p, hp, q, hq, rfl⟩ := hsm
  rw [hj, Nat.zero_add]
  have h1 : (k + 1) * stride ≤ d * stride := Nat.mul_le_mul_right stride hk
  have h2 : (k + 1) * stride = k * stride + stride := by rw [Nat.add_mul, Nat.one_mul]
  have h3 : (p + 1) * (d * stride) ≤ P * (d * stride) := Nat.mul_le_mul_right _ hp
  have h4 : (p + 1) * (d * stride) = p * (d * stride) + d * stride := by rw [Nat.add_mul, Nat.one_mul]
  omega

end
end TM.Red
