#!/bin/bash
# seeds sweep on the unchanged tree: prints one line per (property, seed)
cd "$(dirname "$0")/.."
./setup.sh > /dev/null 2>&1
for s in 2 3 4 5; do
  for p in C01 C02 C03 C04 C05 C06 C07 C08 C09 C10 C11 C12 C13 C14 C15 C16 C17 C19 C20; do
    out=$(VERIF_SEED=$s ./check $p --tier quick 2>&1 | grep -v KNOWN)
    echo "seed=$s $(echo "$out" | tail -n1 | cut -c1-200)"
    echo "$out" | grep VIOLATION | while read l; do
      f=$(echo $l | sed 's/.*replay=\([^ ]*\).*/\1/'); echo "   $l"; python3 -c "
import json,sys
d=json.load(open('$f')); print('     ', d.get('program') or d.get('what')); print('     ', d.get('detail')); print('     ', str(d.get('impl'))[:200]); print('     ', str(d.get('spec'))[:200])"
    done
  done
done
