/-!
  A (tiny) amd64 machine for the one assembly routine of gorgonia/tensor: `divmod_amd64.s`
  (`func divmod(a, b int) (q, r int)`, selected by the default build; the `noasm` build uses the
  pure-Go `mathutils_go.go`). The instruction list itself is regenerated from the `.s` file on every
  run by `tools/asmx` (`Generated/DivmodAsm.lean`); this file gives the instructions their meaning.

  Registers and frame slots hold `BitVec 64`. The interpreter is total (fuel) and *stuck* on
  anything it does not understand (`Instr.unknown`, a jump outside the list, an `IDIVQ` whose
  `DX:AX` is not the sign extension of `AX`), so a proof about a run can only succeed when every
  executed instruction was understood.
-/
namespace TM.Asm

inductive Reg where
  | AX | BX | CX | DX | SI | DI | BP | SP | R8 | R9 | R10 | R11 | R12 | R13 | R14 | R15
deriving DecidableEq, Repr

/-- the frame of `func divmod(a, b int) (q, r int)` (ABI0): `a+0(FP)`, `b+8(FP)`, `q+16(FP)`, `r+24(FP)` -/
inductive Slot where
  | a | b | q | r
deriving DecidableEq, Repr

inductive Opd where
  | reg (r : Reg)
  | imm (v : Int)
  | frame (s : Slot)
deriving DecidableEq, Repr

inductive Instr where
  | label (name : String)
  | unknown (text : String)
  | movq (src dst : Opd)
  | cmpq (x y : Opd)          -- Plan-9 order: flags of `x - y`
  | jeq (target : Nat)
  | jne (target : Nat)
  | jmp (target : Nat)
  | cqo                       -- DX:AX := sign-extend AX
  | idivq (d : Opd)           -- AX := DX:AX / d (truncated), DX := DX:AX % d; #DE on d = 0 or overflow
  | negq (o : Opd)
  | ret
deriving DecidableEq, Repr

structure Machine where
  regs : Reg → BitVec 64
  fa : BitVec 64
  fb : BitVec 64
  fq : BitVec 64
  fr : BitVec 64
  zf : Bool                   -- zero flag of the last `CMPQ`
  dxIsSignOfAx : Bool         -- `DX:AX` is known to be the sign extension of `AX` (set by `CQO`)

inductive Outcome where
  | returned (m : Machine)
  | fault                     -- #DE: the Go runtime turns it into the "integer divide by zero" / overflow panic
  | stuck                     -- the interpreter does not know what happens
  | outOfFuel

def Machine.setReg (m : Machine) (r : Reg) (v : BitVec 64) : Machine :=
  { m with regs := fun r' => if r' = r then v else m.regs r',
           dxIsSignOfAx := if r = .AX || r = .DX then false else m.dxIsSignOfAx }

def Machine.read (m : Machine) : Opd → BitVec 64
  | .reg r => m.regs r
  | .imm v => BitVec.ofInt 64 v
  | .frame .a => m.fa
  | .frame .b => m.fb
  | .frame .q => m.fq
  | .frame .r => m.fr

def Machine.write (m : Machine) : Opd → BitVec 64 → Option Machine
  | .reg r, v => some (m.setReg r v)
  | .imm _, _ => none
  | .frame .a, v => some { m with fa := v }
  | .frame .b, v => some { m with fb := v }
  | .frame .q, v => some { m with fq := v }
  | .frame .r, v => some { m with fr := v }

def minInt64 : BitVec 64 := BitVec.intMin 64

/-- one instruction at `pc`; `none` = stuck -/
def step (prog : List Instr) (pc : Nat) (m : Machine) : Option (Sum (Nat × Machine) Outcome) :=
  match prog[pc]? with
  | none => none
  | some i =>
    match i with
    | .label _ => some (.inl (pc + 1, m))
    | .unknown _ => none
    | .movq s d => (m.write d (m.read s)).map (fun m' => .inl (pc + 1, m'))
    | .cmpq x y => some (.inl (pc + 1, { m with zf := m.read x == m.read y }))
    | .jeq t => if t < prog.length then some (.inl (if m.zf then t else pc + 1, m)) else none
    | .jne t => if t < prog.length then some (.inl (if m.zf then pc + 1 else t, m)) else none
    | .jmp t => if t < prog.length then some (.inl (t, m)) else none
    | .cqo =>
      let ax := m.regs .AX
      let m' := m.setReg .DX (if ax.msb then BitVec.allOnes 64 else 0#64)
      some (.inl (pc + 1, { m' with dxIsSignOfAx := true }))
    | .idivq d =>
      if !m.dxIsSignOfAx then none else
      let dv := m.read d
      let ax := m.regs .AX
      if dv == 0#64 then some (.inr .fault)
      else if ax == minInt64 && dv == BitVec.allOnes 64 then some (.inr .fault)
      else
        let m1 := m.setReg .AX (ax.sdiv dv)
        let m2 := m1.setReg .DX (ax.srem dv)
        some (.inl (pc + 1, m2))
    | .negq o => (m.write o (- m.read o)).map (fun m' => .inl (pc + 1, m'))
    | .ret => some (.inr (.returned m))

def run (prog : List Instr) : Nat → Nat → Machine → Outcome
  | 0, _, _ => .outOfFuel
  | fuel + 1, pc, m =>
    match step prog pc m with
    | none => .stuck
    | some (.inr o) => o
    | some (.inl (pc', m')) => run prog fuel pc' m'

/-- entry state of `divmod(a, b)`: arguments in the frame, everything else arbitrary -/
def entry (regs : Reg → BitVec 64) (q0 r0 : BitVec 64) (zf dx : Bool) (a b : BitVec 64) : Machine :=
  { regs := regs, fa := a, fb := b, fq := q0, fr := r0, zf := zf, dxIsSignOfAx := dx }

/-- what the pure-Go build computes (`mathutils_go.go`): `q = a / b; r = a % b` with Go's semantics
    (truncated division, `MinInt / -1 = MinInt`, `MinInt % -1 = 0`, run-time panic on `b = 0`) -/
def goDivmod (a b : BitVec 64) : Option (BitVec 64 × BitVec 64) :=
  if b == 0#64 then none else some (a.sdiv b, a.srem b)

end TM.Asm
