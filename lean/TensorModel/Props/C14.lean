import TensorModel.Proofs.Serial
import TensorModel.Props.C05
import TensorModel.Props.C17compat
/-!
  C14 — serialisation round-trips the logical tensor.
  Property theorems only; helper lemmas live in `TensorModel/Proofs/Serial.lean`, the model in
  `TensorModel/Ext/Serial.lean`.

  Record level: the byte codecs (gob, protobuf, flatbuffers, csv, binary) are contracts; the theorems
  are about which fields `dense_io.go` writes and how its readers rebuild a tensor from them. The
  NumPy header is modelled on characters (formatter of `WriteNpy`, regular expressions of `ReadNpy`).
-/
namespace TM.C14
open TM.Serial

/-! ## The NumPy header -/

/-- `strconv.Atoi` inverts `%d` on every integer. -/
theorem atoi_fmtInt (i : Int) : parseInt (fmtInt i) = some i := parseInt_fmtInt i

/-- The header parser of `ReadNpy` inverts the header formatter of `WriteNpy` for every dtype code the
    writer can emit and every shape of every rank — rank 0 `()`, rank 1 `(N,)`, rank n `(a, b, …)`. -/
theorem npyHeader_roundtrip (code : String) (hc : code ∈ npCodes) (shape : Shape) :
    parseHdr (fmtHdr code.toList shape) = some (code.toList, shape) :=
  parseHdr_fmtHdr code hc shape

/-- … in particular for the code of every element type `numpyDtype` accepts. -/
theorem npyHeader_roundtrip_dtype (dt code : String) (h : npCode dt = some code) (shape : Shape) :
    parseHdr (fmtHdr code.toList shape) = some (code.toList, shape) := by
  refine parseHdr_fmtHdr code ?_ shape
  unfold npCode at h
  split at h <;> first | (injection h with h; subst h; decide) | cases h

/-- The alignment invariant the code implements, which is also the one format version 1.0 asks for:
    magic (6) + version (2) + length field (2) + header is a multiple of 16. -/
theorem npyHeader_aligned (code : List Char) (shape : Shape) : (10 + (fmtHdr code shape).length) % 16 = 0 :=
  fmtHdr_aligned code shape

/-- The format also asks for the header to end in a newline. -/
def npyHeader_terminated_full : Prop := ∀ (code : List Char) (shape : Shape), (fmtHdr code shape).getLast? = some '\n'

/-- It never does: `WriteNpy` pads with spaces only (between 1 and 16 of them). NumPy's own reader
    tolerates this; recorded as an observation, not a finding. -/
theorem npyHeader_terminated_full_fails : ¬ npyHeader_terminated_full := by
  intro h
  have h1 := h [] []
  rw [fmtHdr_last] at h1
  exact absurd h1 (by decide)

/-! ## What the encoders refuse -/

/-- `WriteCSV` refuses every tensor that is not of rank two (scalars, plain vectors, rank ≥ 3). -/
theorem csv_refuses_nonmatrix (st : St) (t : Dense) (h : t.ap.shape.length ≠ 2) :
    ∃ tag, csvEnc st t = .error (.err tag) := csvEnc_refuses st t h

/-- `WriteNpy` refuses element types without a NumPy code (strings). -/
theorem npy_refuses_unsupported (st : St) (t : Dense) (h : npCode t.dt = none) :
    ∃ tag, npyEnc st t = .error (.err tag) := npyEnc_unsupported st t h

example : npCode "str" = none := rfl

/-! ## Round trips at the record level -/

/-- contiguous row-major, window = size, unmasked -/
structure Plain (t : Dense) : Prop where
  strides : t.ap.strides = calcStrides t.ap.shape
  len : (t.win.len : Int) = totalSize t.ap.shape
  mask : t.mask = none

/-- `decode (encode t) ≃ t`: same shape, element type and strides over a fresh buffer holding exactly
    the cells of the source window; hence the same element at every coordinate. -/
def SameTensor (st : St) (t : Dense) (st' : St) (d : Dense) : Prop :=
  d.ap.shape = t.ap.shape ∧ d.dt = t.dt ∧ d.ap.strides = t.ap.strides ∧ d.mask = none ∧
  (∃ cells, t.rawCells st = .ok cells ∧ FreshOf st st' d cells) ∧
  ∀ c, d.at_ st' c = t.at_ st c

/-- the decoded tensor is the contiguous row-major tensor whose storage is the source's *logical*
    listing (what the iterator yields: C05) -/
def SameListing (st : St) (t : Dense) (st' : St) (d : Dense) : Prop :=
  d.ap.shape = t.ap.shape ∧ d.dt = t.dt ∧ d.ap.strides = calcStrides t.ap.shape ∧ d.mask = none ∧
  ∃ cells, t.iterCells st = .ok cells ∧ FreshOf st st' d cells

theorem sameTensor_of_decoded {st st' : St} {t d : Dense} {ap : AP} {cells : List Val}
    (hr : t.rawCells st = .ok cells) (hd : Decoded st st' d ap t.dt cells)
    (hsh : ap.shape = t.ap.shape) (hst : ap.strides = t.ap.strides) : SameTensor st t st' d := by
  have hsh' : d.ap.shape = t.ap.shape := by rw [hd.ap, hsh]
  have hst' : d.ap.strides = t.ap.strides := by rw [hd.ap, hst]
  exact ⟨hsh', hd.dt, hst', hd.mask, ⟨cells, hr, hd.fresh⟩,
    at_eq_of_raw hsh' hst' (get_fresh_raw hr hd.fresh)⟩

/-! ### gob -/

/-- gob, any memory layout, unmasked, every rank (rank 0 included): if the storage window is exactly as
    long as the tensor is large, the bytes read back as the same tensor (shape, strides, order flags
    and window are carried over, so transposed and column-major tensors are fine). Partial: outside
    `Excl_gobWindow` (F71); masks are not covered here. -/
theorem gob_roundtrip_partial (st : St) (t : Dense) (rec : Rec) (hm : t.mask = none)
    (hx1 : Excl_gobWindow t = false) (h : gobEnc st t = .ok rec) :
    ∃ st' d, gobDec st rec = .ok (st', d) ∧ SameTensor st t st' d := by
  have hw : (t.win.len : Int) = totalSize t.ap.shape ∨ isScalar t.ap.shape = true := by
    simp only [Excl_gobWindow] at hx1
    cases hs : isScalar t.ap.shape with
    | true => exact Or.inr rfl
    | false => exact Or.inl (by simpa [hs] using hx1)
  obtain ⟨cells, hr, hok, _⟩ := gob_dec_enc st t rec hm h
  obtain ⟨st', d, hd, hdec⟩ := hok hw
  exact ⟨st', d, hd, sameTensor_of_decoded hr hdec rfl rfl⟩

/-- gob of a contiguous row-major non-view tensor of any rank. -/
theorem gob_roundtrip (st : St) (t : Dense) (rec : Rec) (hp : Plain t)
    (h : gobEnc st t = .ok rec) : ∃ st' d, gobDec st rec = .ok (st', d) ∧ SameTensor st t st' d := by
  refine gob_roundtrip_partial st t rec hp.mask ?_ h
  simp [Excl_gobWindow, hp.len]

/-- gob carries the mask: a masked tensor whose window is its size (or of rank 0) reads back with the
    same shape, strides and order flags over a fresh copy of the window, and with a fresh copy of the
    whole mask (masks are index-aligned with the window, so the mask of every coordinate is preserved). -/
theorem gob_roundtrip_masked (st : St) (t : Dense) (rec : Rec) (m : Win) (hm : t.mask = some m)
    (hml : m.len = t.win.len) (hpos : 0 < t.win.len) (hx1 : Excl_gobWindow t = false)
    (h : gobEnc st t = .ok rec) :
    ∃ cells mc st' d, t.rawCells st = .ok cells ∧ maskCells st t = .ok mc ∧ gobDec st rec = .ok (st', d) ∧
      d.ap.shape = t.ap.shape ∧ d.ap.strides = t.ap.strides ∧ d.ap.o = t.ap.o ∧ d.dt = t.dt ∧
      FreshOf st st' d cells ∧
      d.mask = some ⟨st.mheap.size, 0, mc.length, mc.length⟩ ∧ st'.mheap = st.mheap.push mc.toArray := by
  have hw : (t.win.len : Int) = totalSize t.ap.shape ∨ isScalar t.ap.shape = true := by
    simp only [Excl_gobWindow] at hx1
    cases hs : isScalar t.ap.shape with
    | true => exact Or.inr rfl
    | false => exact Or.inl (by simpa [hs] using hx1)
  obtain ⟨cells, mc, st', d, hr, hmk, hd, hap, hdt, hf, hmask, hmh⟩ :=
    gob_dec_enc_masked st t rec m hm hml hpos hw h
  exact ⟨cells, mc, st', d, hr, hmk, hd, by rw [hap], by rw [hap], by rw [hap], hdt, hf, hmask, hmh⟩

/-- F71 for every view: whenever the window is not as long as the tensor is large, the encoder
    succeeds and the reader's `sanity()` refuses the bytes. -/
theorem gob_window_unreadable (st : St) (t : Dense) (rec : Rec) (hm : t.mask = none)
    (hs : isScalar t.ap.shape = false) (hw : (t.win.len : Int) ≠ totalSize t.ap.shape)
    (h : gobEnc st t = .ok rec) : ∃ tag, gobDec st rec = .error (.err tag) := by
  obtain ⟨_, _, _, herr⟩ := gob_dec_enc st t rec hm h
  exact herr ⟨hw, hs⟩

/-- The unrestricted statement: every unmasked tensor gob writes reads back as the same tensor. -/
def gob_roundtrip_full : Prop :=
  ∀ (st : St) (t : Dense) (rec : Rec), t.mask = none → gobEnc st t = .ok rec →
    ∃ st' d, gobDec st rec = .ok (st', d) ∧ SameTensor st t st' d

/-! witnesses: a 3×3 buffer, a (2,3) matrix over its first six cells, its lazy transpose, the column
    slice `[:, 1:3]` of the 3×3 matrix, a column vector, a rank-0 tensor -/
def buf9 : St := { heap := #[#[.src 0 0, .src 0 1, .src 0 2, .src 0 3, .src 0 4, .src 0 5, .src 0 6, .src 0 7, .src 0 8]] }
def mat23 : Dense := { ap := { shape := [2, 3], strides := [3, 1], fin := true }, win := ⟨0, 0, 6, 9⟩, dt := "f64" }
def mat23T : Dense :=
  { ap := { shape := [3, 2], strides := [1, 3], fin := true, o := { transposed := true } },
    old := some mat23.ap, tw := some [1, 0], win := ⟨0, 0, 6, 9⟩, dt := "f64" }
def view32 : Dense :=
  { ap := { shape := [3, 2], strides := [3, 1], fin := true, o := { nonContig := true } },
    win := ⟨0, 1, 8, 8⟩, dt := "f64", view := true }
def col31 : Dense := { ap := { shape := [3, 1], strides := [1, 1], fin := true }, win := ⟨0, 0, 3, 9⟩, dt := "f64" }
def cell0 : Dense := { ap := { shape := [], strides := [], fin := true }, win := ⟨0, 0, 1, 9⟩, dt := "f64" }

/-- It fails (F71): the column slice `[:, 1:3]` of a 3×3 matrix. -/
theorem gob_roundtrip_full_fails : ¬ gob_roundtrip_full := by
  intro hfull
  obtain ⟨rec, hrec⟩ : ∃ rec, gobEnc buf9 view32 = .ok rec := ⟨_, rfl⟩
  obtain ⟨st', d, hd, _⟩ := hfull buf9 view32 rec rfl hrec
  obtain ⟨tag, herr⟩ := gob_window_unreadable buf9 view32 rec rfl rfl (by decide) hrec
  rw [herr] at hd
  cases hd

/-- … while a rank-0 tensor reads back as itself. -/
theorem gob_roundtrip_scalar : ∃ rec st' d, gobEnc buf9 cell0 = .ok rec ∧ gobDec buf9 rec = .ok (st', d) ∧
    SameTensor buf9 cell0 st' d := by
  obtain ⟨rec, hrec⟩ : ∃ rec, gobEnc buf9 cell0 = .ok rec := ⟨_, rfl⟩
  obtain ⟨st', d, hd, hs⟩ := gob_roundtrip_partial buf9 cell0 rec rfl (by decide) hrec
  exact ⟨rec, st', d, hrec, hd, hs⟩

/-! ### protobuf and flatbuffers -/

/-- protobuf, any layout: outside `Excl_rawWindow` (F77) the bytes read back as the same tensor. -/
theorem pb_roundtrip_partial (st : St) (t : Dense) (rec : Rec) (hx : Excl_rawWindow t = false)
    (hm : t.mask = none) (h : rawEnc st t = .ok rec) :
    ∃ st' d, pbDec st rec = .ok (st', d) ∧ SameTensor st t st' d := by
  have _ := hm
  have hw : (t.win.len : Int) = totalSize t.ap.shape := by simpa [Excl_rawWindow] using hx
  have h0 : 0 ≤ totalSize t.ap.shape := by omega
  obtain ⟨cells, st', d, hr, hd, hdec⟩ := pb_dec_enc st t rec h h0
  have hlen := rawCells_length st t cells hr
  have : (totalSize t.ap.shape).toNat = cells.length := by omega
  rw [this, rawFill_exact] at hdec
  exact ⟨st', d, hd, sameTensor_of_decoded hr hdec rfl rfl⟩

theorem pb_roundtrip (st : St) (t : Dense) (rec : Rec) (hp : Plain t) (h : rawEnc st t = .ok rec) :
    ∃ st' d, pbDec st rec = .ok (st', d) ∧ SameTensor st t st' d :=
  pb_roundtrip_partial st t rec (by simp [Excl_rawWindow, hp.len]) hp.mask h

/-- flatbuffers, any layout (tensors carrying fewer strides than dimensions included): outside
    `Excl_rawWindow` (F77) the bytes read back as the same tensor. -/
theorem fb_roundtrip_partial (st : St) (t : Dense) (rec : Rec) (hx : Excl_rawWindow t = false)
    (hm : t.mask = none) (h : rawEnc st t = .ok rec) :
    ∃ st' d, fbDec st rec = .ok (st', d) ∧ SameTensor st t st' d := by
  have _ := hm
  have hw : (t.win.len : Int) = totalSize t.ap.shape := by simpa [Excl_rawWindow] using hx
  have h0 : 0 ≤ totalSize t.ap.shape := by omega
  obtain ⟨cells, st', d, hr, hd, hdec⟩ := fb_dec_enc st t rec h h0
  have hlen := rawCells_length st t cells hr
  have : (totalSize t.ap.shape).toNat = cells.length := by omega
  rw [this, rawFill_exact] at hdec
  exact ⟨st', d, hd, sameTensor_of_decoded hr hdec rfl rfl⟩

theorem fb_roundtrip (st : St) (t : Dense) (rec : Rec) (hp : Plain t) (h : rawEnc st t = .ok rec) :
    ∃ st' d, fbDec st rec = .ok (st', d) ∧ SameTensor st t st' d :=
  fb_roundtrip_partial st t rec (by simp [Excl_rawWindow, hp.len]) hp.mask h

def pb_roundtrip_full : Prop :=
  ∀ (st : St) (t : Dense) (rec : Rec), t.mask = none → 0 ≤ totalSize t.ap.shape → rawEnc st t = .ok rec →
    ∃ st' d, pbDec st rec = .ok (st', d) ∧ SameTensor st t st' d

def fb_roundtrip_full : Prop :=
  ∀ (st : St) (t : Dense) (rec : Rec), t.mask = none → 0 ≤ totalSize t.ap.shape → rawEnc st t = .ok rec →
    ∃ st' d, fbDec st rec = .ok (st', d) ∧ SameTensor st t st' d

/-- It fails (F77): the reader succeeds on the column slice `[:, 1:3]`, but with a buffer of 6 cells
    where the view's window has 8 — the decoded tensor is not the source tensor. -/
theorem pb_roundtrip_full_fails : ¬ pb_roundtrip_full := by
  intro hfull
  obtain ⟨rec, hrec⟩ : ∃ rec, rawEnc buf9 view32 = .ok rec := ⟨_, rfl⟩
  obtain ⟨st', d, hd, _, _, _, _, ⟨cells, hr, hf⟩, _⟩ := hfull buf9 view32 rec rfl (by decide) hrec
  obtain ⟨cells', st'', d', hr', hd', hdec'⟩ := pb_dec_enc buf9 view32 rec hrec (by decide)
  rw [hd] at hd'
  injection hd' with hd'
  injection hd' with h1 h2
  subst h1 h2
  rw [hr] at hr'
  injection hr' with hr'
  subst hr'
  have heq := FreshOf_unique hf hdec'.fresh
  have hl := rawCells_length buf9 view32 cells hr
  have hl2 := congrArg List.length heq
  rw [rawFill_length, hl] at hl2
  exact absurd hl2 (by decide)

theorem fb_roundtrip_full_fails : ¬ fb_roundtrip_full := by
  intro hfull
  obtain ⟨rec, hrec⟩ : ∃ rec, rawEnc buf9 view32 = .ok rec := ⟨_, rfl⟩
  obtain ⟨st', d, hd, _, _, _, _, ⟨cells, hr, hf⟩, _⟩ := hfull buf9 view32 rec rfl (by decide) hrec
  obtain ⟨cells', st'', d', hr', hd', hdec'⟩ := fb_dec_enc buf9 view32 rec hrec (by decide)
  rw [hd] at hd'
  injection hd' with hd'
  injection hd' with h1 h2
  subst h1 h2
  rw [hr] at hr'
  injection hr' with hr'
  subst hr'
  have heq := FreshOf_unique hf hdec'.fresh
  have hl := rawCells_length buf9 view32 cells hr
  have hl2 := congrArg List.length heq
  rw [rawFill_length, hl] at hl2
  exact absurd hl2 (by decide)

/-! ### npy -/

/-- npy of an unmasked tensor of a round-trippable element type, **any layout** (lazily transposed,
    column-major, non-contiguous and stepped views included): the bytes read back as the row-major
    tensor holding the source's logical listing. (int64/uint64: F74, int/uint/string: refused.) -/
theorem npy_roundtrip_full (st : St) (t : Dense) (rec : Rec) (hm : t.mask = none) (hdt : NpGood t.dt)
    (wf : C05.WFit t.ap) (h : npyEnc st t = .ok rec) :
    ∃ st' d, npyDec st rec = .ok (st', d) ∧ SameListing st t st' d := by
  have hlen : (t.offsets).length = (totalSize t.ap.shape).toNat := C05.run_length t.ap wf
  have h0 : 0 ≤ totalSize t.ap.shape := Int.le_of_lt (prod_pos _ wf.2)
  obtain ⟨cells, st', d, hr, hd, hdec⟩ := npy_dec_enc st t rec hm hdt h h0 hlen
  refine ⟨st', d, hd, ?_, hdec.dt, ?_, hdec.mask, cells, hr, hdec.fresh⟩
  · rw [hdec.ap]
  · rw [hdec.ap]

/-- the iterator of a contiguous row-major tensor walks the storage window left to right -/
theorem plain_offsets (t : Dense) (hp : Plain t) (wf : C05.WFit t.ap) : t.offsets = rangeI t.win.len := by
  have hlen : t.win.len = (totalSize t.ap.shape).toNat := by have := hp.len; omega
  unfold Dense.offsets
  by_cases hs : t.ap.shape = []
  · rw [C05.scalar_run _ hs, hlen, hs]; rfl
  · have hspec : C05.specOffsets t.ap = rangeI (totalSize t.ap.shape).toNat := by
      unfold C05.specOffsets
      rw [hp.strides]
      exact C17compat.allCoords_map_rowRank _ wf.2
    by_cases hv : t.ap.isVectorLike = true
    · rw [C05.single_run _ wf hv hs, hspec, hlen]
    · rw [C05.ndNext_run _ wf (by simpa using hv), hspec, hlen]

/-- npy of a contiguous row-major tensor: the very same tensor comes back. -/
theorem npy_roundtrip (st : St) (t : Dense) (rec : Rec) (hp : Plain t) (wf : C05.WFit t.ap) (hdt : NpGood t.dt)
    (h : npyEnc st t = .ok rec) : ∃ st' d, npyDec st rec = .ok (st', d) ∧ SameTensor st t st' d := by
  have hlen : (t.offsets).length = (totalSize t.ap.shape).toNat := C05.run_length t.ap wf
  have h0 : 0 ≤ totalSize t.ap.shape := by have := hp.len; omega
  obtain ⟨cells, st', d, hr, hd, hdec⟩ := npy_dec_enc st t rec hp.mask hdt h h0 hlen
  have hraw : t.rawCells st = .ok cells := by
    unfold Dense.iterCells at hr
    rw [plain_offsets t hp wf] at hr
    exact hr
  exact ⟨st', d, hd, sameTensor_of_decoded hraw hdec rfl hp.strides.symm⟩

/-- on the lazy transpose of a (2,3) matrix that used to be written in storage order: the body is the
    logical listing. -/
example : (npyEnc buf9 mat23T).toOption.map (·.data) =
    some [.src 0 0, .src 0 3, .src 0 1, .src 0 4, .src 0 2, .src 0 5] := rfl

/-! ### csv -/

/-- The reader's half of the csv round trip, for every matrix: records of equal length `c` read back
    as the `(rows, c)` row-major tensor over their concatenation. -/
theorem csv_decode_rows (st : St) (dt : String) (first : List Val) (rest : List (List Val))
    (hdt : csvTypes.contains dt = true) (hun : ∀ r ∈ first :: rest, r.length = first.length) :
    ∃ st' d, csvDec st { dt := dt, rows := first :: rest } = .ok (st', d) ∧
      d.ap.shape = [((first :: rest).length : Int), (first.length : Int)] ∧
      d.ap.strides = calcStrides d.ap.shape ∧ d.dt = dt ∧ FreshOf st st' d (first :: rest).flatten := by
  rw [csvDec_rows st dt first rest hdt hun]
  exact ⟨_, _, rfl, rfl, rfl, rfl, rfl, rfl⟩

/-- csv round trip — partial: the writer's half (that `WriteCSV` cuts the iterator's listing into
    one record per row) is assumed here as `hcut`; it holds for every matrix (column vectors
    included) and is checked against the implementation by the harness and on instances below, but is
    not proved for all shapes (it needs the coordinate invariant of the iterator, C05.coord_tracks,
    threaded through `csvLoop`). -/
theorem csv_roundtrip_partial (st : St) (t : Dense) (rec : Rec) (r c : Nat) (cells : List Val)
    (hshape : t.ap.shape = [(r : Int), (c : Int)]) (hdt : csvTypes.contains t.dt = true)
    (h : csvEnc st t = .ok rec) (hit : t.iterCells st = .ok cells)
    (hcut : rec.dt = t.dt ∧ rec.rows.flatten = cells ∧ rec.rows.length = r ∧ rec.rows ≠ [] ∧
      ∀ row ∈ rec.rows, row.length = c) :
    ∃ st' d, csvDec st rec = .ok (st', d) ∧ SameListing st t st' d := by
  have _ := h
  obtain ⟨hd, hflat, hlen, hne, hrow⟩ := hcut
  have e : csvDec st rec = csvDec st { dt := rec.dt, rows := rec.rows } := rfl
  cases hrows : rec.rows with
  | nil => exact absurd hrows hne
  | cons first rest =>
    have hfirst : first.length = c := hrow first (by simp [hrows])
    have hun : ∀ x ∈ first :: rest, x.length = first.length := by
      intro x hx; rw [hfirst]; exact hrow x (by rw [hrows]; exact hx)
    rw [e, hrows, csvDec_rows st rec.dt first rest (by rw [hd]; exact hdt) hun]
    refine ⟨_, _, rfl, ?_, hd, ?_, rfl, cells, hit, ?_⟩
    · rw [hshape, ← hlen, hrows, hfirst]
    · rw [hshape, ← hlen, hrows, hfirst]
    · rw [← hflat, hrows]; exact ⟨rfl, rfl⟩

/-- Writer's half on instances: a (2,3) matrix, its lazy transpose and a non-contiguous view are cut
    into the right records. -/
example : (csvEnc buf9 mat23).toOption.map (·.rows) =
    some [[.src 0 0, .src 0 1, .src 0 2], [.src 0 3, .src 0 4, .src 0 5]] := rfl
example : (csvEnc buf9 mat23T).toOption.map (·.rows) =
    some [[.src 0 0, .src 0 3], [.src 0 1, .src 0 4], [.src 0 2, .src 0 5]] := rfl
example : (csvEnc buf9 view32).toOption.map (·.rows) =
    some [[.src 0 1, .src 0 2], [.src 0 4, .src 0 5], [.src 0 7, .src 0 8]] := rfl
example : (csvEnc buf9 col31).toOption.map (·.rows) = some [[.src 0 0], [.src 0 1], [.src 0 2]] := rfl

/-- canonical contiguous row-major `(r,c)` matrix over a buffer whose cell `i` is `src 0 i` -/
def plainMat (r c : Nat) : St × Dense :=
  ({ heap := #[((List.range (r * c)).map (Val.src 0)).toArray] },
   { ap := { shape := [(r : Int), (c : Int)], strides := calcStrides [(r : Int), (c : Int)], fin := true },
     win := ⟨0, 0, r * c, r * c⟩, dt := "f64" })

def srcOff : Val → Nat
  | .src _ o => o
  | _ => 0

/-- records written by `WriteCSV` for the canonical matrix, as source offsets -/
def csvRowsIdx (r c : Nat) : Option (List (List Nat)) :=
  match csvEnc (plainMat r c).1 (plainMat r c).2 with
  | .ok rec => some (rec.rows.map (·.map srcOff))
  | .error _ => none

/-- Writer's half, bounded: for all `1 ≤ r ≤ 5`, `1 ≤ c ≤ 4` (row vectors, column vectors and `(1,1)`
    included) the records are exactly the rows (kernel-evaluated). -/
theorem csv_writer_rows_bounded :
    ∀ r ∈ [1, 2, 3, 4, 5], ∀ c ∈ [1, 2, 3, 4],
      csvRowsIdx r c = some ((List.range r).map (fun i => (List.range c).map (fun j => i * c + j))) := by
  decide

/-- The unrestricted statement (writer's half included). Not proved for all shapes: see
    `csv_roundtrip_partial` and `csv_writer_rows_bounded`. -/
def csv_roundtrip_full : Prop :=
  ∀ (st : St) (t : Dense) (rec : Rec), t.mask = none → csvTypes.contains t.dt = true → C05.WFit t.ap →
    csvEnc st t = .ok rec → ∃ st' d, csvDec st rec = .ok (st', d) ∧ SameListing st t st' d

/-- … on the column vector that used to lose its rows: `(3,1)` reads back as `(3,1)` over its listing. -/
theorem csv_roundtrip_colvec : ∃ st' d, (csvEnc buf9 col31 >>= csvDec buf9) = .ok (st', d) ∧
    d.ap.shape = [3, 1] ∧ FreshOf buf9 st' d [.src 0 0, .src 0 1, .src 0 2] :=
  ⟨_, _, rfl, rfl, rfl, rfl⟩

/-- `convFromStrs` has an arm for every element type a tensor can be written with (bool and the
    complex types included): the reader's half `csv_decode_rows` applies to all sixteen of them. -/
theorem csv_reads_every_type : ∀ dt ∈ ["b", "i", "i8", "i16", "i32", "i64", "u", "u8", "u16", "u32", "u64",
    "f32", "f64", "c64", "c128", "str"], csvTypes.contains dt = true := by decide

-- non-vacuity: the witnesses are well-formed and the plain round trips apply to `mat23`
example : Plain mat23 := ⟨rfl, rfl, rfl⟩
example : C05.WFit mat23T.ap := ⟨rfl, by intro d hd; simp [mat23T] at hd; omega⟩
example : Excl_gobWindow view32 = true := by decide
example : Excl_rawWindow view32 = true := by decide
example : String.ofList (fmtHdr "f8".toList [2, 3]) =
    "{'descr': '<f8', 'fortran_order': False, 'shape': (2, 3)}             " := by decide
example : String.ofList (hdrBase "i2".toList [5]) = "{'descr': '<i2', 'fortran_order': False, 'shape': (5,)}" := by decide
example : String.ofList (hdrBase "c16".toList []) = "{'descr': '<c16', 'fortran_order': False, 'shape': ()}" := by decide

end TM.C14
