import TensorModel.Proofs.IterPaths
import TensorModel.Proofs.MinMax
/-!
  `MinBetween` / `MaxBetween` of operands that need an iterator.
-/
set_option linter.unusedSimpArgs false
namespace TM
open TM

theorem eMMIter_VV (st : St) (op : String) (a b : Win) (ia ib : ItS) (ha : a.len ≠ 1) (hb : b.len ≠ 1) :
    eMMIter st op a b ia ib = kIterVV st a b (fun x y => .app2 op x y) ia ib := by
  simp [eMMIter, isSc, ha, hb]

theorem engMMVV_iter_safe (st : St) (op : String) (a b : Dense) (hc : MMOK a b)
    (hu : (a.requiresIterator || b.requiresIterator || !sameOrd a b) = true)
    (hma : a.mask = none) (hmb : b.mask = none) :
    engMMVV st op a b {} = (do
      let s ← Dense.copyIterOffsets (allocZero st (denseLen a.shape)) (freshOf st a.dt a.shape a.ap.o.col).win a.win
        (freshOf st a.dt a.shape a.ap.o.col).offsets a.offsets
      let s ← eMMIter s op (freshOf st a.dt a.shape a.ap.o.col).win b.win
        ((freshOf st a.dt a.shape a.ap.o.col).offsets.map (·, true)) (b.offsets.map (·, true))
      pure ⟨s, none, .fresh (freshOf st a.dt a.shape a.ap.o.col)⟩) := by
  have hmf : (freshOf st a.dt a.shape a.ap.o.col).mask = none := rfl
  unfold engMMVV
  simp only [hc.ta, hc.tb, hc.ne, hc.sh, hfo_none, prepAliasVV_none, hu, newDenseZero_eq,
    itStream_nomask _ _ hma, itStream_nomask _ _ hmb, itStream_nomask _ _ hmf, map_true_fst, bind, Except.bind, pure,
    Except.pure, Bool.not_true, Bool.false_eq_true, if_false, Bool.or_false, Bool.and_false, Bool.not_false,
    Bool.and_true, if_true, Bool.false_and, Bool.true_and, Bool.or_self, Bool.false_or, Bool.true_or]

/-- **MinBetween / MaxBetween on the iterator path, safe mode**: the fresh tensor of the operand's type, shape and data order
    holds, at the `k`-th offset of its own iterator, `op a[k-th] b[k-th]` -/
theorem engMMVV_safe_iter' (st : St) (op : String) (a b : Dense) (hc : MMOK a b)
    (hu : (a.requiresIterator || b.requiresIterator || !sameOrd a b) = true)
    (hma : a.mask = none) (hmb : b.mask = none) (hlb : b.win.len ≠ 1) (hl1 : denseLen a.shape ≠ 1)
    (hca : a.win.len ≤ a.win.cap)
    (hor : ∀ i ∈ (freshOf st a.dt a.shape a.ap.o.col).offsets, 0 ≤ i ∧ i < (denseLen a.shape : Int))
    (hoa : ∀ i ∈ a.offsets, 0 ≤ i ∧ i < (a.win.len : Int)) (hob : ∀ j ∈ b.offsets, 0 ≤ j ∧ j < (b.win.len : Int))
    (hnd : (freshOf st a.dt a.shape a.ap.o.col).offsets.Nodup)
    (hA : InBuf st a.win.buf a.win.off a.win.len) (hB : InBuf st b.win.buf b.win.off b.win.len) :
    ∃ st', engMMVV st op a b {} = .ok ⟨st', none, .fresh (freshOf st a.dt a.shape a.ap.o.col)⟩ ∧
      st'.mheap = st.mheap ∧
      (∀ (k : Nat) m i j, (freshOf st a.dt a.shape a.ap.o.col).offsets[k]? = some m → a.offsets[k]? = some i →
        b.offsets[k]? = some j →
        cell st' st.heap.size m.toNat =
          some (.app2 op (cellD st a.win.buf (a.win.off + i.toNat)) (cellD st b.win.buf (b.win.off + j.toNat)))) ∧
      (∀ b' k', b' < st.heap.size → cell st' b' k' = cell st b' k') := by
  rw [engMMVV_iter_safe st op a b hc hu hma hmb]
  have hnra : (freshOf st a.dt a.shape a.ap.o.col).win.buf ≠ a.win.buf := by
    simp only [freshOf]; exact (Nat.ne_of_lt hA.lt).symm
  have hnrb : (freshOf st a.dt a.shape a.ap.o.col).win.buf ≠ b.win.buf := by
    simp only [freshOf]; exact (Nat.ne_of_lt hB.lt).symm
  have hR : Has (allocZero st (denseLen a.shape)) (freshOf st a.dt a.shape a.ap.o.col).win.buf
      (freshOf st a.dt a.shape a.ap.o.col).win.off (freshOf st a.dt a.shape a.ap.o.col).win.len := by
    simp only [freshOf]; exact allocZero_has st _
  have hA' := hA.has.allocZero hA.lt (denseLen a.shape)
  have hB' := hB.has.allocZero hB.lt (denseLen a.shape)
  obtain ⟨s1, h1, hm1, _, hv1, hf1⟩ := copyIterOffsets_spec (allocZero st (denseLen a.shape))
    (freshOf st a.dt a.shape a.ap.o.col).win a.win (freshOf st a.dt a.shape a.ap.o.col).offsets a.offsets
    (freshOf st a.dt a.shape a.ap.o.col).win.len a.win.len
    hnra (by simp only [freshOf]; exact Nat.le_refl _) hca (by simpa only [freshOf] using hor) hoa hnd hR hA'
  simp only [h1, bind, Except.bind]
  rw [eMMIter_VV _ _ _ _ _ _ (by simp only [freshOf]; exact hl1) hlb]
  have hkeep : ∀ {b off n : Nat}, Has (allocZero st (denseLen a.shape)) b off n → Has s1 b off n :=
    copyIterOffsets_has _ s1 (freshOf st a.dt a.shape a.ap.o.col).win (freshOf st a.dt a.shape a.ap.o.col).offsets a.offsets
      (fun k i j hi hj => by rw [hv1 k i j hi hj]; rfl) hf1
  obtain ⟨s2, h2, hm2, _, hv2, hf2⟩ := kIterVV_spec s1 (freshOf st a.dt a.shape a.ap.o.col).win b.win
    (fun x y => .app2 op x y)
    ((freshOf st a.dt a.shape a.ap.o.col).offsets.map (·, true)) (b.offsets.map (·, true)) hnrb
    (by simpa only [freshOf] using inRange_map_true hor) (inRange_map_true hob) (by rw [map_true_fst]; exact hnd)
    (hkeep hR) (hkeep hB')
  refine ⟨s2, by rw [h2]; rfl, (hm2.trans hm1), ?_, ?_⟩
  · intro k m i j hm hi hj
    have e2 := hv2 k m true j true (getElem?_map_true hm) (getElem?_map_true hj) rfl rfl
    have e1 := hv1 k m i hm hi
    simp only [freshOf, Nat.zero_add] at e2 e1 hf1
    rw [e2, cellD_of_some e1, allocZero_cellD_lt _ _ _ _ hA.lt]
    unfold cellD
    rw [hf1 _ _ (Or.inl (Nat.ne_of_lt hB.lt)), allocZero_cell_lt _ _ _ _ hB.lt]
  · intro b' k' hb'
    have hne : b' ≠ (freshOf st a.dt a.shape a.ap.o.col).win.buf := by simp only [freshOf]; exact Nat.ne_of_lt hb'
    rw [hf2 _ _ (Or.inl hne), hf1 _ _ (Or.inl hne), allocZero_cell_lt _ _ _ _ hb']
end TM
