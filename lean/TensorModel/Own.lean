/-
  Own — an ownership state machine for the library's slice pools (property C19).

  Grounding in /repo (perf.go and call sites):
  * `BorrowInts(n)`   takes a `[]int` out of `intsPool[n]`, or `make`s a fresh one      (`borrow` / `alloc`)
  * `ReturnInts(is)`  zeroes `is[:cap]` and puts it into `intsPool[cap]`                 (`ret`)
  * a `*Dense` refers to int slices through `AP.shape`, `AP.strides`, `old.shape`, `old.strides`,
    `transposeWith`; `T`, `UT`, `SetShape`, `Reshape`, … make these fields start / stop referring
    to a slice                                                                           (`attach` / `detach`)
  * `ReturnTensor(t)` = `AP.zero(); ReturnInts(transposeWith); old.zero()`: all the tensor's slices
    go back to the pool and the object is recycled                                       (`kill`)
  * the caller hands its own slices in (`T(axes...)`, `Sum(along...)`, `WithShape(s...)`) (`callerPass`)

  Slices are identified by an abstract id (`Sid`; at run time: the address of the backing array, as
  seen by a pool hook). The state records who owns each slice; `data` is an abstract stamp of the
  contents, only there to state "is not changed by".

  `step` is total (it also executes undisciplined events, so that defect histories can be replayed);
  `disciplined` is the precondition a correct library (and a correct caller) respects; `Inv` is the
  ownership invariant. Core Lean only, executable.
-/
import TensorModel.Basic
namespace TM.Own

abbrev Sid := Nat

structure State where
  /-- free list of the pool -/
  pooled : List Sid
  /-- slices that belong to the caller -/
  callerOwned : List Sid
  /-- scratch slices the library currently holds (borrowed / allocated / detached, not attached) -/
  held : List Sid
  /-- `(k, s)`: a metadata field of live tensor `k` refers to slice `s` -/
  refs : List (Nat × Sid)
  /-- abstract contents -/
  data : Sid → Nat

inductive Event where
  /-- `BorrowInts` found the pool empty and `make`s the fresh slice `s` -/
  | alloc (s : Sid)
  /-- `BorrowInts` takes `s` out of the pool -/
  | borrow (s : Sid)
  /-- `ReturnInts(s)`: zeroes `s` and pools it -/
  | ret (s : Sid)
  /-- a metadata field of live tensor `k` starts referring to `s` -/
  | attach (k : Nat) (s : Sid)
  /-- … stops referring to `s` (the library still holds `s`) -/
  | detach (k : Nat) (s : Sid)
  /-- the caller hands its own slice `s` to a library call -/
  | callerPass (s : Sid)
  /-- `ReturnTensor(k)`: all slices of `k` are zeroed and pooled, `k` is dead -/
  | kill (k : Nat)
  /-- the library writes `v` through `s` while computing destination tensor `dst` -/
  | write (s : Sid) (dst : Option Nat) (v : Nat)
  /-- the caller writes through its own slice -/
  | callerWrite (s : Sid) (v : Nat)
deriving DecidableEq, Repr

inductive Reason where
  | allocNotFresh | borrowNotPooled
  | retCallerOwned | retTwice | retReferenced
  | attachCallerOwned | attachPooled | attachShared
  | detachNotAttached | passLibraryOwned
  | writePooled | writeCallerOwned | writeOtherTensor
  | callerWriteNotOwned
deriving DecidableEq, Repr

def Reason.describe : Reason → String
  | .allocNotFresh => "allocates a slice that is already known"
  | .borrowNotPooled => "borrows a slice that is not in the pool"
  | .retCallerOwned => "returns a caller-owned slice"
  | .retTwice => "returns a slice that is already in the pool (double return)"
  | .retReferenced => "returns a slice still referenced by a live tensor"
  | .attachCallerOwned => "retains a caller-owned slice in a tensor (must copy)"
  | .attachPooled => "attaches a pooled slice to a tensor"
  | .attachShared => "shares a slice between two live tensors"
  | .detachNotAttached => "detaches a slice the tensor does not refer to"
  | .passLibraryOwned => "caller passes a slice the library owns"
  | .writePooled => "writes through a pooled slice"
  | .writeCallerOwned => "mutates a caller-owned slice"
  | .writeOtherTensor => "writes through a slice of a live tensor that is not the destination"
  | .callerWriteNotOwned => "caller writes through a slice it does not own"

def init : State := { pooled := [], callerOwned := [], held := [], refs := [], data := fun _ => 0 }

def remove (s : Sid) (l : List Sid) : List Sid := l.filter (· != s)

/-- the slices live tensor `k` refers to -/
def slicesOf (k : Nat) : List (Nat × Sid) → List Sid
  | [] => []
  | (k', s) :: r => if k' = k then s :: slicesOf k r else slicesOf k r

def setD (d : Sid → Nat) (s : Sid) (v : Nat) : Sid → Nat := fun x => if x = s then v else d x
def zeroAll (l : List Sid) (d : Sid → Nat) : Sid → Nat := fun x => if x ∈ l then 0 else d x

/-- some live tensor refers to `s` -/
def referenced (st : State) (s : Sid) : Bool := st.refs.any (fun p => p.2 == s)
/-- some live tensor other than `k` refers to `s` -/
def refdByOther (st : State) (k : Nat) (s : Sid) : Bool := st.refs.any (fun p => p.2 == s && p.1 != k)

/-- the preconditions of an event, in the order in which they are reported -/
def checks (st : State) : Event → List (Bool × Reason)
  | .alloc s =>
      [(!st.pooled.contains s && !st.callerOwned.contains s && !st.held.contains s
          && !referenced st s, .allocNotFresh)]
  | .borrow s => [(st.pooled.contains s, .borrowNotPooled)]
  | .ret s =>
      [(!st.callerOwned.contains s, .retCallerOwned),
       (!st.pooled.contains s, .retTwice),
       (!referenced st s, .retReferenced)]
  | .attach k s =>
      [(!st.callerOwned.contains s, .attachCallerOwned),
       (!st.pooled.contains s, .attachPooled),
       (!refdByOther st k s, .attachShared)]
  | .detach k s => [(st.refs.contains (k, s), .detachNotAttached)]
  | .callerPass s =>
      [(!st.pooled.contains s && !st.held.contains s && !referenced st s, .passLibraryOwned)]
  | .kill _ => []
  | .write s dst _ =>
      [(!st.pooled.contains s, .writePooled),
       (!st.callerOwned.contains s, .writeCallerOwned),
       (st.refs.all (fun p => p.2 != s || dst == some p.1), .writeOtherTensor)]
  | .callerWrite s _ => [(st.callerOwned.contains s, .callerWriteNotOwned)]

def firstFail : List (Bool × Reason) → Option Reason
  | [] => none
  | (ok, r) :: cs => if ok then firstFail cs else some r

/-- the first violated precondition, if any -/
def violation (st : State) (e : Event) : Option Reason := firstFail (checks st e)

/-- the discipline: never `ret` a caller-owned / referenced / already pooled slice, never `attach` a
    caller-owned, pooled or foreign slice, `write` only through a slice that is neither pooled nor
    the caller's and, if attached, attached to the destination; (for the caller:) pass and write
    only slices you own. -/
def disciplined (st : State) (e : Event) : Bool := (checks st e).all (·.1)

def step (st : State) : Event → State
  | .alloc s => { st with held := s :: st.held }
  | .borrow s => { st with pooled := st.pooled.erase s, held := s :: st.held }
  | .ret s => { st with pooled := s :: st.pooled, held := remove s st.held, data := setD st.data s 0 }
  | .attach k s =>
      { st with refs := if (k, s) ∈ st.refs then st.refs else (k, s) :: st.refs
                held := remove s st.held }
  | .detach k s => { st with refs := st.refs.filter (· != (k, s)), held := s :: st.held }
  | .callerPass s => { st with callerOwned := s :: st.callerOwned }
  | .kill k =>
      { st with pooled := slicesOf k st.refs ++ st.pooled
                refs := st.refs.filter (·.1 != k)
                data := zeroAll (slicesOf k st.refs) st.data }
  | .write s _ v => { st with data := setD st.data s v }
  | .callerWrite s v => { st with data := setD st.data s v }

def runFrom (st : State) : List Event → State
  | [] => st
  | e :: h => runFrom (step st e) h

def run (h : List Event) : State := runFrom init h

/-- every event of the history is disciplined in the state in which it happens -/
def Disciplined (st : State) : List Event → Prop
  | [] => True
  | e :: h => disciplined st e = true ∧ Disciplined (step st e) h

/-- the ownership invariant -/
structure Inv (st : State) : Prop where
  /-- no double return -/
  nodupPool : st.pooled.Nodup
  poolCaller : ∀ s ∈ st.pooled, s ∉ st.callerOwned
  poolRef : ∀ s ∈ st.pooled, ∀ k, (k, s) ∉ st.refs
  poolHeld : ∀ s ∈ st.pooled, s ∉ st.held
  /-- no retention of the caller's slices -/
  callerRef : ∀ s ∈ st.callerOwned, ∀ k, (k, s) ∉ st.refs
  callerHeld : ∀ s ∈ st.callerOwned, s ∉ st.held
  /-- no slice referenced by two different live tensors -/
  unshared : ∀ k k' s, (k, s) ∈ st.refs → (k', s) ∈ st.refs → k = k'
  heldRef : ∀ s ∈ st.held, ∀ k, (k, s) ∉ st.refs
  nodupRefs : st.refs.Nodup

/-- executable trace checker: index and reason of the first undisciplined event -/
def checkFrom (st : State) (i : Nat) : List Event → Option (Nat × Reason)
  | [] => none
  | e :: h =>
    match violation st e with
    | some r => some (i, r)
    | none => checkFrom (step st e) (i + 1) h

def checkTraceR (h : List Event) : Option (Nat × Reason) := checkFrom init 0 h

def checkTrace (h : List Event) : Option (Nat × String) :=
  (checkTraceR h).map fun p => (p.1, p.2.describe)

/-- all violations of a history (the replay continues after each) -/
def violationsFrom (st : State) (i : Nat) : List Event → List (Nat × Reason)
  | [] => []
  | e :: h =>
    match violation st e with
    | some r => (i, r) :: violationsFrom (step st e) (i + 1) h
    | none => violationsFrom (step st e) (i + 1) h

def violations (h : List Event) : List (Nat × Reason) := violationsFrom init 0 h

/-- events that are *about* slice `s` of tensor `k` (everything else is "an operation on something
    else") -/
def touches (k : Nat) (s : Sid) : Event → Bool
  | .write s' (some k') _ => s' == s && k' == k
  | .kill k' => k' == k
  | .detach k' s' => k' == k && s' == s
  | _ => false

def isCallerWrite (s : Sid) : Event → Bool
  | .callerWrite s' _ => s' == s
  | _ => false

end TM.Own
