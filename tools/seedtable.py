#!/usr/bin/env python3
"""Prints the markdown table of DESIGN.md §7 from seeded/*/meta.json (written by tools/seedtest.py)."""
import json, os
V = os.path.dirname(os.path.dirname(os.path.abspath(__file__)))
NOTE = {
    "C03-i": "— neutralised by the F126 repair (Clone now keeps the axes of a pending transposition, so the early return on `transposeWith == nil` is never taken for a clone): its demonstration passes; the programs written to catch it found F126 on the unchanged tree",
    "C15-b": "— does not apply any more (conflicts with the F83 repair of `Filled`); caught by C15 quick before that repair",
    "C02-b": "— neutralised by the F27 repair (views of lazily transposed tensors are always flagged non-contiguous): its demonstration passes; caught by C02 quick before that repair",
    "C04-b": "— neutralised by the F27 repair: its demonstration passes; caught by C04 quick before that repair",
    "C01-c": "— with the F36 repair (comparison results take the operand's data order) the repository's own tests (`TestNeScalar_assame`) fail under this change; caught by C01 quick before",
    "C03-e": "— no longer applies (conflicts with the F28 repair); caught by C03 quick before that repair",
    "C07-e": "— no longer applies (conflicts with the F32 repair); caught by C07 quick before that repair",
    "C10-e": "— no longer applies (conflicts with the F67 repair); caught by C10 quick before that repair",
    "C14-b": "— no longer applies (conflicts with the F79 repair); caught by C14 quick before that repair",
    "C17-a": "— no longer applies (conflicts with the F32 repair); caught by C17 quick before that repair",
    "C19-c": "— no longer applies (conflicts with the F68 repair of `BroadcastStrides`); caught by C19 quick before that repair",
    "C16-d": "— neutralised by the F121 repair (column-major operands of Stack go through their iterators): its demonstration passes; the strengthened C16 generator found F121 itself on the way",
}
rows = []
for d in sorted(os.listdir(os.path.join(V, "seeded"))):
    m = json.load(open(os.path.join(V, "seeded", d, "meta.json")))
    det = m.get("detected_by") or []
    rep = ""
    for k, v in (m.get("checks_run") or {}).items():
        if v.get("exit") == 1:
            r = v.get("replay") or {}
            rep = r.get("program") or ""
            if not rep and v.get("violations"):
                rep = "race" if "race" in v["violations"][0] else ""
            break
    if rep and rep != "race":
        rep = " ; ".join(rep.split(" ; ")[1:])
        if len(rep) > 110:
            rep = rep[:107] + "…"
    if not m.get("kept"):
        caught = NOTE.get(d, "— no longer a fault on the current tree")
    else:
        caught = ", ".join(x.replace(":quick", " quick") for x in det) or "MISSED"
        caught += f" — `{rep}`" if rep and rep != "race" else (" — race reports" if rep else "")
    short = (m.get("short") or m.get("summary", "")[:100]).replace("|", "/").replace("\n", " ")
    rows.append(f"| {d} | {short} | {caught} |")
print("| id | change | caught by (quick tier) |\n|---|---|---|")
print("\n".join(rows))
