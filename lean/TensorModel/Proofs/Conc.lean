/-
  Helper lemmas for C18 (interleaving semantics of `TensorModel.Conc`).

  Main technical result: `run_char` — for a configuration whose remaining programs are pairwise
  conflict-free, *every* complete schedule ends in the state predicted thread-by-thread by the solo
  runs (direct invariant; induction on the schedule, any number of threads, any program length).
-/
import TensorModel.Conc
namespace TM.Conc

/-! ### footprints -/

theorem writes_cons_sub {a : Action} {p : List Action} {l : Loc} (h : l ∈ writes p) :
    l ∈ writes (a :: p) := by
  cases a <;> simp [writes, h]

theorem reads_cons_sub {a : Action} {p : List Action} {l : Loc} (h : l ∈ reads p) :
    l ∈ reads (a :: p) := by
  cases a <;> simp [reads, h]

theorem stepAct_frame (a : Action) (p : List Action) (m : Mem) (tr : List Val) (l : Loc)
    (h : l ∉ writes (a :: p)) : (stepAct a m tr).1 l = m l := by
  cases a with
  | read l0 => rfl
  | write l0 f =>
    simp only [writes, List.mem_cons, not_or] at h
    simp [stepAct, setLoc, h.1]

/-- a solo run does not touch what it does not write -/
theorem soloRun_frame : ∀ (p : List Action) (m : Mem) (tr : List Val) (l : Loc),
    l ∉ writes p → (soloRun p m tr).1 l = m l
  | [], _, _, _, _ => rfl
  | .read l0 :: p, m, tr, l, h => by
      simp only [soloRun, stepAct]
      exact soloRun_frame p m _ l (by simpa [writes] using h)
  | .write l0 f :: p, m, tr, l, h => by
      simp only [writes, List.mem_cons, not_or] at h
      simp only [soloRun, stepAct]
      rw [soloRun_frame p _ _ l h.2]; simp [setLoc, h.1]

/-- a solo run depends on the initial memory only through the locations it reads: two memories that
    agree there give the same result, and the same final contents at every location that is written
    or on which the initial memories agree -/
theorem soloRun_agree : ∀ (p : List Action) (m m' : Mem) (tr : List Val),
    (∀ l ∈ reads p, m l = m' l) →
    (soloRun p m tr).2 = (soloRun p m' tr).2 ∧
    ∀ l, (l ∈ writes p ∨ m l = m' l) → (soloRun p m tr).1 l = (soloRun p m' tr).1 l
  | [], _, _, _, _ => ⟨rfl, fun l h => by
      cases h with
      | inl h => cases h
      | inr h => exact h⟩
  | .read l0 :: p, m, m', tr, h => by
      have h0 : m l0 = m' l0 := h l0 (by simp [reads])
      have ih := soloRun_agree p m m' (tr ++ [m l0]) (fun l hl => h l (by simp [reads, hl]))
      simp only [soloRun, stepAct, writes]
      rw [← h0]; exact ih
  | .write l0 f :: p, m, m', tr, h => by
      have ih := soloRun_agree p (setLoc m l0 (f tr)) (setLoc m' l0 (f tr)) tr
        (fun l hl => by
          simp only [setLoc]
          split
          · rfl
          · exact h l (by simpa [reads] using hl))
      simp only [soloRun, stepAct]
      refine ⟨ih.1, fun l hl => ih.2 l ?_⟩
      by_cases e : l = l0
      · right; simp [setLoc, e]
      · rcases hl with hl | hl
        · left; simpa [writes, e] using hl
        · right; simp [setLoc, e, hl]

/-! ### one scheduler step -/

theorem step_nil {i : Nat} {c : Cfg} (h : (c.threads i).prog = []) : step i c = c := by
  simp [step, h]

theorem step_cons {i : Nat} {c : Cfg} {a : Action} {rest : List Action}
    (h : (c.threads i).prog = a :: rest) :
    step i c = { mem := (stepAct a c.mem (c.threads i).trace).1
                 threads := upd c.threads i ⟨rest, (stepAct a c.mem (c.threads i).trace).2⟩ } := by
  simp [step, h]

theorem upd_same (f : Nat → TState) (i : Nat) (t : TState) : upd f i t i = t := by simp [upd]
theorem upd_ne (f : Nat → TState) {i j : Nat} (t : TState) (h : j ≠ i) : upd f i t j = f j := by
  simp [upd, h]

theorem writes_step_sub (i j : Nat) (c : Cfg) (l : Loc)
    (h : l ∈ writes ((step i c).threads j).prog) : l ∈ writes (c.threads j).prog := by
  cases hp : (c.threads i).prog with
  | nil => rw [step_nil hp] at h; exact h
  | cons a rest =>
    rw [step_cons hp] at h
    by_cases e : j = i
    · subst e; simp only [upd_same] at h; rw [hp]; exact writes_cons_sub h
    · simp only [upd_ne _ _ e] at h; exact h

theorem reads_step_sub (i j : Nat) (c : Cfg) (l : Loc)
    (h : l ∈ reads ((step i c).threads j).prog) : l ∈ reads (c.threads j).prog := by
  cases hp : (c.threads i).prog with
  | nil => rw [step_nil hp] at h; exact h
  | cons a rest =>
    rw [step_cons hp] at h
    by_cases e : j = i
    · subst e; simp only [upd_same] at h; rw [hp]; exact reads_cons_sub h
    · simp only [upd_ne _ _ e] at h; exact h

/-- conflict-freedom of the *remaining* programs of a configuration -/
def CFc (c : Cfg) : Prop :=
  ∀ i j, i ≠ j → ∀ l ∈ writes (c.threads i).prog,
    l ∉ writes (c.threads j).prog ∧ l ∉ reads (c.threads j).prog

theorem CFc_step {i : Nat} {c : Cfg} (h : CFc c) : CFc (step i c) := by
  intro j k hjk l hl
  have := h j k hjk l (writes_step_sub i j c l hl)
  exact ⟨fun h' => this.1 (writes_step_sub i k c l h'), fun h' => this.2 (reads_step_sub i k c l h')⟩

theorem CFc_run : ∀ (σ : List Nat) (c : Cfg), CFc c → CFc (runSched σ c)
  | [], _, h => h
  | i :: σ, c, h => CFc_run σ (step i c) (CFc_step h)

theorem runSched_append : ∀ (σ τ : List Nat) (c : Cfg),
    runSched (σ ++ τ) c = runSched τ (runSched σ c)
  | [], _, _ => rfl
  | i :: σ, τ, c => by simp only [List.cons_append, runSched]; exact runSched_append σ τ (step i c)

/-! ### the invariant: every complete schedule ends where the solo runs predict -/

theorem run_char : ∀ (σ : List Nat) (c : Cfg), CFc c → Done (runSched σ c) →
    (∀ i, ((runSched σ c).threads i).trace =
        (soloRun (c.threads i).prog c.mem (c.threads i).trace).2) ∧
    (∀ i l, l ∈ writes (c.threads i).prog →
        (runSched σ c).mem l = (soloRun (c.threads i).prog c.mem (c.threads i).trace).1 l) ∧
    (∀ l, (∀ i, l ∉ writes (c.threads i).prog) → (runSched σ c).mem l = c.mem l)
  | [], c, _, hd => by
      simp only [runSched] at hd
      refine ⟨fun i => ?_, fun i l hl => ?_, fun l _ => rfl⟩
      · show (c.threads i).trace = _
        rw [hd i]; rfl
      · rw [hd i] at hl; cases hl
  | j :: σ, c, hcf, hd => by
      simp only [runSched] at hd ⊢
      have ih := run_char σ (step j c) (CFc_step hcf) hd
      cases hp : (c.threads j).prog with
      | nil => rw [step_nil hp] at ih ⊢; exact ih
      | cons a rest =>
        obtain ⟨iha, ihb, ihc⟩ := ih
        have hm : (step j c).mem = (stepAct a c.mem (c.threads j).trace).1 := by
          rw [step_cons hp]
        have hj : (step j c).threads j = ⟨rest, (stepAct a c.mem (c.threads j).trace).2⟩ := by
          rw [step_cons hp]; exact upd_same _ _ _
        have hne : ∀ i, i ≠ j → (step j c).threads i = c.threads i := by
          intro i hi; rw [step_cons hp]; exact upd_ne _ _ hi
        -- the step of `j` does not change what another thread reads or writes
        have hagree : ∀ i, i ≠ j → ∀ l,
            (l ∈ reads (c.threads i).prog ∨ l ∈ writes (c.threads i).prog) →
            (step j c).mem l = c.mem l := by
          intro i hi l hl
          rw [hm]
          apply stepAct_frame a rest
          intro hw
          rw [← hp] at hw
          have := hcf j i (Ne.symm hi) l hw
          rcases hl with hl | hl
          · exact this.2 hl
          · exact this.1 hl
        refine ⟨fun i => ?_, fun i l hl => ?_, fun l hl => ?_⟩
        · by_cases e : i = j
          · subst e
            rw [iha i, hj, hp, hm]; rfl
          · rw [iha i, hne i e]
            exact (soloRun_agree _ _ _ _ (fun l hl => hagree i e l (Or.inl hl))).1
        · by_cases e : i = j
          · subst e
            rw [hp] at hl
            by_cases hr : l ∈ writes rest
            · have := ihb i l (by rw [hj]; exact hr)
              rw [this, hj, hp, hm]; rfl
            · have hnone : ∀ k, l ∉ writes ((step i c).threads k).prog := by
                intro k
                by_cases ek : k = i
                · subst ek; rw [hj]; exact hr
                · rw [hne k ek]
                  exact (hcf i k (Ne.symm ek) l (by rw [hp]; exact hl)).1
              rw [ihc l hnone, hp]
              simp only [soloRun]
              rw [soloRun_frame rest _ _ l hr, hm]
          · rw [ihb i l (by rw [hne i e]; exact hl), hne i e]
            exact (soloRun_agree _ _ _ _ (fun l hl => hagree i e l (Or.inl hl))).2 l (Or.inl hl)
        · rw [ihc l (fun k hk => hl k (writes_step_sub j k c l hk)), hm]
          exact stepAct_frame a rest _ _ l (by rw [← hp]; exact hl j)

/-! ### conflict-freedom of thread lists -/

theorem disjointB_sound {xs ys : List Loc} (h : disjointB xs ys = true) :
    ∀ l ∈ xs, l ∉ ys := by
  intro l hl
  simp only [disjointB, List.all_eq_true] at h
  have := h l hl
  simpa using this

theorem indepB_sound {p q : List Action} (h : indepB p q = true) : Indep p q := by
  simp only [indepB, Bool.and_eq_true] at h
  obtain ⟨⟨⟨h1, h2⟩, h3⟩, h4⟩ := h
  exact ⟨fun l hl => ⟨disjointB_sound h1 l hl, disjointB_sound h2 l hl⟩,
         fun l hl => ⟨disjointB_sound h3 l hl, disjointB_sound h4 l hl⟩⟩

theorem Indep.symm {p q : List Action} (h : Indep p q) : Indep q p := ⟨h.2, h.1⟩

theorem conflictFreeB_pairwise : ∀ (ps : List (List Action)),
    conflictFreeB ps = true → ps.Pairwise Indep
  | [], _ => List.Pairwise.nil
  | p :: ps, h => by
      simp only [conflictFreeB, Bool.and_eq_true, List.all_eq_true] at h
      exact List.Pairwise.cons (fun q hq => indepB_sound (h.1 q hq)) (conflictFreeB_pairwise ps h.2)

theorem conflictFree_of_pairwise {ps : List (List Action)} (h : ps.Pairwise Indep) :
    conflictFree ps := by
  rw [List.pairwise_iff_getElem] at h
  intro i j hi hj hij l hl
  rcases Nat.lt_or_gt_of_ne hij with hlt | hgt
  · exact (h i j hi hj hlt).1 l hl
  · exact (h j i hj hi hgt).2 l hl

theorem pairwise_of_conflictFree {ps : List (List Action)} (h : conflictFree ps) :
    ps.Pairwise Indep := by
  rw [List.pairwise_iff_getElem]
  intro i j hi hj hij
  exact ⟨h i j hi hj (Nat.ne_of_lt hij), h j i hj hi (Nat.ne_of_gt hij)⟩

theorem init_prog_lt {ps : List (List Action)} {m0 : Mem} {i : Nat} (h : i < ps.length) :
    ((init ps m0).threads i).prog = ps[i] := by
  simp [init, h]

theorem init_prog_ge {ps : List (List Action)} {m0 : Mem} {i : Nat} (h : ps.length ≤ i) :
    ((init ps m0).threads i).prog = [] := by
  simp [init, h]

theorem CFc_init {ps : List (List Action)} (m0 : Mem) (h : conflictFree ps) :
    CFc (init ps m0) := by
  intro i j hij l hl
  by_cases hi : i < ps.length
  · rw [init_prog_lt hi] at hl
    by_cases hj : j < ps.length
    · rw [init_prog_lt hj]; exact h i j hi hj hij l hl
    · rw [init_prog_ge (Nat.le_of_not_lt hj)]; simp [writes, reads]
  · rw [init_prog_ge (Nat.le_of_not_lt hi)] at hl; cases hl

/-! ### sequential composition -/

theorem seqRun_char : ∀ (ps : List (List Action)) (m : Mem), ps.Pairwise Indep →
    (∀ p ∈ ps, ∀ l ∈ writes p, seqRun ps m l = (solo p m).1 l) ∧
    (∀ l, (∀ p ∈ ps, l ∉ writes p) → seqRun ps m l = m l)
  | [], _, _ => ⟨fun p hp => (by cases hp), fun _ _ => rfl⟩
  | p :: ps, m, h => by
      rw [List.pairwise_cons] at h
      obtain ⟨hp, hps⟩ := h
      obtain ⟨ihb, ihc⟩ := seqRun_char ps (solo p m).1 hps
      refine ⟨fun q hq l hl => ?_, fun l hl => ?_⟩
      · simp only [seqRun]
        by_cases hq' : q ∈ ps
        · rw [ihb q hq' l hl]
          refine (soloRun_agree q _ _ [] (fun l' hl' => ?_)).2 l (Or.inl hl)
          exact soloRun_frame p m [] l' (fun hw => ((hp q hq').1 l' hw).2 hl')
        · have e : q = p := by
            rcases List.mem_cons.1 hq with e | e
            · exact e
            · exact absurd e hq'
          subst e
          rw [ihc l (fun q' hq' hw => ((hp q' hq').1 l hl).1 hw)]
      · simp only [seqRun]
        rw [ihc l (fun q hq => hl q (List.mem_cons_of_mem _ hq))]
        exact soloRun_frame p m [] l (hl p (List.mem_cons_self ..))

/-- under conflict-freedom the sequential composition does not depend on the order -/
theorem seqRun_perm {ps ps' : List (List Action)} (m : Mem) (hperm : ps'.Perm ps)
    (h : ps.Pairwise Indep) : seqRun ps' m = seqRun ps m := by
  have h' : ps'.Pairwise Indep := (hperm.pairwise_iff (fun hab => Indep.symm hab)).2 h
  obtain ⟨b, c⟩ := seqRun_char ps m h
  obtain ⟨b', c'⟩ := seqRun_char ps' m h'
  funext l
  by_cases hw : ∃ p ∈ ps, l ∈ writes p
  · obtain ⟨p, hp, hl⟩ := hw
    rw [b p hp l hl, b' p (hperm.mem_iff.2 hp) l hl]
  · have hn : ∀ p ∈ ps, l ∉ writes p := fun p hp hl => hw ⟨p, hp, hl⟩
    rw [c l hn, c' l (fun p hp => hn p (hperm.mem_iff.1 hp))]

/-! ### existence of complete schedules (non-vacuity, in general) -/

theorem run_replicate : ∀ (k i : Nat) (c : Cfg), (c.threads i).prog.length = k →
    ((runSched (List.replicate k i) c).threads i).prog = [] ∧
    ∀ j, j ≠ i → (runSched (List.replicate k i) c).threads j = c.threads j
  | 0, i, c, h => by
      exact ⟨List.eq_nil_of_length_eq_zero h, fun _ _ => rfl⟩
  | k + 1, i, c, h => by
      simp only [List.replicate, runSched]
      cases hp : (c.threads i).prog with
      | nil => rw [hp] at h; simp at h
      | cons a rest =>
        have hlen : ((step i c).threads i).prog.length = k := by
          simp only [step_cons hp, upd_same]; rw [hp] at h; simpa using h
        obtain ⟨h1, h2⟩ := run_replicate k i (step i c) hlen
        refine ⟨h1, fun j hj => ?_⟩
        rw [h2 j hj, step_cons hp]; exact upd_ne _ _ hj

theorem seqSchedFrom_done : ∀ (ps : List (List Action)) (n : Nat) (c : Cfg),
    (∀ i, (c.threads i).prog = if i < n then [] else ps[i - n]?.getD []) →
    Done (runSched (seqSchedFrom n ps) c)
  | [], n, c, h => by
      intro i
      simp only [seqSchedFrom, runSched]
      rw [h i]; split <;> simp
  | p :: ps, n, c, h => by
      simp only [seqSchedFrom, runSched_append]
      have hn : (c.threads n).prog = p := by rw [h n]; simp
      obtain ⟨h1, h2⟩ := run_replicate p.length n c (by rw [hn])
      apply seqSchedFrom_done ps (n + 1)
      intro i
      by_cases e : i = n
      · subst e; rw [h1]; simp
      · rw [h2 i e, h i]
        by_cases hlt : i < n
        · have : i < n + 1 := by omega
          simp [hlt, this]
        · have h3 : ¬ i < n + 1 := by omega
          have h4 : i - n = (i - (n + 1)) + 1 := by omega
          simp only [hlt, h3, if_false]
          rw [h4]; simp

theorem seqSched_complete (ps : List (List Action)) (m0 : Mem) :
    Complete (seqSched ps) (init ps m0) := by
  apply seqSchedFrom_done ps 0
  intro i; simp [init]

/-! ### races -/

theorem nextAccess_mem {t : TState} {l : Loc} {w : Bool} (h : nextAccess t = some (l, w)) :
    (w = true ∧ l ∈ writes t.prog) ∨ (w = false ∧ l ∈ reads t.prog) := by
  obtain ⟨prog, tr⟩ := t
  cases prog with
  | nil => simp [nextAccess] at h
  | cons a p =>
    cases a with
    | read l0 =>
      simp only [nextAccess, Option.some.injEq, Prod.mk.injEq] at h
      right; simp [reads, h.1.symm, h.2.symm]
    | write l0 f =>
      simp only [nextAccess, Option.some.injEq, Prod.mk.injEq] at h
      left; simp [writes, h.1.symm, h.2.symm]

theorem no_race_of_CFc {c : Cfg} (h : CFc c) : ¬ Race c := by
  rintro ⟨i, j, l, wi, wj, hij, hi, hj, hw⟩
  rcases nextAccess_mem hi with ⟨_, hi'⟩ | ⟨ei, hi'⟩
  · rcases nextAccess_mem hj with ⟨_, hj'⟩ | ⟨_, hj'⟩
    · exact (h i j hij l hi').1 hj'
    · exact (h i j hij l hi').2 hj'
  · rcases nextAccess_mem hj with ⟨_, hj'⟩ | ⟨ej, _⟩
    · exact (h j i (Ne.symm hij) l hj').2 hi'
    · subst ei; subst ej; simp at hw

end TM.Conc
