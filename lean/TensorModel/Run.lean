import TensorModel.Ext.All
/-! Runs one program under M and S side by side and produces the output lines of the protocol. -/
namespace TM

structure Taint where
  obj : Array (List String) := #[]
  buf : Array (List String) := #[]
deriving Inhabited

def Taint.ofObj (t : Taint) (ps : PState) (id : Nat) : List String :=
  let a := t.obj[id]?.getD []
  let b := match ps.ds[id]? with
    | some d => t.buf[d.win.buf]?.getD []
    | none => []
  (a ++ b).eraseDups

def addAt (arr : Array (List String)) (i : Nat) (tags : List String) : Array (List String) :=
  let arr := if arr.size ≤ i then arr ++ Array.replicate (i + 1 - arr.size) [] else arr
  arr.modify i (fun l => (l ++ tags).eraseDups)

/-- the other live objects (still bound to a program variable) -/
def otherLive (ps : PState) (self : Nat) : List Dense :=
  (ps.vars.toList.filterMap (fun v => v)).eraseDups.filterMap (fun j => if j == self then none else ps.ds[j]?)

/-- Excl tags raised by a step (evaluated on M's state *before* the step), with the scope they
    taint: the object only, or also its whole buffer (storage damage). -/
def exclTags (ps : PState) (toks : List String) : List String × Bool :=
  match toks with
  | ["slice", v, spec] =>
    match ps.obj v, parseSlList spec with
    | some (_, t), some sls =>
      ((if Excl_leadStep t.ap.shape sls then ["F2"] else []) ++
       (if Excl_oneCellScalar t sls then ["F25"] else []) ++
       (if Excl_shortStrides t then ["F24"] else []), false)
    | _, _ => ([], false)
  | ["T", v, axes] =>
    match ps.obj v, parseIntList axes with
    | some (id, t), some ax =>
      let mat := T_materialises t ax
      ((if mat && Excl_transposeShared (otherLive ps id) t then ["F39"] else []) ++
       (if mat && Excl_transposeView t then ["F5"] else []) ++
       (if mat && Excl_transposeCol t then ["F6"] else []) ++
       (if Excl_shortStrides t then ["F24"] else []), mat)
    | _, _ => ([], false)
  | ["safeT", v, axes] =>
    match ps.obj v, parseIntList axes with
    | some (_, t), some _ => ((if Excl_shortStrides t then ["F24"] else []), false)
    | _, _ => ([], false)
  | ["apiTranspose", v, axes] =>
    -- the physical transposition of the `SafeT` copy (never a view, never shared)
    match ps.obj v, parseIntList axes with
    | some (_, t), some _ =>
      let moves := !isVector t.ap.shape && !isScalar t.ap.shape
      ((if t.ap.o.col && moves then ["F6"] else []) ++
       (if Excl_shortStrides t then ["F24"] else []), false)
    | _, _ => ([], false)
  | ["transpose", v] =>
    match ps.obj v with
    | some (id, t) =>
      ((if Excl_transposeView t then ["F5"] else []) ++ (if Excl_transposeCol t then ["F6"] else []) ++
       (if Excl_transposeShared (otherLive ps id) t then ["F39"] else []), true)
    | _ => ([], false)
  | ["iter", v, _] =>
    match ps.obj v with
    | some (_, t) => ((if Excl_shortStrides t then ["F24"] else []), false)
    | _ => ([], false)
  | "bin" :: op :: _ :: a :: b :: _ =>
    -- F30: contiguous float division goes through vecf32/vecf64.Div (+Inf for every zero divisor)
    let dtOf (tok : String) := (ps.obj tok).map (·.2.dt)
    let dt := (dtOf a).orElse (fun _ => dtOf b)
    let opts := toks.drop 5
    let same := opts.contains "same"
    let uns := opts.contains "unsafe"
    let reuse := (opts.find? (·.startsWith "reuse=")).bind (fun t => (ps.obj (t.drop 6).toString).map (·.2))
    let oa := ps.obj a
    let ob := ps.obj b
    -- F10 (what is left of it): the destination of an *unsafe* call - the first operand - shares storage cells with the
    -- other operand through a different access pattern (e.g. a view of a lazily transposed clone and that clone): the
    -- in-place loop reads operand cells it has already overwritten. (A reuse / increment tensor that shares memory with
    -- an operand is handled by `operandFor`: the operand is copied first.)
    let f10 := uns && reuse.isNone && (match oa, ob with
      | some (_, x), some (_, y) => sharesMemory x y && !sameAccess x y
      | _, _ => false)
    let tens := (match oa with | some (_, d) => [d] | none => []) ++ (match ob with | some (_, d) => [d] | none => [])
    let incrD := (opts.find? (·.startsWith "incr=")).bind (fun t => (ps.obj (t.drop 5).toString).map (·.2))
    -- F35: a reuse tensor only; an increment tensor of the other data order is walked with its own iterator
    let f35 := tens.any (fun t => Excl_reuseOrderFlip t reuse)
    -- F16 (what remains of it): a destination that is a clone of a non-contiguous view (window longer than its size) is
    -- refused by handleFuncOpts (`reuse.len() != expShape.TotalSize()`)
    let f16 := (match reuse with | some r => Excl_reshapeLongWindow r | none => false) ||
      (match incrD with | some r => Excl_reshapeLongWindow r | none => false)
    -- F122: the kernels tell scalars from vectors by the length of the storage window: a one-element tensor that sits
    -- on a longer window (`a[0:2:2]`) next to a one-element tensor on a window of one cell is taken for the vector
    let oneOnLong (d : Dense) : Bool := totalSize d.ap.shape == 1 && d.win.len != 1 && !d.ap.shape.isEmpty
    let f122 := (tens ++ (match reuse with | some r => [r] | none => []) ++ (match incrD with | some r => [r] | none => [])).any oneOnLong &&
      tens.all (fun d => totalSize d.ap.shape == 1)
    ((if op == "div" && (dt == some "f32" || dt == some "f64") then ["F30"] else []) ++ (if f122 then ["F122"] else []) ++
     (if f16 then ["F16"] else []) ++
     (if f10 then ["F10"] else []) ++ (if f35 then ["F35"] else []), true)
  | "un" :: _ :: _ :: rest =>
    let t := (toks[2]?).bind (fun v => (ps.obj v).map (·.2))
    let dst := (rest.find? (fun t => t.startsWith "reuse=" || t.startsWith "incr=")).bind
      (fun t => (ps.obj ((t.splitOn "=").getLast!)).map (·.2))
    let reuseDst := (rest.find? (fun t => t.startsWith "reuse=")).bind (fun t => (ps.obj (t.drop 6).toString).map (·.2))
    let f35 := match t with | some t => Excl_reuseOrderFlip t reuseDst | none => false
    let f16 := match dst with | some r => Excl_reshapeLongWindow r | none => false
    ((if f16 then ["F16"] else []) ++
     (if f35 then ["F35"] else []), true)
  | ["calcS", v, spec] =>
    match ps.obj v, parseSlList spec with
    | some (_, t), some sls =>
      ((if Excl_shapeSFloor t.ap.shape sls then ["F3"] else []) ++
       (if Excl_oneCellScalar t sls then ["F25"] else []), false)
    | _, _ => ([], false)
  | ["reshape", v, _] =>
    match ps.obj v with
    | some (id, t) =>
      ((if Excl_transposeShared (otherLive ps id) t then ["F39"] else []) ++
       (if Excl_transposeView t then ["F5"] else []) ++ (if Excl_transposeCol t then ["F6"] else []) ++
       (if Excl_shortStrides t then ["F24"] else []), true)
    | _ => ([], false)
  | _ => ([], false)

/-- Go's `resolveAxis(axis, dims)` for `dims > 0` -/
def resolveAxis (axis : Int) (dims : Nat) : Int :=
  let r := Int.tmod axis dims
  if r < 0 then r + dims else r

/-- API-level steps that are, by the source, exactly another step: the package function `tensor.T` is `SafeT`,
    `tensor.Materialize` is `Materialize`, `Narrow(dim, start, length)` is `Slice` with `dim` leading nil slices
    and `start:start+length`. The harness calls the API function named by the step; M, S and the defect regions see
    the step it stands for. -/
def desugar (ps : PState) (toks : List String) : List String :=
  match toks with
  -- constructors with their options in another order: the same tensor
  | ["new", dt, sh, "C1"] => ["new", dt, sh, "C"]
  | ["new", dt, sh, "CN"] => ["new", dt, sh, "C"]
  | ["new", dt, sh, "Fraw1"] => ["new", dt, sh, "Fraw"]
  | ["new", dt, sh, "Fraw2"] => ["new", dt, sh, "Fraw"]
  | ["apiT", v, axes] => ["safeT", v, axes]
  | ["apimat", v] => ["mat", v]
  | ["narrow", v, dim, start, len, _] =>
    match ps.obj v, dim.toInt?, start.toInt?, len.toInt? with
    | some (_, t), some d, some st, some ln =>
      if t.dims == 0 then toks else
      let d := (resolveAxis d t.dims).toNat
      ["slice", v, String.intercalate "," (List.replicate d "n" ++ [s!"{st}:{st + ln}"])]
    | _, _, _, _ => toks
  | _ => toks

/-- for S and the defect regions only (M has its own `roll` mirroring `RollAxis`): rolling an axis is the
    transposition by the axes vector `rollAxes` builds -/
def desugarRoll (ps : PState) (toks : List String) : List String :=
  match toks with
  -- the same function given as `func(T) (T, error)` (never failing): the specification does not tell the two forms apart
  | "un" :: "applyerr" :: rest => "un" :: "apply" :: rest
  | ["roll", v, axis, start, safe] =>
    match ps.obj v, axis.toInt?, start.toInt? with
    | some (_, t), some a, some st =>
      (match Dense.rollAxes t.dims a st with
      | .ok (some axes) => [if safe == "1" then "safeT" else "T", v, showInts axes]
      | .ok none => ["T", v, showInts (rangeI t.dims)]
      | .error _ => toks)
    | _, _, _ => toks
  | _ => toks

/-- the object a step observes / mutates (first `$k` argument) and the object it creates -/
def stepTarget (ps : PState) (toks : List String) : Option Nat :=
  (toks.filterMap (fun t => (ps.obj t).map (·.1))).head?

/-- every object a step names (also inside `reuse=$k` / `incr=$k`) -/
def stepObjects (ps : PState) (toks : List String) : List Nat :=
  toks.filterMap (fun t =>
    let t := if t.startsWith "reuse=" then (t.drop 6).toString else if t.startsWith "incr=" then (t.drop 5).toString else t
    (ps.obj t).map (·.1))

/-- the tensors a step names as destination (`reuse=` / `incr=`, every tensor operand of an `unsafe` call,
    the written argument of the in-place steps) -/
def namedDests (ps : PState) (toks : List String) : List Nat :=
  let viaOpt := toks.filterMap (fun t =>
    if t.startsWith "reuse=" then (ps.obj (t.drop 6).toString).map (·.1)
    else if t.startsWith "incr=" then (ps.obj (t.drop 5).toString).map (·.1) else none)
  let operands := toks.filterMap (fun t => (ps.obj t).map (·.1))
  let uns := if toks.contains "unsafe" then operands else []
  let inPlace := match toks.head?.getD "" with
    | "setat" | "memset" | "zero" | "transpose" | "filled" | "copy" => operands.take 1
    | "copyto" => (operands.drop 1).take 1
    | "fma" => (operands.drop 2).take 1 ++ (operands.drop 1).take 1
    | _ => []
  (viaOpt ++ uns ++ inPlace).eraseDups

/-- Safety net for steps on which S is silent: S also stops describing every object that shares a
    buffer (in M's aliasing, which over-approximates) with a named destination of the step, also when S
    had already lost track of the destination itself. Makes S claim less, never more. -/
def forgetByBuf (ps : PState) (ss : SState) (id : Nat) : SState :=
  match ps.ds[id]? with
  | none => ss
  | some d => { ss with objs := ss.objs.mapIdx (fun j x => match ps.ds[j]? with
      | some d' => if d'.win.buf == d.win.buf then none else x
      | none => x) }

def mResClass (o : StepOut) : String :=
  let f := match o with | .fields f => f | .stop f => f
  if f.startsWith "r=ok" then "ok" else if f.startsWith "r=err" then "err"
  else if f.startsWith "r=panic" then "panic" else "obs"

def runProgram (line : String) : List String :=
  match line.splitOn " ; " with
  | [] => []
  | pid :: steps =>
    let rec go (ps : PState) (ss : SState) (tn : Taint) (i : Nat) : List String → List String → List String
      | [], acc => acc.reverse
      | s :: rest, acc =>
        let toks := (s.splitOn " ").filter (· != "")
        if (toks.head?.getD "").startsWith "vset=" then go ps ss tn (i + 1) rest acc else
        let toks := desugar ps toks
        let toksS := desugarRoll ps toks
        let fam := families.find? (fun f => f.keys.contains (toks.head?.getD ""))
        let (tags, bufScope) := match fam with | some f => f.excl ps toks | none => exclTags ps toksS
        let target := stepTarget ps toks
        let (ps', mo) := match fam with | some f => f.stepM ps i toks | none => stepM ps i toks
        let so := match fam with
          | some f => f.stepS ps ps' ss i toks (mResClass mo)
          | none => stepS ps ps' ss i toksS (mResClass mo)
        let so : SOut := match so.line with
          | some _ => so
          | none => { so with s := (namedDests ps toks).foldl (fun ss id => forgetByBuf ps ss id) so.s }
        -- defects visible on the object a step creates
        let postTags : List String :=
          if ps'.ds.size > ps.ds.size then
            match ps'.ds[ps.ds.size]? with
            | some d => (if Excl_shortStrides d then ["F24"] else [])
            | none => []
          else match target with
            | some id => (match ps'.ds[id]? with
              | some d => if Excl_shortStrides d then ["F24"] else []
              | none => [])
            | none => []
        let tags := tags ++ postTags
        -- taint: the target object, a newly created object (inherits the target's taints), the buffer
        let tn := match target with
          | some id =>
            let inherited := tn.ofObj ps id
            let tn := { tn with obj := addAt tn.obj id tags }
            let tn := if ps'.ds.size > ps.ds.size then { tn with obj := addAt tn.obj ps.ds.size (inherited ++ tags) } else tn
            if bufScope && !tags.isEmpty then
              match ps.ds[id]? with
              | some d => { tn with buf := addAt tn.buf d.win.buf tags }
              | none => tn
            else tn
          | none => if ps'.ds.size > ps.ds.size && !tags.isEmpty then { tn with obj := addAt tn.obj ps.ds.size tags } else tn
        -- writes through a tainted object taint its buffer; copies from a tainted source taint the destination
        -- an operation taints every object it names with the tags it raises
        let tn := if tags.isEmpty then tn else
          (stepObjects ps toks).foldl (fun tn id => { tn with obj := addAt tn.obj id tags }) tn
        let writes := ["memset", "zero", "setat", "copy", "copyto", "transpose", "reshape", "bin", "un"].contains (toks.head?.getD "") || fam.isSome
        let tn := if writes then
            let objs := stepObjects ps toks
            let all := (objs.flatMap (fun id => tn.ofObj ps id)).eraseDups
            if all.isEmpty then tn else
              objs.foldl (fun tn id => match ps.ds[id]? with
                | some d => { tn with buf := addAt tn.buf d.win.buf all, obj := addAt tn.obj id all }
                | none => tn) tn
          else tn
        let excuse := match target with
          | some id => tn.ofObj ps' id ++ (if ps'.ds.size > ps.ds.size then tn.ofObj ps' ps.ds.size else [])
          | none => if ps'.ds.size > ps.ds.size then tn.ofObj ps' ps.ds.size else []
        let excuse := excuse.eraseDups
        let (mf, stop) := match mo with | .fields f => (f, false) | .stop f => (f, true)
        let acc := s!"{pid}.{i} M {mf}" :: acc
        let acc := match so.line with
          | some l => if mf.startsWith "r=skip" || mf.startsWith "r=badprog" then acc else s!"{pid}.{i} S {l}" :: acc
          | none => acc
        let acc := if excuse.isEmpty then acc else s!"{pid}.{i} X {String.intercalate " " excuse}" :: acc
        if stop then acc.reverse else go ps' so.s tn (i + 1) rest acc
    go {} {} {} 0 steps []

end TM
