import TensorModel.Run
/-! C18 — property theorems. -/
namespace TM.C18
end TM.C18
