import TensorModel.Generated.Core
import TensorModel.Eng
/-!
  The regenerated Lean definitions of the hand-written Go functions (`Generated/Core.lean`, rewritten by
  `tools/gol` from /repo on every run) compute what the hand-written model functions compute.
  Helper lemmas and the equalities themselves; the property-level corollaries are in `Props/`.
-/
set_option linter.unusedSimpArgs false
set_option linter.unusedVariables false
namespace TM.Gen
open TM

@[simp] theorem len_nil {α} : len ([] : List α) = 0 := rfl
@[simp] theorem len_cons {α} (x : α) (xs : List α) : len (x :: xs) = len xs + 1 := by simp [len]
theorem len_nonneg {α} (l : List α) : 0 ≤ len l := by simp [len]
theorem len_eq {α} (l : List α) : len l = (l.length : Int) := rfl
@[simp] theorem rangeUp_zero_len {α} (l : List α) : rangeUp 0 (len l) = upFrom l.length 0 := by
  simp [rangeUp, len]

theorem gidx_nat {α} (l : List α) (k : Nat) : gidx l (k : Int) = match l[k]? with | some v => .ok v | none => gpanic "index out of range" := by
  unfold gidx; simp; rfl
theorem gidx_lt {α} (l : List α) (k : Nat) (h : k < l.length) : gidx l (k : Int) = .ok l[k] := by
  rw [gidx_nat, List.getElem?_eq_getElem h]

theorem upFrom_succ (n : Nat) (x : Int) : upFrom (n + 1) x = x :: upFrom n (x + 1) := rfl

/-- `Shape.IsScalarEquiv` -/
theorem IsScalarEquiv_loop (s : List Int) : ∀ (n : Nat) (k : Nat), k + n = s.length →
    Shape_IsScalarEquiv_loop1 s (upFrom n (k : Int)) =
      .ok (if (s.drop k).all (· == 1) then Ctl.next () else Ctl.ret false) := by
  intro n
  induction n with
  | zero =>
    intro k hk
    have : s.drop k = [] := List.drop_eq_nil_of_le (by omega)
    simp [upFrom, Shape_IsScalarEquiv_loop1, this]; rfl
  | succ n ih =>
    intro k hk
    have hlt : k < s.length := by omega
    rw [upFrom_succ, Shape_IsScalarEquiv_loop1]
    have hd : s.drop k = s[k] :: s.drop (k + 1) := (List.drop_eq_getElem_cons hlt)
    simp only [gidx_lt s k hlt, bind, Except.bind, hd, List.all_cons]
    by_cases h1 : s[k] = 1
    · have := ih (k + 1) (by omega)
      simp only [Int.natCast_add, Int.cast_ofNat_Int] at this
      simp [h1, this]
    · simp [h1]; rfl

theorem Shape_IsScalarEquiv_eq (s : List Int) : Shape_IsScalarEquiv s = .ok (isScalarEquiv s) := by
  unfold Shape_IsScalarEquiv isScalarEquiv
  have hl := IsScalarEquiv_loop s s.length 0 (by simp)
  simp only [Int.cast_ofNat_Int, Int.natCast_zero, List.drop_zero] at hl
  cases s with
  | nil => rfl
  | cons d ds =>
    have hne : (len (d :: ds) == 0) = false := by
      have := len_nonneg ds; simp; omega
    simp only [hne, rangeUp_zero_len, hl, bind, Except.bind, Bool.false_eq_true, if_false]
    cases h : (d :: ds).all (· == 1) <;> simp [h] <;> rfl

theorem gidx_cons_succ {α} (x : α) (xs : List α) (k : Nat) : gidx (x :: xs) ((k : Int) + 1) = gidx xs (k : Int) := by
  have : ((k : Int) + 1) = ((k + 1 : Nat) : Int) := by simp
  rw [this, gidx_nat, gidx_nat]; simp
@[simp] theorem gidx_zero {α} (x : α) (xs : List α) : gidx (x :: xs) 0 = .ok x := by
  have := gidx_nat (x :: xs) 0; simpa using this
@[simp] theorem gidx_one {α} (x y : α) (xs : List α) : gidx (x :: y :: xs) 1 = .ok y := by
  have := gidx_nat (x :: y :: xs) 1; simpa using this

theorem Shape_IsColVec_eq (s : List Int) : Shape_IsColVec s = .ok (isColVec s) := by
  unfold Shape_IsColVec
  match s with
  | [] => rfl
  | [a] => rfl
  | [a, b] =>
    simp [isColVec, len, bind, Except.bind, pure, Except.pure]
    by_cases h : b = 1 <;> simp [h]
  | a :: b :: c :: r =>
    have h3 : ¬ (len r + 1 + 1 + 1 = 2) := by
      have := len_nonneg r; omega
    simp [h3, isColVec, pure, Except.pure]

theorem Shape_IsRowVec_eq (s : List Int) : Shape_IsRowVec s = .ok (isRowVec s) := by
  unfold Shape_IsRowVec
  match s with
  | [] => rfl
  | [a] => rfl
  | [a, b] =>
    simp [isRowVec, len, bind, Except.bind, pure, Except.pure]
    by_cases h : a = 1 <;> simp [h]
  | a :: b :: c :: r =>
    have h3 : ¬ (len r + 1 + 1 + 1 = 2) := by
      have := len_nonneg r; omega
    simp [h3, isRowVec, pure, Except.pure]

theorem Shape_IsVector_eq (s : List Int) : Shape_IsVector s = .ok (isVector s) := by
  unfold Shape_IsVector isVector
  simp only [Shape_IsColVec_eq, Shape_IsRowVec_eq, bind, Except.bind, pure, Except.pure]
  have e : ((s.length : Int) == 1) = (s.length == 1) := by
    cases h : s.length == 1 <;> simp_all <;> omega
  cases isColVec s <;> cases isRowVec s <;> simp [len, e]

/-! ### `Ltoi` -/

theorem Ltoi_loop1_eq (coords cs : List Int) :
    Ltoi_loop1 coords cs = .ok (if cs.all (· == 0) then Ctl.next () else
      Ctl.ret (-1, some "Scalar shape only allows 0 as an index")) := by
  induction cs with
  | nil => rfl
  | cons c cs ih =>
    rw [Ltoi_loop1]
    by_cases h : c = 0
    · subst h; simp [ih]
    · simp [h]; rfl

/-- what `Ltoi` does with the outcome of its main loop -/
def ltoiFin (r : GoM (Ctl (Int × GoErr) (Int × GoErr))) : GoM (Int × GoErr) := do
  match (← r) with
  | Ctl.ret r => pure r
  | Ctl.next s => pure (s.1, none)

theorem Ltoi_loop2_eq (coords shape strides : List Int) : ∀ (cs : List Int) (k : Nat) (a0 : Int),
    clsE (ltoiFin (Ltoi_loop2 coords shape strides (enumFrom k cs) a0 none)) =
      clsM (ltoi.go shape strides k a0 cs) := by
  intro cs
  induction cs with
  | nil => intro k a0; rfl
  | cons c cs ih =>
    intro k a0
    rw [enumFrom, Ltoi_loop2, ltoi.go]
    simp only [Shape_IsVector_eq, bind, Except.bind, pure, Except.pure]
    cases hsh : shape[k]? with
    | none =>
      have hge : (k : Int) ≥ len shape := by
        have := List.getElem?_eq_none_iff.mp hsh; unfold len; omega
      simp [hge, ltoiFin, clsE, clsM, throwErr, bind, Except.bind, pure, Except.pure]
    | some size =>
      have hk := (List.getElem?_eq_some_iff.mp hsh)
      have hlt : ¬ ((k : Int) ≥ len shape) := by
        have := hk.1; unfold len; omega
      simp only [hlt, decide_false, Bool.false_eq_true, if_false, gidx_lt shape k hk.1, hk.2]
      by_cases hc : (c < 0 || c ≥ size) = true
      · simp only [hc, if_true]
        have hc' : (decide (c < 0) || decide (c ≥ size)) = true := by simpa using hc
        simp [hc', ltoiFin, clsE, clsM, throwErr, bind, Except.bind, pure, Except.pure]
      · have hc' : (decide (c < 0) || decide (c ≥ size)) = false := by simpa using hc
        simp only [hc, hc', Bool.false_eq_true, if_false]
        by_cases hv : (isVector shape && strides.length == 1) = true
        · have hv' : (isVector shape && len strides == 1) = true := by
            simp only [Bool.and_eq_true] at hv ⊢
            refine ⟨hv.1, ?_⟩
            have := hv.2; simp [len] at this ⊢; omega
          simp only [hv, hv', if_true]
          cases hs0 : strides[0]? with
          | none =>
            have : strides = [] := by
              cases strides <;> simp_all
            subst this
            simp at hv
          | some st =>
            have h0 : gidx strides 0 = .ok st := by
              have := gidx_nat strides 0; simpa [hs0] using this
            simp only [h0]
            have := ih (k + 1) (a0 + st * c)
            simpa using this
        · have hv' : (isVector shape && len strides == 1) = false := by
            cases hiv : isVector shape
            · simp
            · simp only [hiv, Bool.true_and] at hv ⊢
              simp [len] at hv ⊢; omega
          simp only [hv, hv', Bool.false_eq_true, if_false]
          cases hst : strides[k]? with
          | none =>
            have hge : (k : Int) ≥ len strides := by
              have := List.getElem?_eq_none_iff.mp hst; unfold len; omega
            simp [hge, ltoiFin, clsE, clsM, throwErr, bind, Except.bind, pure, Except.pure]
          | some st =>
            have hk2 := (List.getElem?_eq_some_iff.mp hst)
            have hlt2 : ¬ ((k : Int) ≥ len strides) := by
              have := hk2.1; unfold len; omega
            simp only [hlt2, decide_false, Bool.false_eq_true, if_false, gidx_lt strides k hk2.1, hk2.2]
            have := ih (k + 1) (a0 + st * c)
            simpa using this

theorem Ltoi_eq (shape strides coords : List Int) :
    clsE (Ltoi shape strides coords) = clsM (ltoi shape strides coords) := by
  unfold Ltoi ltoi
  simp only [Shape_IsScalarEquiv_eq, bind, Except.bind, pure, Except.pure]
  by_cases hs : isScalarEquiv shape = true
  · simp only [hs, if_true, Ltoi_loop1_eq]
    by_cases hall : coords.all (· == 0) = true
    · simp [hall, clsE, clsM]
    · simp [hall, clsE, clsM, throwErr]
  · simp only [hs, Bool.false_eq_true, if_false]
    have := Ltoi_loop2_eq coords shape strides coords 0 0
    rw [← this]
    unfold ltoiFin enum
    cases h : Ltoi_loop2 coords shape strides (enumFrom 0 coords) 0 none with
    | error e => rfl
    | ok v => cases v <;> rfl

end TM.Gen

namespace TM.Gen
open TM
set_option linter.unusedSimpArgs false

/-! ### `ProdInts`, `Shape.TotalSize` -/
theorem ProdInts_loop1_eq (a cs : List Int) (acc : Int) :
    ProdInts_loop1 a cs acc = .ok (Ctl.next (acc * prod cs)) := by
  induction cs generalizing acc with
  | nil => simp [ProdInts_loop1, prod, pure, Except.pure]
  | cons c cs ih => rw [ProdInts_loop1]; simp [ih, prod, Int.mul_assoc]

theorem ProdInts_eq (a : List Int) : ProdInts a = .ok (prod a) := by
  unfold ProdInts
  cases a with
  | nil => rfl
  | cons x xs =>
    have hne : ¬ (len xs + 1 = 0) := by
      have := len_nonneg xs; omega
    simp [hne, ProdInts_loop1_eq, bind, Except.bind, pure, Except.pure]

theorem Shape_TotalSize_eq (s : List Int) : Shape_TotalSize s = .ok (totalSize s) := by
  unfold Shape_TotalSize totalSize
  simp [ProdInts_eq, bind, Except.bind, pure, Except.pure]

/-! ### `CheckSlice`, `SliceDetails` -/
theorem SliceDetails_eq (s : GoSlice) (size : Int) :
    (match SliceDetails s size with
     | .ok (a, b, c, none) => Cls.val (a, b, c)
     | .ok (_, _, _, some _) => Cls.err
     | .error (.panic _) => Cls.panic
     | .error .fuel => Cls.fuel) = clsM (sliceDetails s size) := by
  unfold SliceDetails sliceDetails
  cases s with
  | none => rfl
  | some sl =>
    simp only [CheckSlice, Slice_Start, Slice_End, Slice_Step, bind, Except.bind, pure, Except.pure, Option.isNone_some,
      Bool.false_eq_true, if_false]
    by_cases h1 : sl.start > sl.stop
    · simp [h1, clsM, throwErr]
    · by_cases h2 : sl.start < 0
      · simp [h1, h2, clsM, throwErr]
      · by_cases h3 : (sl.step == 0 && sl.stop - sl.start > 1) = true
        · have h3' : (sl.step == 0 && decide (sl.stop - sl.start > 1)) = true := by simpa using h3
          simp [h1, h2, h3, h3', clsM, throwErr]
        · have h3' : (sl.step == 0 && decide (sl.stop - sl.start > 1)) = false := by simpa using h3
          by_cases h4 : sl.start ≥ size
          · simp [h1, h2, h3, h3', h4, clsM, throwErr]
          · by_cases h5 : sl.stop > size <;> simp [h1, h2, h3, h3', h4, h5, clsM]
end TM.Gen
namespace TM.Gen
open TM
set_option linter.unusedSimpArgs false

/-! ### `Shape.CalcStrides` -/
theorem prod_snoc (t : List Int) (x : Int) : prod (t ++ [x]) = prod t * x := by
  induction t with
  | nil => simp [prod]
  | cons a t ih => simp [prod, ih, Int.mul_assoc]

theorem calcStrides_snoc (t : List Int) (x : Int) :
    calcStrides (t ++ [x]) = (calcStrides t).map (· * x) ++ [1] := by
  induction t with
  | nil => simp [calcStrides, prod]
  | cons a t ih => simp [calcStrides, ih, prod_snoc]

theorem downFrom_succ (n : Nat) (x : Int) : downFrom (n + 1) x = x :: downFrom n (x - 1) := rfl

theorem gset_lt {α} (l : List α) (k : Nat) (v : α) (h : k < l.length) : gset l (k : Int) v = .ok (l.set k v) := by
  unfold gset len
  have : ¬ ((k : Int) < 0 ∨ (k : Int) ≥ (l.length : Int)) := by omega
  simp [this, pure, Except.pure]
  omega

theorem CalcStrides_loop (s : List Int) (hpos : ∀ d ∈ s, 0 ≤ d) : ∀ (m : Nat) (acc : Int) (rv : List Int),
    m ≤ s.length → rv.length = s.length →
    Shape_CalcStrides_loop1 s (downFrom m ((m : Int) - 1)) acc rv =
      .ok (Ctl.next (acc * prod (s.take m), (calcStrides (s.take m)).map (· * acc) ++ rv.drop m)) := by
  intro m
  induction m with
  | zero => intro acc rv _ _; simp [downFrom, Shape_CalcStrides_loop1, prod, calcStrides, pure, Except.pure]
  | succ m ih =>
    intro acc rv hm hrv
    have hlt : m < s.length := by omega
    have e1 : ((m + 1 : Nat) : Int) - 1 = (m : Int) := by omega
    rw [e1, downFrom_succ, Shape_CalcStrides_loop1]
    have hd : 0 ≤ s[m] := hpos _ (List.getElem_mem hlt)
    have hd' : ¬ (s[m] < 0) := by omega
    simp only [gset_lt rv m acc (by omega), gidx_lt s m hlt, bind, Except.bind, hd', decide_false,
      Bool.false_eq_true, if_false]
    rw [ih (acc * s[m]) (rv.set m acc) (by omega) (by simp [hrv])]
    have ht : s.take (m + 1) = s.take m ++ [s[m]] := by
      rw [List.take_add_one, List.getElem?_eq_getElem hlt]; rfl
    have hmr : m < rv.length := by omega
    have hdrop : (rv.set m acc).drop m = acc :: rv.drop (m + 1) := by
      rw [List.drop_eq_getElem_cons (by simp; omega)]
      simp [List.drop_set]
    rw [ht, hdrop, prod_snoc, calcStrides_snoc]
    simp [Int.mul_assoc, Int.mul_comm, Int.mul_left_comm]
end TM.Gen
namespace TM.Gen
open TM
set_option linter.unusedSimpArgs false

theorem calcStrides_len (s : List Int) : (calcStrides s).length = s.length := by
  induction s with
  | nil => rfl
  | cons d ds ih => simp [calcStrides, ih]

theorem gmake_len (s : List Int) : gmake (len s) = .ok (List.replicate s.length 0) := by
  unfold gmake len
  have h : ¬ ((s.length : Int) < 0) := by omega
  simp [h, pure, Except.pure]

/-- `Shape.CalcStrides` (source) is the model's `calcStrides` on every shape without a negative
    dimension (on those the source panics, as the model's caller `Dense.newRow` never builds one). -/
theorem Shape_CalcStrides_eq (s : List Int) (hpos : ∀ d ∈ s, 0 ≤ d) :
    Shape_CalcStrides s = .ok (calcStrides s) := by
  unfold Shape_CalcStrides Shape_IsScalar
  cases hs : s with
  | nil => rfl
  | cons x xs =>
    rw [← hs]
    have hne : (len s == 0) = false := by
      rw [hs]; have := len_nonneg xs; simp; omega
    have hl : ((s.length : Int) - 1 - 0 + 1).toNat = s.length := by omega
    have hne' : (((s.length : Nat) : Int) == 0) = false := by simpa [len] using hne
    have hg : gmake ((s.length : Nat) : Int) = .ok (List.replicate s.length 0) := gmake_len s
    simp only [bind, Except.bind, pure, Except.pure, rangeDown, len_eq, hl, hne', hg, Bool.false_eq_true, if_false]
    rw [CalcStrides_loop s hpos s.length 1 (List.replicate s.length 0) (Nat.le_refl _) (by simp)]
    simp [calcStrides_len]
end TM.Gen
namespace TM.Gen
open TM
set_option linter.unusedSimpArgs false

/-! ### `Shape.CalcStridesColMajor` -/
theorem ColMajor_loop (s : List Int) (hpos : ∀ d ∈ s, 0 ≤ d) : ∀ (n k : Nat) (acc : Int) (rv : List Int),
    k + n = s.length → rv.length = s.length →
    Shape_CalcStridesColMajor_loop1 s (upFrom n (k : Int)) acc rv =
      .ok (Ctl.next (acc * prod (s.drop k), rv.take k ++ prefixProds acc (s.drop k))) := by
  intro n
  induction n with
  | zero =>
    intro k acc rv hk hrv
    have : s.drop k = [] := List.drop_eq_nil_of_le (by omega)
    have h2 : rv.take k = rv := List.take_of_length_le (by omega)
    simp [upFrom, Shape_CalcStridesColMajor_loop1, this, prod, prefixProds, pure, Except.pure, h2]
  | succ n ih =>
    intro k acc rv hk hrv
    have hlt : k < s.length := by omega
    rw [upFrom_succ, Shape_CalcStridesColMajor_loop1]
    have hd : 0 ≤ s[k] := hpos _ (List.getElem_mem hlt)
    have hd' : ¬ (s[k] < 0) := by omega
    simp only [gset_lt rv k acc (by omega), gidx_lt s k hlt, bind, Except.bind, hd', decide_false,
      Bool.false_eq_true, if_false]
    have := ih (k + 1) (acc * s[k]) (rv.set k acc) (by omega) (by simp [hrv])
    simp only [Int.natCast_add, Int.cast_ofNat_Int] at this
    rw [this]
    have hdk : s.drop k = s[k] :: s.drop (k + 1) := List.drop_eq_getElem_cons hlt
    have htk : (rv.set k acc).take (k + 1) = rv.take k ++ [acc] := by
      rw [List.take_add_one]
      simp [List.getElem?_set, (by omega : k < rv.length), List.take_set]
      exact List.set_eq_of_length_le (by simp; omega)
    rw [hdk, htk]
    simp [prod, prefixProds, Int.mul_assoc]

theorem Shape_CalcStridesColMajor_eq (s : List Int) (hpos : ∀ d ∈ s, 0 ≤ d) :
    Shape_CalcStridesColMajor s = .ok (calcStridesCol s) := by
  unfold Shape_CalcStridesColMajor calcStridesCol
  simp only [Shape_IsScalarEquiv_eq, Shape_IsVector_eq, bind, Except.bind, pure, Except.pure]
  by_cases hse : isScalarEquiv s = true
  · simp [hse]
  · simp only [hse, Bool.false_eq_true, if_false, gmake_len]
    have hne : s ≠ [] := by
      intro h; subst h; simp [isScalarEquiv] at hse
    obtain ⟨x, xs, hs⟩ := List.exists_cons_of_ne_nil hne
    by_cases hv : isVector s = true
    · simp only [hv, if_true]
      have h1 : List.replicate s.length (0 : Int) = 0 :: List.replicate xs.length 0 := by
        rw [hs]; rfl
      rw [h1]
      have : gset (0 :: List.replicate xs.length (0 : Int)) 0 1 = .ok (1 :: List.replicate xs.length 0) := by
        have := gset_lt (0 :: List.replicate xs.length (0 : Int)) 0 1 (by simp)
        simpa using this
      simp only [this]
      have h2 : gslice (1 :: List.replicate xs.length (0 : Int)) 0 1 = .ok [1] := by
        unfold gslice
        have : ¬ ((0:Int) < 0 ∨ (1:Int) < 0 ∨ (1 : Int) > len (1 :: List.replicate xs.length (0:Int))) := by
          have := len_nonneg (List.replicate xs.length (0:Int)); simp [len_cons]; omega
        have hx : ¬ ((xs.length : Int) + 1 < 1) := by omega
        simp [pure, Except.pure, len, hx]
      simp [h2]
    · simp only [hv, Bool.false_eq_true, if_false, rangeUp_zero_len]
      have := ColMajor_loop s hpos s.length 0 1 (List.replicate s.length 0) (by simp) (by simp)
      simp only [Int.cast_ofNat_Int, List.drop_zero, List.take_zero, List.nil_append] at this
      simp [this]
end TM.Gen

namespace TM.Gen
open TM
set_option linter.unusedSimpArgs false

/-! ### `Shape.IsVectorLike` -/
theorem IsVectorLike_loop (s cs : List Int) (n : Int) :
    Shape_IsVectorLike_loop1 s cs n = .ok (Ctl.next (n + ((cs.filter (· != 1)).length : Int))) := by
  induction cs generalizing n with
  | nil => simp [Shape_IsVectorLike_loop1, pure, Except.pure]
  | cons c cs ih =>
    rw [Shape_IsVectorLike_loop1]
    by_cases h : c = 1
    · subst h; simp [ih]
    · have h' : (c != 1) = true := by simpa using h
      simp [h, h', ih, List.filter_cons]; omega

theorem Shape_IsVectorLike_eq (s : List Int) : Shape_IsVectorLike s = .ok (isVectorLike s) := by
  unfold Shape_IsVectorLike isVectorLike
  simp only [IsVectorLike_loop, bind, Except.bind, pure, Except.pure]
  congr 1
  generalize (s.filter (· != 1)).length = k
  cases k with
  | zero => simp
  | succ k => cases k <;> simp <;> omega

/-! ### `Shape.Eq` -/
theorem Shape_Eq_loop (other s : List Int) : ∀ (cs : List Int) (k : Nat), k + cs.length ≤ other.length →
    Shape_Eq_loop1 other s (enumFrom k cs) =
      .ok (if (other.drop k).take cs.length == cs then Ctl.next () else Ctl.ret false) := by
  intro cs
  induction cs with
  | nil => intro k _; simp [enumFrom, Shape_Eq_loop1, pure, Except.pure]
  | cons c cs ih =>
    intro k hk
    have hlt : k < other.length := by simp at hk; omega
    rw [enumFrom, Shape_Eq_loop1]
    have hd : other.drop k = other[k] :: other.drop (k + 1) := List.drop_eq_getElem_cons hlt
    simp only [gidx_lt other k hlt, bind, Except.bind, hd, List.length_cons, List.take_succ_cons]
    by_cases h1 : other[k] = c
    · have := ih (k + 1) (by simp at hk; omega)
      simp [h1, this]
    · have h1' : (other[k] != c) = true := by simpa using h1
      simp [h1, h1', pure, Except.pure]

end TM.Gen
namespace TM.Gen
open TM
set_option linter.unusedSimpArgs false
set_option maxRecDepth 2000

theorem Shape_Eq_tail (s other : List Int) (hlen : s.length = other.length) :
    (do
      let r ← Shape_Eq_loop1 other s (enum s)
      match r with
      | Ctl.ret r__ => pure r__
      | Ctl.next _ => pure true : GoM Bool) = .ok (s == other) := by
  have := Shape_Eq_loop other s s 0 (by omega)
  simp only [enum, this, bind, Except.bind, List.drop_zero, hlen, List.take_length]
  by_cases h : other = s
  · subst h; simp [pure, Except.pure]
  · have h2 : (other == s) = false := by simpa using h
    have h3 : (s == other) = false := by simpa using (fun e : s = other => h e.symm)
    simp [h2, h3, pure, Except.pure]

theorem len_eq_two {l : List Int} : (len l == 2) = true ↔ ∃ a b, l = [a, b] := by
  constructor
  · intro h
    match l with
    | [a, b] => exact ⟨a, b, rfl⟩
    | [] => simp [len] at h
    | [_] => simp [len] at h
    | _ :: _ :: _ :: r => simp [len] at h; omega
  · rintro ⟨a, b, rfl⟩; rfl

theorem len_eq_one {l : List Int} : (len l == 1) = true ↔ ∃ a, l = [a] := by
  constructor
  · intro h
    match l with
    | [a] => exact ⟨a, rfl⟩
    | [] => simp [len] at h
    | _ :: _ :: r => simp [len] at h; omega
  · rintro ⟨a, rfl⟩; rfl

theorem Shape_Eq_eq (s other : List Int) : Shape_Eq s other = .ok (shapeEq s other) := by
  unfold Shape_Eq shapeEq
  simp only [Shape_IsScalar, Shape_IsVector_eq, Shape_IsColVec_eq, Shape_IsRowVec_eq, bind, Except.bind, pure, Except.pure]
  by_cases hA : (len s == 0 && len other == 0) = true
  · have h1 : s = [] := by
      cases s with
      | nil => rfl
      | cons x xs => have := len_nonneg xs; simp at hA; omega
    have h2 : other = [] := by
      cases other with
      | nil => rfl
      | cons x xs => have := len_nonneg xs; simp at hA; omega
    subst h1 h2; rfl
  · have hA' : (isScalar s && isScalar other) = false := by
      cases s <;> cases other <;> simp_all [isScalar, len]
    by_cases hC1 : (len s == 2 && len other == 1) = true
    · obtain ⟨⟨a, b, rfl⟩, ⟨c, rfl⟩⟩ : (∃ a b, s = [a, b]) ∧ (∃ c, other = [c]) := by
        simp only [Bool.and_eq_true] at hC1; exact ⟨len_eq_two.mp hC1.1, len_eq_one.mp hC1.2⟩
      simp [isScalar, isVector, isColVec, isRowVec, len]
      by_cases h1 : b = 1 <;> by_cases h2 : a = 1 <;> by_cases h3 : 1 < a <;> by_cases h4 : 1 < b <;>
        by_cases h5 : a = c <;> by_cases h6 : b = c <;> simp_all
      all_goals first | omega | (split <;> simp_all)
    · by_cases hC2 : (len s == 1 && len other == 2) = true
      · obtain ⟨⟨a, rfl⟩, ⟨b, c, rfl⟩⟩ : (∃ a, s = [a]) ∧ (∃ b c, other = [b, c]) := by
          simp only [Bool.and_eq_true] at hC2; exact ⟨len_eq_one.mp hC2.1, len_eq_two.mp hC2.2⟩
        simp [isScalar, isVector, isColVec, isRowVec, len]
        by_cases h1 : c = 1 <;> by_cases h2 : b = 1 <;> by_cases h3 : 1 < b <;> by_cases h4 : 1 < c <;>
          by_cases h5 : b = a <;> by_cases h6 : c = a <;> simp_all
        all_goals first | omega | (split <;> simp_all)
      · have hC1' : (len s == 2 && len other == 1) = false := by simpa using hC1
        have hC2' : (len s == 1 && len other == 2) = false := by simpa using hC2
        have hm1 : (isVector s && isVector other && s.length == 2 && other.length == 1) = false := by
          cases h : (isVector s && isVector other)
          · simp
          · simp only [Bool.true_and]
            have : ((s.length == 2) && (other.length == 1)) = (len s == 2 && len other == 1) := by
              have e1 : (len s == 2) = (s.length == 2) := by
                cases h : s.length == 2 <;> simp_all [len] <;> omega
              have e2 : (len other == 1) = (other.length == 1) := by
                cases h : other.length == 1 <;> simp_all [len] <;> omega
              rw [e1, e2]
            simpa [Bool.and_assoc, this] using hC1'
        have hm2 : (isVector s && isVector other && s.length == 1 && other.length == 2) = false := by
          cases h : (isVector s && isVector other)
          · simp
          · simp only [Bool.true_and]
            have : ((s.length == 1) && (other.length == 2)) = (len s == 1 && len other == 2) := by
              have e1 : (len s == 1) = (s.length == 1) := by
                cases h : s.length == 1 <;> simp_all [len] <;> omega
              have e2 : (len other == 2) = (other.length == 2) := by
                cases h : other.length == 2 <;> simp_all [len] <;> omega
              rw [e1, e2]
            simpa [Bool.and_assoc, this] using hC2'
        have hA2 : (len s == 0 && len other == 0) = false := by simpa using hA
        simp only [hA', hA2, hm1, hm2, hC1', hC2', Bool.false_eq_true, if_false]
        by_cases hl : s.length = other.length
        · have h0 : (len s != len other) = false := by simp [len, hl]
          have hloop := Shape_Eq_loop other s s 0 (by omega)
          simp only [List.drop_zero, hl, List.take_length] at hloop
          simp only [enum, hloop, h0, Bool.false_eq_true, if_false]
          by_cases he : other = s
          · subst he; simp
          · have h2 : (other == s) = false := by simpa using he
            have h3 : (s == other) = false := by simpa using (fun e : s = other => he e.symm)
            simp [h2, h3]
            have hlen : len s = len other := by simp [len, hl]
            have : ¬ (len s = 0) := by
              intro h; rw [h] at hlen; simp [h, ← hlen] at hA2
            simp [this]
        · have h0 : (len s != len other) = true := by simp [len]; omega
          have h1 : (s == other) = false := by
            simp; intro e; exact hl (by rw [e])
          simp only [h0, h1, if_true]
          repeat' split
          all_goals simp_all
end TM.Gen

namespace TM.Gen
open TM
set_option linter.unusedSimpArgs false

/-! ### `Shape.S` -/

/-- exact form of the translated `SliceDetails` in terms of the model function -/
theorem SliceDetails_exact (s : GoSlice) (size : Int) :
    ∃ r, SliceDetails s size = .ok r ∧
      (match sliceDetails s size with
       | .ok (a, b, c) => r = (a, b, c, none)
       | .error (.err _) => r.2.2.2.isSome = true
       | .error (.panic _) => False) := by
  unfold SliceDetails sliceDetails
  cases s with
  | none => exact ⟨_, rfl, rfl⟩
  | some sl =>
    simp only [CheckSlice, Slice_Start, Slice_End, Slice_Step, bind, Except.bind, pure, Except.pure, Option.isNone_some,
      Bool.false_eq_true, if_false]
    by_cases h1 : sl.start > sl.stop
    · exact ⟨_, by simp [h1]; rfl, by simp [h1, throwErr]⟩
    · by_cases h2 : sl.start < 0
      · exact ⟨_, by simp [h1, h2]; rfl, by simp [h1, h2, throwErr]⟩
      · by_cases h3 : (sl.step == 0 && sl.stop - sl.start > 1) = true
        · have h3' : (sl.step == 0 && decide (sl.stop - sl.start > 1)) = true := by simpa using h3
          exact ⟨_, by simp [h1, h2, h3']; rfl, by simp [h1, h2, h3, throwErr]⟩
        · have h3' : (sl.step == 0 && decide (sl.stop - sl.start > 1)) = false := by simpa using h3
          by_cases h4 : sl.start ≥ size
          · exact ⟨_, by simp [h1, h2, h3', h4]; rfl, by simp [h1, h2, h3, h4, throwErr]⟩
          · by_cases h5 : sl.stop > size
            · exact ⟨_, by simp [h1, h2, h3', h4, h5]; rfl, by simp [h1, h2, h3, h4, h5]⟩
            · exact ⟨_, by simp [h1, h2, h3', h4, h5]; rfl, by simp [h1, h2, h3, h4, h5]⟩
end TM.Gen
namespace TM.Gen
open TM
set_option linter.unusedSimpArgs false

theorem gdiv_ne (a b : Int) (h : b ≠ 0) : gdiv a b = .ok (Int.tdiv a b) := by
  unfold gdiv; simp [h, pure, Except.pure]

theorem take_set_succ (rv : List Int) (k : Nat) (v : Int) (h : k < rv.length) :
    (rv.set k v).take (k + 1) = rv.take k ++ [v] := by
  rw [List.take_add_one]
  simp [List.getElem?_set, h, List.take_set]
  exact List.set_eq_of_length_le (by simp; omega)

theorem S_loop1 (s : List Int) (slices : List GoSlice) : ∀ (rest : List Int) (k : Nat) (rv : List Int),
    s.drop k = rest → rv.length = s.length →
    match shapeS.loop rest (slices.drop k) with
    | .ok ps => Shape_S_loop1 s slices (enumFrom k rest) none rv = .ok (Ctl.next (none, rv.take k ++ ps.map (·.1)))
    | .error (.err _) => ∃ rv' e, Shape_S_loop1 s slices (enumFrom k rest) none rv = .ok (Ctl.ret (rv', some e))
    | .error (.panic _) => False := by
  intro rest
  induction rest with
  | nil =>
    intro k rv hk hrv
    have : rv.take k = rv := List.take_of_length_le (by
      have := List.drop_eq_nil_iff.mp hk; omega)
    simp [shapeS.loop, enumFrom, Shape_S_loop1, this, pure, Except.pure]
  | cons size rest ih =>
    intro k rv hk hrv
    have hlt : k < s.length := by
      rcases Nat.lt_or_ge k s.length with h | h
      · exact h
      · have : s.drop k = [] := List.drop_eq_nil_of_le h
        rw [this] at hk; cases hk
    have hrest : s.drop (k + 1) = rest := by
      have := List.drop_eq_getElem_cons hlt
      rw [this] at hk; injection hk
    have hkr : k < rv.length := by omega
    -- the slice of this axis
    have hsl : (if decide ((k : Int) ≤ len slices - 1) then gidx slices (k : Int) else (pure none : GoM GoSlice))
        = .ok ((slices.drop k).head?.join) := by
      by_cases hks : k < slices.length
      · have : ((k : Int) ≤ len slices - 1) := by unfold len; omega
        simp [this, gidx_lt slices k hks, List.head?_drop, List.getElem?_eq_getElem hks]
      · have : ¬ ((k : Int) ≤ len slices - 1) := by unfold len; omega
        have h2 : slices[k]? = none := List.getElem?_eq_none (by omega)
        simp [this, List.head?_drop, h2, pure, Except.pure]
    rw [shapeS.loop]
    obtain ⟨r, hr, hrel⟩ := SliceDetails_exact ((slices.drop k).head?.join) size
    cases hsd : sliceDetails ((slices.drop k).head?.join) size with
    | error e =>
      rw [hsd] at hrel
      cases e with
      | panic t => exact hrel.elim
      | err t =>
        rw [enumFrom, Shape_S_loop1]
        simp only [bind, Except.bind, throwErr]
        obtain ⟨r1, r2, r3, r4⟩ := r
        simp only at hrel
        cases r4 with
        | none => simp at hrel
        | some e =>
          refine ⟨rv, e, ?_⟩
          by_cases hks : decide ((k : Int) ≤ len slices - 1) = true
          · simp only [hks, if_true] at hsl
            simp only [hks, if_true, hsl, hr, bind, Except.bind, pure, Except.pure, Option.isSome_some]
          · simp only [hks, if_false, Bool.false_eq_true] at hsl
            simp only [hks, if_false, Bool.false_eq_true]
            injection hsl with hsl
            rw [← hsl] at hr
            simp only [hr, bind, Except.bind, pure, Except.pure, Option.isSome_some]
            rfl
    | ok v =>
      obtain ⟨a, b, c⟩ := v
      rw [hsd] at hrel
      simp only at hrel
      subst hrel
      have hdrop : (slices.drop k).tail = slices.drop (k + 1) := by simp [List.tail_drop]
      -- the value written at position k
      let n : Int := if c > 0 then (if goDiv (b - a) c ≤ 0 then 1 else goDiv (b - a) c) else b - a
      have hn : n = (if c > 0 then (if goDiv (b - a) c ≤ 0 then 1 else goDiv (b - a) c) else b - a) := rfl
      have ih' := ih (k + 1) (rv.set k n) hrest (by simp [hrv])
      rw [← hdrop] at ih'
      -- Go side: everything up to the recursive call
      have hgo : Shape_S_loop1 s slices (enumFrom k (size :: rest)) none rv =
          Shape_S_loop1 s slices (enumFrom (k + 1) rest) none (rv.set k n) := by
        rw [enumFrom, Shape_S_loop1]
        have hsd' : ∀ sl, (.ok sl : GoM GoSlice) = .ok ((slices.drop k).head?.join) →
            SliceDetails sl size = .ok (a, b, c, none) := by
          intro sl h; injection h with h; rw [h]; exact hr
        by_cases hks : decide ((k : Int) ≤ len slices - 1) = true
        · simp only [hks, if_true] at hsl
          simp only [hks, if_true, hsl, hr, bind, Except.bind, pure, Except.pure, Option.isSome_none, Bool.false_eq_true, if_false]
          by_cases hc : c > 0
          · have hc0 : c ≠ 0 := by omega
            have hgi : gidx (rv.set k ((b - a).tdiv c)) (k : Int) = .ok ((b - a).tdiv c) := by
              rw [gidx_lt _ k (by simp; omega)]; simp
            simp only [hc, decide_true, if_true, gdiv_ne _ _ hc0, gset_lt rv k _ hkr, hgi]
            by_cases hq : (b - a).tdiv c ≤ 0
            · simp [hq, hn, hc, goDiv, gset_lt _ k _ (by simp; omega : k < (rv.set k ((b - a).tdiv c)).length)]
            · simp [hq, hn, hc, goDiv]
          · simp [hc, hn, gset_lt rv k _ hkr]
        · simp only [hks, if_false, Bool.false_eq_true] at hsl
          injection hsl with hsl
          rw [← hsl] at hr
          simp only [hks, if_false, Bool.false_eq_true, hr, bind, Except.bind, pure, Except.pure, Option.isSome_none]
          by_cases hc : c > 0
          · have hc0 : c ≠ 0 := by omega
            have hgi : gidx (rv.set k ((b - a).tdiv c)) (k : Int) = .ok ((b - a).tdiv c) := by
              rw [gidx_lt _ k (by simp; omega)]; simp
            simp only [hc, decide_true, if_true, gdiv_ne _ _ hc0, gset_lt rv k _ hkr, hgi]
            by_cases hq : (b - a).tdiv c ≤ 0
            · simp [hq, hn, hc, goDiv, gset_lt _ k _ (by simp; omega : k < (rv.set k ((b - a).tdiv c)).length)]
            · simp [hq, hn, hc, goDiv]
          · simp [hc, hn, gset_lt rv k _ hkr]
      rw [hgo]
      simp only [bind, Except.bind]
      cases hl : shapeS.loop rest (slices.drop k).tail with
      | error e =>
        rw [hl] at ih'
        cases e with
        | err t => simpa using ih'
        | panic t => exact ih'.elim
      | ok ps =>
        rw [hl] at ih'
        simp only [pure, Except.pure]
        rw [ih', take_set_succ rv k n hkr]
        simp [hn]

end TM.Gen
namespace TM.Gen
open TM
set_option linter.unusedSimpArgs false

/-- the dimension-dropping loop of `Shape.S` in terms of original axis numbers -/
def dropF (slices : List GoSlice) : Nat → List Int → List Int
  | _, [] => []
  | j, n :: r => if n == 1 && (slices[j]?.join).isSome then dropF slices (j + 1) r else n :: dropF slices (j + 1) r

theorem gslice_take {α} (l : List α) (d : Nat) (h : d ≤ l.length) : gslice l 0 (d : Int) = .ok (l.take d) := by
  unfold gslice len
  have : ¬ ((0 : Int) < 0 ∨ (d : Int) < 0 ∨ (d : Int) > (l.length : Int)) := by omega
  simp [this, pure, Except.pure]
  omega

theorem gslice_drop {α} (l : List α) (d : Nat) (h : d ≤ l.length) : gslice l (d : Int) (len l) = .ok (l.drop d) := by
  unfold gslice len
  have : ¬ ((d : Int) < 0 ∨ (l.length : Int) < (d : Int) ∨ (l.length : Int) > (l.length : Int)) := by omega
  simp [this, pure, Except.pure]
  omega

def ctlRv : Ctl (List Int × GoErr) (Int × Int × Int × List Int) → Option (List Int)
  | Ctl.next s => some s.2.2.2
  | Ctl.ret _ => none

theorem S_loop2 (slices : List GoSlice) : ∀ (rest kept : List Int) (j fuel : Nat),
    fuel ≥ rest.length + 1 → kept.length ≤ j →
    (Shape_S_loop2 slices fuel (kept.length : Int) ((kept.length : Int) + rest.length)
        ((j : Int) - kept.length) (kept ++ rest)).map ctlRv = .ok (some (kept ++ dropF slices j rest)) := by
  intro rest
  induction rest with
  | nil =>
    intro kept j fuel hf hj
    obtain ⟨f, rfl⟩ : ∃ f, fuel = f + 1 := ⟨fuel - 1, by omega⟩
    rw [Shape_S_loop2]
    simp [dropF, pure, Except.pure, Except.map, ctlRv]
  | cons n rest ih =>
    intro kept j fuel hf hj
    obtain ⟨f, rfl⟩ : ∃ f, fuel = f + 1 := ⟨fuel - 1, by simp at hf; omega⟩
    rw [Shape_S_loop2]
    have hlt : ((kept.length : Int) < (kept.length : Int) + ((n :: rest).length : Nat)) := by simp; omega
    have hgi : gidx (kept ++ n :: rest) (kept.length : Int) = .ok n := by
      rw [gidx_lt _ _ (by simp)]; simp
    have hoff : (j : Int) - kept.length + kept.length = (j : Int) := by omega
    simp only [hlt, decide_true, Bool.not_true, Bool.false_eq_true, if_false, hgi, bind, Except.bind, hoff]
    have hf' : f ≥ rest.length + 1 := by simp at hf; omega
    -- the two possible continuations, in the form of the induction hypothesis
    have keepIH := ih (kept ++ [n]) (j + 1) f hf' (by simp; omega)
    have dropIH := ih kept (j + 1) f hf' (by omega)
    have eK1 : ((kept.length : Int) + 1) = ((kept ++ [n]).length : Int) := by simp
    have eK2 : ((kept.length : Int) + ((n :: rest).length : Nat)) = ((kept ++ [n]).length : Int) + rest.length := by
      simp; omega
    have eK3 : ((j : Int) - kept.length) = ((j + 1 : Nat) : Int) - ((kept ++ [n]).length : Int) := by simp; omega
    have eK4 : kept ++ n :: rest = (kept ++ [n]) ++ rest := by simp
    have keep : Except.map ctlRv (Shape_S_loop2 slices f ((kept.length : Int) + 1) ((kept.length : Int) + ((n :: rest).length : Nat))
        ((j : Int) - kept.length) (kept ++ n :: rest)) = .ok (some (kept ++ n :: dropF slices (j + 1) rest)) := by
      rw [eK1, eK2, eK3, eK4, keepIH]; simp
    have eD1 : ((kept.length : Int) - 1 + 1) = (kept.length : Int) := by omega
    have eD2 : ((kept.length : Int) + ((n :: rest).length : Nat) - 1) = (kept.length : Int) + rest.length := by simp; omega
    have eD3 : ((j : Int) - kept.length + 1) = ((j + 1 : Nat) : Int) - (kept.length : Int) := by simp; omega
    have drop : Except.map ctlRv (Shape_S_loop2 slices f ((kept.length : Int) - 1 + 1) ((kept.length : Int) + ((n :: rest).length : Nat) - 1)
        ((j : Int) - kept.length + 1) (kept ++ rest)) = .ok (some (kept ++ dropF slices (j + 1) rest)) := by
      rw [eD1, eD2, eD3, dropIH]
    have hs1 : gslice (kept ++ n :: rest) 0 (kept.length : Int) = .ok kept := by
      rw [gslice_take _ _ (by simp)]; simp
    have hs2 : gslice (kept ++ n :: rest) ((kept.length : Int) + 1) (len (kept ++ n :: rest)) = .ok rest := by
      have : ((kept.length : Int) + 1) = ((kept.length + 1 : Nat) : Int) := by simp
      rw [this, gslice_drop _ _ (by simp)]; simp
    by_cases hn : n = 1
    · subst hn
      by_cases hjs : j < slices.length
      · have hle : ((j : Int) ≤ len slices - 1) := by unfold len; omega
        simp only [hle, decide_true, Bool.and_true, BEq.rfl, if_true, gidx_lt slices j hjs]
        cases hg : slices[j] with
        | none =>
          have : slices[j]?.join = none := by simp [List.getElem?_eq_getElem hjs, hg]
          simp only [Option.isSome_none, Bool.false_eq_true, if_false]
          rw [keep]
          simp [dropF, this]
        | some sl =>
          have : slices[j]?.join = some sl := by simp [List.getElem?_eq_getElem hjs, hg]
          simp only [Option.isSome_some, if_true]
          rw [hs1, hs2]
          simp only []
          rw [drop]
          simp [dropF, this]
      · have hle : ¬ ((j : Int) ≤ len slices - 1) := by unfold len; omega
        have h2 : slices[j]? = none := List.getElem?_eq_none (by omega)
        simp only [hle, decide_false, Bool.and_false, Bool.false_eq_true, if_false]
        rw [keep]
        simp [dropF, h2]
    · have hn' : (n == 1) = false := by simpa using hn
      simp only [hn', Bool.false_and, Bool.false_eq_true, if_false]
      rw [keep]
      simp [dropF, hn']
end TM.Gen
namespace TM.Gen
open TM
set_option linter.unusedSimpArgs false

theorem shapeS_loop_filter (slices : List GoSlice) : ∀ (rest : List Int) (k : Nat) (ps : List (Int × Bool)),
    shapeS.loop rest (slices.drop k) = .ok ps →
    (ps.filter (fun (n, given) => !(n == 1 && given))).map (·.1) = dropF slices k (ps.map (·.1)) ∧ ps.length = rest.length := by
  intro rest
  induction rest with
  | nil => intro k ps h; simp [shapeS.loop] at h; cases h; simp [dropF]
  | cons size rest ih =>
    intro k ps h
    have hdrop : (slices.drop k).tail = slices.drop (k + 1) := by simp [List.tail_drop]
    have hg : (slices.drop k).head?.join = slices[k]?.join := by simp [List.head?_drop]
    rw [shapeS.loop, hg, hdrop] at h
    cases hsd : sliceDetails (slices[k]?.join) size with
    | error e => rw [hsd] at h; simp [bind, Except.bind] at h
    | ok v =>
      obtain ⟨a, b, c⟩ := v
      rw [hsd] at h
      simp only [bind, Except.bind] at h
      cases hl : shapeS.loop rest (slices.drop (k + 1)) with
      | error e => rw [hl] at h; simp at h
      | ok tl =>
        rw [hl] at h
        simp only [pure, Except.pure] at h
        injection h with h
        subst h
        obtain ⟨ih1, ih2⟩ := ih (k + 1) tl hl
        refine ⟨?_, by simp [ih2]⟩
        simp only [List.map_cons, dropF]
        by_cases hd : ((if c > 0 then (if goDiv (b - a) c ≤ 0 then 1 else goDiv (b - a) c) else b - a) == 1 &&
            (slices[k]?.join).isSome) = true
        · simp only [List.filter_cons, hd, Bool.not_true, Bool.false_eq_true, if_false, if_true]
          exact ih1
        · have hd' := hd
          simp only [Bool.not_eq_true] at hd'
          simp only [List.filter_cons, hd', Bool.not_false, if_true, List.map_cons, Bool.false_eq_true, if_false]
          rw [ih1]
end TM.Gen
namespace TM.Gen
open TM
set_option linter.unusedSimpArgs false

theorem Shape_Clone_eq (s : List Int) : Shape_Clone s = .ok s := by
  unfold Shape_Clone
  simp [gmake_len, bind, Except.bind, pure, Except.pure, gcopy]

theorem ctlRv_inv (x : GoM (Ctl (List Int × GoErr) (Int × Int × Int × List Int))) (v : List Int)
    (h : x.map ctlRv = .ok (some v)) : ∃ d dm o, x = .ok (Ctl.next (d, dm, o, v)) := by
  cases x with
  | error e => simp [Except.map] at h
  | ok c =>
    cases c with
    | ret r => simp [Except.map, ctlRv] at h
    | next st =>
      obtain ⟨d, dm, o, rv⟩ := st
      simp [Except.map, ctlRv] at h
      exact ⟨d, dm, o, by rw [h]⟩

/-- `shape.go:Shape.S` (source, translated on this run) ≡ the model's `shapeS`: same refusals, same
    resulting shape, for every shape and slice list. -/
theorem Shape_S_eq (s : List Int) (slices : List GoSlice) :
    clsE (Shape_S s slices) = clsM (shapeS s slices) := by
  unfold Shape_S shapeS
  by_cases hlen : slices.length > s.length
  · have h1 : (len slices > len s) := by unfold len; omega
    simp [h1, hlen, clsE, clsM, throwErr, pure, Except.pure, bind, Except.bind]
  · have h1 : ¬ (len slices > len s) := by unfold len; omega
    simp only [h1, hlen, decide_false, Bool.false_eq_true, if_false, Shape_Clone_eq, Shape_Dims, bind, Except.bind,
      pure, Except.pure]
    have hl1 := S_loop1 s slices s 0 s (by simp) rfl
    simp only [List.drop_zero] at hl1
    cases hm : shapeS.loop s slices with
    | error e =>
      rw [hm] at hl1
      cases e with
      | panic t => exact hl1.elim
      | err t =>
        obtain ⟨rv', e', hl⟩ := hl1
        simp only [enum, hl]
        simp [clsE, clsM]
    | ok ps =>
      rw [hm] at hl1
      simp only [List.take_zero, List.nil_append] at hl1
      simp only [enum, hl1]
      obtain ⟨hf1, hf2⟩ := shapeS_loop_filter slices s 0 ps (by simpa using hm)
      have hl2 := S_loop2 slices (ps.map (·.1)) [] 0 ((len s - 0).toNat + 2) (by simp [len, hf2]) (by simp)
      simp only [List.length_nil, List.nil_append, List.length_map, hf2] at hl2
      have e1 : (((0 : Nat) : Int) + (s.length : Int)) = len s := by simp [len]
      have e2 : (((0 : Nat) : Int) - ((0 : Nat) : Int)) = 0 := by simp
      have e3 : (((0 : Nat)) : Int) = 0 := rfl
      rw [e1, e2, e3] at hl2
      obtain ⟨d, dm, o, hx⟩ := ctlRv_inv _ _ hl2
      simp only [hx, Shape_IsScalar, pure, Except.pure]
      generalize hres : dropF slices 0 (ps.map (·.1)) = res at *
      have hmodel : clsM (Except.ok ((ps.filter (fun (n, given) => !(n == 1 && given))).map (·.1)) : Res (List Int)) = Cls.val res := by
        rw [hf1]; rfl
      rw [hmodel]
      cases res with
      | nil => simp [clsE]
      | cons x xs =>
        have : ¬ (len xs + 1 = 0) := by
          have := len_nonneg xs; omega
        simp [this, clsE]
end TM.Gen

namespace TM.Gen
open TM
set_option linter.unusedSimpArgs false

/-! ### `AP.S` -/

/-- the data-order flag set as the model's three booleans -/
def ordOf (o : GoOrder) : Order :=
  { col := gand o 1 != 0, nonContig := gand o 2 != 0, transposed := gand o 4 != 0 }

/-- the Go struct as the model's access pattern (the `Triangle` field is not modelled) -/
def toM (g : GoAP) : AP := { shape := g.shape, strides := g.strides, fin := g.fin, o := ordOf g.o }

def addNC (o : GoOrder) : GoOrder := gor (gor 0 o) 2

theorem flags_cases (o : Int) (h : 0 ≤ o ∧ o < 8) :
    o = 0 ∨ o = 1 ∨ o = 2 ∨ o = 3 ∨ o = 4 ∨ o = 5 ∨ o = 6 ∨ o = 7 := by omega

theorem addNC_range (o : Int) (h : 0 ≤ o ∧ o < 8) : 0 ≤ addNC o ∧ addNC o < 8 := by
  rcases flags_cases o h with h | h | h | h | h | h | h | h <;> subst h <;> decide

theorem addNC_idem (o : Int) (h : 0 ≤ o ∧ o < 8) : addNC (addNC o) = addNC o := by
  rcases flags_cases o h with h | h | h | h | h | h | h | h <;> subst h <;> decide

theorem ordOf_addNC (o : Int) (h : 0 ≤ o ∧ o < 8) : ordOf (addNC o) = { ordOf o with nonContig := true } := by
  rcases flags_cases o h with h | h | h | h | h | h | h | h <;> subst h <;> decide

theorem MakeDataOrder_pair (o : GoOrder) : MakeDataOrder [o, (2 : GoOrder)] = .ok (addNC o) := by
  simp [MakeDataOrder, MakeDataOrder_loop1, len, addNC, bind, Except.bind, pure, Except.pure]

theorem IsRowMajor_eq (o : GoOrder) : DataOrder_IsRowMajor o = .ok (!(ordOf o).col) := by
  simp [DataOrder_IsRowMajor, DataOrder_IsColMajor, ordOf, bind, Except.bind, pure, Except.pure]

theorem AP_IsVector_eq (g : GoAP) : AP_IsVector g = .ok (isVector g.shape) := by
  simp [AP_IsVector, Shape_IsVector_eq, bind, Except.bind, pure, Except.pure]

theorem scalarAP_eq : (do
    let a ← AP_SetShape ({} : GoAP) []
    AP_lock a : GoM GoAP) = .ok { shape := [], strides := [], fin := true, o := 0, tri := 0 } := by
  simp [AP_SetShape, AP_lock, len, gslice, bind, Except.bind, pure, Except.pure]
end TM.Gen
namespace TM.Gen
open TM
set_option linter.unusedSimpArgs false
set_option maxHeartbeats 1000000

theorem gmod_ne (a b : Int) (h : b ≠ 0) : gmod a b = .ok (Int.tmod a b) := by
  unfold gmod; simp [h, pure, Except.pure]

theorem sumI_cons (x : Int) (xs : List Int) : sumI (x :: xs) = x + sumI xs := rfl

/-- value `AP.S` writes into `newShape[i]`, as a function of the tests the code makes -/
def axisNB (cpos modpos ipos q1 q2 : Bool) (tdiv diff : Int) : Int :=
  if cpos then (if modpos && ipos then (if q1 then 1 else tdiv + 1) else (if q2 then 1 else tdiv)) else diff
def axisStB (cpos : Bool) (stride c : Int) : Int := if cpos then stride * c else stride
def axisNCB (given isVec ne gt1 : Bool) : Bool := if given then ((!isVec && ne) || gt1) else gt1

/-- the same in terms of the axis data -/
def axisN (i : Nat) (a b c : Int) : Int :=
  axisNB (decide (c > 0)) (decide ((b - a).tmod c > 0)) (decide ((i : Int) > 0)) (decide ((b - a).tdiv c + 1 ≤ 0))
    (decide ((b - a).tdiv c ≤ 0)) ((b - a).tdiv c) (b - a)
def axisSt (stride c : Int) : Int := axisStB (decide (c > 0)) stride c
def axisNC (isVec : Bool) (od i : Nat) (given : Bool) (c : Int) : Bool :=
  axisNCB given isVec ((i : Int) != (od : Int)) (decide (c > 1))

theorem sliceAxis_ok (isVec : Bool) (od i : Nat) (size stride : Int) (sl : Option Sl) (a b c : Int)
    (h : sliceDetails sl size = .ok (a, b, c)) :
    sliceAxis isVec od i size stride sl = .ok (AxisRes.mk (axisN i a b c) (axisSt stride c) (a * stride)
      ((size - b) * stride) (axisNC isVec od i sl.isSome c)) := by
  unfold sliceAxis axisN axisSt axisNC axisNB axisStB axisNCB goDiv goMod
  simp only [h, bind, Except.bind, pure, Except.pure]
  have hkod : ((i : Int) != (od : Int)) = (i != od) := by
    by_cases h : i = od
    · subst h; simp
    · have : ¬ ((i : Int) = (od : Int)) := by omega
      have h1 : (i != od) = true := by simpa using h
      have h2 : ((i : Int) != (od : Int)) = true := by simpa using this
      rw [h1, h2]
  have hi0 : decide ((i : Int) > 0) = decide (i > 0) := by simp
  rw [hkod, hi0]
  by_cases hc : c > 0
  · have hc1 : True := trivial
    by_cases hm : (b - a).tmod c > 0 <;> by_cases hi : i > 0 <;> by_cases hq1 : (b - a).tdiv c + 1 ≤ 0 <;>
      by_cases hq2 : (b - a).tdiv c ≤ 0 <;> cases sl.isSome <;> cases isVec <;> (first | rfl | simp [hc, hm, hi, hq1, hq2] | (simp [hc, hm, hi, hq1, hq2]; omega))
  · have hc1 : ¬ (c > 1) := by omega
    cases sl.isSome <;> cases isVec <;> (first | rfl | simp [hc, hc1])

/-- one iteration of the per-axis loop of `AP.S` on an axis whose slice is accepted -/
theorem APS_body (g : GoAP) (dims : Int) (newAP : GoAP) (od : Nat) (size : Int) (slices : List GoSlice)
    (n k : Nat) (e s : Int) (nsh nst : List Int) (ord : Int) (a b c : Int)
    (hk : k < g.shape.length) (hks : k < g.strides.length) (hnsh : k < nsh.length) (hnst : k < nst.length)
    (hsd : SliceDetails ((slices.drop k).head?.join) g.shape[k] = .ok (a, b, c, none)) :
    AP_S_loop1 g dims newAP (od : Int) size slices (upFrom (n + 1) (k : Int)) none e s nsh nst ord =
      AP_S_loop1 g dims newAP (od : Int) size slices (upFrom n ((k : Int) + 1)) none
        (e - (g.shape[k] - b) * g.strides[k]) (s + a * g.strides[k])
        (nsh.set k (axisN k a b c)) (nst.set k (axisSt g.strides[k] c))
        (if axisNC (isVector g.shape) od k ((slices.drop k).head?.join).isSome c then addNC ord else ord) := by
  rw [upFrom_succ, AP_S_loop1]
  have hsl : (if decide ((k : Int) ≤ len slices - 1) then gidx slices (k : Int) else (pure none : GoM GoSlice))
      = .ok ((slices.drop k).head?.join) := by
    by_cases hks : k < slices.length
    · have : ((k : Int) ≤ len slices - 1) := by unfold len; omega
      simp [this, gidx_lt slices k hks, List.head?_drop, List.getElem?_eq_getElem hks]
    · have : ¬ ((k : Int) ≤ len slices - 1) := by unfold len; omega
      have h2 : slices[k]? = none := List.getElem?_eq_none (by omega)
      simp [this, List.head?_drop, h2, pure, Except.pure]
  have hgs : gidx g.shape (k : Int) = .ok g.shape[k] := gidx_lt _ _ hk
  have hgst : gidx g.strides (k : Int) = .ok g.strides[k] := gidx_lt _ _ hks
  generalize hS : (slices.drop k).head?.join = sl0 at *
  have g1 : ∀ v, gset nsh (k : Int) v = .ok (nsh.set k v) := fun v => gset_lt _ _ _ hnsh
  have g2 : ∀ v, gidx (nsh.set k v) (k : Int) = .ok v := by
    intro v; rw [gidx_lt _ k (by simp; omega)]; simp
  have g3 : ∀ v w, gset (nsh.set k v) (k : Int) w = .ok (nsh.set k w) := by
    intro v w; rw [gset_lt _ k _ (by simp; omega)]; simp
  have g5 : ∀ v, gset nst (k : Int) v = .ok (nst.set k v) := fun v => gset_lt _ _ _ hnst
  -- everything the body tests, as opaque booleans
  unfold axisN axisSt axisNC
  generalize hcp : decide (c > 0) = cpos
  generalize hmp : decide ((b - a).tmod c > 0) = modpos
  generalize hip : decide ((k : Int) > 0) = ipos
  generalize hq1 : decide ((b - a).tdiv c + 1 ≤ 0) = q1
  generalize hq2 : decide ((b - a).tdiv c ≤ 0) = q2
  generalize hne : ((k : Int) != (od : Int)) = ne
  generalize hg1 : decide (c > 1) = gt1
  generalize hgv : sl0.isSome = given
  generalize hiv : isVector g.shape = isVec
  have hdiv : cpos = true → gdiv (b - a) c = .ok ((b - a).tdiv c) ∧ gmod (b - a) c = .ok ((b - a).tmod c) := by
    intro h; rw [← hcp] at h
    have hc0 : c ≠ 0 := by have := of_decide_eq_true h; omega
    exact ⟨gdiv_ne _ _ hc0, gmod_ne _ _ hc0⟩
  by_cases hle : decide ((k : Int) ≤ len slices - 1) = true
  · simp only [hle, if_true] at hsl
    simp only [hle, if_true, hsl, hgs, hgst, hsd, bind, Except.bind, pure, Except.pure, Option.isSome_none,
      Bool.false_eq_true, if_false, AP_IsVector_eq, MakeDataOrder_pair, hcp, hgv, hiv, hne, hg1]
    cases cpos
    · cases given <;> cases isVec <;> cases ne <;> cases gt1 <;> simp [g1, g5, axisNB, axisStB, axisNCB]
    · obtain ⟨hd, hm⟩ := hdiv rfl
      simp only [hd, hm, g1, g2, g3, g5, hmp, hip, hq1, hq2, if_true]
      cases modpos <;> cases ipos <;> cases q1 <;> cases q2 <;> cases given <;> cases isVec <;> cases ne <;> cases gt1 <;>
        simp [g1, g2, g3, g5, axisNB, axisStB, axisNCB, hq1, hq2]
  · simp only [hle, if_false, Bool.false_eq_true] at hsl
    injection hsl with hsl
    subst hsl
    simp only [hle, if_false, Bool.false_eq_true, hgs, hgst, hsd, bind, Except.bind, pure, Except.pure, Option.isSome_none,
      AP_IsVector_eq, MakeDataOrder_pair, hcp, hiv, hne, hg1]
    simp only [Option.isSome_none] at hgv
    subst hgv
    cases cpos
    · cases isVec <;> cases ne <;> cases gt1 <;> simp [g1, g5, axisNB, axisStB, axisNCB]
    · obtain ⟨hd, hm⟩ := hdiv rfl
      simp only [hd, hm, g1, g2, g3, g5, hmp, hip, hq1, hq2, if_true]
      cases modpos <;> cases ipos <;> cases q1 <;> cases q2 <;> cases isVec <;> cases ne <;> cases gt1 <;>
        simp [g1, g2, g3, g5, axisNB, axisStB, axisNCB, hq1, hq2]
end TM.Gen
namespace TM.Gen
open TM
set_option linter.unusedSimpArgs false

def ordStep (nc : Bool) (ord : Int) : Int := if nc then addNC ord else ord

theorem ordStep_range (nc : Bool) (ord : Int) (h : 0 ≤ ord ∧ ord < 8) : 0 ≤ ordStep nc ord ∧ ordStep nc ord < 8 := by
  unfold ordStep; cases nc
  · simpa using h
  · simpa using addNC_range ord h

theorem ordStep_comb (a b : Bool) (ord : Int) (h : 0 ≤ ord ∧ ord < 8) :
    ordStep b (ordStep a ord) = ordStep (a || b) ord := by
  unfold ordStep; cases a <;> cases b <;> simp [addNC_idem ord h]

theorem set_take_succ (l : List Int) (k : Nat) (v : Int) (h : k < l.length) :
    (l.set k v).take (k + 1) = l.take k ++ [v] := take_set_succ l k v h

/-- the per-axis loop of `AP.S` against the model's `apSLoop` -/
theorem APS_loop1 (g : GoAP) (dims : Int) (newAP : GoAP) (od : Nat) (size : Int) (slices : List GoSlice) :
    ∀ (n k : Nat) (e s : Int) (nsh nst : List Int) (ord : Int),
    k + n = g.shape.length → nsh.length = g.shape.length → nst.length = g.shape.length → (0 ≤ ord ∧ ord < 8) →
    match apSLoop (isVector g.shape) od k (g.shape.drop k) (g.strides.drop k) (slices.drop k) with
    | .ok rs => AP_S_loop1 g dims newAP (od : Int) size slices (upFrom n (k : Int)) none e s nsh nst ord =
        .ok (Ctl.next (none, e - sumI (rs.map (·.dEnd)), s + sumI (rs.map (·.dStart)), nsh.take k ++ rs.map (·.n),
          nst.take k ++ rs.map (·.stride), ordStep (rs.any (·.nonContig)) ord))
    | .error (.err _) => ∃ a b c d, AP_S_loop1 g dims newAP (od : Int) size slices (upFrom n (k : Int)) none e s nsh nst ord =
        .ok (Ctl.ret (a, b, c, some d))
    | .error (.panic _) => ∃ m, AP_S_loop1 g dims newAP (od : Int) size slices (upFrom n (k : Int)) none e s nsh nst ord =
        .error (.panic m) := by
  intro n
  induction n with
  | zero =>
    intro k e s nsh nst ord hk hnsh hnst hord
    have h1 : g.shape.drop k = [] := List.drop_eq_nil_of_le (by omega)
    have t1 : nsh.take k = nsh := List.take_of_length_le (by omega)
    have t2 : nst.take k = nst := List.take_of_length_le (by omega)
    simp [h1, apSLoop, upFrom, AP_S_loop1, sumI, t1, t2, ordStep, pure, Except.pure]
  | succ n ih =>
    intro k e s nsh nst ord hk hnsh hnst hord
    have hlt : k < g.shape.length := by omega
    have hd : g.shape.drop k = g.shape[k] :: g.shape.drop (k + 1) := List.drop_eq_getElem_cons hlt
    rw [hd]
    by_cases hks : k < g.strides.length
    · have hds : g.strides.drop k = g.strides[k] :: g.strides.drop (k + 1) := List.drop_eq_getElem_cons hks
      have htl : (slices.drop k).tail = slices.drop (k + 1) := by simp [List.tail_drop]
      rw [hds]
      simp only [apSLoop, htl]
      obtain ⟨r, hr, hrel⟩ := SliceDetails_exact ((slices.drop k).head?.join) g.shape[k]
      cases hsd : sliceDetails ((slices.drop k).head?.join) g.shape[k] with
      | error er =>
        rw [hsd] at hrel
        have hax : sliceAxis (isVector g.shape) od k g.shape[k] g.strides[k] ((slices.drop k).head?.join) = .error er := by
          unfold sliceAxis; rw [hsd]; rfl
        simp only [hax, bind, Except.bind]
        cases er with
        | panic t => exact hrel.elim
        | err t =>
          obtain ⟨r1, r2, r3, r4⟩ := r
          simp only at hrel
          cases r4 with
          | none => simp at hrel
          | some ee =>
            refine ⟨newAP, s, e, "err", ?_⟩
            rw [upFrom_succ, AP_S_loop1]
            by_cases hle : decide ((k : Int) ≤ len slices - 1) = true
            · have hks2 : k < slices.length := by
                have := of_decide_eq_true hle; unfold len at this; omega
              simp [hle, gidx_lt slices k hks2, gidx_lt g.shape k hlt, gidx_lt g.strides k hks,
                bind, Except.bind, pure, Except.pure]
              have : (slices.drop k).head?.join = slices[k] := by simp [List.head?_drop, List.getElem?_eq_getElem hks2]
              rw [this] at hr
              simp [hr]
            · have hks2 : ¬ k < slices.length := by
                intro h; apply hle; apply decide_eq_true; unfold len; omega
              have : (slices.drop k).head?.join = none := by
                simp [List.head?_drop, List.getElem?_eq_none (by omega : slices.length ≤ k)]
              rw [this] at hr
              simp [hle, gidx_lt g.shape k hlt, gidx_lt g.strides k hks, hr, bind, Except.bind, pure, Except.pure]
      | ok v =>
        obtain ⟨a, b, c⟩ := v
        rw [hsd] at hrel
        simp only at hrel
        subst hrel
        rw [sliceAxis_ok _ _ _ _ _ _ a b c hsd]
        simp only [bind, Except.bind]
        rw [APS_body g dims newAP od size slices n k e s nsh nst ord a b c hlt hks (by omega) (by omega) hr]
        have hord' := ordStep_range (axisNC (isVector g.shape) od k ((slices.drop k).head?.join).isSome c) ord hord
        have ih' := ih (k + 1) (e - (g.shape[k] - b) * g.strides[k]) (s + a * g.strides[k])
          (nsh.set k (axisN k a b c)) (nst.set k (axisSt g.strides[k] c))
          (ordStep (axisNC (isVector g.shape) od k ((slices.drop k).head?.join).isSome c) ord)
          (by omega) (by simp [hnsh]) (by simp [hnst]) hord'
        simp only [Int.natCast_add, Int.cast_ofNat_Int] at ih'
        cases hrest : apSLoop (isVector g.shape) od (k + 1) (g.shape.drop (k + 1)) (g.strides.drop (k + 1)) (slices.drop (k + 1)) with
        | error er =>
          rw [hrest] at ih'
          cases er with
          | err t => simpa [ordStep] using ih'
          | panic t => simpa [ordStep] using ih'
        | ok rs =>
          rw [hrest] at ih'
          simp only [pure, Except.pure]
          have : (if axisNC (isVector g.shape) od k ((slices.drop k).head?.join).isSome c = true then addNC ord else ord) =
              ordStep (axisNC (isVector g.shape) od k ((slices.drop k).head?.join).isSome c) ord := rfl
          rw [this, ih', set_take_succ nsh k _ (by omega), set_take_succ nst k _ (by omega)]
          simp only [List.map_cons, sumI_cons, List.any_cons, ordStep_comb _ _ ord hord, List.append_assoc,
            List.singleton_append]
          have e1 : e - (g.shape[k] - b) * g.strides[k] - sumI (List.map (fun x => x.dEnd) rs) =
              e - ((g.shape[k] - b) * g.strides[k] + sumI (List.map (fun x => x.dEnd) rs)) := by omega
          have e2 : s + a * g.strides[k] + sumI (List.map (fun x => x.dStart) rs) =
              s + (a * g.strides[k] + sumI (List.map (fun x => x.dStart) rs)) := by omega
          rw [e1, e2]
    · have hds : g.strides.drop k = [] := List.drop_eq_nil_of_le (by omega)
      rw [hds]
      simp only [apSLoop, throwPanic]
      refine ⟨"index out of range", ?_⟩
      rw [upFrom_succ, AP_S_loop1]
      have hgs : gidx g.shape (k : Int) = .ok g.shape[k] := gidx_lt _ _ hlt
      have hgst : gidx g.strides (k : Int) = gpanic "index out of range" := by
        rw [gidx_nat, List.getElem?_eq_none (by omega)]
      by_cases hle : decide ((k : Int) ≤ len slices - 1) = true
      · have hks2 : k < slices.length := by
          have := of_decide_eq_true hle; unfold len at this; omega
        simp [hle, gidx_lt slices k hks2, hgs, hgst, bind, Except.bind, pure, Except.pure, gpanic, throw, throwThe, MonadExceptOf.throw]
      · simp [hle, hgs, hgst, bind, Except.bind, pure, Except.pure, gpanic, throw, throwThe, MonadExceptOf.throw]
end TM.Gen
namespace TM.Gen
open TM
set_option linter.unusedSimpArgs false

/-- the dimension-dropping loop of `AP.S` on (extent, stride) pairs, in terms of original axis numbers -/
def dropF2 (slices : List GoSlice) : Nat → List (Int × Int) → List (Int × Int)
  | _, [] => []
  | j, p :: r => if p.1 == 1 && (slices[j]?.join).isSome then dropF2 slices (j + 1) r else p :: dropF2 slices (j + 1) r

def ctlRv2 : Ctl (GoAP × Int × Int × GoErr) (Int × Int × List Int × List Int × Int) → Option (List Int × List Int)
  | Ctl.next s => some (s.2.2.1, s.2.2.2.1)
  | Ctl.ret _ => none

theorem APS_loop2 (slices : List GoSlice) : ∀ (rest kept : List (Int × Int)) (j fuel : Nat),
    fuel ≥ rest.length + 1 → kept.length ≤ j →
    (AP_S_loop2 slices fuel (kept.length : Int) ((kept.length : Int) + rest.length)
        (kept.map (·.1) ++ rest.map (·.1)) (kept.map (·.2) ++ rest.map (·.2)) ((j : Int) - kept.length)).map ctlRv2 =
      .ok (some ((kept ++ dropF2 slices j rest).map (·.1), (kept ++ dropF2 slices j rest).map (·.2))) := by
  intro rest
  induction rest with
  | nil =>
    intro kept j fuel hf hj
    obtain ⟨f, rfl⟩ : ∃ f, fuel = f + 1 := ⟨fuel - 1, by omega⟩
    rw [AP_S_loop2]
    simp [dropF2, pure, Except.pure, Except.map, ctlRv2]
  | cons p rest ih =>
    intro kept j fuel hf hj
    obtain ⟨n, st⟩ := p
    obtain ⟨f, rfl⟩ : ∃ f, fuel = f + 1 := ⟨fuel - 1, by simp at hf; omega⟩
    rw [AP_S_loop2]
    have hlt : ((kept.length : Int) < (kept.length : Int) + (((n, st) :: rest).length : Nat)) := by simp; omega
    have hgi : gidx (kept.map (·.1) ++ ((n, st) :: rest).map (·.1)) (kept.length : Int) = .ok n := by
      have : kept.length = (kept.map (·.1)).length := by simp
      rw [this, gidx_lt _ _ (by simp)]; simp
    have hoff : (j : Int) - kept.length + kept.length = (j : Int) := by omega
    simp only [hlt, decide_true, Bool.not_true, Bool.false_eq_true, if_false, hgi, bind, Except.bind, hoff]
    have hf' : f ≥ rest.length + 1 := by simp at hf; omega
    have keepIH := ih (kept ++ [(n, st)]) (j + 1) f hf' (by simp; omega)
    have dropIH := ih kept (j + 1) f hf' (by omega)
    have eK1 : ((kept.length : Int) + 1) = ((kept ++ [(n, st)]).length : Int) := by simp
    have eK2 : ((kept.length : Int) + (((n, st) :: rest).length : Nat)) = ((kept ++ [(n, st)]).length : Int) + rest.length := by
      simp; omega
    have eK3 : ((j : Int) - kept.length) = ((j + 1 : Nat) : Int) - ((kept ++ [(n, st)]).length : Int) := by simp; omega
    have eK4 : kept.map (·.1) ++ ((n, st) :: rest).map (·.1) = (kept ++ [(n, st)]).map (·.1) ++ rest.map (·.1) := by simp
    have eK5 : kept.map (·.2) ++ ((n, st) :: rest).map (·.2) = (kept ++ [(n, st)]).map (·.2) ++ rest.map (·.2) := by simp
    have keep : Except.map ctlRv2 (AP_S_loop2 slices f ((kept.length : Int) + 1) ((kept.length : Int) + (((n, st) :: rest).length : Nat))
        (kept.map (·.1) ++ ((n, st) :: rest).map (·.1)) (kept.map (·.2) ++ ((n, st) :: rest).map (·.2)) ((j : Int) - kept.length)) =
        .ok (some ((kept ++ (n, st) :: dropF2 slices (j + 1) rest).map (·.1), (kept ++ (n, st) :: dropF2 slices (j + 1) rest).map (·.2))) := by
      rw [eK1, eK2, eK3, eK4, eK5, keepIH]; simp
    have eD1 : ((kept.length : Int) - 1 + 1) = (kept.length : Int) := by omega
    have eD2 : ((kept.length : Int) + (((n, st) :: rest).length : Nat) - 1) = (kept.length : Int) + rest.length := by simp; omega
    have eD3 : ((j : Int) - kept.length + 1) = ((j + 1 : Nat) : Int) - (kept.length : Int) := by simp; omega
    have drop : Except.map ctlRv2 (AP_S_loop2 slices f ((kept.length : Int) - 1 + 1) ((kept.length : Int) + (((n, st) :: rest).length : Nat) - 1)
        (kept.map (·.1) ++ rest.map (·.1)) (kept.map (·.2) ++ rest.map (·.2)) ((j : Int) - kept.length + 1)) =
        .ok (some ((kept ++ dropF2 slices (j + 1) rest).map (·.1), (kept ++ dropF2 slices (j + 1) rest).map (·.2))) := by
      rw [eD1, eD2, eD3, dropIH]
    have hs1 : ∀ (l1 l2 : List Int) (x : Int), l1.length = kept.length →
        gslice (l1 ++ x :: l2) 0 (kept.length : Int) = .ok l1 := by
      intro l1 l2 x h
      rw [gslice_take _ _ (by simp; omega)]; simp [← h]
    have hs2 : ∀ (l1 l2 : List Int) (x : Int), l1.length = kept.length →
        gslice (l1 ++ x :: l2) ((kept.length : Int) + 1) (len (l1 ++ x :: l2)) = .ok l2 := by
      intro l1 l2 x h
      have : ((kept.length : Int) + 1) = ((kept.length + 1 : Nat) : Int) := by simp
      rw [this, gslice_drop _ _ (by simp; omega)]; simp [← h]
    have m1 : ((n, st) :: rest).map (·.1) = n :: rest.map (·.1) := rfl
    have m2 : ((n, st) :: rest).map (·.2) = st :: rest.map (·.2) := rfl
    by_cases hn : n = 1
    · subst hn
      by_cases hjs : j < slices.length
      · have hle : ((j : Int) ≤ len slices - 1) := by unfold len; omega
        simp only [hle, decide_true, Bool.and_true, BEq.rfl, if_true, gidx_lt slices j hjs]
        cases hg : slices[j] with
        | none =>
          have : slices[j]?.join = none := by simp [List.getElem?_eq_getElem hjs, hg]
          simp only [Option.isSome_none, Bool.false_eq_true, if_false]
          rw [keep]
          simp [dropF2, this]
        | some sl =>
          have : slices[j]?.join = some sl := by simp [List.getElem?_eq_getElem hjs, hg]
          simp only [Option.isSome_some, if_true]
          rw [m1, m2, hs1 _ _ _ (by simp), hs2 _ _ _ (by simp), hs1 _ _ _ (by simp), hs2 _ _ _ (by simp)]
          simp only []
          rw [drop]
          simp [dropF2, this]
      · have hle : ¬ ((j : Int) ≤ len slices - 1) := by unfold len; omega
        have h2 : slices[j]? = none := List.getElem?_eq_none (by omega)
        simp only [hle, decide_false, Bool.and_false, Bool.false_eq_true, if_false]
        rw [keep]
        simp [dropF2, h2]
    · have hn' : (n == 1) = false := by simpa using hn
      simp only [hn', Bool.false_and, Bool.false_eq_true, if_false]
      rw [keep]
      simp [dropF2, hn']
end TM.Gen
namespace TM.Gen
open TM
set_option linter.unusedSimpArgs false

theorem apSLoop_length (isVec : Bool) (od : Nat) : ∀ (shape : List Int) (i : Nat) (strides : List Int)
    (sls : List (Option Sl)) (rs : List AxisRes), apSLoop isVec od i shape strides sls = .ok rs → rs.length = shape.length := by
  intro shape
  induction shape with
  | nil => intro i st sls rs h; simp [apSLoop] at h; cases h; rfl
  | cons d ds ih =>
    intro i st sls rs h
    cases st with
    | nil => simp [apSLoop, throwPanic] at h
    | cons s ss =>
      simp only [apSLoop, bind, Except.bind] at h
      cases h1 : sliceAxis isVec od i d s sls.head?.join with
      | error e => simp [h1] at h
      | ok r =>
        simp only [h1] at h
        cases h2 : apSLoop isVec od (i + 1) ds ss sls.tail with
        | error e => simp [h2] at h
        | ok rs' =>
          simp only [h2, pure, Except.pure] at h
          injection h with h; subst h
          simp [ih (i + 1) ss sls.tail rs' h2]

/-- the model's filter over (axis result, "a slice was given") pairs is the dropping loop -/
theorem keep_eq_dropF2 (sls : List (Option Sl)) : ∀ (rs : List AxisRes) (j K : Nat), rs.length ≤ K →
    ((rs.zip ((sls.drop j).map Option.isSome ++ List.replicate K false)).filter
        (fun (r, given) => !(r.n == 1 && given))).map (fun p => (p.1.n, p.1.stride)) =
      dropF2 sls j (rs.map (fun r => (r.n, r.stride))) := by
  intro rs
  induction rs with
  | nil => intro j K _; simp [dropF2]
  | cons r rs ih =>
    intro j K hK
    by_cases hj : j < sls.length
    · have hd : sls.drop j = sls[j] :: sls.drop (j + 1) := List.drop_eq_getElem_cons hj
      have hg : (sls[j]?.join).isSome = sls[j].isSome := by simp [List.getElem?_eq_getElem hj]
      simp only [hd, List.map_cons, List.cons_append, List.zip_cons_cons, dropF2, hg]
      have := ih (j + 1) K (by simp at hK; omega)
      by_cases hc : (r.n == 1 && sls[j].isSome) = true
      · simp only [List.filter_cons, hc, Bool.not_true, Bool.false_eq_true, if_false, if_true]
        exact this
      · have hc' : (r.n == 1 && sls[j].isSome) = false := by simpa using hc
        simp only [List.filter_cons, hc', Bool.not_false, if_true, List.map_cons, Bool.false_eq_true, if_false]
        rw [this]
    · have hd : sls.drop j = [] := List.drop_eq_nil_of_le (by omega)
      have hd1 : sls.drop (j + 1) = [] := List.drop_eq_nil_of_le (by omega)
      have hg : sls[j]? = none := List.getElem?_eq_none (by omega)
      obtain ⟨K', rfl⟩ : ∃ K', K = K' + 1 := ⟨K - 1, by simp at hK; omega⟩
      have := ih (j + 1) K' (by simp at hK; omega)
      simp only [hd1, List.map_nil, List.nil_append] at this
      simp only [hd, List.map_nil, List.nil_append, List.replicate_succ, List.zip_cons_cons, dropF2, hg, List.map_cons]
      simp only [List.filter_cons, Bool.and_false, Bool.not_false, if_true, List.map_cons, Option.join_none,
        Option.isSome_none, Bool.false_eq_true, if_false]
      rw [this]
end TM.Gen
namespace TM.Gen
open TM
set_option linter.unusedSimpArgs false

/-- outcome class of the translated `AP.S`: the new access pattern (as the model's `AP`), `ndStart`, `ndEnd` -/
def clsAPS (r : GoM (GoAP × Int × Int × GoErr)) : Cls (AP × Int × Int) :=
  match r with
  | .ok (a, s, e, none) => .val (toM a, s, e)
  | .ok (_, _, _, some _) => .err
  | .error (.panic _) => .panic
  | .error .fuel => .fuel

theorem ctlRv2_inv (x : GoM (Ctl (GoAP × Int × Int × GoErr) (Int × Int × List Int × List Int × Int))) (v w : List Int)
    (h : x.map ctlRv2 = .ok (some (v, w))) : ∃ d dm o, x = .ok (Ctl.next (d, dm, v, w, o)) := by
  cases x with
  | error e => simp [Except.map] at h
  | ok c =>
    cases c with
    | ret r => simp [Except.map, ctlRv2] at h
    | next st =>
      obtain ⟨d, dm, a, b, o⟩ := st
      simp [Except.map, ctlRv2] at h
      exact ⟨d, dm, o, by rw [h.1, h.2]⟩

theorem ordOf_ordStep (nc : Bool) (o : Int) (h : 0 ≤ o ∧ o < 8) :
    ordOf (ordStep nc o) = (if nc then { ordOf o with nonContig := true } else ordOf o) := by
  unfold ordStep; cases nc
  · simp
  · simp [ordOf_addNC o h]

/-- the model's `AP.S` with its parts named -/
def odOf (ap : AP) : Nat := if !ap.o.col || isVector ap.shape then 0 else ap.shape.length - 1

def apsFin (o : Order) (size : Int) (sls : List (Option Sl)) (rs : List AxisRes) : AP × Int × Int :=
  let ndStart := sumI (rs.map (·.dStart))
  let ndEnd := size - sumI (rs.map (·.dEnd))
  let order := if rs.any (·.nonContig) then { o with nonContig := true } else o
  if ndEnd - ndStart == 1 then ({ shape := [], strides := [], fin := true, o := {} }, ndStart, ndEnd)
  else
    let keep := (rs.zip (sls.map Option.isSome ++ List.replicate rs.length false)).filter
      (fun (r, given) => !(r.n == 1 && given))
    let kept := keep.map (·.1)
    ({ shape := kept.map (·.n), strides := kept.map (·.stride), fin := true, o := order }, ndStart, ndEnd)

theorem APS_model_unfold (ap : AP) (size : Int) (sls : List (Option Sl)) :
    ap.S size sls = (if sls.length > ap.shape.length then throwErr "dimMismatch" else do
      let rs ← apSLoop (isVector ap.shape) (odOf ap) 0 ap.shape ap.strides sls
      pure (apsFin ap.o size sls rs)) := by
  unfold AP.S odOf apsFin
  by_cases h : sls.length > ap.shape.length
  · simp [h, throwErr, bind, Except.bind]
  · simp only [h, if_false, bind, Except.bind, pure, Except.pure]
    cases apSLoop (isVector ap.shape) (if (!ap.o.col || isVector ap.shape) = true then 0 else ap.shape.length - 1) 0
      ap.shape ap.strides sls with
    | error e => rfl
    | ok rs => simp only []; split <;> rfl

/-- `ap.go:AP.S` (source, translated on this run) ≡ the model's `AP.S`: same refusals and panics, same new
    shape / strides / lock / data-order flags, same `ndStart`, `ndEnd` — for every access pattern whose flag
    byte is a valid `DataOrder` (< 8), every window size and every slice list. -/
theorem AP_S_eq (g : GoAP) (size : Int) (slices : List GoSlice) (ho : 0 ≤ g.o ∧ g.o < 8) :
    clsAPS (AP_S g size slices) = clsM ((toM g).S size slices) := by
  rw [APS_model_unfold]
  unfold AP_S
  by_cases hlen : slices.length > g.shape.length
  · have h1 : (len slices > len g.shape) := by unfold len; omega
    simp [h1, hlen, toM, clsAPS, clsM, throwErr, pure, Except.pure, bind, Except.bind]
  · have h1 : ¬ (len slices > len g.shape) := by unfold len; omega
    have hlen' : ¬ (slices.length > (toM g).shape.length) := hlen
    simp only [h1, hlen', decide_false, Bool.false_eq_true, if_false, Shape_Clone_eq, AP_Dims, Shape_Dims, bind,
      Except.bind, pure, Except.pure, IsRowMajor_eq, AP_IsVector_eq, gmake_len]
    have hpos_or : g.shape = [] ∨ g.shape.length ≥ 1 := by
      cases hs : g.shape with
      | nil => left; rfl
      | cons a b => right; simp
    have hl := APS_loop1 g (len g.shape) ({} : GoAP) (odOf (toM g)) size slices g.shape.length 0 size 0 g.shape
      (List.replicate g.shape.length 0) g.o (by simp) rfl (by simp) ho
    simp only [List.drop_zero, List.take_zero, List.nil_append, Int.cast_ofNat_Int] at hl
    have hsh : (toM g).shape = g.shape := rfl
    have hst : (toM g).strides = g.strides := rfl
    have hoo : (toM g).o = ordOf g.o := rfl
    rw [hsh, hst, hoo]
    -- the outer dimension the source computes is the model's (when there is an axis at all)
    have hO : g.shape.length ≥ 1 → (if (!(ordOf g.o).col || isVector g.shape) = true then (0 : Int) else len g.shape - 1) =
        ((odOf (toM g) : Nat) : Int) := by
      intro hp
      unfold odOf
      rw [hsh, hoo]
      by_cases hc : (!(ordOf g.o).col || isVector g.shape) = true
      · simp [hc]
      · simp [hc, len]; omega
    rcases hpos_or with hne | hpos
    · -- rank 0: no axis, no slice
      have hsl : slices = [] := by
        cases slices with
        | nil => rfl
        | cons a b => simp [hne] at hlen
      subst hsl
      simp [hne, toM, apSLoop, rangeUp, upFrom, AP_S_loop1, len, sumI, clsAPS, clsM, bind, Except.bind, pure, Except.pure,
        AP_S_loop2, MakeAP, isVector, isColVec, isRowVec, ordOf, apsFin]
      by_cases hs1 : size = 1
      · have hsc := scalarAP_eq
        simp only [bind, Except.bind] at hsc
        cases h1 : AP_SetShape ({} : GoAP) [] with
        | error e => rw [h1] at hsc; cases hsc
        | ok v =>
          rw [h1] at hsc
          simp only [hs1, if_true, h1, hsc]
          decide
      · simp [hs1]
    · have hO := hO hpos
      cases hm : apSLoop (isVector g.shape) (odOf (toM g)) 0 g.shape g.strides slices with
      | error er =>
        rw [hm] at hl
        cases er with
        | err t =>
          obtain ⟨a, b, c, d, hl⟩ := hl
          rw [← hO] at hl
          by_cases hcol : (ordOf g.o).col = true <;> by_cases hv : isVector g.shape = true <;>
            simp only [hcol, hv, Bool.not_true, Bool.not_false, Bool.true_or, Bool.false_or, Bool.or_true, Bool.or_false,
              if_true, if_false, Bool.false_eq_true, rangeUp_zero_len, Bool.not_eq_true] at hl ⊢ <;>
            simp [hl, bind, Except.bind, clsAPS, clsM]
        | panic t =>
          obtain ⟨m, hl⟩ := hl
          rw [← hO] at hl
          by_cases hcol : (ordOf g.o).col = true <;> by_cases hv : isVector g.shape = true <;>
            simp only [hcol, hv, Bool.not_true, Bool.not_false, Bool.true_or, Bool.false_or, Bool.or_true, Bool.or_false,
              if_true, if_false, Bool.false_eq_true, rangeUp_zero_len, Bool.not_eq_true] at hl ⊢ <;>
            simp [hl, bind, Except.bind, clsAPS, clsM]
      | ok rs =>
        rw [hm] at hl
        rw [← hO] at hl
        have hrl := apSLoop_length _ _ _ _ _ _ _ hm
        have hl2 := APS_loop2 slices (rs.map (fun r => (r.n, r.stride))) [] 0 ((len g.shape - 0).toNat + 2)
          (by simp [len, hrl]) (by simp)
        simp only [List.length_nil, List.map_nil, List.nil_append, List.length_map, List.map_map, hrl] at hl2
        have e1 : (((0 : Nat) : Int) + (g.shape.length : Int)) = len g.shape := by simp [len]
        have e2 : (((0 : Nat) : Int) - ((0 : Nat) : Int)) = 0 := by simp
        have e3 : (((0 : Nat)) : Int) = 0 := rfl
        have f1 : ((fun x : Int × Int => x.1) ∘ fun r : AxisRes => (r.n, r.stride)) = fun r => r.n := rfl
        have f2 : ((fun x : Int × Int => x.2) ∘ fun r : AxisRes => (r.n, r.stride)) = fun r => r.stride := rfl
        rw [e1, e2, e3, f1, f2] at hl2
        obtain ⟨d, dm, o, hx⟩ := ctlRv2_inv _ _ _ hl2
        have hk := keep_eq_dropF2 slices rs 0 rs.length (Nat.le_refl _)
        simp only [List.drop_zero] at hk
        have hsc2 := scalarAP_eq
        simp only [bind, Except.bind] at hsc2
        by_cases hcol : (ordOf g.o).col = true <;> by_cases hv : isVector g.shape = true <;>
          simp only [hcol, hv, Bool.not_true, Bool.not_false, Bool.true_or, Bool.false_or, Bool.or_true, Bool.or_false,
            if_true, if_false, Bool.false_eq_true, rangeUp_zero_len, Bool.not_eq_true] at hl ⊢ <;>
          simp only [hl, bind, Except.bind, pure, Except.pure, Int.zero_add] <;>
          (by_cases hsc : (size - sumI (rs.map (·.dEnd)) - sumI (rs.map (·.dStart)) == 1) = true
           · cases h1s : AP_SetShape ({} : GoAP) [] with
             | error e => rw [h1s] at hsc2; cases hsc2
             | ok v =>
               rw [h1s] at hsc2
               simp only [hsc, if_true, h1s, hsc2]
               simp [clsAPS, clsM, toM, apsFin, hsc]
               decide
           · have hsc' : (size - sumI (rs.map (·.dEnd)) - sumI (rs.map (·.dStart)) == 1) = false := by simpa using hsc
             simp only [hsc', Bool.false_eq_true, if_false, hx, MakeAP, pure, Except.pure]
             simp [clsAPS, clsM, toM, apsFin, hsc', ← hk, List.map_map, ordOf_ordStep _ _ ho])
end TM.Gen

namespace TM.Gen
open TM

/-- the model's access pattern as the Go struct (flag byte from the three booleans; `Triangle` = 0) -/
def bitsOf (o : Order) : Int := (if o.col then 1 else 0) + (if o.nonContig then 2 else 0) + (if o.transposed then 4 else 0)
def ofM (ap : AP) : GoAP := { shape := ap.shape, strides := ap.strides, fin := ap.fin, o := bitsOf ap.o, tri := 0 }

theorem bitsOf_range (o : Order) : 0 ≤ bitsOf o ∧ bitsOf o < 8 := by
  obtain ⟨a, b, c⟩ := o
  cases a <;> cases b <;> cases c <;> decide

theorem ordOf_bitsOf (o : Order) : ordOf (bitsOf o) = o := by
  obtain ⟨a, b, c⟩ := o
  cases a <;> cases b <;> cases c <;> decide

theorem toM_ofM (ap : AP) : toM (ofM ap) = ap := by
  obtain ⟨sh, st, f, o⟩ := ap
  simp [toM, ofM, ordOf_bitsOf]

/-- `AP.S` (source) on the Go image of any model access pattern ≡ the model's `AP.S` on it -/
theorem AP_S_eq_ofM (ap : AP) (size : Int) (sls : List (Option Sl)) :
    clsAPS (AP_S (ofM ap) size sls) = clsM (ap.S size sls) := by
  have := AP_S_eq (ofM ap) size sls (bitsOf_range ap.o)
  rwa [toM_ofM] at this

end TM.Gen

namespace TM.Gen
open TM
set_option linter.unusedSimpArgs false

/-! ### `Itol` -/

/-- the coordinates a run of the translated loop delivers, if it comes to an end -/
def itolCoords (r : GoM (Ctl (List Int × GoErr) (List Int × GoErr × Int))) : Option (List Int) :=
  match r with
  | .ok (Ctl.next s) => some s.1
  | .ok (Ctl.ret r) => some r.1
  | .error _ => none

def okCoords (acc : List Int) (r : Res (List Int)) : Option (List Int) :=
  match r with
  | .ok cs => some (acc ++ cs)
  | .error _ => none

theorem Itol_loop1_coords (dims : Int) (shape strides : List Int) (hl : strides.length ≤ shape.length) :
    ∀ (m k : Nat), k + m = strides.length → ∀ (sh' : List Int) (coords : List Int) (err : GoErr) (i : Int),
    itolCoords (Itol_loop1 dims shape strides (upFrom m (k : Int)) coords err i) =
      okCoords coords (itol.go i sh' (strides.drop k)) := by
  intro m
  induction m with
  | zero =>
    intro k hk sh' coords err i
    have : strides.drop k = [] := List.drop_eq_nil_of_le (by omega)
    cases sh' <;> simp [upFrom, Itol_loop1, itolCoords, okCoords, this, itol.go, pure, Except.pure]
  | succ m ih =>
    intro k hk sh' coords err i
    have hks : k < strides.length := by omega
    have hksh : k < shape.length := by omega
    have hd : strides.drop k = strides[k] :: strides.drop (k + 1) := (List.drop_eq_getElem_cons hks)
    rw [upFrom_succ, Itol_loop1, hd, itol.go]
    simp only [gidx_lt strides k hks, gidx_lt shape k hksh, bind, Except.bind, pure, Except.pure]
    by_cases h0 : strides[k] = 0
    · simp [h0, divmod, gpanic, itolCoords, okCoords, throwPanic, throw, throwThe, MonadExceptOf.throw]
    · have hb : (strides[k] == 0) = false := by simpa using h0
      simp only [divmod, hb, Bool.false_eq_true, if_false, pure, Except.pure]
      have hnext := fun e => ih (k + 1) (by omega) sh'.tail (coords ++ [Int.tdiv i strides[k]]) e (Int.tmod i strides[k])
      have hcast : ((k : Int) + 1) = ((k + 1 : Nat) : Int) := by omega
      by_cases hge : Int.tdiv i strides[k] ≥ shape[k]
      · simp only [hge, decide_true, if_true]
        rw [hcast, hnext]
        unfold goMod goDiv
        cases itol.go (Int.tmod i strides[k]) sh'.tail (strides.drop (k + 1)) <;> simp [okCoords]
      · simp only [hge, decide_false, Bool.false_eq_true, if_false]
        rw [hcast, hnext]
        unfold goMod goDiv
        cases itol.go (Int.tmod i strides[k]) sh'.tail (strides.drop (k + 1)) <;> simp [okCoords]

/-- **`Itol` of `utils.go`, as translated from the source on this run, returns the model's coordinates** and comes to an
    end exactly when the model's `itol` does (a zero stride is the divide panic in both), for every index, shape with at
    least as many extents as there are strides, and stride vector. (The source also reports, without stopping, an
    extent that a coordinate reaches; the model's callers never look at that error.) -/
theorem Itol_coords (i : Int) (shape strides : List Int) (hl : strides.length ≤ shape.length) :
    (match Itol i shape strides with | .ok r => some r.1 | .error _ => none) =
      (match itol i shape strides with | .ok cs => some cs | .error _ => none) := by
  have h := Itol_loop1_coords (len strides) shape strides hl strides.length 0 (by omega) shape [] none i
  unfold Itol itol
  simp only [rangeUp, len, bind, Except.bind, pure, Except.pure]
  have hn : ((strides.length : Int) - 0).toNat = strides.length := by omega
  rw [hn]
  simp only [len, List.drop_zero, Int.natCast_zero] at h
  revert h
  cases Itol_loop1 (strides.length : Int) shape strides (upFrom strides.length 0) [] none i with
  | error e =>
    intro h
    cases hm : itol.go i shape strides with
    | error _ => rfl
    | ok cs => rw [hm] at h; simp [itolCoords, okCoords] at h
  | ok v =>
    intro h
    cases v with
    | ret r =>
      cases hm : itol.go i shape strides with
      | error _ => rw [hm] at h; simp [itolCoords, okCoords] at h
      | ok cs => rw [hm] at h; simp [itolCoords, okCoords] at h; simp [h]
    | next s =>
      cases hm : itol.go i shape strides with
      | error _ => rw [hm] at h; simp [itolCoords, okCoords] at h
      | ok cs => rw [hm] at h; simp [itolCoords, okCoords] at h; simp [h]
end TM.Gen
