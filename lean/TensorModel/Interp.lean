import TensorModel.Proto
import TensorModel.Eng
/-! Program interpreter of the model (M): one step of the line protocol → new state + output fields. -/
namespace TM

structure PState where
  st : St := {}
  ds : Array Dense := #[]            -- dense objects by identity (pointer identity in Go)
  vars : Array (Option Nat) := #[]   -- program variable → object id (`none`: creation failed)
  nnew : Nat := 0                    -- number of `new` steps so far (names the input buffers)
deriving Inhabited

inductive StepOut where
  | fields (s : String)              -- normal output line
  | stop (s : String)                -- output line, then stop the program (panic)

def PState.obj (ps : PState) (tok : String) : Option (Nat × Dense) := do
  let k ← parseVar tok
  let id ← (← ps.vars[k]?)
  let d ← ps.ds[id]?
  pure (id, d)

def PState.newVar (ps : PState) (d : Dense) : PState :=
  { ps with ds := ps.ds.push d, vars := ps.vars.push (some ps.ds.size) }
def PState.aliasVar (ps : PState) (id : Nat) : PState :=
  { ps with vars := ps.vars.push (some id) }
def PState.failVar (ps : PState) : PState := { ps with vars := ps.vars.push none }
def PState.setObj (ps : PState) (id : Nat) (d : Dense) : PState := { ps with ds := ps.ds.set! id d }

def atSweep (st : St) (t : Dense) : String :=
  let cs := allCoords t.shape
  if cs.length > 4096 then "big" else
  String.intercalate "," (cs.map (fun c => showRes (t.at_ st c) Val.toStr))

/-- C13 metadata invariant: one stride per axis, size = ∏ shape, all addresses distinct and inside
    the storage window. -/
def wfMeta (shape : Shape) (strides : List Int) (len : Int) : Bool :=
  let cs := allCoords shape
  if cs.length > 4096 then true else
  let addrs := cs.map (fun c => dot c strides)
  strides.length == shape.length && shape.all (· ≥ 0) &&
    addrs.all (fun a => 0 ≤ a && a < len) && addrs.eraseDups.length == addrs.length

def dumpFields (st : St) (t : Dense) : String :=
  let raw := showRes (t.rawCells st) showVals
  let mask := match t.mask with
    | none => "-"
    | some m => showRes ((rangeI m.len).mapM (fun i => st.mget m i)) showBools
  s!"shape={showInts t.shape} strides={showInts t.strides} o={t.ap.o.show} view={if t.view then 1 else 0} old={if t.old.isSome then 1 else 0} len={t.win.len} wf={if wfMeta t.shape t.strides t.win.len then 1 else 0} elems={atSweep st t} raw={raw} mask={mask}"

/-- outcome of an operation producing a new tensor variable -/
def finishNew (ps : PState) (r : Res (St × Dense)) : PState × StepOut :=
  match r with
  | .ok (st, d) => ({ ps with st := st }.newVar d, .fields "r=ok")
  | .error (.err _) => (ps.failVar, .fields "r=err")
  | .error (.panic _) => (ps.failVar, .stop "r=panic")

/-- outcome of an in-place operation on object `id` -/
def finishMut (ps : PState) (id : Nat) (r : Res (St × Dense)) : PState × StepOut :=
  match r with
  | .ok (st, d) => ({ ps with st := st }.setObj id d, .fields "r=ok")
  | .error (.err _) => (ps, .fields "r=err")
  | .error (.panic _) => (ps, .stop "r=panic")

def runIterScript (t : Dense) (script : String) : Res (String × List Int) := do
  let it0 := FlatIt.new t.ap
  let bound := (t.size.toNat + 3)
  let rec nexts (fuel : Nat) (it : FlatIt) (extra : Nat) (acc : List String) (offs : List Int) : FlatIt × List String × List Int :=
    match fuel with
    | 0 => (it, acc, offs)
    | fuel + 1 =>
      match it.next with
      | (it', some i) => nexts fuel it' extra (s!"{i}@{showInts it'.track}" :: acc) (i :: offs)
      | (it', none) => if extra == 0 then (it', acc, offs) else nexts fuel it' (extra - 1) ("E" :: acc) offs
  let (_, out, offs) ← script.toList.foldlM (fun (acc : FlatIt × List String × List Int) c => do
    let (it, out, offs) := acc
    match c with
    | 'n' => match it.next with
      | (it', some i) => pure (it', s!"{i}" :: out, offs)
      | (it', none) => pure (it', "E" :: out, offs)
    | 'N' => pure (nexts (bound + 3) it 2 out offs)
    -- `Start()`: Reset, then Next
    | 's' => do
      let it ← it.reset
      match it.next with
      | (it', some i) => pure (it', s!"s{i}" :: out, offs)
      | (it', none) => pure (it', "sE" :: out, offs)
    -- `Chan()`: the goroutine sends every index until Next fails, then closes the channel
    | 'C' =>
      let (it', o, _) := nexts (bound + 3) it 0 [] []
      pure (it', s!"C{String.intercalate "," (o.reverse.map (fun x => (x.splitOn "@").head!))}" :: out, offs)
    -- `Slice(nil)`: all remaining indices (returned together with the no-op error of the last `Next`: `!`)
    | 'L' =>
      let (it', o, _) := nexts (bound + 3) it 0 [] []
      pure (it', s!"L{String.intercalate "," (o.reverse.map (fun x => (x.splitOn "@").head!))}!" :: out, offs)
    | 'r' => pure ((← it.setReverse), out, offs)
    | 'f' => pure ((← it.setForward), out, offs)
    | 'x' => pure ((← it.reset), out, offs)
    | 'c' => pure (it, s!"c{showInts it.track}" :: out, offs)
    | 'd' => pure (it, (if it.done then "d1" else "d0") :: out, offs)
    | _ => pure (it, "?" :: out, offs)) (it0, [], [])
  pure (String.intercalate "|" out.reverse, offs.reverse)

def arithOps : List String := ["add", "sub", "mul", "div", "mod", "pow"]
def ordCmpOps : List String := ["gt", "gte", "lt", "lte"]
def eqCmpOps : List String := ["eq", "ne"]

/-- first program variable bound to object `id` -/
def PState.firstVar (ps : PState) (id : Nat) : String :=
  match ps.vars.toList.findIdx? (· == some id) with
  | some k => s!"${k}"
  | none => "new"

structure ParsedOpts where
  o : Opts := {}
  reuseId : Option Nat := none
  incrId : Option Nat := none
  bad : Bool := false

def parseOpts (ps : PState) (toks : List String) : ParsedOpts :=
  toks.foldl (fun acc t =>
    if t == "unsafe" then { acc with o := { acc.o with unsafe_ := true } }
    else if t == "same" then { acc with o := { acc.o with same := true } }
    else if t == "safe" then acc
    else if t.startsWith "reuse=" then
      match ps.obj (t.drop 6).toString with
      | some (id, d) => { acc with o := { acc.o with reuse := some d }, reuseId := some id }
      | none => { acc with bad := true }
    else if t.startsWith "incr=" then
      match ps.obj (t.drop 5).toString with
      | some (id, d) => { acc with o := { acc.o with incr := some d }, incrId := some id }
      | none => { acc with bad := true }
    else { acc with bad := true }) {}

/-- a binary operand token: `$k` (tensor) or `#lit[:dt]` (Go scalar) -/
inductive Operand where
  | ten (id : Nat) (d : Dense)
  | lit (tok : String) (dt : Option String)
  | bad

def parseOperand (ps : PState) (tok : String) : Operand :=
  if tok.startsWith "$" then
    match ps.obj tok with
    | some (id, d) => .ten id d
    | none => .bad
  else if tok.startsWith "#" then
    match ((tok.drop 1).toString.splitOn ":") with
    | [l] => .lit l none
    | [l, dt] => .lit l (some dt)
    | _ => .bad
  else .bad

/-- apply the outcome of an engine call to the program state -/
def applyEng (ps : PState) (aId : Nat) (po : ParsedOpts) (r : Res EngOut) : PState × StepOut :=
  match r with
  | .error (.err _) => (ps.failVar, .fields "r=err")
  | .error (.panic _) => (ps.failVar, .stop "r=panic")
  | .ok out =>
    let ps := { ps with st := out.st }
    let rid := match po.incrId with | some i => some i | none => po.reuseId
    let ps := match rid, out.reuse with
      | some i, some d => ps.setObj i d
      | _, _ => ps
    match out.ret with
    | .a => let ps := ps.aliasVar aId; (ps, .fields s!"r=ok ident={ps.firstVar aId}")
    | .reuse => match rid with
      | some i => let ps := ps.aliasVar i; (ps, .fields s!"r=ok ident={ps.firstVar i}")
      | none => (ps.failVar, .fields "r=ok ident=?")
    | .fresh d => (ps.newVar d, .fields "r=ok ident=new")
    | .failed => (ps.failVar, .fields "r=err")

/-- scalar argument from a literal: a fresh one-cell header -/
def litScalar (st : St) (tok : String) (dt : String) : St × ScalarArg :=
  let (st, b) := st.alloc #[Val.lit s!"{tok}:{dt}"]
  (st, { win := ⟨b, 0, 1, 1⟩, dt := dt })

def stepBin (ps : PState) (op via a b : String) (optToks : List String) : PState × StepOut :=
  let po := parseOpts ps optToks
  if po.bad then (ps.failVar, .fields "r=skip") else
  let isArith := arithOps.contains op
  let tc := if isArith then numberTypes else if ordCmpOps.contains op then ordTypes else eqTypes
  let vv (aId : Nat) (x y : Dense) :=
    applyEng ps aId po (if isArith then engArithVV ps.st op tc x y po.o else engCmpVV ps.st op tc x y po.o)
  let sc (st : St) (tId : Nat) (t : Dense) (s : ScalarArg) (left : Bool) :=
    applyEng { ps with st := st } tId po
      (if isArith then engArithScalar st op tc t s left po.o else engCmpScalar st op tc t s left po.o)
  if !(isArith || ordCmpOps.contains op || eqCmpOps.contains op) then (ps.failVar, .fields "r=badprog") else
  match parseOperand ps a, parseOperand ps b with
  | .ten aId x, .ten bId y =>
    -- aliasing: when the reuse tensor *is* the second operand, `handleFuncOpts` (which toggles the
    -- reuse tensor's order flag to the first operand's) has modified that operand before
    -- `prepDataVV` looks at it
    let flip (d : Dense) : Dense := { d with ap := { d.ap with o := { d.ap.o with col := x.ap.o.col } } }
    let aliasB := po.reuseId == some bId && po.incrId.isNone && y.ap.o.col != x.ap.o.col && x.dt == y.dt &&
      shapeEq x.shape y.shape && (y.win.len : Int) == totalSize x.shape
    let y := if aliasB then flip y else y
    let po := if aliasB then { po with o := { po.o with reuse := po.o.reuse.map flip } } else po
    let vv (aId : Nat) (x y : Dense) :=
      applyEng ps aId po (if isArith then engArithVV ps.st op tc x y po.o else engCmpVV ps.st op tc x y po.o)
    if via == "meth" then vv aId x y
    else if !isScalar y.shape && !isScalar x.shape then vv aId x y
    else if !isScalar y.shape then
      -- a is the scalar tensor: swap, leftTensor = false
      let (st, s) := tenScalar ps.st x
      sc st bId y s false
    else
      let (st, s) := tenScalar ps.st y
      sc st aId x s true
  | .ten aId x, .lit l dt =>
    let (st, s) := litScalar ps.st l (dt.getD x.dt)
    sc st aId x s true
  | .lit l dt, .ten bId y =>
    let (st, s) := litScalar ps.st l (dt.getD y.dt)
    sc st bId y s false
  | _, _ => (ps.failVar, .fields "r=skip")

/-- unary scalar function term for `un <op> …`; clamp carries its bounds -/
def unaryFn (op : String) (dt : String) (params : List String) : UnF :=
  match op, params with
  | "clamp", [lo, hi] => fun x => .app3 "clamp" x (.lit s!"{lo}:{dt}") (.lit s!"{hi}:{dt}")
  | "apply", _ => if dt == "b" then (fun x => x) else fun x => .app2 "add" x x
  | "applyerr", _ => if dt == "b" then (fun x => x) else fun x => .app2 "add" x x
  | _, _ => fun x => .app1 op x

/-- element types `E.Map` has an arm for (all sixteen specialised types + pointers are not generated) -/
def mapTypes : List String := ["b", "i", "i8", "i16", "i32", "i64", "u", "u8", "u16", "u32", "u64", "f32", "f64", "c64", "c128", "str"]

def stepUn (ps : PState) (op a : String) (rest : List String) : PState × StepOut :=
  -- parameters (clamp bounds) are the leading `#` tokens of `rest`
  let params := (rest.takeWhile (·.startsWith "#")).map (fun t => (t.drop 1).toString)
  let optToks := rest.dropWhile (·.startsWith "#")
  let po := parseOpts ps optToks
  if po.bad then (ps.failVar, .fields "r=skip") else
  match ps.obj a with
  | none => (ps.failVar, .fields "r=skip")
  | some (aId, x) =>
    if op == "apply" || op == "applyerr" then
      applyEng ps aId po (engMap ps.st (unaryFn op x.dt params) mapTypes x po.o) else
    match unaryClasses.find? (·.1 == op) with
    | none => (ps.failVar, .fields "r=badprog")
    | some (_, tc, kt) => applyEng ps aId po (engUnary ps.st (unaryFn op x.dt params) tc kt (op != "clamp") x po.o)

def stepM (ps : PState) (stepIdx : Nat) (toks : List String) : PState × StepOut :=
  match toks with
  | ["new", dt, shape, order] =>
    match parseIntList shape with
    | none => (ps.failVar, .fields "r=badprog")
    | some sh =>
      let n := (totalSize sh).toNat
      let bid := ps.nnew
      let ps := { ps with nnew := ps.nnew + 1 }
      let cells : Array Val := (Array.range n).map (fun i => Val.src bid i)
      match order with
      | "C" => finishNew ps (Dense.newRow ps.st dt sh cells)
      | "Fraw" =>
        -- New(WithShape, WithBacking, AsFortran(nil)): column-major strides over the raw backing
        finishNew ps (do
          let (st, d) ← Dense.newRow ps.st dt sh cells
          pure (st, { d with ap := { d.ap with strides := calcStridesCol sh, o := { d.ap.o with col := true } } }))
      | "Fconv" =>
        -- New(WithShape, AsFortran(backing)): copy, lazy transpose, physical transpose, copy back
        finishNew ps (do
          let (st, d) ← Dense.newRow ps.st dt sh cells
          let (st, tmp) ← Dense.T st d []
          let (st, tmp) ← Dense.transpose st tmp
          pure (st, { d with ap := { shape := sh, strides := calcStridesCol sh, fin := true, o := { col := true } }, win := tmp.win }))
      | _ => (ps.failVar, .fields "r=badprog")
  | ["slice", v, spec] =>
    match ps.obj v, parseSlList spec with
    | some (_, t), some sls => finishNew ps ((t.slice sls).map (fun d => (ps.st, d)))
    | _, _ => (ps.failVar, .fields "r=skip")
  | ["T", v, axes] =>
    match ps.obj v, parseIntList axes with
    | some (id, t), some ax => finishMut ps id (Dense.T ps.st t ax)
    | _, _ => (ps, .fields "r=skip")
  | ["UT", v] =>
    match ps.obj v with
    | some (id, t) => finishMut ps id (.ok (ps.st, t.ut))
    | _ => (ps, .fields "r=skip")
  | ["transpose", v] =>
    match ps.obj v with
    | some (id, t) => finishMut ps id (Dense.transpose ps.st t)
    | _ => (ps, .fields "r=skip")
  | ["at", v, coords] =>
    match ps.obj v, parseIntList coords with
    | some (_, t), some c => (ps, match t.at_ ps.st c with
        | .ok x => .fields s!"r=ok v={x}"
        | .error (.err _) => .fields "r=err"
        | .error (.panic _) => .stop "r=panic")
    | _, _ => (ps, .fields "r=skip")
  | ["setat", v, coords] =>
    match ps.obj v, parseIntList coords with
    | some (_, t), some c => (match t.setAt ps.st c (.lit s!"w{stepIdx}:{t.dt}") with
        | .ok st => ({ ps with st := st }, .fields "r=ok")
        | .error (.err _) => (ps, .fields "r=err")
        | .error (.panic _) => (ps, .stop "r=panic"))
    | _, _ => (ps, .fields "r=skip")
  | ["atbox", v, lo, hi] =>
    match ps.obj v, lo.toInt?, hi.toInt? with
    | some (_, t), some lo, some hi =>
      let axes := t.shape.map (fun d => (rangeI ((d + hi - lo + 1).toNat)).map (· + lo))
      let coords := axes.foldr (fun ax acc => ax.flatMap (fun i => acc.map (i :: ·))) [[]]
      (ps, .fields ("box=" ++ String.intercalate "," (coords.map (fun c => showRes (t.at_ ps.st c) Val.toStr))))
    | _, _, _ => (ps, .fields "r=skip")
  | ["clone", v] =>
    match ps.obj v with
    | some (_, t) => finishNew ps (Dense.clone ps.st t)
    | _ => (ps.failVar, .fields "r=skip")
  | ["shallow", v] =>
    match ps.obj v with
    | some (_, t) => finishNew ps (.ok (ps.st, t))
    | _ => (ps.failVar, .fields "r=skip")
  | ["mat", v] =>
    match ps.obj v with
    | some (id, t) =>
      (match Dense.materialize ps.st t with
      | .ok (st, some d) => ({ ps with st := st }.newVar d, .fields "r=ok")
      | .ok (_, none) => (ps.aliasVar id, .fields "r=ok")
      | .error (.err _) => (ps.failVar, .fields "r=err")
      | .error (.panic _) => (ps.failVar, .stop "r=panic"))
    | _ => (ps.failVar, .fields "r=skip")
  | ["safeT", v, axes] =>
    match ps.obj v, parseIntList axes with
    | some (_, t), some ax => finishNew ps (Dense.safeT ps.st t ax)
    | _, _ => (ps.failVar, .fields "r=skip")
  | ["apiTranspose", v, axes] =>
    -- `tensor.Transpose(t, axes...)`: `SafeT` then `Transpose()` of the copy
    match ps.obj v, parseIntList axes with
    | some (_, t), some ax => finishNew ps (do
        let (st, d) ← Dense.safeT ps.st t ax
        Dense.transpose st d)
    | _, _ => (ps.failVar, .fields "r=skip")
  | ["fmt", v, _] =>
    -- formatting reads the tensor; the text itself is compared by the harness with the text the same tensor gave
    -- before (sequentially, in the prefix of a goroutine set)
    match ps.obj v with
    | some _ => (ps, .fields "r=ok")
    | none => (ps, .fields "r=skip")
  | ["roll", v, axis, start, safe] =>
    match ps.obj v, axis.toInt?, start.toInt? with
    | some (id, t), some axis, some start =>
      (match Dense.rollAxes t.dims axis start with
      | .error (.err _) => (ps.failVar, .fields "r=err")
      | .error (.panic _) => (ps.failVar, .stop "r=panic")
      | .ok none => (ps.aliasVar id, .fields "r=ok")
      | .ok (some axes) =>
        if safe == "1" then finishNew ps (Dense.safeT ps.st t axes)
        else match Dense.T ps.st t axes with
          | .ok (st, d) => (({ ps with st := st }.setObj id d).aliasVar id, .fields "r=ok")
          | .error (.err _) => (ps.failVar, .fields "r=err")
          | .error (.panic _) => (ps.failVar, .stop "r=panic"))
    | _, _, _ => (ps.failVar, .fields "r=skip")
  | ["memset", v] =>
    match ps.obj v with
    | some (_, t) => (match Dense.memset ps.st t (.lit s!"w{stepIdx}:{t.dt}") with
        | .ok st => ({ ps with st := st }, .fields "r=ok")
        | .error (.err _) => (ps, .fields "r=err")
        | .error (.panic _) => (ps, .stop "r=panic"))
    | _ => (ps, .fields "r=skip")
  | ["zero", v] =>
    match ps.obj v with
    | some (_, t) => (match Dense.zero ps.st t with
        | .ok st => ({ ps with st := st }, .fields "r=ok")
        | .error (.err _) => (ps, .fields "r=err")
        | .error (.panic _) => (ps, .stop "r=panic"))
    | _ => (ps, .fields "r=skip")
  | ["copy", d, v] =>
    match ps.obj d, ps.obj v with
    | some (did, dst), some (_, src) => finishMut ps did (Dense.copy ps.st dst src)
    | _, _ => (ps, .fields "r=skip")
  | ["copyto", v, d] =>
    match ps.obj v, ps.obj d with
    | some (sid, src), some (did, dst) =>
      if sid == did then (ps, .fields "r=ok") else finishMut ps did (Dense.copyTo ps.st src dst)
    | _, _ => (ps, .fields "r=skip")
  | ["reshape", v, dims] =>
    match ps.obj v, parseIntList dims with
    | some (id, t), some dims =>
      (match Dense.reshape ps.st t dims with
      | .ok (.ok st d) => ({ ps with st := st }.setObj id d, .fields "r=ok")
      | .ok (.errKept _) => (ps, .fields "r=err")
      | .ok (.errMutated st d) => ({ ps with st := st }.setObj id d, .fields "r=err")
      | .error (.err _) => (ps, .fields "r=err")
      | .error (.panic _) => (ps, .stop "r=panic"))
    | _, _ => (ps, .fields "r=skip")
  | ["calcS", v, spec] =>
    match ps.obj v, parseSlList spec with
    | some (_, t), some sls => (ps, match shapeS t.shape sls with
        | .ok sh => .fields s!"r=ok shape={showInts sh}"
        | .error (.err _) => .fields "r=err"
        | .error (.panic _) => .stop "r=panic")
    | _, _ => (ps, .fields "r=skip")
  | ["calcT", v, axes] =>
    match ps.obj v, parseIntList axes with
    | some (_, t), some ax => (ps, match t.ap.T ax with
        | .ok (.ok ap _) => .fields s!"r=ok shape={showInts ap.shape}"
        | .ok (.noop ap _) => .fields s!"r=ok shape={showInts ap.shape}"
        | .error (.err _) => .fields "r=err"
        | .error (.panic _) => .stop "r=panic")
    | _, _ => (ps, .fields "r=skip")
  | "bin" :: op :: via :: a :: b :: opts => stepBin ps op via a b opts
  | "un" :: op :: a :: rest => stepUn ps op a rest
  | ["iter", v, script] =>
    match ps.obj v with
    | some (_, t) => (ps, match runIterScript t script with
        | .ok (q, offs) =>
          let cells := offs.map (fun i => match ps.st.get t.win i with | .ok v => v.toStr | .error _ => "oob")
          .fields s!"seq={q} cells={if cells.isEmpty then "-" else String.intercalate "," cells}"
        | .error (.err _) => .fields "r=err"
        | .error (.panic _) => .stop "r=panic")
    | _ => (ps, .fields "r=skip")
  | ["dump", v] =>
    match ps.obj v with
    | some (_, t) => (ps, .fields (dumpFields ps.st t))
    | _ => (ps, .fields "r=skip")
  | _ => (ps, .fields "r=badprog")

end TM
