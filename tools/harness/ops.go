package main

import (
	"fmt"
	"math"
	"math/cmplx"

	"github.com/chewxy/math32"
)

type integer interface {
	~int | ~int8 | ~int16 | ~int32 | ~int64 | ~uint | ~uint8 | ~uint16 | ~uint32 | ~uint64
}
type float interface{ ~float32 | ~float64 }
type realnum interface{ integer | float }

func b2t[T realnum](b bool) T {
	if b {
		return 1
	}
	return 0
}

// binReal evaluates the operators every ordered numeric type shares, with Go's own operators.
func binReal[T realnum](f string, a, b T) (interface{}, bool) {
	switch f {
	case "add":
		return a + b, true
	case "sub":
		return a - b, true
	case "mul":
		return a * b, true
	case "gt":
		return a > b, true
	case "gte":
		return a >= b, true
	case "lt":
		return a < b, true
	case "lte":
		return a <= b, true
	case "eq":
		return a == b, true
	case "ne":
		return a != b, true
	case "gt.same":
		return b2t[T](a > b), true
	case "gte.same":
		return b2t[T](a >= b), true
	case "lt.same":
		return b2t[T](a < b), true
	case "lte.same":
		return b2t[T](a <= b), true
	case "eq.same":
		return b2t[T](a == b), true
	case "ne.same":
		return b2t[T](a != b), true
	case "minb":
		if a < b {
			return a, true
		}
		return b, true
	case "maxb":
		if a > b {
			return a, true
		}
		return b, true
	}
	return nil, false
}

func binInt[T integer](f string, a, b T) (interface{}, error) {
	if v, ok := binReal(f, a, b); ok {
		return v, nil
	}
	switch f {
	case "div", "div.vec":
		if b == 0 {
			return nil, fmt.Errorf("integer division by zero in the oracle (outside the specification's domain)")
		}
		return a / b, nil
	case "mod":
		if b == 0 {
			return nil, fmt.Errorf("integer modulo by zero in the oracle (outside the specification's domain)")
		}
		return a % b, nil
	}
	return nil, fmt.Errorf("unknown integer function %q", f)
}

func binF64(f string, a, b float64) (interface{}, error) {
	if v, ok := binReal(f, a, b); ok {
		return v, nil
	}
	switch f {
	case "div":
		return a / b, nil
	case "div.vec": // gorgonia.org/vecf64.Div: any zero divisor gives +Inf
		if b == 0 {
			return math.Inf(0), nil
		}
		return a / b, nil
	case "mod":
		return math.Mod(a, b), nil
	case "pow":
		return math.Pow(a, b), nil
	}
	return nil, fmt.Errorf("unknown float64 function %q", f)
}

func binF32(f string, a, b float32) (interface{}, error) {
	if v, ok := binReal(f, a, b); ok {
		return v, nil
	}
	switch f {
	case "div":
		return a / b, nil
	case "div.vec":
		if b == 0 {
			return math32.Inf(0), nil
		}
		return a / b, nil
	case "mod":
		return math32.Mod(a, b), nil
	case "pow":
		return math32.Pow(a, b), nil
	}
	return nil, fmt.Errorf("unknown float32 function %q", f)
}

func binC128(f string, a, b complex128) (interface{}, error) {
	switch f {
	case "add":
		return a + b, nil
	case "sub":
		return a - b, nil
	case "mul":
		return a * b, nil
	case "div", "div.vec":
		return a / b, nil
	case "pow":
		return cmplx.Pow(a, b), nil
	case "eq":
		return a == b, nil
	case "ne":
		return a != b, nil
	case "eq.same":
		if a == b {
			return complex128(1), nil
		}
		return complex128(0), nil
	case "ne.same":
		if a != b {
			return complex128(1), nil
		}
		return complex128(0), nil
	}
	return nil, fmt.Errorf("unknown complex128 function %q", f)
}

func binC64(f string, a, b complex64) (interface{}, error) {
	switch f {
	case "add":
		return a + b, nil
	case "sub":
		return a - b, nil
	case "mul":
		return a * b, nil
	case "div", "div.vec":
		return a / b, nil
	case "pow":
		return complex64(cmplx.Pow(complex128(a), complex128(b))), nil
	case "eq":
		return a == b, nil
	case "ne":
		return a != b, nil
	case "eq.same":
		if a == b {
			return complex64(1), nil
		}
		return complex64(0), nil
	case "ne.same":
		if a != b {
			return complex64(1), nil
		}
		return complex64(0), nil
	}
	return nil, fmt.Errorf("unknown complex64 function %q", f)
}

func binStr(f string, a, b string) (interface{}, error) {
	switch f {
	case "add":
		return a + b, nil
	case "gt":
		return a > b, nil
	case "gte":
		return a >= b, nil
	case "lt":
		return a < b, nil
	case "lte":
		return a <= b, nil
	case "eq":
		return a == b, nil
	case "ne":
		return a != b, nil
	case "gt.same":
		return strTF(a > b), nil
	case "gte.same":
		return strTF(a >= b), nil
	case "lt.same":
		return strTF(a < b), nil
	case "lte.same":
		return strTF(a <= b), nil
	case "eq.same":
		return strTF(a == b), nil
	case "ne.same":
		return strTF(a != b), nil
	}
	return nil, fmt.Errorf("unknown string function %q", f)
}

func strTF(b bool) string {
	if b {
		return "true"
	}
	return "false"
}

func binBool(f string, a, b bool) (interface{}, error) {
	switch f {
	case "eq", "eq.same":
		return a == b, nil
	case "ne", "ne.same":
		return a != b, nil
	}
	return nil, fmt.Errorf("unknown bool function %q", f)
}

// applyOp evaluates the scalar function named f on typed Go values with Go's own operators and
// maths routines (the same ones the kernels of that element type name).
func applyOp(f string, dt *dtInfo, args []interface{}) (interface{}, error) {
	for _, a := range args {
		if m, ok := a.(errMark); ok {
			return m, nil
		}
	}
	if len(args) == 1 {
		return applyUnary(f, args[0])
	}
	if len(args) == 3 {
		return applyTernary(f, args[0], args[1], args[2])
	}
	if len(args) != 2 {
		return nil, fmt.Errorf("bad arity for %q", f)
	}
	switch a := args[0].(type) {
	case int:
		if b, ok := args[1].(int); ok {
			return binInt(f, a, b)
		}
	case int8:
		if b, ok := args[1].(int8); ok {
			return binInt(f, a, b)
		}
	case int16:
		if b, ok := args[1].(int16); ok {
			return binInt(f, a, b)
		}
	case int32:
		if b, ok := args[1].(int32); ok {
			return binInt(f, a, b)
		}
	case int64:
		if b, ok := args[1].(int64); ok {
			return binInt(f, a, b)
		}
	case uint:
		if b, ok := args[1].(uint); ok {
			return binInt(f, a, b)
		}
	case uint8:
		if b, ok := args[1].(uint8); ok {
			return binInt(f, a, b)
		}
	case uint16:
		if b, ok := args[1].(uint16); ok {
			return binInt(f, a, b)
		}
	case uint32:
		if b, ok := args[1].(uint32); ok {
			return binInt(f, a, b)
		}
	case uint64:
		if b, ok := args[1].(uint64); ok {
			return binInt(f, a, b)
		}
	case float32:
		if b, ok := args[1].(float32); ok {
			return binF32(f, a, b)
		}
	case float64:
		if b, ok := args[1].(float64); ok {
			return binF64(f, a, b)
		}
	case complex64:
		if b, ok := args[1].(complex64); ok {
			return binC64(f, a, b)
		}
	case complex128:
		if b, ok := args[1].(complex128); ok {
			return binC128(f, a, b)
		}
	case string:
		if b, ok := args[1].(string); ok {
			return binStr(f, a, b)
		}
	case bool:
		if b, ok := args[1].(bool); ok {
			return binBool(f, a, b)
		}
	}
	return nil, fmt.Errorf("operands of %q have mismatched or unsupported types %T, %T", f, args[0], args[1])
}

func applyUnary(f string, a interface{}) (interface{}, error) {
	return nil, fmt.Errorf("unknown unary function %q", f)
}

func applyTernary(f string, a, b, c interface{}) (interface{}, error) {
	return nil, fmt.Errorf("unknown ternary function %q", f)
}
