import TensorModel.Ext.Mask
import TensorModel.Proofs.Views
/-!
  C15 — masks are set, counted, iterated and respected consistently.

  The model functions of `Ext/Mask.lean` run the loops of the Go code through pure list kernels
  (`predKernel`, `scanS`/`findS`, `enumS`, `runsS`, `countTrue`); the theorems below are about those
  kernels (all lengths) and about the model functions that call them. The specification side is
  `runsOf`, `edgesOf`, `foldKind` (used by `Mask.stepS`).
-/
namespace TM.C15
open TM TM.Mask

/-! ## predicates: the soft / hard template -/

theorem predKernel_length (soft : Bool) : ∀ (ps ms : List Bool), (predKernel soft ps ms).length = ms.length
  | [], ms => by cases ms <;> simp [predKernel]
  | _ :: _, [] => by simp [predKernel]
  | _ :: ps, _ :: ms => by simp [predKernel, predKernel_length soft ps ms]

/-- **maskPred_spec.** After a predicate the mask holds, at every raw position `i` of the data,
    `p i` when the mask is soft and `old i ∨ p i` when it is hard (every length; positions of the
    mask behind the data keep their value). On a contiguous tensor raw positions are logical
    positions, so this is S's "replace when soft, only add when hard". -/
theorem maskPred_spec (soft : Bool) : ∀ (ps ms : List Bool) (i : Nat) (p m : Bool),
    ps[i]? = some p → ms[i]? = some m →
    (predKernel soft ps ms)[i]? = some (if soft then p else m || p)
  | [], _, _, _, _, h, _ => by simp at h
  | _ :: _, [], _, _, _, _, h => by simp at h
  | p0 :: ps, m0 :: ms, 0, p, m, hp, hm => by
    simp at hp hm; subst hp; subst hm; simp [predKernel]
  | _ :: ps, _ :: ms, i + 1, p, m, hp, hm => by
    simp at hp hm
    simpa [predKernel] using maskPred_spec soft ps ms i p m hp hm

theorem maskPred_tail (soft : Bool) : ∀ (ps ms : List Bool) (i : Nat), ps[i]? = none →
    (predKernel soft ps ms)[i]? = ms[i]?
  | [], ms, _, _ => by cases ms <;> simp [predKernel]
  | _ :: _, [], _, _ => by simp [predKernel]
  | _ :: ps, _ :: ms, 0, h => by simp at h
  | _ :: ps, _ :: ms, i + 1, h => by
    have h' : ps[i]? = none := by simpa using h
    simpa [predKernel] using maskPred_tail soft ps ms i h'

/-- hard masks only grow -/
theorem maskPred_hard_mono (ps ms : List Bool) (i : Nat) (h : ms[i]? = some true) :
    (predKernel false ps ms)[i]? = some true := by
  cases hp : ps[i]? with
  | none => rw [maskPred_tail false ps ms i hp, h]
  | some p => simpa using maskPred_spec false ps ms i p true hp h

/-- decision logic: by-values masking is refused (error, nothing changed) on non-float tensors -/
theorem maskPred_values_refused (s : St) (t : Dense) (lits : List (String × String))
    (h : floatTypes.contains t.dt = false) :
    ∃ e, maskPred s t "values" lits = .error (.err e) := by
  have h' : t.dt ∉ floatTypes := by simpa using h
  exact ⟨"MaskedValues: floating point types only", by simp [maskPred, h', throwErr, bind, Except.bind]⟩


/-- decision logic (the former finding F86, now unguarded): **every** predicate refuses — with an error, before a
    mask is made or a bit is written: the result carries no state — a tensor of an element type its type switch
    has no comparison for: (in)equality, the order predicates and the range predicates on anything but the ordered
    number types and strings (so bool, complex64, complex128, uintptr), by-values on anything but floats. No
    element type falls through to "nothing marked, nil returned" any more. -/
theorem maskPred_unsupported_refused (s : St) (t : Dense) (op : String) (lits : List (String × String))
    (h : (predTypes op).contains t.dt = false) :
    ∃ e, maskPred s t op lits = .error (.err e) := by
  have h' : t.dt ∉ predTypes op := by simpa using h
  by_cases hv : op = "values" ∧ t.dt ∉ floatTypes
  · exact ⟨"MaskedValues: floating point types only", by simp [maskPred, hv, throwErr, bind, Except.bind]⟩
  · exact ⟨"unsupportedDtype", by simp [maskPred, hv, h', throwErr, bind, Except.bind]⟩

/-- … and conversely a supported element type is never refused for its type (`maskPred_uses_kernel` below gives
    the result). Non-vacuity of the refusal: the former witness `mnew c64 3 C - ; mpred eq $0 soft #k2`, and a
    bool tensor under `MaskedNotEqual`; an int16 tensor passes the test. -/
example : (predTypes "eq").contains "c64" = false ∧ (predTypes "ne").contains "b" = false ∧
    (predTypes "gt").contains "c128" = false ∧ (predTypes "eq").contains "i16" = true ∧
    (predTypes "values").contains "f32" = true ∧ (predTypes "values").contains "i16" = false := by decide

/-! ### from the kernel to the model's state: `maskPred` writes `predKernel` into the mask window -/

theorem St.mset_ok {s s' : St} {w : Win} {i : Int} {v : Bool} (h : s.mset w i v = .ok s') :
    ∃ b, 0 ≤ i ∧ i < w.len ∧ s.mheap[w.buf]? = some b ∧ w.off + i.toNat < b.size ∧
      s' = { s with mheap := s.mheap.set! w.buf (b.set! (w.off + i.toNat) v) } := by
  unfold St.mset at h
  by_cases hr : (decide (i < 0) || decide (i ≥ (w.len : Int))) = true
  · simp only [hr, if_true] at h; cases h
  · simp only [hr] at h
    simp only [Bool.or_eq_true, decide_eq_true_eq, not_or] at hr
    cases hb : s.mheap[w.buf]? with
    | none => simp only [hb] at h; cases h
    | some b =>
      simp only [hb] at h
      by_cases hk : w.off + i.toNat < b.size
      · simp only [hk, if_true, Bool.false_eq_true, if_false] at h
        refine ⟨b, by omega, by omega, rfl, hk, ?_⟩
        injection h with h; exact h.symm
      · simp only [hk, if_false, Bool.false_eq_true] at h; cases h

theorem St.mget_mset_same {s s' : St} {w : Win} {i : Int} {v : Bool} (h : s.mset w i v = .ok s') :
    s'.mget w i = .ok v := by
  obtain ⟨b, h0, h1, hb, hk, rfl⟩ := St.mset_ok h
  obtain ⟨hbuf, hbb⟩ := Array.getElem?_eq_some_iff.mp hb
  have hr : (decide (i < 0) || decide (i ≥ (w.len : Int))) = false := by
    simp only [Bool.or_eq_false_iff, decide_eq_false_iff_not]; omega
  simp [St.mget, hr, hbuf, hk]

theorem St.mget_mset_other {s s' : St} {w : Win} {i j : Int} {v : Bool} (h : s.mset w i v = .ok s')
    (hne : j ≠ i) : s'.mget w j = s.mget w j := by
  obtain ⟨b, h0, h1, hb, hk, rfl⟩ := St.mset_ok h
  obtain ⟨hbuf, hbb⟩ := Array.getElem?_eq_some_iff.mp hb
  unfold St.mget
  by_cases hr : (decide (j < 0) || decide (j ≥ (w.len : Int))) = true
  · simp only [hr, if_true]
  · simp only [hr]
    simp only [Bool.or_eq_true, decide_eq_true_eq, not_or] at hr
    have hk' : i.toNat ≠ j.toNat := by omega
    simp [hbuf, hbb, hk']

/-- the write loop: positions `k, k+1, …` receive the listed bits, positions below `k` are kept -/
theorem writeLoop_spec (m : Win) : ∀ (bits : List Bool) (k n : Nat) (s s' : St),
    (bits.zip ((List.range' k n).map Int.ofNat)).foldlM (fun s (p : Bool × Int) => s.mset m p.2 p.1) s = .ok s' →
    bits.length ≤ n →
    (∀ i b, bits[i]? = some b → s'.mget m ((k + i : Nat) : Int) = .ok b) ∧
    (∀ j : Int, j < k → s'.mget m j = s.mget m j)
  | [], k, n, s, s', h, _ => by
    simp only [List.zip_nil_left, List.foldlM_nil, pure, Except.pure] at h
    injection h with h; subst h
    exact ⟨fun i b hb => by simp at hb, fun _ _ => rfl⟩
  | b0 :: tl, k, 0, s, s', _, hn => by simp at hn
  | b0 :: tl, k, n + 1, s, s', h, hn => by
    simp only [List.range'_succ, List.map_cons, List.zip_cons_cons, List.foldlM_cons, bind, Except.bind,
      Int.ofNat_eq_natCast] at h
    cases h1 : s.mset m ((k : Nat) : Int) b0 with
    | error e => rw [h1] at h; cases h
    | ok s1 =>
      rw [h1] at h
      obtain ⟨ihA, ihB⟩ := writeLoop_spec m tl (k + 1) n s1 s' h (by simpa using hn)
      constructor
      · intro i b hb
        cases i with
        | zero =>
          simp only [List.getElem?_cons_zero, Option.some.injEq] at hb
          subst hb
          have := ihB ((k : Nat) : Int) (by omega)
          simpa using this.trans (St.mget_mset_same h1)
        | succ i =>
          simp only [List.getElem?_cons_succ] at hb
          have := ihA i b hb
          have he : (k + 1 + i : Nat) = (k + (i + 1) : Nat) := by omega
          rw [he] at this
          exact this
      · intro j hj
        have h2 := ihB j (by omega)
        rw [h2]
        exact St.mget_mset_other h1 (by simp; omega)

/-- **read-back**: after `writeMask s m bits` position `i` of the mask window holds `bits[i]` -/
theorem writeMask_read (s s' : St) (m : Win) (bits : List Bool) (h : writeMask s m bits = .ok s')
    (hl : bits.length ≤ m.len) (i : Nat) (b : Bool) (hb : bits[i]? = some b) :
    s'.mget m (i : Int) = .ok b := by
  unfold writeMask rangeI at h
  rw [List.range_eq_range'] at h
  have := (writeLoop_spec m bits 0 m.len s s' h hl).1 i b hb
  simpa using this

/-- the model's predicate step runs `predKernel` over the raw cells and stores the result -/
theorem maskPred_uses_kernel (s : St) (t : Dense) (op : String) (lits : List (String × String))
    (m : Win) (cells : List Val) (bits : List Bool)
    (hv : (op == "values" && !(floatTypes.contains t.dt)) = false)
    (hk : t.isMasked = true) (hm : t.mask = some m)
    (hty : (predTypes op).contains t.dt = true)
    (hl : lits.any (fun l => l.2 != t.dt) = false)
    (hc : t.rawCells s = .ok cells) (hb : maskBits s m = .ok bits) (hlen : ¬ bits.length < cells.length) :
    (maskPred s t op lits).map (·.st) =
      writeMask s m (predKernel t.maskSoft
        ((predVals op t.dt (lits.map (fun l => Val.lit s!"{l.1}:{l.2}")) cells).map (·.1)) bits) := by
  have hty' : t.dt ∈ predTypes op := by simpa using hty
  have hv' : ¬ (op = "values" ∧ t.dt ∉ floatTypes) := by simpa using hv
  simp only [maskPred, bind, Except.bind, pure, Except.pure, Except.map]
  simp [hv', hk, hm, hty', hl, hc, hb, hlen]
  cases writeMask s m _ <;> rfl

/-- **maskPred_spec on the model's state.** For a masked tensor of a supported element type with
    well-typed literals: after `Masked<Op>` raw position `i` of the mask holds `pᵢ` (soft) resp.
    `oldᵢ ∨ pᵢ` (hard), where `pᵢ` is the predicate value of raw cell `i`. -/
theorem maskPred_model_spec (s : St) (t : Dense) (op : String) (lits : List (String × String))
    (m : Win) (cells : List Val) (bits : List Bool) (o : PredOut)
    (hv : (op == "values" && !(floatTypes.contains t.dt)) = false)
    (hk : t.isMasked = true) (hm : t.mask = some m)
    (hty : (predTypes op).contains t.dt = true)
    (hl : lits.any (fun l => l.2 != t.dt) = false)
    (hc : t.rawCells s = .ok cells) (hb : maskBits s m = .ok bits) (hbl : bits.length = m.len)
    (hlen : ¬ bits.length < cells.length)
    (h : maskPred s t op lits = .ok o) (i : Nat) (p old : Bool)
    (hp : ((predVals op t.dt (lits.map (fun l => Val.lit s!"{l.1}:{l.2}")) cells).map (·.1))[i]? = some p)
    (ho : bits[i]? = some old) :
    o.st.mget m (i : Int) = .ok (if t.maskSoft then p else old || p) := by
  have hk2 := maskPred_uses_kernel s t op lits m cells bits hv hk hm hty hl hc hb hlen
  rw [h] at hk2
  simp only [Except.map] at hk2
  exact writeMask_read s o.st m _ hk2.symm (by rw [predKernel_length, hbl]; exact Nat.le_refl _) i _
    (maskPred_spec t.maskSoft _ bits i p old hp ho)


/-! ## the mask stays attached to its elements -/

/-- **lazy transposition, and every other access pattern.** `At` and `MaskAt` address the element and
    its mask bit by the *same* storage offset, whatever the strides are: a mask is attached to
    storage cells, so it follows the elements through `T`, `UT` and any re-striding of the
    pattern. -/
theorem mask_follows_T (s : St) (t : Dense) (m : Win) (c : List Int) (i : Int)
    (hm : t.mask = some m) (hk : t.isMasked = true) (hl : c.length = t.dims)
    (hi : ltoi t.shape t.strides c = .ok i) :
    t.at_ s c = s.get t.win i ∧ maskAt s t c = s.mget m i := by
  constructor
  · simp [Dense.at_, hl, hi, bind, Except.bind]
  · simp [maskAt, hk, hm, hl, hi, bind, Except.bind]

/-- **slicing.** The view's mask window is the parent's mask window shifted and cut exactly like
    the data window: offset `i` of the view addresses parent data cell `ndStart + i` and parent
    mask bit `ndStart + i`. -/
theorem mask_follows_slice (t v : Dense) (m : Win) (sls : List (Option Sl))
    (hm : t.mask = some m) (hk : t.isMasked = true) (h : t.slice sls = .ok v) :
    ∃ mv, v.mask = some mv ∧ mv.buf = m.buf ∧ mv.len = v.win.len ∧
      mv.off - m.off = v.win.off - t.win.off ∧ v.isMasked = true := by
  unfold Dense.slice at h
  simp only [bind, Except.bind, pure, Except.pure, hm, hk] at h
  split at h
  · cases h
  · rename_i x hx
    obtain ⟨nap, ndStart, ndEnd⟩ := x
    simp only at h
    split at h
    · cases h
    · simp only [if_true] at h
      by_cases hc : ndEnd > (m.cap : Int)
      · simp only [hc, if_true, throwPanic] at h; cases h
      · simp only [hc, if_false] at h
        injection h with h
        subst h
        refine ⟨_, rfl, rfl, rfl, ?_, ?_⟩
        · simp only; omega
        · simp [Dense.isMasked]

/-- **physical transposition.** `transposeMask` gathers the mask along the same offsets along which
    `Transpose` gathers the data: afterwards position `j` of the mask holds the bit that belonged to
    the element now stored at position `j`. -/
theorem mask_follows_transpose (s s' : St) (t : Dense) (m : Win)
    (hm : t.mask = some m) (hk : t.isMasked = true) (h : transposeMask s t = .ok s')
    (j : Nat) (off : Int) (hj : t.offsets[j]? = some off) :
    s'.mget m (j : Int) = s.mget m off := by
  unfold transposeMask at h
  simp only [hm, hk, Bool.not_true, Bool.false_eq_true, if_false, bind, Except.bind] at h
  cases hv : t.offsets.mapM (fun i => s.mget m i) with
  | error e => simp [hv] at h
  | ok vals =>
    simp only [hv] at h
    split at h
    · cases h
    · rename_i hlen
      obtain ⟨b, hb, hget⟩ := mapM_ok _ _ _ hv j off hj
      rw [hget]
      refine writeMask_read s s' m _ h ?_ j b ?_
      · simp; omega
      · rw [List.getElem?_append_left (by
          have := (List.getElem?_eq_some_iff.mp hb).1; exact this)]
        exact hb

/-! ### `Materialize` / `Copy` along iterators: the mask is copied like the elements -/

theorem St.mget_mset_otherbuf {s s' : St} {w w' : Win} {i j : Int} {v : Bool} (h : s.mset w i v = .ok s')
    (hb : w'.buf ≠ w.buf) : s'.mget w' j = s.mget w' j := by
  obtain ⟨b, _, _, _, _, rfl⟩ := St.mset_ok h
  unfold St.mget
  simp only [Array.set!_eq_setIfInBounds]
  rw [Array.getElem?_setIfInBounds_ne (Ne.symm hb)]

/-- the pairwise loop of `copyDenseIter` over the mask (destination and source masks in different
    buffers, as after `Materialize`): the source mask is unchanged, destination entries at offsets
    the destination iterator does not deliver are unchanged -/
theorem copyMaskOffsets_frame (dm sm : Win) (hb : sm.buf ≠ dm.buf) :
    ∀ (doffs soffs : List Int) (s s' : St), Dense.copyMaskOffsets s dm sm doffs soffs = .ok s' →
      (∀ j, s'.mget sm j = s.mget sm j) ∧ (∀ i, i ∉ doffs → s'.mget dm i = s.mget dm i)
  | [], _, s, s', h => by
    simp only [Dense.copyMaskOffsets] at h
    injection h with h; subst h
    exact ⟨fun _ => rfl, fun _ _ => rfl⟩
  | _ :: _, [], s, s', h => by
    simp only [Dense.copyMaskOffsets] at h
    injection h with h; subst h
    exact ⟨fun _ => rfl, fun _ _ => rfl⟩
  | i :: is, j :: js, s, s', h => by
    simp only [Dense.copyMaskOffsets, bind, Except.bind] at h
    cases hv : s.mget sm j with
    | error e => rw [hv] at h; cases h
    | ok v =>
      rw [hv] at h
      cases h1 : s.mset dm i v with
      | error e => simp only [h1] at h; cases h
      | ok s1 =>
        simp only [h1] at h
        obtain ⟨ihS, ihD⟩ := copyMaskOffsets_frame dm sm hb is js s1 s' h
        constructor
        · intro j'
          rw [ihS j', St.mget_mset_otherbuf h1 hb]
        · intro i' hi'
          have hne : i' ≠ i := fun e => hi' (by rw [e]; exact List.mem_cons_self)
          rw [ihD i' (fun hm => hi' (List.mem_cons_of_mem _ hm)), St.mget_mset_other h1 hne]

/-- **the mask follows the elements through `Materialize`.** `copyDenseIter` copies element `k`
    from source offset `soffs[k]` to destination offset `doffs[k]`; the mask loop copies mask bit
    `soffs[k]` to mask position `doffs[k]` (distinct destination offsets, separate mask buffers): after
    the copy the bit at the destination position of the `k`-th element is the bit the source held for
    that element, whatever the two access patterns are. -/
theorem mask_follows_materialize (dm sm : Win) (hb : sm.buf ≠ dm.buf) :
    ∀ (doffs soffs : List Int) (s s' : St), Dense.copyMaskOffsets s dm sm doffs soffs = .ok s' →
      doffs.Nodup → ∀ (k : Nat) (i j : Int), doffs[k]? = some i → soffs[k]? = some j →
      s'.mget dm i = s.mget sm j
  | [], _, _, _, _, _, k, i, j, hi, _ => by simp at hi
  | _ :: _, [], _, _, _, _, k, i, j, _, hj => by simp at hj
  | i0 :: is, j0 :: js, s, s', h, hnd, k, i, j, hi, hj => by
    simp only [Dense.copyMaskOffsets, bind, Except.bind] at h
    cases hv : s.mget sm j0 with
    | error e => rw [hv] at h; cases h
    | ok v =>
      rw [hv] at h
      cases h1 : s.mset dm i0 v with
      | error e => simp only [h1] at h; cases h
      | ok s1 =>
        simp only [h1] at h
        have hnd' := List.nodup_cons.mp hnd
        cases k with
        | zero =>
          simp only [List.getElem?_cons_zero, Option.some.injEq] at hi hj
          subst hi; subst hj
          rw [(copyMaskOffsets_frame dm sm hb is js s1 s' h).2 i0 hnd'.1, St.mget_mset_same h1, hv]
        | succ k =>
          simp only [List.getElem?_cons_succ] at hi hj
          rw [mask_follows_materialize dm sm hb is js s1 s' h hnd'.2 k i j hi hj,
            St.mget_mset_otherbuf h1 hb]

/-! ## counts, any, all -/

/-- S's folds on a flat mask -/
theorem foldKind_count (l : List Bool) : foldKind "count" l = countTrue l := by
  simp [foldKind, countTrue]

theorem countTrue_append (a b : List Bool) : countTrue (a ++ b) = countTrue a + countTrue b := by
  simp [countTrue]

theorem count_ncount (l : List Bool) : foldKind "count" l + foldKind "ncount" l = l.length := by
  induction l with
  | nil => simp [foldKind]
  | cons b tl ih =>
    simp only [foldKind] at ih ⊢
    cases b <;> simp [List.filter] at ih ⊢ <;> omega

/-- **maskCount_spec.** On a tensor whose mask window has exactly `size` entries (contiguous
    tensors), `MaskedCount` is the number of true bits of the mask and `MaskedAny` / `MaskedAll`
    are its disjunction / conjunction — the specification's folds. -/
theorem maskCount_spec (s : St) (t : Dense) (m : Win) (bits : List Bool)
    (hm : t.mask = some m) (hk : t.isMasked = true) (hsz : (m.len : Int) = t.size)
    (hb : maskBits s m = .ok bits) :
    doMaskCt s t = .ok (foldKind "count" bits) ∧ doMaskAny s t = .ok (bits.any id) ∧
      doMaskAll s t = .ok (bits.all id) := by
  refine ⟨?_, ?_, ?_⟩
  · simp [doMaskCt, hm, hk, hsz, hb, foldKind_count, bind, Except.bind, pure, Except.pure]
  · simp [doMaskAny, hm, hk, hsz, hb, bind, Except.bind, pure, Except.pure]
  · simp [doMaskAll, hm, hk, hsz, hb, bind, Except.bind, pure, Except.pure]

/-- a tensor without mask counts nothing, and neither `any` nor `all` hold -/
theorem maskCount_unmasked (s : St) (t : Dense) (hk : t.isMasked = false) :
    doMaskCt s t = .ok 0 ∧ doMaskAny s t = .ok false ∧ doMaskAll s t = .ok false := by
  refine ⟨?_, ?_, ?_⟩ <;> simp [doMaskCt, doMaskAny, doMaskAll, hk, pure, Except.pure]

/-- a tensor without mask has no masked edges (-1, -1, as documented), and all of it lies between
    its unmasked edges -/
theorem flatEdges_unmasked (s : St) (t : Dense) (hk : t.isMasked = false) :
    flatEdges s t true = .ok (-1, -1) ∧ flatEdges s t false = .ok (0, t.size - 1) := by
  constructor <;> simp [flatEdges, hk, pure, Except.pure]

/-- the plain iterator (tensor without mask): `NextInvalid` finds nothing and leaves the iterator
    exhausted, so the alternating loops of the finders stop after one run -/
theorem nextInvalid_plain_exhausts (s : St) (it : MIt) (h : it.mask = none) :
    ∃ r, it.nextInvalid s = .ok r ∧ r.ok = false ∧ r.idx = -1 ∧ r.it.it.done = true := by
  simp [MIt.nextInvalid, h, pure, Except.pure]

/-- the plain iterator on a scalar: `NextValid` returns the one element with a skip count of one
    increment (-1 in reverse), like every other shape and like the masked iterator -/
theorem nextValid_plain_scalar (s : St) (it : MIt) (h : it.mask = none) (hd : it.it.done = false)
    (hs : it.it.isScalar = true) :
    ∃ r, it.nextValid s = .ok r ∧ r.ok = true ∧ r.idx = 0 ∧ r.skip = (if it.it.reverse then -1 else 1) ∧
      r.it.it.done = true := by
  simp [MIt.nextValid, h, hd, hs, pure, Except.pure]

/-- `Filled` / `FilledInplace` on every non-scalar shape (row and column vectors included) write
    the fill value at exactly the offsets `NextInvalid` enumerates -/
theorem fillLoop_nonscalar (s : St) (tc : Dense) (v : Val) (m : Win) (vs : VS)
    (hs : isScalar tc.shape = false) (hm : (iterFromDense tc).mask = some m)
    (hv : maskStream s tc m = .ok vs) :
    fillLoop s tc v = (enumS true vs 0).foldlM (fun s (p : Int × Nat) => s.set tc.win p.1 v) s := by
  simp [fillLoop, hs, hm, hv, bind, Except.bind]

/-- decision logic of the per-axis variants: an axis past the rank answers -1 -/
theorem maskedReduce_axis_oob (s : St) (t : Dense) (kind : String) (ax : Int) (rest : List Int)
    (hv : isVector t.shape = false) (h : ax ≥ t.dims) :
    ∃ v, maskedReduce s t kind (ax :: rest) = .ok v ∧ v.show = "q=-1 qshape=s" := by
  refine ⟨.scalar (-1), ?_, rfl⟩
  simp [maskedReduce, hv, h, pure, Except.pure]

/-! ## the offset stream: NextValid / NextInvalid -/

theorem scanS_findS (want : Bool) : ∀ (vs : VS) (c : Nat),
    (scanS want vs c).map (fun x => (x.1, x.2.2)) = findS want vs
  | [], _ => rfl
  | (i, b) :: rest, c => by
    by_cases h : (b == want) = true
    · simp [scanS, findS, h]
    · simp [scanS, findS, h, scanS_findS want rest (c + 1)]

/-- repeated scanning is `enumS` -/
theorem enumS_scanS (want : Bool) : ∀ (vs : VS) (c : Nat),
    enumS want vs c = match scanS want vs c with
      | none => []
      | some (i, k, rest) => (i, k) :: enumS want rest 0
  | [], _ => rfl
  | (i, b) :: rest, c => by
    by_cases h : (b == want) = true
    · simp [scanS, enumS, h]
    · simp [scanS, enumS, h, enumS_scanS want rest (c + 1)]

/-- stream positions (0-based, offset by `j`) whose mask bit is `want` -/
def hitPos (want : Bool) : VS → Nat → List Nat
  | [], _ => []
  | (_, b) :: rest, j => if b == want then j :: hitPos want rest (j + 1) else hitPos want rest (j + 1)

/-- running sums of skip counts -/
def runningSum (base : Nat) : List Nat → List Nat
  | [] => []
  | k :: ks => (base + k) :: runningSum (base + k) ks

theorem enumS_offsets (want : Bool) : ∀ (vs : VS) (c : Nat),
    (enumS want vs c).map (·.1) = (vs.filter (fun e => e.2 == want)).map (·.1)
  | [], _ => rfl
  | (i, b) :: rest, c => by
    by_cases h : (b == want) = true
    · simp [enumS, h, List.filter, enumS_offsets want rest 0]
    · simp [enumS, h, List.filter, enumS_offsets want rest (c + 1)]

theorem enumS_skips (want : Bool) : ∀ (vs : VS) (c base : Nat),
    runningSum base ((enumS want vs c).map (·.2)) = (hitPos want vs (base + c)).map (· + 1)
  | [], _, _ => rfl
  | (i, b) :: rest, c, base => by
    by_cases h : (b == want) = true
    · have ih := enumS_skips want rest 0 (base + (c + 1))
      simp only [Nat.add_zero] at ih
      simp [enumS, hitPos, h, runningSum, ih, Nat.add_assoc]
    · have ih := enumS_skips want rest (c + 1) base
      simp [enumS, hitPos, h, ih, Nat.add_assoc]

/-- **masked_iter_partition.** Repeated `NextValid` (`want = false`) / `NextInvalid`
    (`want = true`) over an offset stream (any length, any offsets) return exactly the offsets whose
    mask bit is `want`, in stream order, and the skip counts are the distances between consecutive
    selected stream positions (the first counted from just before the stream): their running sums are
    the 1-based positions. Valid and invalid selections partition the stream. -/
theorem filter_bits_partition : ∀ (vs : VS),
    (vs.filter (fun e => e.2 == false)).length + (vs.filter (fun e => e.2 == true)).length = vs.length
  | [] => rfl
  | (i, b) :: tl => by
    have ih := filter_bits_partition tl
    cases b <;> simp [List.filter] at ih ⊢ <;> omega

theorem filter_true_count : ∀ (vs : VS),
    (vs.filter (fun e => e.2 == true)).length = countTrue (vs.map (·.2))
  | [] => rfl
  | (i, b) :: tl => by
    have ih := filter_true_count tl
    cases b <;> simp [List.filter, countTrue] at ih ⊢ <;> omega

theorem masked_iter_partition (want : Bool) (vs : VS) :
    (enumS want vs 0).map (·.1) = (vs.filter (fun e => e.2 == want)).map (·.1) ∧
    runningSum 0 ((enumS want vs 0).map (·.2)) = (hitPos want vs 0).map (· + 1) ∧
    (enumS false vs 0).length + (enumS true vs 0).length = vs.length := by
  refine ⟨enumS_offsets want vs 0, by simpa using enumS_skips want vs 0 0, ?_⟩
  have hl : ∀ w, (enumS w vs 0).length = (vs.filter (fun e => e.2 == w)).length := by
    intro w
    have := congrArg List.length (enumS_offsets w vs 0)
    simpa using this
  rw [hl false, hl true]
  exact filter_bits_partition vs

/-- the iterator path of `MaskedCount` (views: mask window longer than the size) counts the masked
    entries of the offset stream -/
theorem maskCount_stream (vs : VS) : (enumS true vs 0).length = countTrue (vs.map (·.2)) := by
  have := congrArg List.length (enumS_offsets true vs 0)
  simp only [List.length_map] at this
  rw [this, filter_true_count]

/-! ### the model's stepping loop (used by iteration scripts and the reverse edge finders) is `scanS`
    on the iterator's remaining offsets -/

theorem run_succ_some (fuel : Nat) (it it' : FlatIt) (i : Int) (h : it.next = (it', some i)) :
    (FlatIt.run (fuel + 1) it).1 = i :: (FlatIt.run fuel it').1 := by
  simp [FlatIt.run, h]

theorem run_succ_none (fuel : Nat) (it it' : FlatIt) (h : it.next = (it', none)) :
    (FlatIt.run (fuel + 1) it).1 = [] := by
  simp [FlatIt.run, h]

/-- One `NextValid` / `NextInvalid` of the model's masked iterator, started in any iterator state
    (any access pattern, forward or reverse), returns what `scanS` returns on the stream of the
    offsets the iterator still has to deliver, each paired with its mask bit. -/
theorem scanMask_stream (s : St) (m : Win) (want : Bool) (f : Int → Bool) :
    ∀ (fuel : Nat) (it : FlatIt) (c : Nat),
    (∀ i ∈ (FlatIt.run fuel it).1, s.mget m i = .ok (f i)) →
    ∃ it', scanMask s m want fuel it c = .ok (it',
      match scanS want ((FlatIt.run fuel it).1.map (fun i => (i, f i))) c with
      | some (i, k, _) => (i, (k : Int), true)
      | none => (-1, ((c + (FlatIt.run fuel it).1.length : Nat) : Int), false))
  | 0, it, c, _ => ⟨it, by simp [scanMask, FlatIt.run, scanS, pure, Except.pure]⟩
  | fuel + 1, it, c, hget => by
    rcases hn : it.next with ⟨it', o⟩
    cases o with
    | none =>
      refine ⟨it', ?_⟩
      simp [scanMask, hn, run_succ_none fuel it it' hn, scanS, pure, Except.pure]
    | some i =>
      have hrun := run_succ_some fuel it it' i hn
      have hi : s.mget m i = .ok (f i) := hget i (by rw [hrun]; simp)
      by_cases hw : (f i == want) = true
      · refine ⟨it', ?_⟩
        simp [scanMask, hn, hrun, scanS, hi, hw, bind, Except.bind, pure, Except.pure]
      · obtain ⟨it'', ih⟩ := scanMask_stream s m want f fuel it' (c + 1)
          (fun j hj => hget j (by rw [hrun]; exact List.mem_cons_of_mem _ hj))
        refine ⟨it'', ?_⟩
        simp only [scanMask, hn, hrun, List.map_cons, scanS, hi, hw, bind, Except.bind]
        simp only [Bool.false_eq_true, ↓reduceIte]
        have : ((c : Int) + 1) = ((c + 1 : Nat) : Int) := by omega
        rw [this, ih]
        simp [Nat.add_assoc, Nat.add_comm 1]

/-! ## contiguous runs -/

/-- the offset stream of a contiguous tensor: offsets `j, j+1, …` paired with the flat mask -/
def streamOf : Nat → List Bool → VS
  | _, [] => []
  | j, b :: tl => ((j : Int), b) :: streamOf (j + 1) tl

theorem streamOf_length : ∀ (j : Nat) (l : List Bool), (streamOf j l).length = l.length
  | _, [] => rfl
  | j, _ :: tl => by simp [streamOf, streamOf_length (j + 1) tl]

private theorem runs_aux (want : Bool) : ∀ (tl : List Bool),
    (∀ (j fuel : Nat), tl.length < fuel →
      runsS want ((j + tl.length : Nat) : Int) fuel (streamOf j tl) = runsOf want tl j none) ∧
    (∀ (j st fuel : Nat), tl.length < fuel →
      (match findS (!want) (streamOf j tl) with
        | none => [((st : Int), ((j + tl.length : Nat) : Int))]
        | some (e, rest') => ((st : Int), e) :: runsS want ((j + tl.length : Nat) : Int) fuel rest')
        = runsOf want tl j (some st))
  | [] => by
    constructor
    · intro j fuel hf
      cases fuel with
      | zero => omega
      | succ f => simp [runsS, streamOf, findS, runsOf]
    · intro j st fuel _
      simp [streamOf, findS, runsOf]
  | b :: tl => by
    obtain ⟨ihP, ihH⟩ := runs_aux want tl
    have hsz : ∀ j : Nat, ((j + (tl.length + 1) : Nat) : Int) = ((j + 1 + tl.length : Nat) : Int) := by
      intro j; congr 1; omega
    constructor
    · intro j fuel hf
      cases fuel with
      | zero => omega
      | succ f =>
        have hf' : tl.length < f := by simpa using hf
        by_cases hb : (b == want) = true
        · have h2 := ihH (j + 1) j f hf'
          simp only [List.length_cons, hsz]
          simp only [runsS, streamOf, findS, hb, ↓reduceIte, runsOf, Option.getD_none]
          exact h2
        · have h1 := ihP (j + 1) (f + 1) (by omega)
          simp only [List.length_cons, hsz]
          simp only [Bool.not_eq_true] at hb
          simp only [runsOf, hb, Bool.false_eq_true, ↓reduceIte]
          rw [← h1]
          simp [runsS, streamOf, findS, hb]
    · intro j st fuel hf
      have hf' : tl.length < fuel := by simp at hf; omega
      by_cases hb : (b == want) = true
      · -- the run continues
        have hnb : (b == !want) = false := by cases b <;> cases want <;> simp_all
        have h2 := ihH (j + 1) st fuel hf'
        simp only [List.length_cons, hsz]
        simp only [streamOf, findS, hnb, Bool.false_eq_true, ↓reduceIte, runsOf, hb, Option.getD_some]
        exact h2
      · -- the run ends at `j`
        simp only [Bool.not_eq_true] at hb
        have hnb : (b == !want) = true := by cases b <;> cases want <;> simp_all
        have h1 := ihP (j + 1) fuel hf'
        simp only [List.length_cons, hsz]
        simp only [streamOf, findS, hnb, ↓reduceIte, runsOf, hb, Bool.false_eq_true]
        rw [h1]
        rfl

/-- **flatRuns_spec.** On the offset stream of a contiguous tensor the alternating
    `NextValid` / `NextInvalid` loop of `FlatNotMaskedContiguous` (`want = false`) and
    `FlatMaskedContiguous` (`want = true`) returns exactly the maximal runs of the flat mask, as
    half-open index ranges in increasing order (every length, every mask). -/
theorem flatRuns_spec (want : Bool) (bits : List Bool) :
    runsS want bits.length (bits.length + 1) (streamOf 0 bits) = runsOf want bits 0 none := by
  have := (runs_aux want bits).1 0 (bits.length + 1) (by omega)
  simpa using this

/-- the model's finder on a masked tensor is `runsS` on the tensor's offset stream -/
theorem flatRuns_uses_kernel (s : St) (t : Dense) (m : Win) (vs : VS) (masked : Bool)
    (hm : (iterFromDense t).mask = some m) (hs : maskStream s t m = .ok vs) :
    flatRuns s t masked = .ok (runsS masked t.size (vs.length + 1) vs) := by
  simp [flatRuns, hm, hs, bind, Except.bind, pure, Except.pure]

/-- hence: for a masked tensor whose offset stream is the contiguous one, the model's finder
    returns S's maximal runs -/
theorem flatRuns_model_spec (s : St) (t : Dense) (m : Win) (bits : List Bool) (masked : Bool)
    (hm : (iterFromDense t).mask = some m) (hs : maskStream s t m = .ok (streamOf 0 bits))
    (hsz : t.size = bits.length) :
    flatRuns s t masked = .ok (runsOf masked bits 0 none) := by
  rw [flatRuns_uses_kernel s t m _ masked hm hs, streamOf_length, hsz, flatRuns_spec]

theorem mapM_pair {α β : Type} (f : α → Res β) : ∀ (l : List α) (vals : List β), l.mapM f = .ok vals →
    l.mapM (fun a => do pure (a, ← f a)) = .ok (l.zip vals)
  | [], vals, h => by
    simp only [List.mapM_nil, pure, Except.pure] at h
    injection h with h; subst h; rfl
  | a :: l, vals, h => by
    simp only [List.mapM_cons, bind, Except.bind, pure, Except.pure] at h ⊢
    cases hx : f a with
    | error e => simp [hx] at h
    | ok y =>
      simp only [hx] at h
      cases hxs : l.mapM f with
      | error e => simp [hxs] at h
      | ok ys =>
        simp only [hxs] at h
        injection h with h; subst h
        have ih := mapM_pair f l ys hxs
        simp only [bind, Except.bind, pure, Except.pure] at ih
        simp [ih]

theorem zip_range_streamOf : ∀ (bits : List Bool) (k n : Nat), bits.length = n →
    ((List.range' k n).map Int.ofNat).zip bits = streamOf k bits
  | [], k, n, h => by simp [streamOf]
  | b :: tl, k, 0, h => by simp at h
  | b :: tl, k, n + 1, h => by
    have := zip_range_streamOf tl (k + 1) n (by simpa using h)
    simp [List.range'_succ, streamOf, this]

/-- a masked tensor that is walked in storage order (contiguous) has the contiguous offset stream -/
theorem maskStream_contig (s : St) (t : Dense) (m : Win) (bits : List Bool)
    (ho : t.offsets = rangeI m.len) (hb : maskBits s m = .ok bits) (hl : bits.length = m.len) :
    maskStream s t m = .ok (streamOf 0 bits) := by
  unfold maskStream maskBits at *
  rw [ho, mapM_pair _ _ _ hb]
  unfold rangeI
  rw [List.range_eq_range', zip_range_streamOf bits 0 m.len hl]

/-- **flatRuns_spec on the model.** For a masked tensor walked in storage order the model's
    `FlatMaskedContiguous` / `FlatNotMaskedContiguous` return the maximal runs of its mask. -/
theorem flatRuns_contig_spec (s : St) (t : Dense) (m : Win) (bits : List Bool) (masked : Bool)
    (hm : (iterFromDense t).mask = some m) (ho : t.offsets = rangeI m.len)
    (hb : maskBits s m = .ok bits) (hl : bits.length = m.len) (hsz : t.size = m.len) :
    flatRuns s t masked = .ok (runsOf masked bits 0 none) :=
  flatRuns_model_spec s t m bits masked hm (maskStream_contig s t m bits ho hb hl) (by rw [hsz, hl])
/-- the finders answer in *storage offsets*: on a stream that is not the contiguous one (a lazily
    transposed (2,3) tensor with mask 100110 in storage order) the result is not the runs of the
    logical flat mask 110010 (finding F81) -/
theorem flatRuns_offsets_not_logical :
    runsS true 6 7 [(0, true), (3, true), (1, false), (4, true), (2, false), (5, false)]
      ≠ runsOf true [true, true, false, true, false, false] 0 none := by
  decide

-- non-vacuity
example : runsS false 6 7 (streamOf 0 [true, false, false, true, true, false]) = [(1, 3), (5, 6)] := by decide
example : enumS false (streamOf 0 [true, false, false, true, true, false]) 0 = [(1, 2), (2, 1), (5, 3)] := by decide
example : predKernel false [true, false, true] [false, true, false, true] = [true, true, true, true] := by decide

end TM.C15
