import TensorModel.Ext.Linalg
import TensorModel.Proofs.Ltoi
/-! Helper lemmas for `Props/C09.lean`: reading back the cells written by the reference BLAS,
    index arithmetic of leading dimensions. -/
namespace TM.La

theorem pred_mul_add (k m : Nat) (hk : 0 < k) : (k - 1) * m + m = k * m := by
  cases k with
  | zero => omega
  | succ k => simp [Nat.succ_mul]

theorem mul_pred_add (k m : Nat) (hk : 0 < k) : m * (k - 1) + m = m * k := by
  rw [Nat.mul_comm m (k - 1), Nat.mul_comm m k]; exact pred_mul_add k m hk

/-- row `i`, column `j` of a matrix with `n ≤ ld` columns lies inside `(m-1)*ld + n` cells -/
theorem cell_lt (m n ld i j : Nat) (hi : i < m) (hj : j < n) (_hn : n ≤ ld) : i * ld + j < (m - 1) * ld + n := by
  have h1 : i ≤ m - 1 := by omega
  have h2 : i * ld ≤ (m - 1) * ld := Nat.mul_le_mul_right ld h1
  omega

theorem div_cell (ld i j : Nat) (hj : j < ld) : (i * ld + j) / ld = i := by
  have hld : 0 < ld := by omega
  rw [Nat.add_comm, Nat.add_mul_div_right _ _ hld, Nat.div_eq_of_lt hj]; simp

theorem mod_cell (ld i j : Nat) (hj : j < ld) : (i * ld + j) % ld = j := by
  rw [Nat.add_comm, Nat.add_mul_mod_self_right, Nat.mod_eq_of_lt hj]

/-- reading back a cell written by `updMat` -/
theorem updMat_get {α} (c : List α) (m n ld : Nat) (f : Nat → Nat → α → α) (i j : Nat)
    (hi : i < m) (hj : j < n) (hn : n ≤ ld) (hlen : (m - 1) * ld + n ≤ c.length) :
    ∃ old, c[i * ld + j]? = some old ∧ (updMat c m n ld f)[i * ld + j]? = some (f i j old) := by
  have hlt : i * ld + j < c.length := Nat.lt_of_lt_of_le (cell_lt m n ld i j hi hj hn) hlen
  refine ⟨c[i * ld + j], List.getElem?_eq_getElem hlt, ?_⟩
  unfold updMat
  rw [List.getElem?_mapIdx, List.getElem?_eq_getElem hlt]
  have hjl : j < ld := Nat.lt_of_lt_of_le hj hn
  simp [div_cell ld i j hjl, mod_cell ld i j hjl, hi, hj]

theorem updMat_length {α} (c : List α) (m n ld : Nat) (f : Nat → Nat → α → α) :
    (updMat c m n ld f).length = c.length := by
  unfold updMat; simp

theorem updVec_get {α} (y : List α) (n : Nat) (f : Nat → α) (i : Nat) (hi : i < n) (hlen : n ≤ y.length) :
    (updVec y n f)[i]? = some (f i) := by
  have hlt : i < y.length := Nat.lt_of_lt_of_le hi hlen
  unfold updVec
  rw [List.getElem?_mapIdx, List.getElem?_eq_getElem hlt]
  simp [hi]

theorem updVec_length {α} (y : List α) (n : Nat) (f : Nat → α) : (updVec y n f).length = y.length := by
  unfold updVec; simp

/-- address of the logical entry `(i, j)` of a `rows × cols` matrix held contiguously in row-major
    storage, read through a pending transpose (`T`: the storage is `cols × rows`) or not -/
def logIdx (T : Bool) (rows cols i j : Nat) : Nat := if T then j * rows + i else i * cols + j

/-- `logIdx` is the address the strides of such a tensor give: `(cols, 1)` as built, `(1, rows)`
    under a pending transpose -/
theorem logIdx_eq_dot (T : Bool) (rows cols i j : Nat) :
    (logIdx T rows cols i j : Int) = TM.dot [(i : Int), (j : Int)] (if T then [1, (rows : Int)] else [(cols : Int), 1]) := by
  cases T
  · simp [logIdx, TM.dot]
  · simp [logIdx, TM.dot, Int.add_comm]

/-- `mapM` in `Except` only looks at the function on the members of the list -/
theorem mapM_congr {ε α β} (f g : α → Except ε β) (l : List α) (h : ∀ x ∈ l, f x = g x) :
    l.mapM f = l.mapM g := by
  induction l with
  | nil => rfl
  | cons x xs ih =>
    simp only [List.mapM_cons]
    rw [h x (by simp), ih (fun y hy => h y (by simp [hy]))]

end TM.La
