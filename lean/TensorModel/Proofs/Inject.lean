import TensorModel.Proofs.Transpose
import TensorModel.Proofs.Ltoi
/-! Distinct coordinates have distinct addresses: preserved by permuting the axes. -/
namespace TM

/-- an access pattern addresses distinct cells for distinct in-box coordinates -/
def InjectivePat (shape strides : List Int) : Prop :=
  ∀ c c', inBox shape c = true → inBox shape c' = true → dot c strides = dot c' strides → c = c'

theorem inBox_iff : ∀ (sh c : List Int), inBox sh c = true ↔
    c.length = sh.length ∧ ∀ k, k < sh.length → 0 ≤ c[k]! ∧ c[k]! < sh[k]!
  | [], [] => by simp [inBox]
  | [], _ :: _ => by simp [inBox]
  | _ :: _, [] => by simp [inBox]
  | d :: ds, x :: xs => by
    simp only [inBox, Bool.and_eq_true, decide_eq_true_eq, inBox_iff ds xs, List.length_cons, Nat.add_right_cancel_iff]
    constructor
    · rintro ⟨⟨h0, h1⟩, hl, hk⟩
      refine ⟨hl, fun k hk' => ?_⟩
      cases k with
      | zero => simpa using ⟨h0, h1⟩
      | succ k => simpa using hk k (by omega)
    · rintro ⟨hl, hk⟩
      have h0 := hk 0 (by omega)
      refine ⟨by simpa using h0, hl, fun k hk' => ?_⟩
      simpa using hk (k + 1) (by omega)

/-- `gather p xs = [xs[p₀], xs[p₁], …]` -/
def gatherI (p : List Int) (xs : List Int) : List Int := p.map (fun i => xs[i.toNat]!)

/-- the list `u` with `u[pₖ] = cₖ` -/
def ungatherI (p : List Int) (n : Nat) (c : List Int) : List Int :=
  (List.range n).map (fun j => c[p.idxOf (Int.ofNat j)]!)

theorem perm_facts {p : List Int} {n : Nat} (hp : isPerm p n = true) :
    p.length = n ∧ p.Nodup ∧ (∀ x ∈ p, ∃ j, j < n ∧ x = Int.ofNat j) ∧ (∀ j, j < n → Int.ofNat j ∈ p) := by
  have hperm := isPerm_perm hp
  refine ⟨?_, (hperm.nodup_iff).mp (rangeI_nodup n), ?_, ?_⟩
  · rw [← hperm.length_eq, rangeI_length]
  · intro x hx
    obtain ⟨j, hj, rfl⟩ := mem_rangeI.mp (hperm.mem_iff.mpr hx)
    exact ⟨j, hj, rfl⟩
  · intro j hj
    exact hperm.mem_iff.mp (mem_rangeI.mpr ⟨j, hj, rfl⟩)

theorem gather_ungather {p : List Int} {n : Nat} (hp : isPerm p n = true) (c : List Int) (hc : c.length = n) :
    gatherI p (ungatherI p n c) = c := by
  obtain ⟨hl, hnd, hin, _⟩ := perm_facts hp
  apply List.ext_getElem
  · simp [gatherI, hl, hc]
  · intro k h1 h2
    have hk : k < p.length := by simpa [gatherI] using h1
    obtain ⟨j, hj, hpj⟩ := hin p[k] (List.getElem_mem hk)
    simp only [gatherI, List.getElem_map]
    rw [hpj]
    have hjn : (Int.ofNat j).toNat = j := by simp
    rw [hjn]
    have hlen : j < (ungatherI p n c).length := by simp [ungatherI, hj]
    rw [getElem!_pos (ungatherI p n c) j hlen]
    simp only [ungatherI, List.getElem_map, List.getElem_range]
    rw [← hpj, hnd.idxOf_getElem k hk]
    have hkc : k < c.length := by omega
    simp [hkc]

theorem ungather_inBox {p : List Int} {n : Nat} (hp : isPerm p n = true) (sh c : List Int) (hsh : sh.length = n)
    (hc : inBox (gatherI p sh) c = true) : inBox sh (ungatherI p n c) = true := by
  obtain ⟨hl, hnd, _, hmem⟩ := perm_facts hp
  rw [inBox_iff] at hc ⊢
  obtain ⟨hcl, hck⟩ := hc
  have hgl : (gatherI p sh).length = n := by simp [gatherI, hl]
  refine ⟨by simp [ungatherI, hsh], fun j hj => ?_⟩
  rw [hsh] at hj
  have hjl : j < (ungatherI p n c).length := by simp [ungatherI, hj]
  rw [getElem!_pos (ungatherI p n c) j hjl]
  simp only [ungatherI, List.getElem_map, List.getElem_range]
  -- position of j in p
  have hjm := hmem j hj
  have hidx : p.idxOf (Int.ofNat j) < p.length := List.idxOf_lt_length_iff.mpr hjm
  have hk := hck (p.idxOf (Int.ofNat j)) (by rw [hgl, ← hl]; exact hidx)
  -- (gatherI p sh)[idx] = sh[p[idx]] = sh[j]
  have hg : (gatherI p sh)[p.idxOf (Int.ofNat j)]! = sh[j]! := by
    have h1 : p.idxOf (Int.ofNat j) < (gatherI p sh).length := by rw [hgl, ← hl]; exact hidx
    rw [getElem!_pos (gatherI p sh) _ h1]
    simp only [gatherI, List.getElem_map, List.getElem_idxOf hidx]
    simp
  rw [hg] at hk
  exact hk

theorem dot_gather_eq {p : List Int} {n : Nat} (hp : isPerm p n = true) (u st : List Int)
    (hu : u.length = n) (hst : st.length = n) : dot (gatherI p u) (gatherI p st) = dot u st :=
  dot_getElem_perm p n hp u st hu hst

/-- **Permuting the axes of an injective pattern gives an injective pattern** (any rank, any permutation). -/
theorem gather_injective {p : List Int} {n : Nat} (hp : isPerm p n = true) (sh st : List Int)
    (hsh : sh.length = n) (hst : st.length = n) (h : InjectivePat sh st) :
    InjectivePat (gatherI p sh) (gatherI p st) := by
  intro c c' hc hc' hd
  have hgl : (gatherI p sh).length = n := by simp [gatherI, (perm_facts hp).1]
  have hcl : c.length = n := (inBox_length _ _ hc).trans hgl
  have hcl' : c'.length = n := (inBox_length _ _ hc').trans hgl
  have hu := ungather_inBox hp sh c hsh hc
  have hu' := ungather_inBox hp sh c' hsh hc'
  have hul : (ungatherI p n c).length = n := by simp [ungatherI]
  have hul' : (ungatherI p n c').length = n := by simp [ungatherI]
  have e : dot (ungatherI p n c) st = dot (ungatherI p n c') st := by
    rw [← dot_gather_eq hp _ st hul hst, ← dot_gather_eq hp _ st hul' hst, gather_ungather hp c hcl,
      gather_ungather hp c' hcl']
    exact hd
  have := h _ _ hu hu' e
  rw [← gather_ungather hp c hcl, ← gather_ungather hp c' hcl', this]

end TM
