package main

// Ownership traces (property C19): the int-pool events reported by the library's hook (build tag verif),
// the metadata slices every live tensor refers to (diffed before / after each step) and the slices the
// harness itself passes in, written as one event list per program. The list is checked by the *Lean*
// function TM.Own.checkTraceR (driver line `OWN …`), whose soundness theorem (`checkTrace_sound`) says that
// an accepted history ends in a state satisfying the ownership invariant.

import (
	"fmt"
	"sort"
	"strings"
	"sync"
	"unsafe"

	"gorgonia.org/tensor"
)

type ownTracer struct {
	ids     map[uintptr]int // address of a backing array -> slice id (per program)
	pooled  map[int]bool    // ids the library returned to the pool and has not handed out again
	raw     []poolEv        // pool events of the current step, in order
	events  []string
	evStep  []int
	nheld   int
	tids    map[*tensor.Dense]int
	before  map[[2]int]bool
	enabled bool
	// every backing array seen in the current program is kept reachable until the program ends: a slice the
	// library dropped without returning it would otherwise be collected and its address handed out again by a
	// later make(), and two different slices would share one id (a false "allocates a slice that is already known")
	keep map[uintptr]unsafe.Pointer
	mu   sync.Mutex // the hook also runs on the finalizer goroutine (destroyMultIterator)
}

type poolEv struct {
	kind int
	addr uintptr
}

var own = &ownTracer{}

func (o *ownTracer) reset() {
	o.mu.Lock()
	defer o.mu.Unlock()
	o.ids = map[uintptr]int{}
	o.pooled = map[int]bool{}
	o.raw = o.raw[:0]
	o.events = nil
	o.evStep = nil
	o.nheld = 0
	o.tids = map[*tensor.Dense]int{}
	o.before = map[[2]int]bool{}
	o.keep = map[uintptr]unsafe.Pointer{}
}

// pin is called while the array at addr is certainly live (inside the pool hook, or while a live tensor refers to it)
func (o *ownTracer) pin(addr uintptr) {
	if o.keep == nil || addr == 0 {
		return
	}
	if _, ok := o.keep[addr]; !ok {
		o.keep[addr] = unsafe.Pointer(addr) //nolint:govet
	}
}

func (o *ownTracer) install() {
	o.enabled = true
	tensor.VerifPoolHook = func(kind int, addr uintptr, capacity int) {
		o.mu.Lock()
		o.pin(addr)
		o.raw = append(o.raw, poolEv{kind, addr})
		o.mu.Unlock()
	}
}

func (o *ownTracer) id(addr uintptr) int {
	if v, ok := o.ids[addr]; ok {
		return v
	}
	v := len(o.ids) + 1
	o.ids[addr] = v
	return v
}

// refs of the live tensors: (tensor id, slice id)
func (o *ownTracer) refs(p *prog) map[[2]int]bool {
	out := map[[2]int]bool{}
	seen := map[*tensor.Dense]bool{}
	for _, t := range p.vars {
		if t == nil || seen[t] {
			continue
		}
		seen[t] = true
		k, ok := o.tids[t]
		if !ok {
			k = len(o.tids)
			o.tids[t] = k
		}
		addrs, caps := tensor.VerifMetaSlices(t)
		for i, a := range addrs {
			if a != 0 && caps[i] > 0 {
				o.mu.Lock()
				o.pin(a)
				o.mu.Unlock()
				out[[2]int{k, o.id(a)}] = true
			}
		}
	}
	return out
}

func (o *ownTracer) emit(step int, ev string) {
	o.events = append(o.events, ev)
	o.evStep = append(o.evStep, step)
}

// afterStep turns what happened during step `step` into events:
// caller slices first (they exist before the call), then the references that disappeared, the pool events in
// the order the hook saw them, and finally the references that appeared.
func (o *ownTracer) afterStep(p *prog, step int) {
	for ; o.nheld < len(p.held); o.nheld++ {
		s := p.held[o.nheld]
		if cap(s) == 0 {
			continue
		}
		s = s[:1]
		o.emit(step, fmt.Sprintf("cp %d", o.id(uintptr(unsafe.Pointer(&s[0])))))
	}
	after := o.refs(p)
	cur := map[[2]int]bool{}
	for r := range o.before {
		cur[r] = true
	}
	for _, r := range sortedRefs(o.before) {
		if !after[r] {
			o.emit(step, fmt.Sprintf("dt %d %d", r[0], r[1]))
			delete(cur, r)
		}
	}
	o.mu.Lock()
	raw := append([]poolEv(nil), o.raw...)
	o.raw = o.raw[:0]
	o.mu.Unlock()
	for _, e := range raw {
		id := o.id(e.addr)
		if e.kind == 0 {
			if o.pooled[id] {
				o.emit(step, fmt.Sprintf("b %d", id))
				delete(o.pooled, id)
			} else {
				o.emit(step, fmt.Sprintf("a %d", id))
			}
		} else {
			// a slice given back inside the step was taken out of its tensor first (the harness only sees the
			// references before and after the step); if the tensor refers to it again afterwards, the `at` below
			// is judged against the pool state at the end of the step
			for _, r := range sortedRefs(cur) {
				if r[1] == id {
					o.emit(step, fmt.Sprintf("dt %d %d", r[0], r[1]))
					delete(cur, r)
				}
			}
			o.emit(step, fmt.Sprintf("r %d", id))
			o.pooled[id] = true
		}
	}
	for _, r := range sortedRefs(after) {
		if !cur[r] {
			o.emit(step, fmt.Sprintf("at %d %d", r[0], r[1]))
		}
	}
	o.before = after
}

func sortedRefs(m map[[2]int]bool) [][2]int {
	out := make([][2]int, 0, len(m))
	for r := range m {
		out = append(out, r)
	}
	sort.Slice(out, func(i, j int) bool { return out[i][0] < out[j][0] || (out[i][0] == out[j][0] && out[i][1] < out[j][1]) })
	return out
}

func (o *ownTracer) line(pid string) string {
	steps := make([]string, len(o.evStep))
	for i, s := range o.evStep {
		steps[i] = fmt.Sprint(s)
	}
	return "OWN " + pid + " ; " + strings.Join(o.events, " ; ") + " | " + strings.Join(steps, ",")
}
