import TensorModel.Ext.MultIter
import TensorModel.Proofs.Iter
/-!
  Helper lemmas for `Props/C05mult.lean`: flat iterators started from an arbitrary configuration
  (the multi-iterator's block iterators are not `FlatIt.new` of any AP: flags from the pre-fill strides,
  steps over the post-fill strides), lockstep of a list of flat iterators, the block assignment.
-/
set_option linter.unusedSimpArgs false
namespace TM
namespace MultIter

/-! ### iterating `Next` on one flat iterator -/

/-- the iterator after `k` calls of `Next` -/
def iterF (f : FlatIt) : Nat → FlatIt
  | 0 => f
  | k + 1 => (iterF f k).next.1

/-- what the `(k+1)`-th call returns (0 for the error) -/
def outF (f : FlatIt) (k : Nat) : Int := ((iterF f k).next.2).getD 0

/-- `f` yields `n` times — leaving each value in `lastIndex` — and is done exactly from then on -/
structure Runs (f : FlatIt) (n : Nat) : Prop where
  yields : ∀ k, k < n → ((iterF f k).next.2).isSome = true
  last : ∀ k, k < n → (iterF f (k + 1)).lastIndex = outF f k
  notDone : ∀ k, k < n → (iterF f k).done = false
  doneAt : (iterF f n).done = true

theorem iterF_of_seq (f : FlatIt) (s : Nat → FlatIt) (o : Nat → Int) (n : Nat) (h0 : s 0 = f)
    (hstep : ∀ k, k < n → (s k).next = (s (k + 1), some (o k))) :
    ∀ k, k ≤ n → iterF f k = s k
  | 0, _ => h0.symm
  | k + 1, hk => by
    have ih := iterF_of_seq f s o n h0 hstep k (by omega)
    simp only [iterF, ih, hstep k (by omega)]

theorem runs_of_seq (f : FlatIt) (s : Nat → FlatIt) (o : Nat → Int) (n : Nat) (h0 : s 0 = f)
    (hstep : ∀ k, k < n → (s k).next = (s (k + 1), some (o k)))
    (hl : ∀ k, k < n → (s (k + 1)).lastIndex = o k)
    (hnd : ∀ k, k < n → (s k).done = false) (hd : (s n).done = true) :
    Runs f n ∧ ∀ k, k < n → outF f k = o k := by
  have hi := iterF_of_seq f s o n h0 hstep
  have ho : ∀ k, k < n → outF f k = o k := by
    intro k hk
    simp only [outF, hi k (by omega), hstep k hk, Option.getD_some]
  refine ⟨⟨?_, ?_, ?_, ?_⟩, ho⟩
  · intro k hk; rw [hi k (by omega), hstep k hk]; rfl
  · intro k hk; rw [hi (k + 1) (by omega), hl k hk, ho k hk]
  · intro k hk; rw [hi k (by omega)]; exact hnd k hk
  · rw [hi n (by omega)]; exact hd

/-- `Next` never reads `lastIndex`; a yielding non-scalar call overwrites it -/
theorem next_li_eq (b : FlatIt) (x : Int) (hd : b.done = false) (hs : b.isScalar = false) :
    ({ b with lastIndex := x }).next = b.next := by
  by_cases h3 : b.isVector = true <;> by_cases h4 : b.reverse = true <;>
    simp [FlatIt.next, hd, hs, h3, h4]

theorem iterF_cfg (f : FlatIt) : ∀ k, cfgEq (iterF f k) f
  | 0 => by simp [iterF, cfgEq]
  | k + 1 => by
    have ih := iterF_cfg f k
    have hn := next_cfg (iterF f k)
    unfold cfgEq at *
    simp only [iterF]
    exact ⟨hn.1.trans ih.1, hn.2.1.trans ih.2.1, hn.2.2.1.trans ih.2.2.1, hn.2.2.2.1.trans ih.2.2.2.1,
      hn.2.2.2.2.1.trans ih.2.2.2.2.1, hn.2.2.2.2.2.1.trans ih.2.2.2.2.2.1, hn.2.2.2.2.2.2.trans ih.2.2.2.2.2.2⟩

/-- a scalar iterator never touches `lastIndex` -/
theorem scalar_next_li (b : FlatIt) (hs : b.isScalar = true) : b.next.1.lastIndex = b.lastIndex := by
  by_cases hd : b.done = true
  · simp [FlatIt.next, hd]
  · simp [FlatIt.next, hd, hs]

theorem scalar_iterF_li (f : FlatIt) (hs : f.isScalar = true) : ∀ k, (iterF f k).lastIndex = f.lastIndex
  | 0 => rfl
  | k + 1 => by
    have hc := (iterF_cfg f k).2.2.2.2.2.1
    simp only [iterF]
    rw [scalar_next_li _ (hc.trans hs), scalar_iterF_li f hs k]

/-- the run does not depend on the initial `lastIndex` (for a scalar iterator: as long as it is kept) -/
theorem runs_li (f : FlatIt) (n : Nat) (hn : 0 < n) (x : Int) (hx : f.isScalar = true → x = f.lastIndex)
    (h : Runs f n) :
    Runs { f with lastIndex := x } n ∧ ∀ k, outF { f with lastIndex := x } k = outF f k := by
  by_cases hs : f.isScalar = true
  · have : ({ f with lastIndex := x } : FlatIt) = f := by rw [hx hs]
    rw [this]; exact ⟨h, fun _ => rfl⟩
  · have hs' : f.isScalar = false := by simpa using hs
    have hd : f.done = false := h.notDone 0 hn
    have h1 : ∀ k, iterF { f with lastIndex := x } (k + 1) = iterF f (k + 1) := by
      intro k
      induction k with
      | zero => simp only [iterF, next_li_eq f x hd hs']
      | succ k ih => simp only [iterF] at ih ⊢; rw [ih]
    have ho : ∀ k, outF { f with lastIndex := x } k = outF f k := by
      intro k
      cases k with
      | zero => simp only [outF, iterF, next_li_eq f x hd hs']
      | succ k => simp only [outF, h1 k]
    refine ⟨⟨?_, ?_, ?_, ?_⟩, ho⟩
    · intro k hk
      have := h.yields k hk
      cases k with
      | zero => simpa only [iterF, next_li_eq f x hd hs'] using this
      | succ k => rw [h1 k]; exact this
    · intro k hk; rw [h1 k, ho k]; exact h.last k hk
    · intro k hk
      cases k with
      | zero => exact hd
      | succ k => rw [h1 k]; exact h.notDone (k + 1) hk
    · cases n with
      | zero => omega
      | succ n => rw [h1 n]; exact h.doneAt

/-- forward `Reset` of an iterator whose configuration is that of a fresh forward iterator `f0` -/
theorem reset_to (itk f0 : FlatIt) (hc : cfgEq itk f0) (hr : f0.reverse = false) (hd : f0.done = false)
    (hn : f0.nextIndex = 0) (ht : f0.track = f0.shape.map (fun _ => 0)) :
    itk.reset = .ok { f0 with lastIndex := itk.lastIndex } := by
  obtain ⟨h1, h2, h3, h4, h5, h6, h7⟩ := hc
  have hr' : itk.reverse = false := by rw [h5]; exact hr
  simp only [FlatIt.reset, hr', Bool.false_eq_true, if_false, Except.ok.injEq]
  cases itk
  cases f0
  simp only at *
  simp [h1, h2, h3, h4, h6, h7, hr', hr, hd, hn, ht]

/-! ### generic steps of the two paths (any configuration) -/

/-- one step of the odometer path from the `k`-th coordinate -/
theorem nd_next_gen (it : FlatIt) (k : Nat)
    (hl : it.strides.length = it.shape.length) (hp : ∀ d ∈ it.shape, 0 < d) (hne : it.shape ≠ [])
    (hd : it.done = false) (hs : it.isScalar = false) (hv : it.isVector = false) (hr : it.reverse = false)
    (ht : it.track = coordAt it.shape k) (hn : it.nextIndex = dot (coordAt it.shape k) it.strides)
    (hk : k < (prod it.shape).toNat) :
    it.next = ({ it with lastIndex := it.nextIndex,
                         nextIndex := dot (coordAt it.shape ((k + 1 : Nat) : Int)) it.strides,
                         track := coordAt it.shape ((k + 1 : Nat) : Int),
                         done := decide (k + 1 = (prod it.shape).toNat) }, some it.nextIndex) := by
  have hloop := ndNextLoop_digits it.shape.reverse it.strides.reverse (by simp [hl])
    (fun d hd => hp d (by simpa using hd)) (k : Int) (dot (coordAt it.shape k) it.strides)
    (by omega) (by rw [prod_reverse]; omega)
  simp only [dot_coordAt _ _ hl, prod_reverse] at hloop
  have hdone : (!it.shape.reverse.isEmpty && decide ((k : Int) + 1 = prod it.shape)) =
      decide (k + 1 = (prod it.shape).toNat) := by
    have : it.shape.reverse.isEmpty = false := by simp [hne]
    rw [this]
    have : ((k : Int) + 1 = prod it.shape) ↔ (k + 1 = (prod it.shape).toNat) := by omega
    simp [this]
  have htr : it.track.reverse = digits it.shape.reverse k := by rw [ht]; simp [coordAt]
  simp only [FlatIt.next, hd, hs, hv, hr, Bool.false_eq_true, if_false, htr, hn]
  have e : ((k + 1 : Nat) : Int) = (k : Int) + 1 := by push_cast; rfl
  rw [e]
  simp only [coordAt] at hloop ⊢
  rw [hloop, hdone]
  simp only [Prod.mk.injEq, and_true]
  have := dot_coordAt it.shape it.strides hl ((k : Int) + 1)
  simp only [coordAt] at this
  rw [← this]
  congr 1
  omega

/-! ### the block iterators -/

/-- the offsets a block iterator yields: the row-major coordinates against the post-fill strides -/
def blkOff (sh : Shape) (b : Blk) (k : Nat) : Int := dot (coordAt sh (k : Int)) (fill b.pre)

theorem fill_length (l : List Int) : (fill l).length = l.length := by simp [fill]

theorem fill_allOnes : ∀ (l : List Int), allOnes l = true → fill l = l
  | [], _ => rfl
  | x :: xs, h => by
    have h' : x = 1 ∧ allOnes xs = true := by simpa [allOnes] using h
    have ih := fill_allOnes xs h'.2
    simp only [fill, List.map_cons] at ih ⊢
    rw [ih, h'.1]; rfl

theorem map_range_inj {α} (f g : Nat → α) (n : Nat) (h : (List.range n).map f = (List.range n).map g)
    (k : Nat) (hk : k < n) : f k = g k := by
  have := congrArg (fun l => l[k]?) h
  simpa [hk] using this

/-- **Every block iterator runs in lockstep with the shape**: whatever the block holds, the iterator made of
    it (flags from the pre-fill contents, steps over the post-fill contents) yields exactly `∏ shape` times,
    the `k`-th value being the `k`-th row-major coordinate against the post-fill strides, and is done exactly
    from then on. -/
theorem mkFit_runs (sh : Shape) (b : Blk) (hl : b.pre.length = sh.length) (hp : ∀ d ∈ sh, 0 < d) :
    Runs (mkFit sh b) (prod sh).toNat ∧
      ∀ k, k < (prod sh).toNat → outF (mkFit sh b) k = blkOff sh b k := by
  have hP := prod_pos sh hp
  by_cases hne : sh = []
  · -- scalar
    subst hne
    have hpre : b.pre = [] := List.eq_nil_of_length_eq_zero (by simpa using hl)
    let f := mkFit [] b
    have hn1 : (prod ([] : List Int)).toNat = 1 := by simp [prod]
    rw [hn1]
    have key := runs_of_seq f (fun k => match k with | 0 => f | _ + 1 => { f with done := true }) (fun _ => 0) 1 rfl
      (by
        intro k hk
        have : k = 0 := by omega
        subst this
        simp [f, mkFit, FlatIt.new, FlatIt.next, isScalar])
      (by
        intro k hk
        have : k = 0 := by omega
        subst this
        simp [f, mkFit, FlatIt.new])
      (by
        intro k hk
        have : k = 0 := by omega
        subst this
        simp [f, mkFit, FlatIt.new])
      (by simp)
    refine ⟨key.1, ?_⟩
    intro k hk
    rw [key.2 k hk]
    simp [blkOff, coordAt, digits, dot]
  · let ap : AP := { shape := sh, strides := b.pre }
    by_cases hv : ap.isVectorLike = true
    · -- vector path: all strides are one, nothing was filled
      have hv' := hv
      simp only [AP.isVectorLike, Bool.and_eq_true] at hv'
      have hfill : fill b.pre = b.pre := fill_allOnes _ hv'.2
      have hmk : mkFit sh b = FlatIt.new ap := by
        simp only [mkFit, hfill, FlatIt.new]
        rfl
      rw [hmk]
      have key := runs_of_seq (FlatIt.new ap) (vecSt ap) (fun k => (k : Int)) (prod sh).toNat
        (vecSt_zero ap hp hne) (fun k hk => vecSt_next ap hv hne k hk)
        (by intro k _; rfl)
        (by
          intro k hk
          have : ¬ (prod sh ≤ (k : Int)) := by omega
          simp [vecSt, ap, this])
        (by
          have : prod sh ≤ (((prod sh).toNat : Nat) : Int) := by omega
          show decide (prod sh ≤ (((prod sh).toNat : Nat) : Int)) = true
          simp only [this, decide_true])
      refine ⟨key.1, ?_⟩
      intro k hk
      rw [key.2 k hk]
      have hspec := veclike_spec sh b.pre hl hp hv'.1 hv'.2
      rw [allCoords_eq sh hp, List.map_map] at hspec
      have := map_range_inj _ _ _ hspec k hk
      simp only [Function.comp] at this
      simp only [blkOff, hfill]
      rw [this]; rfl
    · -- odometer path over the post-fill strides
      have hnv : ap.isVectorLike = false := by simpa using hv
      let f := mkFit sh b
      let post := fill b.pre
      let s : Nat → FlatIt := fun k =>
        { f with track := coordAt sh (k : Int), nextIndex := dot (coordAt sh (k : Int)) post,
                 lastIndex := (match k with | 0 => 0 | j + 1 => dot (coordAt sh ((j : Nat) : Int)) post),
                 done := decide (k = (prod sh).toNat) }
      have h0 : s 0 = f := by
        have hz : ¬ (0 = (prod sh).toNat) := by omega
        simp only [s, f, mkFit, FlatIt.new, Int.natCast_zero, coordAt_zero, dot_zeros, hz, decide_false]
      have hstep : ∀ k, k < (prod sh).toNat → (s k).next = (s (k + 1), some (dot (coordAt sh (k : Int)) post)) := by
        intro k hk
        have hkn : ¬ (k = (prod sh).toNat) := by omega
        have := nd_next_gen (s k) k (by simp [s, f, mkFit, FlatIt.new, fill_length, hl])
          (by simpa [s, f, mkFit, FlatIt.new] using hp) (by simpa [s, f, mkFit, FlatIt.new] using hne)
          (by simp [s, hkn]) (by simp [s, f, mkFit, FlatIt.new, isScalar, hne])
          (by simpa [s, f, mkFit, FlatIt.new, ap] using hnv) (by simp [s, f, mkFit, FlatIt.new])
          (by simp [s, f, mkFit, FlatIt.new]) (by simp [s, f, mkFit, FlatIt.new, post])
          (by simpa [s, f, mkFit, FlatIt.new] using hk)
        rw [this]
        simp [s, f, mkFit, FlatIt.new, post]
      have key := runs_of_seq f s (fun k => dot (coordAt sh (k : Int)) post) (prod sh).toNat h0 hstep
        (by intro k _; rfl)
        (by
          intro k hk
          have : ¬ (k = (prod sh).toNat) := by omega
          simp [s, this])
        (by simp [s])
      exact ⟨key.1, fun k hk => by rw [key.2 k hk]; rfl⟩

/-! ### a list of flat iterators in lockstep -/

theorem nextAll_map : ∀ (fs : List FlatIt) (d : Bool), (∀ f ∈ fs, (f.next.2).isSome = true) →
    nextAll fs d = (fs.map (fun f => f.next.1), d || (fs.map (fun f => f.next.1)).any (·.done), true)
  | [], d, _ => by simp [nextAll]
  | f :: fs, d, h => by
    have hf := h f (by simp)
    have ih := nextAll_map fs (d || f.next.1.done) (fun g hg => h g (by simp [hg]))
    cases hn : f.next with
    | mk f' o =>
      rw [hn] at hf ih
      cases o with
      | none => simp at hf
      | some i =>
        simp only [nextAll, hn, ih, List.map_cons, List.any_cons, Bool.or_assoc]

/-- the iterators of `it` all run `n` steps; `it` itself has not started / was reset -/
structure Lockstep (it : MultIt) (n : Nat) : Prop where
  pos : 0 < n
  ne : it.fits ≠ []
  runs : ∀ f ∈ it.fits, Runs f n
  notDone : it.done = false

/-- the multi-iterator after `k ≤ n` calls of `Next` -/
def stateAt (it : MultIt) (n k : Nat) : MultIt :=
  { it with fits := it.fits.map (fun f => iterF f k), done := decide (k = n),
            last := match k with
              | 0 => it.last
              | _ + 1 => it.which.map (lastOf (it.fits.map (fun f => iterF f k))) }

theorem any_done_at (it : MultIt) (n : Nat) (h : Lockstep it n) (k : Nat) (hk : k ≤ n) :
    (it.fits.map (fun f => iterF f k)).any (·.done) = decide (k = n) := by
  by_cases hkn : k = n
  · subst hkn
    simp only [decide_true]
    cases hf : it.fits with
    | nil => exact absurd hf h.ne
    | cons f fs =>
      have := (h.runs f (by rw [hf]; simp)).doneAt
      simp [this]
  · simp only [hkn, decide_false]
    rw [List.any_eq_false]
    intro g hg
    simp only [List.mem_map] at hg
    obtain ⟨f, hf, rfl⟩ := hg
    have := (h.runs f hf).notDone k (by omega)
    simp [this]

theorem all_done_at (it : MultIt) (n : Nat) (h : Lockstep it n) (k : Nat) (hk : k ≤ n) :
    (it.fits.map (fun f => iterF f k)).all (·.done) = decide (k = n) := by
  by_cases hkn : k = n
  · subst hkn
    simp only [decide_true]
    rw [List.all_eq_true]
    intro g hg
    simp only [List.mem_map] at hg
    obtain ⟨f, hf, rfl⟩ := hg
    exact (h.runs f hf).doneAt
  · simp only [hkn, decide_false]
    cases hf : it.fits with
    | nil => exact absurd hf h.ne
    | cons f fs =>
      have := (h.runs f (by rw [hf]; simp)).notDone k (by omega)
      simp [this]

theorem stateAt_next (it : MultIt) (n : Nat) (h : Lockstep it n) (k : Nat) (hk : k < n) :
    (stateAt it n k).next =
      (stateAt it n (k + 1), some (lastOf (it.fits.map (fun f => iterF f (k + 1))) it.fit0)) := by
  have hkn : ¬ (k = n) := by omega
  have hy : ∀ g ∈ it.fits.map (fun f => iterF f k), (g.next.2).isSome = true := by
    intro g hg
    simp only [List.mem_map] at hg
    obtain ⟨f, hf, rfl⟩ := hg
    exact (h.runs f hf).yields k hk
  have hm : (it.fits.map (fun f => iterF f k)).map (fun f => f.next.1) = it.fits.map (fun f => iterF f (k + 1)) := by
    rw [List.map_map]; rfl
  have ha := any_done_at it n h (k + 1) (by omega)
  simp only [MultIt.next, stateAt, hkn, decide_false, Bool.false_eq_true, if_false,
    nextAll_map _ false hy, hm, Bool.false_or, ha]

theorem nextN_lockstep (it : MultIt) (n : Nat) (h : Lockstep it n) : ∀ k, k ≤ n →
    MultIt.nextN k it =
      (stateAt it n k, (List.range k).map (fun i => some (lastOf (it.fits.map (fun f => iterF f (i + 1))) it.fit0)))
  | 0, _ => by
    have h0 : ¬ (0 = n) := by have := h.pos; omega
    have hm : it.fits.map (fun f => iterF f 0) = it.fits := by simp [iterF]
    simp only [MultIt.nextN, stateAt, h0, decide_false, hm, List.range_zero, List.map_nil]
    rw [← h.notDone]
  | k + 1, hk => by
    have ih := nextN_lockstep it n h k (by omega)
    simp only [MultIt.nextN, ih, stateAt_next it n h k (by omega), List.range_succ, List.map_append,
      List.map_cons, List.map_nil]

/-- exhaustion: once `n` values were yielded every further call reports the error and changes nothing -/
theorem stateAt_end (it : MultIt) (n : Nat) : (stateAt it n n).next = (stateAt it n n, none) := by
  simp [MultIt.next, stateAt]

theorem stateAt_isDone (it : MultIt) (n : Nat) (h : Lockstep it n) (k : Nat) (hk : k ≤ n) :
    (stateAt it n k).isDone = (stateAt it n k, decide (k = n)) := by
  have := all_done_at it n h k hk
  simp only [MultIt.isDone, stateAt] at this ⊢
  rw [this]

theorem lastOf_map (fits : List FlatIt) (g : FlatIt → FlatIt) (b : Nat) (f : FlatIt) (hb : fits[b]? = some f) :
    lastOf (fits.map g) b = (g f).lastIndex := by
  simp [lastOf, List.getElem?_map, hb]

/-- `LastIndex(j)` after `k+1 ≤ n` calls: the value the iterator serving operand `j` yielded at its
    `(k+1)`-th step -/
theorem stateAt_lastIndex (it : MultIt) (n : Nat) (h : Lockstep it n) (k : Nat) (hk : k < n)
    (j b : Nat) (f : FlatIt) (hw : it.which[j]? = some b) (hb : it.fits[b]? = some f) :
    (stateAt it n (k + 1)).lastIndex j = outF f k := by
  have hf : f ∈ it.fits := List.mem_of_getElem? hb
  simp only [MultIt.lastIndex, stateAt, List.getElem?_map, hw, Option.map_some, Option.getD_some]
  rw [lastOf_map it.fits _ b f hb]
  exact (h.runs f hf).last k hk

/-! ### Reset -/

/-- a fresh forward iterator -/
structure Fresh (f : FlatIt) : Prop where
  fwd : f.reverse = false
  nd : f.done = false
  ni : f.nextIndex = 0
  tr : f.track = f.shape.map (fun _ => 0)

theorem mapM_ok {α β} (g : α → Res β) (h : α → β) : ∀ (l : List α), (∀ x ∈ l, g x = .ok (h x)) →
    l.mapM g = .ok (l.map h)
  | [], _ => rfl
  | x :: xs, hx => by
    rw [List.mapM_cons, hx x (by simp), mapM_ok g h xs (fun y hy => hx y (by simp [hy]))]
    rfl

/-- the multi-iterator after `k` calls of `Next` followed by `Reset` -/
def resetOf (it : MultIt) (k : Nat) : MultIt :=
  { it with fits := it.fits.map (fun f => { f with lastIndex := (iterF f k).lastIndex }),
            last := it.which.map (lastOf (it.fits.map (fun f => { f with lastIndex := (iterF f k).lastIndex }))),
            done := false }

theorem stateAt_reset (it : MultIt) (n : Nat) (hfresh : ∀ f ∈ it.fits, Fresh f) (k : Nat) :
    (stateAt it n k).reset = .ok (resetOf it k) := by
  have hr : (it.fits.map (fun f => iterF f k)).mapM FlatIt.reset =
      .ok (it.fits.map (fun f => { f with lastIndex := (iterF f k).lastIndex })) := by
    have : ∀ (l : List FlatIt), (∀ f ∈ l, Fresh f) →
        (l.map (fun f => iterF f k)).mapM FlatIt.reset =
          .ok (l.map (fun f => { f with lastIndex := (iterF f k).lastIndex })) := by
      intro l
      induction l with
      | nil => intro _; rfl
      | cons f fs ih =>
        intro hf
        have hF := hf f (by simp)
        rw [List.map_cons, List.mapM_cons, reset_to (iterF f k) f (iterF_cfg f k) hF.fwd hF.nd hF.ni hF.tr,
          ih (fun g hg => hf g (by simp [hg]))]
        rfl
    exact this it.fits hfresh
  simp only [MultIt.reset, stateAt, hr, resetOf]
  rfl

theorem resetOf_lockstep (it : MultIt) (n : Nat) (h : Lockstep it n) (k : Nat) :
    Lockstep (resetOf it k) n := by
  refine ⟨h.pos, ?_, ?_, rfl⟩
  · simp only [resetOf]
    intro hnil
    exact h.ne (List.map_eq_nil_iff.1 hnil)
  · intro g hg
    simp only [resetOf, List.mem_map] at hg
    obtain ⟨f, hf, rfl⟩ := hg
    exact (runs_li f n h.pos _ (fun hs => scalar_iterF_li f hs k) (h.runs f hf)).1

theorem resetOf_fit (it : MultIt) (n : Nat) (h : Lockstep it n) (k b : Nat) (f : FlatIt) (hb : it.fits[b]? = some f) :
    ∃ g, (resetOf it k).fits[b]? = some g ∧ ∀ m, outF g m = outF f m := by
  refine ⟨{ f with lastIndex := (iterF f k).lastIndex }, by simp [resetOf, List.getElem?_map, hb], ?_⟩
  exact (runs_li f n h.pos _ (fun hs => scalar_iterF_li f hs k) (h.runs f (List.mem_of_getElem? hb))).2

/-! ### the construction on equally shaped operands -/

theorem selMax_same (sh : Shape) : ∀ (aps : List AP), (∀ ap ∈ aps, ap.shape = sh) →
    selMax aps sh.length sh = (sh.length, sh)
  | [], _ => rfl
  | ap :: aps, h => by
    have hs : ap.shape = sh := h ap (by simp)
    simp only [selMax, hs, ge_iff_le, Nat.le_refl, if_true, Int.lt_irrefl, gt_iff_lt, if_false]
    exact selMax_same sh aps (fun a ha => h a (by simp [ha]))

theorem selMax_same0 (sh : Shape) (ap : AP) (aps : List AP) (h : ∀ a ∈ ap :: aps, a.shape = sh) :
    selMax (ap :: aps) 0 sh = (sh.length, sh) := by
  have hs : ap.shape = sh := h ap (by simp)
  simp only [selMax, hs, ge_iff_le, Nat.zero_le, if_true, Int.lt_irrefl, gt_iff_lt, if_false]
  exact selMax_same sh aps (fun a ha => h a (by simp [ha]))

theorem copyInto_length (dst src : List Int) : (copyInto dst src).length = dst.length := by
  simp only [copyInto, List.length_append, List.length_take, List.length_drop]; omega

theorem copyInto_full (dst src : List Int) (h : src.length = dst.length) : copyInto dst src = src := by
  have h1 : src.take dst.length = src := by rw [← h]; exact List.take_length
  have h2 : dst.drop src.length = [] := by rw [h]; exact List.drop_length
  simp only [copyInto, h1, h2, List.append_nil]

/-- an operand of the iterator's own shape with one stride per axis is not broadcast -/
theorem hasShape_same (sh : Shape) (ap : AP) (hs : ap.shape = sh) (hl : ap.strides.length = sh.length) :
    hasShape sh ap = true := by
  simp [hasShape, hs, hl]

/-- the pre-fill contents of the block of an operand of the iterator's own shape: a copy of its own strides -/
def preOf (sh : Shape) (st : List Int) : List Int := copyInto (zeros sh.length) st

def blkOf (sh : Shape) (st : List Int) : Blk := ⟨st, preOf sh st⟩

theorem preOf_eq (sh st : List Int) (hl : st.length = sh.length) : preOf sh st = st :=
  copyInto_full _ _ (by simp [zeros, hl])

theorem preOf_length (sh st : List Int) (hl : st.length = sh.length) : (preOf sh st).length = sh.length := by
  rw [preOf_eq sh st hl]; exact hl

theorem validate_ok (sh : Shape) : ∀ (aps : List AP), (∀ ap ∈ aps, ap.shape = sh ∧ ap.strides.length = sh.length) →
    validate sh sh.length aps = .ok ()
  | [], _ => rfl
  | ap :: aps, h => by
    obtain ⟨hs, hl⟩ := h ap (by simp)
    simp only [validate, hasShape_same sh ap hs hl, if_true]
    exact validate_ok sh aps (fun a ha => h a (by simp [ha]))

/-- **The block assignment** (with or without sharing) on operands of the iterator's own shape: every
    block is the block of its key; operand `j` is served by a block that is `blkOf sh strides_j`. -/
theorem assign_spec (share : Bool) (sh : Shape) : ∀ (aps : List AP) (bs : List Blk) (w : List Nat),
    (∀ ap ∈ aps, ap.shape = sh ∧ ap.strides.length = sh.length) →
    (∀ b ∈ bs, b = blkOf sh b.key ∧ b.key.length = sh.length) →
    ∃ bs' wx, assign share sh sh.length aps bs w = .ok (bs', w ++ wx) ∧
      (∀ b ∈ bs', b = blkOf sh b.key ∧ b.key.length = sh.length) ∧ (∃ ext, bs' = bs ++ ext) ∧
      wx.length = aps.length ∧
      ∀ j (hj : j < aps.length), ∃ b, wx[j]? = some b ∧ bs'[b]? = some (blkOf sh (aps[j]).strides)
  | [], bs, w, _, hb => ⟨bs, [], by simp [assign, pure, Except.pure], hb, ⟨[], by simp⟩, rfl, fun j hj => by simp at hj⟩
  | ap :: aps, bs, w, ha, hb => by
    obtain ⟨hs, hl⟩ := ha ap (by simp)
    have ha' : ∀ a ∈ aps, a.shape = sh ∧ a.strides.length = sh.length := fun a h => ha a (by simp [h])
    cases hlook : (if share then bs.findIdx? (fun b => b.key == ap.strides) else none) with
    | some f =>
      have hshare : share = true := by
        cases share with
        | true => rfl
        | false => simp at hlook
      simp only [hshare, if_true] at hlook
      obtain ⟨hf, hkey, _⟩ := List.findIdx?_eq_some_iff_getElem.1 hlook
      have hkey' : (bs[f]).key = ap.strides := by simpa using hkey
      obtain ⟨bs', wx, hass, hinv, ⟨ext, hext⟩, hlen, hserve⟩ := assign_spec share sh aps bs (w ++ [f]) ha' hb
      refine ⟨bs', f :: wx, ?_, hinv, ⟨ext, hext⟩, by simp [hlen], ?_⟩
      · simp only [assign, hshare, if_true, hlook]
        rw [hshare] at hass
        rw [hass]
        simp
      · intro j hj
        cases j with
        | zero =>
          refine ⟨f, by simp, ?_⟩
          have hbf : bs[f] = blkOf sh (bs[f]).key := (hb bs[f] (List.getElem_mem hf)).1
          rw [hext, List.getElem?_append_left hf, List.getElem?_eq_getElem hf]
          simp only [List.getElem_cons_zero]
          rw [hbf, hkey']
        | succ j =>
          obtain ⟨b, h1, h2⟩ := hserve j (by simpa using hj)
          exact ⟨b, by simpa using h1, by simpa using h2⟩
    | none =>
      have hown := hasShape_same sh ap hs hl
      have hblk : (⟨ap.strides, copyInto (zeros sh.length) ap.strides⟩ : Blk) = blkOf sh ap.strides := rfl
      have hb' : ∀ b ∈ bs ++ [blkOf sh ap.strides], b = blkOf sh b.key ∧ b.key.length = sh.length := by
        intro b hbm
        simp only [List.mem_append, List.mem_singleton] at hbm
        rcases hbm with hbm | hbm
        · exact hb b hbm
        · subst hbm; exact ⟨rfl, hl⟩
      obtain ⟨bs', wx, hass, hinv, ⟨ext, hext⟩, hlen, hserve⟩ :=
        assign_spec share sh aps (bs ++ [blkOf sh ap.strides]) (w ++ [bs.length]) ha' hb'
      refine ⟨bs', bs.length :: wx, ?_, hinv, ⟨blkOf sh ap.strides :: ext, by simp [hext]⟩, by simp [hlen], ?_⟩
      · simp only [assign, hlook, hown, if_true, hblk]
        rw [hass]
        simp
      · intro j hj
        cases j with
        | zero =>
          refine ⟨bs.length, by simp, ?_⟩
          rw [hext, List.append_assoc, List.getElem?_append_right (Nat.le_refl _)]
          simp
        | succ j =>
          obtain ⟨b, h1, h2⟩ := hserve j (by simpa using hj)
          exact ⟨b, by simpa using h1, by simpa using h2⟩

theorem selFit0_const (fits : List FlatIt) (c : Int) (h : ∀ f ∈ fits, f.size = c) : selFit0 fits = 0 := by
  have key : ∀ (fs : List FlatIt) (i best : Nat), (∀ f ∈ fs, f.size = c) → selFit0.go fs i best c = best := by
    intro fs
    induction fs with
    | nil => intro i best _; rfl
    | cons f fs ih =>
      intro i best hf
      have : f.size = c := hf f (by simp)
      simp only [selFit0.go, this, Int.lt_irrefl, if_false]
      exact ih (i + 1) best (fun g hg => hf g (by simp [hg]))
  cases fits with
  | nil => rfl
  | cons f fs =>
    have hfc : f.size = c := h f (by simp)
    simp only [selFit0, hfc]
    exact key (f :: fs) 0 0 h

theorem mkFit_fresh (sh : Shape) (b : Blk) : Fresh (mkFit sh b) :=
  ⟨rfl, rfl, rfl, rfl⟩

/-- what `NewMultIterator` builds for operands of one shape `sh` with one stride per axis -/
structure Built (share : Bool) (aps : List AP) (sh : Shape) (it : MultIt) : Prop where
  new : MultIt.newWith share aps = .ok it
  lock : Lockstep it (prod sh).toNat
  fresh : ∀ f ∈ it.fits, Fresh f
  form : ∀ f ∈ it.fits, ∃ b, f = mkFit sh b ∧ b.pre.length = sh.length
  notDone : it.done = false
  fit0 : it.fit0 = 0
  which0 : it.which[0]? = some 0
  serve : ∀ j (hj : j < aps.length), ∃ b, it.which[j]? = some b ∧
    it.fits[b]? = some (mkFit sh (blkOf sh (aps[j]).strides))

theorem built (share : Bool) (aps : List AP) (sh : Shape) (hne : aps ≠ [])
    (ha : ∀ ap ∈ aps, ap.shape = sh ∧ ap.strides.length = sh.length) (hp : ∀ d ∈ sh, 0 < d) :
    ∃ it, Built share aps sh it := by
  cases aps with
  | nil => exact absurd rfl hne
  | cons ap0 rest =>
    have hs0 : ap0.shape = sh := (ha ap0 (by simp)).1
    have hsel := selMax_same0 sh ap0 rest (fun a h => (ha a h).1)
    obtain ⟨blks, wx, hass, hinv, _, hlen, hserve⟩ := assign_spec share sh (ap0 :: rest) [] [] ha (by simp)
    simp only [List.nil_append] at hass
    let fits := blks.map (mkFit sh)
    let it : MultIt := { shape := sh, fits := fits, which := wx, fit0 := selFit0 fits, last := zeros (ap0 :: rest).length }
    have hnew : MultIt.newWith share (ap0 :: rest) = .ok it := by
      simp only [MultIt.newWith, hs0, hsel, validate_ok sh (ap0 :: rest) ha, hass, Nat.lt_irrefl, gt_iff_lt,
        if_false, List.take_length, pure, Except.pure, it, fits]
    have hsz : ∀ f ∈ fits, f.size = totalSize sh := by
      intro f hf
      simp only [fits, List.mem_map] at hf
      obtain ⟨b, _, rfl⟩ := hf
      rfl
    -- the first operand opens block 0
    have hw0 : wx[0]? = some 0 := by
      have h1 : (if share then ([] : List Blk).findIdx? (fun b => b.key == ap0.strides) else none) = none := by
        cases share <;> simp
      have hown := hasShape_same sh ap0 hs0 (ha ap0 (by simp)).2
      obtain ⟨bs', wx', hass', _, _, _, _⟩ := assign_spec share sh rest ([] ++ [blkOf sh ap0.strides]) ([] ++ [0])
        (fun a h => ha a (by simp [h])) (by
          intro b hb
          simp only [List.nil_append, List.mem_singleton] at hb
          subst hb; exact ⟨rfl, (ha ap0 (by simp)).2⟩)
      have hblk : (⟨ap0.strides, copyInto (zeros sh.length) ap0.strides⟩ : Blk) = blkOf sh ap0.strides := rfl
      have : assign share sh sh.length (ap0 :: rest) [] [] = .ok (bs', [0] ++ wx') := by
        simp only [assign, h1, hown, if_true, hblk, List.length_nil]
        exact hass'
      rw [hass] at this
      injection this with this
      injection this with _ hwx
      rw [hwx]; rfl
    have hblk_ne : blks ≠ [] := by
      obtain ⟨b, _, h2⟩ := hserve 0 (by simp)
      intro hnil; rw [hnil] at h2; simp at h2
    refine ⟨it, hnew, ⟨prod_pos sh hp |> fun h => by omega, ?_, ?_, rfl⟩, ?_, ?_, rfl, selFit0_const fits _ hsz, hw0, ?_⟩
    · simpa [it, fits] using hblk_ne
    · intro f hf
      simp only [it, fits, List.mem_map] at hf
      obtain ⟨b, hb, rfl⟩ := hf
      obtain ⟨hbk, hkl⟩ := hinv b hb
      have hpre : b.pre.length = sh.length := by rw [hbk]; exact preOf_length sh b.key hkl
      exact (mkFit_runs sh b hpre hp).1
    · intro f hf
      simp only [it, fits, List.mem_map] at hf
      obtain ⟨b, _, rfl⟩ := hf
      exact mkFit_fresh sh b
    · intro f hf
      simp only [it, fits, List.mem_map] at hf
      obtain ⟨b, hb, rfl⟩ := hf
      obtain ⟨hbk, hkl⟩ := hinv b hb
      exact ⟨b, rfl, by rw [hbk]; exact preOf_length sh b.key hkl⟩
    · intro j hj
      obtain ⟨b, h1, h2⟩ := hserve j hj
      exact ⟨b, h1, by simp [it, fits, List.getElem?_map, h2]⟩

/-! ### block strides vs. own strides -/

/-- two stride lists agree on every axis of extent other than one -/
def Agree : List Int → List Int → List Int → Prop
  | [], [], [] => True
  | d :: ds, a :: as, b :: bs => (d = 1 ∨ a = b) ∧ Agree ds as bs
  | _, _, _ => False

theorem agree_len : ∀ (sh a b : List Int), Agree sh a b → a.length = sh.length ∧ b.length = sh.length
  | [], [], [], _ => ⟨rfl, rfl⟩
  | d :: ds, x :: xs, y :: ys, h => by
    have := agree_len ds xs ys h.2
    simp [this.1, this.2]
  | [], _ :: _, _, h => by simp [Agree] at h
  | [], [], _ :: _, h => by simp [Agree] at h
  | _ :: _, [], _, h => by simp [Agree] at h
  | _ :: _, _ :: _, [], h => by simp [Agree] at h

theorem agree_append : ∀ (sh a b sh' a' b' : List Int), Agree sh a b → Agree sh' a' b' →
    Agree (sh ++ sh') (a ++ a') (b ++ b')
  | [], [], [], _, _, _, _, h' => by simpa using h'
  | d :: ds, x :: xs, y :: ys, sh', a', b', h, h' => by
    exact ⟨h.1, agree_append ds xs ys sh' a' b' h.2 h'⟩
  | [], _ :: _, _, _, _, _, h, _ => by simp [Agree] at h
  | [], [], _ :: _, _, _, _, h, _ => by simp [Agree] at h
  | _ :: _, [], _, _, _, _, h, _ => by simp [Agree] at h
  | _ :: _, _ :: _, [], _, _, _, h, _ => by simp [Agree] at h

theorem agree_reverse : ∀ (sh a b : List Int), Agree sh a b → Agree sh.reverse a.reverse b.reverse
  | [], [], [], _ => by simp [Agree]
  | d :: ds, x :: xs, y :: ys, h => by
    simp only [List.reverse_cons]
    exact agree_append _ _ _ [d] [x] [y] (agree_reverse ds xs ys h.2) ⟨h.1, trivial⟩
  | [], _ :: _, _, h => by simp [Agree] at h
  | [], [], _ :: _, h => by simp [Agree] at h
  | _ :: _, [], _, h => by simp [Agree] at h
  | _ :: _, _ :: _, [], h => by simp [Agree] at h

theorem dot_digits_agree : ∀ (rsh a b : List Int), Agree rsh a b → ∀ k,
    dot (digits rsh k) a = dot (digits rsh k) b
  | [], [], [], _, _ => rfl
  | d :: ds, x :: xs, y :: ys, h, k => by
    have ih := dot_digits_agree ds xs ys h.2 (k / d)
    simp only [digits, dot, ih]
    rcases h.1 with h1 | h1
    · subst h1; simp
    · rw [h1]
  | [], _ :: _, _, h, _ => by simp [Agree] at h
  | [], [], _ :: _, h, _ => by simp [Agree] at h
  | _ :: _, [], _, h, _ => by simp [Agree] at h
  | _ :: _, _ :: _, [], h, _ => by simp [Agree] at h

/-- agreeing stride lists give the same offset at every row-major coordinate -/
theorem dot_coordAt_agree (sh a b : List Int) (h : Agree sh a b) (k : Int) :
    dot (coordAt sh k) a = dot (coordAt sh k) b := by
  obtain ⟨ha, hb⟩ := agree_len sh a b h
  rw [← dot_coordAt sh a ha k, ← dot_coordAt sh b hb k]
  exact dot_digits_agree _ _ _ (agree_reverse sh a b h) k

/-- **the guard of the main theorem**: no axis that moves (extent other than 1) has stride 0 — the loop
    "fill 0s with 1s" of `NewMultIterator` would replace it by 1. (No tensor the library builds from positive
    dimensions has such a stride.) -/
def NoZeroStride : List Int → List Int → Prop
  | d :: ds, s :: ss => (d = 1 ∨ s ≠ 0) ∧ NoZeroStride ds ss
  | _, _ => True

/-- "fill 0s with 1s" changes no stride of an axis that moves, as long as none of them is 0 -/
theorem fill_agree : ∀ (sh st : List Int), st.length = sh.length → NoZeroStride sh st → Agree sh (fill st) st
  | [], [], _, _ => trivial
  | [], _ :: _, h, _ => by simp at h
  | _ :: _, [], h, _ => by simp at h
  | d :: ds, x :: xs, h, hz => by
    have ih := fill_agree ds xs (by simpa using h) hz.2
    refine ⟨?_, by simpa [fill] using ih⟩
    rcases hz.1 with h1 | h1
    · exact Or.inl h1
    · right; simp [h1]

/-- **The filled block of an operand of the iterator's own shape agrees with the operand's own strides** on
    every axis that moves — provided no such axis has stride 0 (the fill would turn it into 1). -/
theorem preOf_agree (sh st : List Int) (hl : st.length = sh.length) (hz : NoZeroStride sh st) :
    Agree sh (fill (preOf sh st)) st := by
  rw [preOf_eq sh st hl]; exact fill_agree sh st hl hz

/-! ### the operand's own flat iterator, by coordinates -/

/-- the flat iterator of a well-formed access pattern yields the row-major coordinates against its strides -/
theorem offsets_eq_coordAt (ap : AP) (hl : ap.strides.length = ap.shape.length) (hp : ∀ d ∈ ap.shape, 0 < d) :
    FlatIt.offsets ap =
      (List.range (prod ap.shape).toNat).map (fun (k : Nat) => dot (coordAt ap.shape (k : Int)) ap.strides) := by
  by_cases hs : ap.shape = []
  · unfold FlatIt.offsets
    rw [scalar_run_full ap hs]
    simp [hs, prod, coordAt, digits, dot]
  · by_cases hv : ap.isVectorLike = true
    · have hv' := hv
      simp only [AP.isVectorLike, Bool.and_eq_true] at hv'
      unfold FlatIt.offsets totalSize
      rw [vec_run_full ap hp hv hs, ← veclike_spec ap.shape ap.strides hl hp hv'.1 hv'.2, spec_eq ap.shape ap.strides hp]
    · unfold FlatIt.offsets totalSize
      rw [nd_run_full ap hl hp (by simpa using hv)]

/-! ### reversed block iterators -/

/-- one step of the reverse odometer from the coordinate visited at step `k` -/
theorem nd_prev_gen (it : FlatIt) (k : Nat)
    (hl : it.strides.length = it.shape.length) (hp : ∀ d ∈ it.shape, 0 < d) (hne : it.shape ≠ [])
    (hd : it.done = false) (hs : it.isScalar = false) (hv : it.isVector = false) (hr : it.reverse = true)
    (ht : it.track = coordAt it.shape (revIdx (prod it.shape).toNat k))
    (hn : it.nextIndex = dot (coordAt it.shape (revIdx (prod it.shape).toNat k)) it.strides)
    (hk : k < (prod it.shape).toNat) :
    it.next = ({ it with lastIndex := it.nextIndex,
                         nextIndex := dot (coordAt it.shape (revIdx (prod it.shape).toNat (k + 1))) it.strides,
                         track := coordAt it.shape (revIdx (prod it.shape).toNat (k + 1)),
                         done := decide (k + 1 = (prod it.shape).toNat) }, some it.nextIndex) := by
  have hkn : ¬ (k = (prod it.shape).toNat) := by omega
  have hc : revIdx (prod it.shape).toNat k = (((prod it.shape).toNat - 1 - k : Nat) : Int) := by
    unfold revIdx; rw [if_neg hkn]; omega
  have hloop := ndPrevLoop_digits it.shape.reverse it.strides.reverse (by simp [hl])
    (fun d hd => hp d (by simpa using hd)) (revIdx (prod it.shape).toNat k)
    (dot (coordAt it.shape (revIdx (prod it.shape).toNat k)) it.strides)
    (by rw [hc]; omega) (by rw [prod_reverse, hc]; omega)
  simp only [dot_coordAt _ _ hl, prod_reverse] at hloop
  have hpi : predIdx (prod it.shape) (revIdx (prod it.shape).toNat k) =
      revIdx (prod it.shape).toNat (k + 1) := by
    unfold predIdx revIdx
    rw [if_neg hkn]
    by_cases h1 : k + 1 = (prod it.shape).toNat
    · rw [if_pos h1, if_pos (by omega)]; omega
    · rw [if_neg h1, if_neg (by omega)]; omega
  have hdone : (!it.shape.reverse.isEmpty && decide (revIdx (prod it.shape).toNat k = 0)) =
      decide (k + 1 = (prod it.shape).toNat) := by
    have : it.shape.reverse.isEmpty = false := by simp [hne]
    rw [this, hc]
    have : ((((prod it.shape).toNat - 1 - k : Nat) : Int) = 0) ↔ (k + 1 = (prod it.shape).toNat) := by
      omega
    simp only [this, Bool.not_false, Bool.true_and]
  rw [hpi, hdone] at hloop
  have htr : it.track.reverse = digits it.shape.reverse (revIdx (prod it.shape).toNat k) := by
    rw [ht]; simp [coordAt]
  simp only [FlatIt.next, hd, hs, hv, hr, Bool.false_eq_true, if_false, if_true, htr, hn]
  simp only [coordAt] at hloop ⊢
  rw [hloop]
  simp only [Prod.mk.injEq, and_true]
  have := dot_coordAt it.shape it.strides hl (revIdx (prod it.shape).toNat (k + 1))
  simp only [coordAt] at this
  rw [← this]
  congr 1
  omega

/-- the block iterator after `SetReverse` (itself when that panics — it never does, `mkFit_rev_runs`) -/
def revFit (f : FlatIt) : FlatIt := match f.setReverse with | .ok g => g | .error _ => f

/-- **Every block iterator, switched to reverse while fresh, runs backwards in lockstep**: `SetReverse`
    succeeds, then it yields `∏ shape` times, the `k`-th value being the `(∏ shape - 1 - k)`-th row-major
    coordinate against the post-fill strides. -/
theorem mkFit_rev_runs (sh : Shape) (b : Blk) (hl : b.pre.length = sh.length) (hp : ∀ d ∈ sh, 0 < d) :
    (mkFit sh b).setReverse = .ok (revFit (mkFit sh b)) ∧
    Runs (revFit (mkFit sh b)) (prod sh).toNat ∧
      ∀ k, k < (prod sh).toNat → outF (revFit (mkFit sh b)) k = blkOff sh b ((prod sh).toNat - 1 - k) := by
  have hP := prod_pos sh hp
  have hrev : ∀ g, (mkFit sh b).setReverse = .ok g → revFit (mkFit sh b) = g := by
    intro g hg; simp [revFit, hg]
  by_cases hne : sh = []
  · subst hne
    have hpre : b.pre = [] := List.eq_nil_of_length_eq_zero (by simpa using hl)
    let g : FlatIt := { mkFit [] b with reverse := true }
    have hset : (mkFit [] b).setReverse = .ok g := by
      simp [FlatIt.setReverse, FlatIt.reset, mkFit, FlatIt.new, isScalar, g]
    rw [hrev g hset]
    have hn1 : (prod ([] : List Int)).toNat = 1 := by simp [prod]
    rw [hn1]
    have key := runs_of_seq g (fun k => match k with | 0 => g | _ + 1 => { g with done := true }) (fun _ => 0) 1 rfl
      (by
        intro k hk
        have : k = 0 := by omega
        subst this
        simp [g, mkFit, FlatIt.new, FlatIt.next, isScalar])
      (by
        intro k hk
        have : k = 0 := by omega
        subst this
        simp [g, mkFit, FlatIt.new])
      (by
        intro k hk
        have : k = 0 := by omega
        subst this
        simp [g, mkFit, FlatIt.new])
      (by simp)
    refine ⟨hset, key.1, ?_⟩
    intro k hk
    rw [key.2 k hk]
    simp [blkOff, coordAt, digits, dot]
  · let ap : AP := { shape := sh, strides := b.pre }
    by_cases hv : ap.isVectorLike = true
    · have hv' := hv
      simp only [AP.isVectorLike, Bool.and_eq_true] at hv'
      have hfill : fill b.pre = b.pre := fill_allOnes _ hv'.2
      have hmk : mkFit sh b = FlatIt.new ap := by
        simp only [mkFit, hfill, FlatIt.new]
        rfl
      rw [hmk]
      have hset := vecRevSt_zero ap hl hp hv hne
      have hrev' : revFit (FlatIt.new ap) = vecRevSt ap 0 := by simp [revFit, hset]
      rw [hrev']
      have key := runs_of_seq (vecRevSt ap 0) (vecRevSt ap) (fun k => prod sh - 1 - (k : Int)) (prod sh).toNat
        rfl (fun k hk => vecRevSt_next ap hv hne k hk)
        (by intro k _; rfl)
        (by
          intro k hk
          show decide (prod sh - 1 - (k : Int) < 0) = false
          rw [decide_eq_false (by omega)])
        (by
          show decide (prod sh - 1 - (((prod sh).toNat : Nat) : Int) < 0) = true
          rw [decide_eq_true (by omega)])
      refine ⟨hset, key.1, ?_⟩
      intro k hk
      rw [key.2 k hk]
      have hspec := veclike_spec sh b.pre hl hp hv'.1 hv'.2
      rw [allCoords_eq sh hp, List.map_map] at hspec
      have := map_range_inj _ _ _ hspec ((prod sh).toNat - 1 - k) (by omega)
      simp only [Function.comp] at this
      simp only [blkOff, hfill]
      rw [this]
      show prod sh - 1 - (k : Int) = Int.ofNat ((prod sh).toNat - 1 - k)
      simp only [Int.ofNat_eq_natCast]
      omega
    · have hnv : ap.isVectorLike = false := by simpa using hv
      let post := fill b.pre
      let n := (prod sh).toNat
      let g : FlatIt := { mkFit sh b with reverse := true, track := sh.map (· - 1), nextIndex := dot (sh.map (· - 1)) post }
      have hplen : post.length = sh.length := by simp [post, fill_length, hl]
      have hset : (mkFit sh b).setReverse = .ok g := by
        have hlt : ¬ (post.length < sh.length) := by omega
        have hiv : (mkFit sh b).isVector = false := by simpa [mkFit, FlatIt.new, ap] using hnv
        simp only [FlatIt.setReverse, FlatIt.reset, if_true, mkFit, FlatIt.new] at hiv ⊢
        simp [isScalar, hne, hiv, g, mkFit, FlatIt.new, post, fill_length, hl]
      rw [hrev g hset]
      let s : Nat → FlatIt := fun k =>
        { g with track := coordAt sh (revIdx n k), nextIndex := dot (coordAt sh (revIdx n k)) post,
                 lastIndex := (match k with | 0 => 0 | j + 1 => dot (coordAt sh (revIdx n j)) post),
                 done := decide (k = n) }
      have hi0 : revIdx n 0 = prod sh - 1 := by
        have h0 : ¬ (0 = n) := by simp only [n]; omega
        unfold revIdx; rw [if_neg h0]; simp only [n]; omega
      have h0 : s 0 = g := by
        have hz : ¬ (0 = n) := by simp only [n]; omega
        simp only [s, g, hi0, coordAt_last sh hp, hz, decide_false, mkFit, FlatIt.new]
      have hstep : ∀ k, k < n → (s k).next = (s (k + 1), some (dot (coordAt sh (revIdx n k)) post)) := by
        intro k hk
        have hkn : ¬ (k = n) := by omega
        have := nd_prev_gen (s k) k (by simp [s, g, mkFit, FlatIt.new, fill_length, hl])
          (by simpa [s, g, mkFit, FlatIt.new] using hp) (by simpa [s, g, mkFit, FlatIt.new] using hne)
          (by simp [s, hkn]) (by simp [s, g, mkFit, FlatIt.new, isScalar, hne])
          (by simpa [s, g, mkFit, FlatIt.new, ap] using hnv) (by simp [s, g])
          (by simp [s, g, mkFit, FlatIt.new, n]) (by simp [s, g, mkFit, FlatIt.new, post, n])
          (by simpa [s, g, mkFit, FlatIt.new, n] using hk)
        rw [this]
        simp [s, g, mkFit, FlatIt.new, post, n]
      have key := runs_of_seq g s (fun k => dot (coordAt sh (revIdx n k)) post) n h0 hstep
        (by intro k _; rfl)
        (by
          intro k hk
          have : ¬ (k = n) := by omega
          simp [s, this])
        (by simp [s])
      refine ⟨hset, key.1, ?_⟩
      intro k hk
      rw [key.2 k hk]
      have hkn : ¬ (k = n) := by have : k < n := hk; omega
      have hc : revIdx n k = ((n - 1 - k : Nat) : Int) := by
        unfold revIdx; rw [if_neg hkn]; have : k < n := hk; omega
      rw [hc]
      rfl

theorem revFit_fits_mapM (fits : List FlatIt) (h : ∀ f ∈ fits, f.setReverse = .ok (revFit f)) :
    fits.mapM FlatIt.setReverse = .ok (fits.map revFit) := mapM_ok _ _ fits h

/-! ### a direction switch after any number of calls -/

/-- `SetReverse` reads the configuration only: on an iterator whose configuration is that of `f0` it gives what
    it gives on `f0`, with the `lastIndex` of the iterator it was called on -/
theorem setReverse_to (itk f0 : FlatIt) (hc : cfgEq itk f0) :
    itk.setReverse = (match f0.setReverse with
      | .ok g => .ok { g with lastIndex := itk.lastIndex }
      | .error e => .error e) := by
  obtain ⟨h1, h2, h3, h4, h5, h6, h7⟩ := hc
  cases itk
  cases f0
  simp only at h1 h2 h3 h4 h5 h6 h7
  subst h1 h2 h3 h4 h5 h6 h7
  simp only [FlatIt.setReverse, FlatIt.reset, if_true]
  split
  · rfl
  · split
    · split <;> rfl
    · split <;> rfl

/-- `SetReverse` keeps `isScalar` and `lastIndex` -/
theorem setReverse_keeps (f g : FlatIt) (h : f.setReverse = .ok g) :
    g.isScalar = f.isScalar ∧ g.lastIndex = f.lastIndex := by
  simp only [FlatIt.setReverse, FlatIt.reset, if_true] at h
  split at h
  · injection h with h; subst h; exact ⟨rfl, rfl⟩
  · split at h
    · split at h
      · injection h with h; subst h; exact ⟨rfl, rfl⟩
      · cases h
    · split at h
      · cases h
      · injection h with h; subst h; exact ⟨rfl, rfl⟩

theorem revFit_keeps (f : FlatIt) : (revFit f).isScalar = f.isScalar ∧ (revFit f).lastIndex = f.lastIndex := by
  unfold revFit
  cases h : f.setReverse with
  | ok g => exact setReverse_keeps f g h
  | error e => exact ⟨rfl, rfl⟩

/-- the multi-iterator after `k` calls of `Next` followed by `SetReverse` -/
def revOf (it : MultIt) (n k : Nat) : MultIt :=
  { stateAt it n k with
    fits := it.fits.map (fun f => { revFit f with lastIndex := (iterF f k).lastIndex }), done := false }

theorem stateAt_setReverse (it : MultIt) (n : Nat) (hrev : ∀ f ∈ it.fits, f.setReverse = .ok (revFit f)) (k : Nat) :
    (stateAt it n k).setReverse = .ok (revOf it n k) := by
  have hr : (it.fits.map (fun f => iterF f k)).mapM FlatIt.setReverse =
      .ok (it.fits.map (fun f => { revFit f with lastIndex := (iterF f k).lastIndex })) := by
    rw [List.mapM_map]
    apply mapM_ok
    intro f hf
    show (iterF f k).setReverse = _
    rw [setReverse_to (iterF f k) f (iterF_cfg f k), hrev f hf]
  simp only [MultIt.setReverse, stateAt, hr, revOf]
  rfl

theorem revOf_lockstep (it : MultIt) (n : Nat) (hpos : 0 < n) (hne : it.fits ≠ [])
    (hruns : ∀ f ∈ it.fits, Runs (revFit f) n) (k : Nat) : Lockstep (revOf it n k) n := by
  refine ⟨hpos, ?_, ?_, rfl⟩
  · simp only [revOf]
    intro hnil
    exact hne (List.map_eq_nil_iff.1 hnil)
  · intro g hg
    simp only [revOf, List.mem_map] at hg
    obtain ⟨f, hf, rfl⟩ := hg
    refine (runs_li (revFit f) n hpos _ ?_ (hruns f hf)).1
    intro hs
    rw [(revFit_keeps f).2]
    exact scalar_iterF_li f ((revFit_keeps f).1.symm.trans hs) k

theorem revOf_fit (it : MultIt) (n : Nat) (hpos : 0 < n) (hruns : ∀ f ∈ it.fits, Runs (revFit f) n)
    (k b : Nat) (f : FlatIt) (hb : it.fits[b]? = some f) :
    ∃ g, (revOf it n k).fits[b]? = some g ∧ ∀ m, outF g m = outF (revFit f) m := by
  refine ⟨{ revFit f with lastIndex := (iterF f k).lastIndex }, by simp [revOf, List.getElem?_map, hb], ?_⟩
  refine (runs_li (revFit f) n hpos _ ?_ (hruns f (List.mem_of_getElem? hb))).2
  intro hs
  rw [(revFit_keeps f).2]
  exact scalar_iterF_li f ((revFit_keeps f).1.symm.trans hs) k

/-- the multi-iterator after `k` calls of `Next` followed by `SetForward` (`lastIndexArr` is not refreshed) -/
def fwdOf (it : MultIt) (n k : Nat) : MultIt :=
  { resetOf it k with last := (stateAt it n k).last }

theorem stateAt_setForward (it : MultIt) (n : Nat) (hfresh : ∀ f ∈ it.fits, Fresh f) (k : Nat) :
    (stateAt it n k).setForward = .ok (fwdOf it n k) := by
  have hr : (it.fits.map (fun f => iterF f k)).mapM FlatIt.setForward =
      .ok (it.fits.map (fun f => { f with lastIndex := (iterF f k).lastIndex })) := by
    rw [List.mapM_map]
    apply mapM_ok
    intro f hf
    have hF := hfresh f hf
    have hc := iterF_cfg f k
    show ({ iterF f k with reverse := false } : FlatIt).reset = _
    exact reset_to { iterF f k with reverse := false } f
      ⟨hc.1, hc.2.1, hc.2.2.1, hc.2.2.2.1, hF.fwd.symm, hc.2.2.2.2.2.1, hc.2.2.2.2.2.2⟩ hF.fwd hF.nd hF.ni hF.tr
  simp only [MultIt.setForward, stateAt, hr, fwdOf, resetOf]
  rfl

theorem fwdOf_lockstep (it : MultIt) (n : Nat) (h : Lockstep it n) (k : Nat) : Lockstep (fwdOf it n k) n := by
  have := resetOf_lockstep it n h k
  exact ⟨this.pos, this.ne, this.runs, rfl⟩

theorem fwdOf_fit (it : MultIt) (n : Nat) (h : Lockstep it n) (k b : Nat) (f : FlatIt) (hb : it.fits[b]? = some f) :
    ∃ g, (fwdOf it n k).fits[b]? = some g ∧ ∀ m, outF g m = outF f m :=
  resetOf_fit it n h k b f hb

end MultIter
end TM
