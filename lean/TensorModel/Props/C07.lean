import TensorModel.Proofs.Kernels
import TensorModel.Proofs.MinMax
import TensorModel.Proofs.IterPaths
import TensorModel.Props.C13
/-!
  C07 — option modes: safe is pure; `UseUnsafe` / `WithReuse` / `WithIncr` write only their destination.
  Property theorems only; helper lemmas live in `TensorModel/Proofs/Kernels.lean`
  (`cell`, `InBuf`, `ReuseFits` are defined there; see the header of `Props/C06.lean`).
-/
set_option linter.unusedSimpArgs false
namespace TM.C07
open TM

/-- the four checks of `binaryCheck` for the arithmetic methods -/
theorem binOK (a b : Dense) (hsh : shapeEq a.shape b.shape = true) (hdt : a.dt = b.dt)
    (hnum : a.dt ∈ numberTypes) : BinOK numberTypes a b :=
  ⟨by simpa using hnum, hdt, hsh⟩

/-! ## safe mode is pure -/

/-- Safe mode (no options), raw path: the call succeeds, returns a *fresh* tensor, and every cell of
    every pre-existing buffer — operands included — and the whole mask heap are as before. -/
theorem safe_is_pure (st : St) (op : String) (a b : Dense)
    (hsh : shapeEq a.shape b.shape = true) (hdt : a.dt = b.dt) (hnum : a.dt ∈ numberTypes)
    (hk : a.dt ∈ kernelTypes op)
    (hia : a.requiresIterator = false) (hib : b.requiresIterator = false) (hord : sameOrd a b = true)
    (hm : a.mask = none) (hlen : a.win.len = b.win.len) (hcap : a.win.len ≤ b.win.cap)
    (hA : InBuf st a.win.buf a.win.off a.win.len) (hB : InBuf st b.win.buf b.win.off a.win.len) :
    ∃ out c, engArithVV st op numberTypes a b {} = .ok out ∧ out.ret = .fresh c ∧ c.win.buf = st.heap.size ∧
      out.st.mheap = st.mheap ∧ ∀ b' k, b' < st.heap.size → cell out.st b' k = cell st b' k := by
  obtain ⟨st', h, hm', _, hfr⟩ := engArithVV_safe_raw' st op numberTypes a b (binOK a b hsh hdt hnum)
    (by simpa using hk) hia hib hord hm hlen hcap hA hB
  exact ⟨_, _, h, rfl, rfl, hm', hfr⟩

/-- Safe mode on the iterator path is pure as well. -/
theorem safe_is_pure_iter (st : St) (op : String) (a b : Dense)
    (hsh : shapeEq a.shape b.shape = true) (hdt : a.dt = b.dt) (hnum : a.dt ∈ numberTypes)
    (hk : a.dt ∈ kernelTypes op)
    (hia : a.requiresIterator = true) (hma : a.mask = none) (hmb : b.mask = none) (hlb : b.win.len ≠ 1)
    (hoa : ∀ i ∈ a.offsets, 0 ≤ i ∧ i < (a.win.len : Int)) (hob : ∀ j ∈ b.offsets, 0 ≤ j ∧ j < (b.win.len : Int))
    (hnd : a.offsets.Nodup)
    (hA : InBuf st a.win.buf a.win.off a.win.len) (hB : InBuf st b.win.buf b.win.off b.win.len) :
    ∃ out c, engArithVV st op numberTypes a b {} = .ok out ∧ out.ret = .fresh c ∧ c.win.buf = st.heap.size ∧
      out.st.mheap = st.mheap ∧ ∀ b' k, b' < st.heap.size → cell out.st b' k = cell st b' k := by
  obtain ⟨st', h, hm', _, _, hfr⟩ := engArithVV_safe_iter' st op numberTypes a b (binOK a b hsh hdt hnum)
    (by simpa using hk) hia hma hmb hlb hoa hob hnd hA hB
  exact ⟨_, _, h, rfl, rfl, hm', hfr⟩

/-! ## `UseUnsafe()` -/

/-- `UseUnsafe()`, raw path: the result overwrites the window of `a` (and `a` is returned); `b`, the
    rest of `a`'s buffer, every other buffer and the mask heap are unchanged. -/
theorem unsafe_writes_only_a (st : St) (op : String) (a b : Dense)
    (hsh : shapeEq a.shape b.shape = true) (hdt : a.dt = b.dt) (hnum : a.dt ∈ numberTypes)
    (hk : a.dt ∈ kernelTypes op)
    (hia : a.requiresIterator = false) (hib : b.requiresIterator = false) (hord : sameOrd a b = true)
    (hne : a.win.buf ≠ b.win.buf) (hlen : a.win.len = b.win.len) (hcap : a.win.len ≤ b.win.cap)
    (hA : InBuf st a.win.buf a.win.off a.win.len) (hB : InBuf st b.win.buf b.win.off a.win.len) :
    ∃ out, engArithVV st op numberTypes a b { unsafe_ := true } = .ok out ∧ out.ret = .a ∧
      out.st.mheap = st.mheap ∧
      (∀ i, i < a.win.len → ∃ x y, cell st a.win.buf (a.win.off + i) = some x ∧
        cell st b.win.buf (b.win.off + i) = some y ∧
        cell out.st a.win.buf (a.win.off + i) = some (vecFn op a.dt x y)) ∧
      (∀ b' k, (b' ≠ a.win.buf ∨ k < a.win.off ∨ a.win.off + a.win.len ≤ k) → cell out.st b' k = cell st b' k) := by
  obtain ⟨st', h, w⟩ := engArithVV_unsafe_raw' st op numberTypes a b (binOK a b hsh hdt hnum)
    (by simpa using hk) hia hib hord hne hlen hcap hA hB
  exact ⟨_, h, rfl, w.sem2 hA.has hB.has⟩

/-- **`UseUnsafe()` on the iterator path** - the first operand is a view with gaps or carries a pending transpose, or the
    operands differ in layout: exactly the logical elements of `a` (the cells its iterator addresses) are overwritten,
    each with `op` of the two operands' elements at the same position of the logical order, and `a` is returned;
    everything else - the gaps of the view, the rest of its parent, `b`, every other buffer, the mask heap - is
    unchanged. "Writes stay inside the view" for in-place arithmetic (C04) is this frame. -/
theorem unsafe_iter_writes_only_a (st : St) (op : String) (a b : Dense)
    (hsh : shapeEq a.shape b.shape = true) (hdt : a.dt = b.dt) (hnum : a.dt ∈ numberTypes)
    (hk : a.dt ∈ kernelTypes op)
    (hu : (a.requiresIterator || b.requiresIterator || !sameOrd a b) = true)
    (hma : a.mask = none) (hmb : b.mask = none) (hla : a.win.len ≠ 1) (hlb : b.win.len ≠ 1)
    (hne : a.win.buf ≠ b.win.buf)
    (hoa : ∀ i ∈ a.offsets, 0 ≤ i ∧ i < (a.win.len : Int)) (hob : ∀ j ∈ b.offsets, 0 ≤ j ∧ j < (b.win.len : Int))
    (hnd : a.offsets.Nodup)
    (hA : InBuf st a.win.buf a.win.off a.win.len) (hB : InBuf st b.win.buf b.win.off b.win.len) :
    ∃ out, engArithVV st op numberTypes a b { unsafe_ := true } = .ok out ∧ out.ret = .a ∧
      out.st.mheap = st.mheap ∧
      (∀ (k : Nat) i j, a.offsets[k]? = some i → b.offsets[k]? = some j →
        ∃ x y, cell st a.win.buf (a.win.off + i.toNat) = some x ∧ cell st b.win.buf (b.win.off + j.toNat) = some y ∧
          cell out.st a.win.buf (a.win.off + i.toNat) = some (.app2 op x y)) ∧
      (∀ b' k', (b' ≠ a.win.buf ∨ ∀ (k : Nat) i j, a.offsets[k]? = some i → b.offsets[k]? = some j →
          k' ≠ a.win.off + i.toNat) → cell out.st b' k' = cell st b' k') := by
  obtain ⟨st', h, hm, hv, hfr⟩ := engArithVV_unsafe_iter' st op numberTypes a b (binOK a b hsh hdt hnum)
    (by simpa using hk) hu hma hmb hla hlb hne hoa hob hnd hA hB
  refine ⟨_, h, rfl, hm, ?_, hfr⟩
  intro k i j hi hj
  have h1 := hoa i (List.mem_of_getElem? hi)
  have h2 := hob j (List.mem_of_getElem? hj)
  exact ⟨_, _, cell_some_cellD (hA.has.at h1.1 h1.2), cell_some_cellD (hB.has.at h2.1 h2.2), hv k i j hi hj⟩

/-- **In place through a view, by coordinate, end to end.** For well-formed operands of one shape (C13: the patterns cover
    their windows and address distinct cells) of which one needs an iterator, `UseUnsafe()` overwrites, for every
    coordinate `c`, the cell the first operand addresses at `c` with `op` of the two operands' elements at `c` - and
    **no cell that is not addressed by a coordinate of the first operand changes**: the gaps of a view, the rest of its
    parent, the second operand, every other buffer. This is "writes stay inside the view" (C04) for in-place arithmetic. -/
theorem unsafe_iter_coordinatewise (st : St) (op : String) (a b : Dense)
    (hshape : b.ap.shape = a.ap.shape) (hdt : a.dt = b.dt) (hnum : a.dt ∈ numberTypes) (hk : a.dt ∈ kernelTypes op)
    (hu : (a.requiresIterator || b.requiresIterator || !sameOrd a b) = true)
    (hma : a.mask = none) (hmb : b.mask = none) (hla : a.win.len ≠ 1) (hlb : b.win.len ≠ 1)
    (hne : a.win.buf ≠ b.win.buf)
    (hca : C13.Covers a.ap (a.win.len : Int)) (hinja : InjectivePat a.ap.shape a.ap.strides)
    (hcb : C13.Covers b.ap (b.win.len : Int)) (hinjb : InjectivePat b.ap.shape b.ap.strides)
    (hA : InBuf st a.win.buf a.win.off a.win.len) (hB : InBuf st b.win.buf b.win.off b.win.len) :
    ∃ out, engArithVV st op numberTypes a b { unsafe_ := true } = .ok out ∧ out.ret = .a ∧
      (∀ co ∈ allCoords a.ap.shape, ∃ x y,
        cell st a.win.buf (a.win.off + (dot co a.ap.strides).toNat) = some x ∧
        cell st b.win.buf (b.win.off + (dot co b.ap.strides).toNat) = some y ∧
        cell out.st a.win.buf (a.win.off + (dot co a.ap.strides).toNat) = some (.app2 op x y)) ∧
      (∀ b' k', (b' ≠ a.win.buf ∨ ∀ co ∈ allCoords a.ap.shape, k' ≠ a.win.off + (dot co a.ap.strides).toNat) →
        cell out.st b' k' = cell st b' k') := by
  obtain ⟨hoa, hnd⟩ := C13.wf_offsets a a.win.len hca hinja
  obtain ⟨hob, _⟩ := C13.wf_offsets b b.win.len hcb hinjb
  have hsh : shapeEq a.shape b.shape = true := by
    have : b.shape = a.shape := hshape
    rw [this]; exact shapeEq_self _
  obtain ⟨out, h, hret, _, hv, hfr⟩ := unsafe_iter_writes_only_a st op a b hsh hdt hnum hk hu hma hmb hla hlb hne hoa hob hnd hA hB
  have hp := hca.2.2.1
  have eoa : a.offsets = (allCoords a.ap.shape).map (fun c => dot c a.ap.strides) := by
    unfold Dense.offsets; exact offsets_rowmajor a.ap hca.1 hp
  have eob : b.offsets = (allCoords a.ap.shape).map (fun c => dot c b.ap.strides) := by
    unfold Dense.offsets
    rw [offsets_rowmajor b.ap hcb.1 hcb.2.2.1, hshape]
  refine ⟨out, h, hret, ?_, ?_⟩
  · intro co hco
    obtain ⟨k, hk', hkc⟩ := List.getElem_of_mem hco
    have ga : a.offsets[k]? = some (dot co a.ap.strides) := by
      rw [eoa, List.getElem?_map, List.getElem?_eq_getElem hk', hkc]; rfl
    have gb : b.offsets[k]? = some (dot co b.ap.strides) := by
      rw [eob, List.getElem?_map, List.getElem?_eq_getElem hk', hkc]; rfl
    exact hv k _ _ ga gb
  · intro b' k' hbk
    apply hfr
    rcases hbk with hb | hk'
    · exact Or.inl hb
    · refine Or.inr ?_
      intro k i j hi _
      have : i ∈ a.offsets := List.mem_of_getElem? hi
      rw [eoa] at this
      obtain ⟨co, hco, rfl⟩ := List.mem_map.mp this
      exact hk' co hco

/-- **`MinBetween` / `MaxBetween` with `UseUnsafe()`** (finding F11, repaired: no result tensor is allocated when the
    call is to work in place), raw path: the elementwise minimum / maximum overwrites the window of `a` and `a` itself
    is returned; `b`, the rest of `a`'s buffer, every other buffer and the mask heap are unchanged. -/
theorem minmax_unsafe_writes_only_a (st : St) (op : String) (a b : Dense)
    (hsh : shapeEq a.shape b.shape = true) (hdt : a.dt = b.dt) (hot : a.dt ∈ ordTypes)
    (hia : a.requiresIterator = false) (hib : b.requiresIterator = false) (hord : sameOrd a b = true)
    (hne : a.win.buf ≠ b.win.buf) (hlen : a.win.len = b.win.len) (hcap : a.win.len ≤ b.win.cap)
    (hA : InBuf st a.win.buf a.win.off a.win.len) (hB : InBuf st b.win.buf b.win.off a.win.len) :
    ∃ out, engMMVV st op a b { unsafe_ := true } = .ok out ∧ out.ret = .a ∧ out.reuse = none ∧
      out.st.mheap = st.mheap ∧
      (∀ i, i < a.win.len → ∃ x y, cell st a.win.buf (a.win.off + i) = some x ∧
        cell st b.win.buf (b.win.off + i) = some y ∧
        cell out.st a.win.buf (a.win.off + i) = some (.app2 op x y)) ∧
      (∀ b' k, (b' ≠ a.win.buf ∨ k < a.win.off ∨ a.win.off + a.win.len ≤ k) → cell out.st b' k = cell st b' k) := by
  obtain ⟨st', h, w⟩ := engMMVV_unsafe' st op a b ⟨by simpa using hot, hdt, hsh⟩ hia hib hord hne hlen hcap hA hB
  exact ⟨_, h, rfl, rfl, Writes.sem2 (F := fun x y => .app2 op x y) w hA.has hB.has⟩

/-! ## reuse -/

/-- `WithReuse(r)`, raw path (`E.OpRecv`): the result is written to the window of `r` (and `r` is
    returned); when `r`'s buffer differs from both operand buffers the operands are unchanged — indeed
    nothing outside `r`'s window changes. -/
theorem reuse_writes_only_reuse (st : St) (op : String) (a b r : Dense)
    (hsh : shapeEq a.shape b.shape = true) (hdt : a.dt = b.dt) (hnum : a.dt ∈ numberTypes)
    (hk : a.dt ∈ kernelTypes op)
    (hia : a.requiresIterator = false) (hib : b.requiresIterator = false) (hir : r.requiresIterator = false)
    (hord : sameOrd a b = true) (hr : ReuseFits r a.shape a.dt a.ap.o.col)
    (hna : a.win.buf ≠ r.win.buf) (hnb : b.win.buf ≠ r.win.buf)
    (hca : r.win.len ≤ a.win.cap) (hcb : r.win.len ≤ b.win.cap)
    (hA : InBuf st a.win.buf a.win.off r.win.len) (hB : InBuf st b.win.buf b.win.off r.win.len)
    (hR : InBuf st r.win.buf r.win.off r.win.len) :
    ∃ out, engArithVV st op numberTypes a b { reuse := some r } = .ok out ∧ out.ret = .reuse ∧
      out.reuse = some r ∧ out.st.mheap = st.mheap ∧
      (∀ i, i < r.win.len → ∃ x y, cell st a.win.buf (a.win.off + i) = some x ∧
        cell st b.win.buf (b.win.off + i) = some y ∧
        cell out.st r.win.buf (r.win.off + i) = some (.app2 op x y)) ∧
      (∀ b' k, (b' ≠ r.win.buf ∨ k < r.win.off ∨ r.win.off + r.win.len ≤ k) → cell out.st b' k = cell st b' k) := by
  obtain ⟨st', h, w⟩ := engArithVV_reuse_raw' st op numberTypes a b r (binOK a b hsh hdt hnum)
    (by simpa using hk) hia hib hir hord hr hna hnb hca hcb hA hB hR
  exact ⟨_, h, rfl, rfl, Writes.sem2 (F := fun x y => .app2 op x y) w hA.has hB.has⟩

/-! ## incr -/

/-- `WithIncr(r)`, raw path, operands of more than one element: `r[i] = r[i] + (a[i] op b[i])`; only `r`'s window is
    written. (Two length-one operands: `incr_writes_only_incr_one` below.) -/
theorem incr_writes_only_incr (st : St) (op : String) (a b r : Dense)
    (hsh : shapeEq a.shape b.shape = true) (hdt : a.dt = b.dt) (hnum : a.dt ∈ numberTypes)
    (hk : a.dt ∈ kernelTypes op)
    (hia : a.requiresIterator = false) (hib : b.requiresIterator = false) (hir : r.requiresIterator = false)
    (hord : sameOrd a b = true) (hr : ReuseFits r a.shape a.dt a.ap.o.col)
    (hna : a.win.buf ≠ r.win.buf) (hnb : b.win.buf ≠ r.win.buf)
    (hla : a.win.len ≠ 1) (hlb : b.win.len ≠ 1)
    (hcb : a.win.len ≤ b.win.cap) (hcr : a.win.len ≤ r.win.cap)
    (hA : InBuf st a.win.buf a.win.off a.win.len) (hB : InBuf st b.win.buf b.win.off a.win.len)
    (hR : InBuf st r.win.buf r.win.off a.win.len) :
    ∃ out, engArithVV st op numberTypes a b { incr := some r } = .ok out ∧ out.ret = .reuse ∧
      out.reuse = some r ∧ out.st.mheap = st.mheap ∧
      (∀ i, i < a.win.len → ∃ acc x y, cell st r.win.buf (r.win.off + i) = some acc ∧
        cell st a.win.buf (a.win.off + i) = some x ∧ cell st b.win.buf (b.win.off + i) = some y ∧
        cell out.st r.win.buf (r.win.off + i) = some (accAdd acc (vecFn op a.dt x y))) ∧
      (∀ b' k, (b' ≠ r.win.buf ∨ k < r.win.off ∨ r.win.off + a.win.len ≤ k) → cell out.st b' k = cell st b' k) := by
  obtain ⟨st', h, w⟩ := engArithVV_incr_raw' st op numberTypes a b r (binOK a b hsh hdt hnum)
    (by simpa using hk) hia hib hir hord hr hna hnb hla hlb hcb hcr hA hB hR
  exact ⟨_, h, rfl, rfl, Writes.sem3 (F := fun acc x y => accAdd acc (vecFn op a.dt x y)) w hR.has hA.has hB.has⟩

/-- **`WithIncr(r)` on the iterator path** (an operand or the increment tensor is a view with gaps / carries a pending
    transpose, or the data orders differ; no operand lives in `r`'s buffer): at every position `k` of the logical order
    `r`'s cell becomes `r + (a op b)` of the three tensors' elements at `k` - by coordinate, whatever the layouts; `r` is
    returned; nothing outside `r`'s buffer changes. -/
theorem incr_iter_writes_only_incr (st : St) (op : String) (a b r : Dense)
    (hsh : shapeEq a.shape b.shape = true) (hdt : a.dt = b.dt) (hnum : a.dt ∈ numberTypes)
    (hk : a.dt ∈ kernelTypes op)
    (hr : ReuseFits r a.shape a.dt a.ap.o.col)
    (hu : (a.requiresIterator || b.requiresIterator || r.requiresIterator || !sameOrd a b ||
      (!sameOrd a r || !sameOrd b r)) = true)
    (hma : a.mask = none) (hmb : b.mask = none) (hmr : r.mask = none)
    (hna : a.win.buf ≠ r.win.buf) (hnb : b.win.buf ≠ r.win.buf)
    (hla : a.win.len ≠ 1) (hlb : b.win.len ≠ 1)
    (hoa : ∀ i ∈ a.offsets, 0 ≤ i ∧ i < (a.win.len : Int)) (hob : ∀ j ∈ b.offsets, 0 ≤ j ∧ j < (b.win.len : Int))
    (hor : ∀ m ∈ r.offsets, 0 ≤ m ∧ m < (r.win.len : Int)) (hnd : r.offsets.Nodup)
    (hA : InBuf st a.win.buf a.win.off a.win.len) (hB : InBuf st b.win.buf b.win.off b.win.len)
    (hR : InBuf st r.win.buf r.win.off r.win.len) :
    ∃ out, engArithVV st op numberTypes a b { incr := some r } = .ok out ∧ out.ret = .reuse ∧ out.reuse = some r ∧
      out.st.mheap = st.mheap ∧
      (∀ (k : Nat) m i j, r.offsets[k]? = some m → a.offsets[k]? = some i → b.offsets[k]? = some j →
        ∃ acc x y, cell st r.win.buf (r.win.off + m.toNat) = some acc ∧ cell st a.win.buf (a.win.off + i.toNat) = some x ∧
          cell st b.win.buf (b.win.off + j.toNat) = some y ∧
          cell out.st r.win.buf (r.win.off + m.toNat) = some (accAdd acc (.app2 op x y))) ∧
      (∀ b' k', b' ≠ r.win.buf → cell out.st b' k' = cell st b' k') := by
  obtain ⟨st', h, hm, hv, hfr⟩ := engArithVV_incr_iter' st op numberTypes a b r (binOK a b hsh hdt hnum)
    (by simpa using hk) hr hu hma hmb hmr hna hnb hla hlb hoa hob hor hnd hA hB hR
  refine ⟨_, h, rfl, rfl, hm, ?_, hfr⟩
  intro k m i j hk' hi hj
  have h1 := hoa i (List.mem_of_getElem? hi)
  have h2 := hob j (List.mem_of_getElem? hj)
  have h3 := hor m (List.mem_of_getElem? hk')
  exact ⟨_, _, _, cell_some_cellD (hR.has.at h3.1 h3.2), cell_some_cellD (hA.has.at h1.1 h1.2),
    cell_some_cellD (hB.has.at h2.1 h2.2), hv k m i j hk' hi hj⟩

/-- **`WithIncr(r)` with two one-element operands** (finding F32, repaired; the case `incr_writes_only_incr` leaves out —
    together they cover every operand length on the raw path): every cell of `r` receives `+ (a[0] op b[0])`, `r` is
    returned, and no existing cell outside `r`'s window changes — the operands are not written. No hypothesis separates
    the three tensors: the increment may be an operand, or overlap one (an operand that shares memory with the increment is
    read from a copy made first — `operandFor`, the repair of finding F10; that copy is why such an operand is asked to be
    unmasked and why the frame speaks about the buffers that existed before the call). -/
theorem incr_writes_only_incr_one (st : St) (op : String) (a b r : Dense)
    (hsh : shapeEq a.shape b.shape = true) (hdt : a.dt = b.dt) (hnum : a.dt ∈ numberTypes)
    (hk : a.dt ∈ kernelTypes op) (hir : r.requiresIterator = false)
    (hord : sameOrd a b = true) (hr : ReuseFits r a.shape a.dt a.ap.o.col)
    (hla : a.win.len = 1) (hlb : b.win.len = 1)
    (hma : sharesMemory a r = true → a.mask = none) (hmb : sharesMemory b r = true → b.mask = none)
    (hA : InBuf st a.win.buf a.win.off 1) (hB : InBuf st b.win.buf b.win.off 1)
    (hR : InBuf st r.win.buf r.win.off r.win.len) :
    ∃ out x y, engArithVV st op numberTypes a b { incr := some r } = .ok out ∧ out.ret = .reuse ∧
      out.reuse = some r ∧ out.st.mheap = st.mheap ∧
      cell st a.win.buf a.win.off = some x ∧ cell st b.win.buf b.win.off = some y ∧
      (∀ i, i < r.win.len → ∃ acc, cell st r.win.buf (r.win.off + i) = some acc ∧
        cell out.st r.win.buf (r.win.off + i) = some (accAdd acc (vecFn op a.dt x y))) ∧
      (∀ b' k, b' < st.heap.size → (b' ≠ r.win.buf ∨ k < r.win.off ∨ r.win.off + r.win.len ≤ k) →
        cell out.st b' k = cell st b' k) := by
  obtain ⟨st', h, hm, hv, hfr⟩ := engArithVV_incr_raw_one' st op numberTypes a b r (binOK a b hsh hdt hnum)
    (by simpa using hk) hir hord hr hla hlb hma hmb hA hB hR
  refine ⟨_, _, _, h, rfl, rfl, hm, cell_some_cellD (by simpa using hA.has 0 (by omega)),
    cell_some_cellD (by simpa using hB.has 0 (by omega)), ?_, hfr⟩
  intro i hi
  exact ⟨_, cell_some_cellD (hR.has i hi), hv i hi⟩

/-! ## reuse on the iterator path (finding F10, repaired for reuse / increment tensors) -/

/-- What the model (= the generated Go code) does with a reuse tensor on the iterator path when no operand shares memory
    with it: it first copies `a` into the reuse tensor along the two iterators (`storage.CopyIter`), then runs the
    *in-place* iterator kernel on (reuse, b). (An operand that does share memory with the reuse tensor is replaced by a
    copy first: `operandFor`.) -/
theorem reuse_iter_model (st : St) (op : String) (a b r : Dense)
    (hsh : shapeEq a.shape b.shape = true) (hdt : a.dt = b.dt) (hnum : a.dt ∈ numberTypes)
    (hk : a.dt ∈ kernelTypes op) (hia : a.requiresIterator = true)
    (hma : a.mask = none) (hmb : b.mask = none) (hmr : r.mask = none)
    (hr : ReuseFits r a.shape a.dt a.ap.o.col)
    (hsa : sharesMemory a r = false) (hsb : sharesMemory b r = false) :
    engArithVV st op numberTypes a b { reuse := some r } = (do
      let s ← Dense.copyIterOffsets st r.win a.win r.offsets a.offsets
      let s ← eOpIter s r.win b.win (fun x y => .app2 op x y) (r.offsets.map (·, true)) (b.offsets.map (·, true))
        (vecFn op a.dt)
      pure ⟨s, some r, .reuse⟩) :=
  engArithVV_iter_reuse st op numberTypes a b r (binOK a b hsh hdt hnum) (by simpa using hk) hia hma hmb hmr hr hsa hsb

/-- The value statement for reuse on the iterator path, parameterised by a side condition `side` on the three tensors:
    at the `k`-th position of the three iterators the reuse tensor receives `a[a.offsets[k]] op b[b.offsets[k]]` — the
    operands' elements as they were before the call — and no buffer that existed before the call, other than the reuse
    tensor's, changes. -/
def ReuseIterStmt (side : Dense → Dense → Dense → Prop) : Prop :=
  ∀ (st : St) (op : String) (a b r : Dense),
    shapeEq a.shape b.shape = true → a.dt = b.dt → a.dt ∈ numberTypes → a.dt ∈ kernelTypes op →
    a.requiresIterator = true → a.mask = none → b.mask = none → r.mask = none →
    ReuseFits r a.shape a.dt a.ap.o.col →
    r.win.buf ≠ a.win.buf → side a b r →
    r.win.len ≠ 1 → b.win.len ≠ 1 → r.win.len ≤ r.win.cap → a.win.len ≤ a.win.cap →
    (∀ i ∈ r.offsets, 0 ≤ i ∧ i < (r.win.len : Int)) → (∀ i ∈ a.offsets, 0 ≤ i ∧ i < (a.win.len : Int)) →
    (∀ j ∈ b.offsets, 0 ≤ j ∧ j < (b.win.len : Int)) → r.offsets.Nodup →
    InBuf st a.win.buf a.win.off a.win.len → InBuf st b.win.buf b.win.off b.win.len →
    InBuf st r.win.buf r.win.off r.win.len →
    ∃ out, engArithVV st op numberTypes a b { reuse := some r } = .ok out ∧ out.ret = .reuse ∧
      out.st.mheap = st.mheap ∧
      (∀ (k : Nat) m i j, r.offsets[k]? = some m → a.offsets[k]? = some i → b.offsets[k]? = some j →
        ∃ x y, cell st a.win.buf (a.win.off + i.toNat) = some x ∧ cell st b.win.buf (b.win.off + j.toNat) = some y ∧
          cell out.st r.win.buf (r.win.off + m.toNat) = some (.app2 op x y)) ∧
      (∀ b' k', b' < st.heap.size → b' ≠ r.win.buf → cell out.st b' k' = cell st b' k')

/-- **`WithReuse(r)` on the iterator path, whatever the aliasing between `r` and the second operand** (finding F10,
    repaired): `r` lies in another buffer than `b`, or it shares memory with `b` — in any way: it may *be* `b`, be the
    parent of `b`, overlap it partly. (The two cases are everything but "same buffer, disjoint windows", which the
    buffer-granular frame lemmas of `Proofs/Kernels.lean` do not separate.) Before the repair only the first case held:
    `storage.CopyIter` wrote `a` into `r` before `b` was read. -/
theorem reuse_iter : ReuseIterStmt (fun _ b r => r.win.buf ≠ b.win.buf ∨ sharesMemory b r = true) := by
  intro st op a b r hsh hdt hnum hk hia hma hmb hmr hr hnra hside hlr hlb hcr hca hor hoa hob hnd hA hB hR
  have hvals : ∀ {st' : St},
      (∀ (k : Nat) m i j, r.offsets[k]? = some m → a.offsets[k]? = some i → b.offsets[k]? = some j →
        cell st' r.win.buf (r.win.off + m.toNat) =
          some (.app2 op (cellD st a.win.buf (a.win.off + i.toNat)) (cellD st b.win.buf (b.win.off + j.toNat)))) →
      ∀ (k : Nat) m i j, r.offsets[k]? = some m → a.offsets[k]? = some i → b.offsets[k]? = some j →
        ∃ x y, cell st a.win.buf (a.win.off + i.toNat) = some x ∧ cell st b.win.buf (b.win.off + j.toNat) = some y ∧
          cell st' r.win.buf (r.win.off + m.toNat) = some (.app2 op x y) := by
    intro st' hv k m i j h1 h2 h3
    have hi := hoa i (List.mem_of_getElem? h2)
    have hj := hob j (List.mem_of_getElem? h3)
    exact ⟨_, _, cell_some_cellD (hA.has.at hi.1 hi.2), cell_some_cellD (hB.has.at hj.1 hj.2), hv k m i j h1 h2 h3⟩
  rcases hside with hnrb | hsb
  · obtain ⟨st', h, hm, hv, hfr⟩ := engArithVV_reuse_iter' st op numberTypes a b r (binOK a b hsh hdt hnum)
      (by simpa using hk) hia hma hmb hmr hr hnra hnrb hlr hlb hcr hca hor hoa hob hnd hA hB hR
    exact ⟨_, h, rfl, hm, hvals hv, fun b' k' _ hne => hfr b' k' hne⟩
  · obtain ⟨st', h, hm, hv, hfr⟩ := engArithVV_reuse_iter_alias' st op numberTypes a b r (binOK a b hsh hdt hnum)
      (by simpa using hk) hia hma hmb hmr hr hnra hsb hlr hlb hcr hca hor hoa hob hnd hA hB hR
    exact ⟨_, h, rfl, hm, hvals hv, hfr⟩

/-! ### the former witness: `reuse ≡ b` on the iterator path -/
namespace W
def st : St := { heap := #[#[.src 0 0, .src 0 1, .src 0 2, .src 0 3], #[.src 1 0, .src 1 1, .src 1 2, .src 1 3]] }
/-- a lazily transposed 2×2 tensor in buffer 0 -/
def a : Dense := { ap := { shape := [2, 2], strides := [1, 2] }, old := some { shape := [2, 2], strides := [2, 1] },
                   win := ⟨0, 0, 4, 4⟩, dt := "f64" }
/-- a contiguous 2×2 tensor in buffer 1; it is also passed as the reuse tensor -/
def b : Dense := { ap := { shape := [2, 2], strides := [2, 1] }, win := ⟨1, 0, 4, 4⟩, dt := "f64" }
end W

/-- Concrete run: `Add(aᵀ, b, WithReuse(b))`. Position 1 of the iterators is (reuse 1, a 2, b 1); the cell receives
    `add a[2] b[1]` (before the repair: `add a[2] a[2]` — the copy of `a` into the reuse tensor had destroyed `b`). -/
theorem reuse_alias_b_witness :
    ∃ out, engArithVV W.st "add" numberTypes W.a W.b { reuse := some W.b } = .ok out ∧
      cell out.st 1 1 = some (.app2 "add" (.src 0 2) (.src 1 1)) :=
  ⟨_, rfl, rfl⟩

/-- **The reuse tensor may be the second operand** (the shape of the former finding F10): `Op(a, b, WithReuse(b))` on the
    iterator path leaves `a[i] op b[j]` in `b`, computed from `b`'s elements before the call. -/
theorem reuse_alias_b (st : St) (op : String) (a b : Dense)
    (hsh : shapeEq a.shape b.shape = true) (hdt : a.dt = b.dt) (hnum : a.dt ∈ numberTypes) (hk : a.dt ∈ kernelTypes op)
    (hia : a.requiresIterator = true) (hma : a.mask = none) (hmb : b.mask = none)
    (hr : ReuseFits b a.shape a.dt a.ap.o.col) (hne : b.win.buf ≠ a.win.buf)
    (hlb : b.win.len ≠ 1) (hl0 : 0 < b.win.len) (hcb : b.win.len ≤ b.win.cap) (hca : a.win.len ≤ a.win.cap)
    (hob : ∀ j ∈ b.offsets, 0 ≤ j ∧ j < (b.win.len : Int)) (hoa : ∀ i ∈ a.offsets, 0 ≤ i ∧ i < (a.win.len : Int))
    (hnd : b.offsets.Nodup)
    (hA : InBuf st a.win.buf a.win.off a.win.len) (hB : InBuf st b.win.buf b.win.off b.win.len) :
    ∃ out, engArithVV st op numberTypes a b { reuse := some b } = .ok out ∧ out.ret = .reuse ∧
      (∀ (k : Nat) i j, a.offsets[k]? = some i → b.offsets[k]? = some j →
        ∃ x y, cell st a.win.buf (a.win.off + i.toNat) = some x ∧ cell st b.win.buf (b.win.off + j.toNat) = some y ∧
          cell out.st b.win.buf (b.win.off + j.toNat) = some (.app2 op x y)) := by
  have hself : sharesMemory b b = true := by
    simp only [sharesMemory, beq_self_eq_true, Bool.true_and, Bool.and_self, decide_eq_true_eq]
    omega
  obtain ⟨out, h, hret, _, hv, _⟩ := reuse_iter st op a b b hsh hdt hnum hk hia hma hmb hmb hr hne (Or.inr hself)
    hlb hlb hcb hca hob hoa hob hnd hA hB hB
  exact ⟨out, h, hret, fun k i j hi hj => hv k j i j hj hi hj⟩

/-! ## non-vacuity -/
namespace Ex
def st : St := { heap := #[#[.src 0 0, .src 0 1, .src 0 2, .src 0 3], #[.src 1 0, .src 1 1, .src 1 2, .src 1 3],
                           #[.src 2 0, .src 2 1, .src 2 2, .src 2 3]] }
def ta : Dense := { ap := { shape := [2, 2], strides := [2, 1] }, win := ⟨0, 0, 4, 4⟩, dt := "f64" }
def tb : Dense := { ap := { shape := [2, 2], strides := [2, 1] }, win := ⟨1, 0, 4, 4⟩, dt := "f64" }
def tr : Dense := { ap := { shape := [2, 2], strides := [2, 1] }, win := ⟨2, 0, 4, 4⟩, dt := "f64" }
def tT : Dense := { ap := { shape := [2, 2], strides := [1, 2] }, old := some { shape := [2, 2], strides := [2, 1] },
                    win := ⟨0, 0, 4, 4⟩, dt := "f64" }
theorem inA : InBuf st 0 0 4 := ⟨_, rfl, by decide⟩
theorem inB : InBuf st 1 0 4 := ⟨_, rfl, by decide⟩
theorem inR : InBuf st 2 0 4 := ⟨_, rfl, by decide⟩
theorem fits : ReuseFits tr ta.shape ta.dt ta.ap.o.col := ⟨rfl, by decide, by decide, rfl⟩

example := binOK ta tb (by decide) rfl (by decide)
example := safe_is_pure st "add" ta tb (by decide) rfl (by decide) (by decide) (by decide) (by decide) (by decide)
  rfl rfl (by decide) inA inB
example := safe_is_pure_iter st "add" tT tb (by decide) rfl (by decide) (by decide) (by decide) rfl rfl
  (by decide) (by decide) (by decide) (by decide) inA inB
example := unsafe_writes_only_a st "add" ta tb (by decide) rfl (by decide) (by decide) (by decide) (by decide)
  (by decide) (by decide) rfl (by decide) inA inB
example := unsafe_iter_writes_only_a st "add" tT tb (by decide) rfl (by decide) (by decide) (by decide) rfl rfl (by decide)
  (by decide) (by decide) (by decide) (by decide) (by decide) ⟨_, rfl, by decide⟩ ⟨_, rfl, by decide⟩
example := unsafe_iter_coordinatewise st "add" tT tb rfl rfl (by decide) (by decide) (by decide) rfl rfl (by decide) (by decide)
  (by decide) ⟨rfl, by decide, by decide, by decide⟩ (by
    have h := C13.T_distinct [1, 0] [2, 2] [2, 1] (by decide) rfl (C13.default_distinct [2, 2])
    simpa [gatherI, tT] using h)
  ⟨rfl, by decide, by decide, by decide⟩ (C13.default_distinct [2, 2]) ⟨_, rfl, by decide⟩ ⟨_, rfl, by decide⟩
example := minmax_unsafe_writes_only_a st "minb" ta tb (by decide) rfl (by decide) (by decide) (by decide) (by decide)
  (by decide) rfl (by decide) inA inB
/-- the former witness of F11 (`mmb minb fn $0 $1 unsafe`) runs: cell 0 of `a` holds `minb a[0] b[0]` -/
example : ∃ out, engMMVV st "minb" ta tb { unsafe_ := true } = .ok out ∧
    cell out.st 0 0 = some (.app2 "minb" (.src 0 0) (.src 1 0)) := ⟨_, rfl, rfl⟩
example := reuse_writes_only_reuse st "add" ta tb tr (by decide) rfl (by decide) (by decide) (by decide) (by decide)
  (by decide) (by decide) fits (by decide) (by decide) (by decide) (by decide) inA inB inR
example := incr_iter_writes_only_incr st "add" tT tb tr (by decide) rfl (by decide) (by decide) ⟨rfl, by decide, by decide, rfl⟩
  (by decide) rfl rfl rfl (by decide) (by decide) (by decide) (by decide) (by decide) (by decide) (by decide) (by decide)
  ⟨_, rfl, by decide⟩ ⟨_, rfl, by decide⟩ ⟨_, rfl, by decide⟩
example := incr_writes_only_incr st "add" ta tb tr (by decide) rfl (by decide) (by decide) (by decide) (by decide)
  (by decide) (by decide) fits (by decide) (by decide) (by decide) (by decide) (by decide) (by decide) inA inB inR
-- one-element operands (the witness shape of F32): the increment receives the sum, the operands stay
def st1 : St := { heap := #[#[.src 0 0], #[.src 1 0], #[.src 2 0]] }
def t1 (b : Nat) : Dense := { ap := { shape := [1], strides := [1] }, win := ⟨b, 0, 1, 1⟩, dt := "c128" }
example := incr_writes_only_incr_one st1 "add" (t1 0) (t1 1) (t1 2) (by decide) rfl (by decide) (by decide) (by decide)
  (by decide) ⟨rfl, by decide, by decide, rfl⟩ rfl rfl (fun _ => rfl) (fun _ => rfl) ⟨_, rfl, by decide⟩ ⟨_, rfl, by decide⟩
  ⟨_, rfl, by decide⟩
-- the increment is the second operand itself: it is read from a copy, `b += a + b`
example := incr_writes_only_incr_one st1 "add" (t1 0) (t1 1) (t1 1) (by decide) rfl (by decide) (by decide) (by decide)
  (by decide) ⟨rfl, by decide, by decide, rfl⟩ rfl rfl (fun _ => rfl) (fun _ => rfl) ⟨_, rfl, by decide⟩ ⟨_, rfl, by decide⟩
  ⟨_, rfl, by decide⟩
example : ∃ out, engArithVV st1 "add" numberTypes (t1 0) (t1 1) { incr := some (t1 1) } = .ok out ∧
    cell out.st 0 0 = some (.src 0 0) ∧ cell out.st 1 0 = some (.app2 "add" (.src 1 0) (.app2 "add" (.src 0 0) (.src 1 0))) :=
  ⟨_, rfl, rfl, rfl⟩
example : ∃ out, engArithVV st1 "add" numberTypes (t1 0) (t1 1) { incr := some (t1 2) } = .ok out ∧
    cell out.st 0 0 = some (.src 0 0) ∧ cell out.st 2 0 = some (.app2 "add" (.src 2 0) (.app2 "add" (.src 0 0) (.src 1 0))) :=
  ⟨_, rfl, rfl, rfl⟩
example := reuse_iter_model st "add" tT tb tr (by decide) rfl (by decide) (by decide) (by decide) rfl rfl rfl
  ⟨rfl, by decide, by decide, rfl⟩ (by decide) (by decide)
example := reuse_iter st "add" tT tb tr (by decide) rfl (by decide) (by decide) (by decide) rfl rfl rfl
  ⟨rfl, by decide, by decide, rfl⟩ (by decide) (Or.inl (by decide)) (by decide) (by decide) (by decide) (by decide)
  (by decide) (by decide) (by decide) (by decide) inA inB inR
-- the reuse tensor is the second operand (the former witness of F10)
example := reuse_iter st "add" tT tb tb (by decide) rfl (by decide) (by decide) (by decide) rfl rfl rfl
  ⟨rfl, by decide, by decide, rfl⟩ (by decide) (Or.inr (by decide)) (by decide) (by decide) (by decide) (by decide)
  (by decide) (by decide) (by decide) (by decide) inA inB inB
example := reuse_alias_b st "add" tT tb (by decide) rfl (by decide) (by decide) (by decide) rfl rfl
  ⟨rfl, by decide, by decide, rfl⟩ (by decide) (by decide) (by decide) (by decide) (by decide) (by decide) (by decide)
  (by decide) inA inB
end Ex

end TM.C07
