import TensorModel.Proto
/-! Program interpreter of the model (M): one step of the line protocol → new state + output fields. -/
namespace TM

structure PState where
  st : St := {}
  ds : Array Dense := #[]            -- dense objects by identity (pointer identity in Go)
  vars : Array (Option Nat) := #[]   -- program variable → object id (`none`: creation failed)
deriving Inhabited

inductive StepOut where
  | fields (s : String)              -- normal output line
  | stop (s : String)                -- output line, then stop the program (panic)

def PState.obj (ps : PState) (tok : String) : Option (Nat × Dense) := do
  let k ← parseVar tok
  let id ← (← ps.vars[k]?)
  let d ← ps.ds[id]?
  pure (id, d)

def PState.newVar (ps : PState) (d : Dense) : PState :=
  { ps with ds := ps.ds.push d, vars := ps.vars.push (some ps.ds.size) }
def PState.aliasVar (ps : PState) (id : Nat) : PState :=
  { ps with vars := ps.vars.push (some id) }
def PState.failVar (ps : PState) : PState := { ps with vars := ps.vars.push none }
def PState.setObj (ps : PState) (id : Nat) (d : Dense) : PState := { ps with ds := ps.ds.set! id d }

def atSweep (st : St) (t : Dense) : String :=
  let cs := allCoords t.shape
  if cs.length > 4096 then "big" else
  String.intercalate "," (cs.map (fun c => showRes (t.at_ st c) Val.toStr))

/-- C13 metadata invariant: one stride per axis, size = ∏ shape, all addresses distinct and inside
    the storage window. -/
def wfMeta (shape : Shape) (strides : List Int) (len : Int) : Bool :=
  let cs := allCoords shape
  if cs.length > 4096 then true else
  let addrs := cs.map (fun c => dot c strides)
  strides.length == shape.length && shape.all (· ≥ 0) &&
    addrs.all (fun a => 0 ≤ a && a < len) && addrs.eraseDups.length == addrs.length

def dumpFields (st : St) (t : Dense) : String :=
  let raw := showRes (t.rawCells st) showVals
  let mask := match t.mask with
    | none => "-"
    | some m => showRes ((rangeI m.len).mapM (fun i => st.mget m i)) showBools
  s!"shape={showInts t.shape} strides={showInts t.strides} o={t.ap.o.show} view={if t.view then 1 else 0} old={if t.old.isSome then 1 else 0} len={t.win.len} wf={if wfMeta t.shape t.strides t.win.len then 1 else 0} elems={atSweep st t} raw={raw} mask={mask}"

/-- outcome of an operation producing a new tensor variable -/
def finishNew (ps : PState) (r : Res (St × Dense)) : PState × StepOut :=
  match r with
  | .ok (st, d) => ({ ps with st := st }.newVar d, .fields "r=ok")
  | .error (.err _) => (ps.failVar, .fields "r=err")
  | .error (.panic _) => (ps.failVar, .stop "r=panic")

/-- outcome of an in-place operation on object `id` -/
def finishMut (ps : PState) (id : Nat) (r : Res (St × Dense)) : PState × StepOut :=
  match r with
  | .ok (st, d) => ({ ps with st := st }.setObj id d, .fields "r=ok")
  | .error (.err _) => (ps, .fields "r=err")
  | .error (.panic _) => (ps, .stop "r=panic")

def runIterScript (t : Dense) (script : String) : Res (String × List Int) := do
  let it0 := FlatIt.new t.ap
  let bound := (t.size.toNat + 3)
  let rec nexts (fuel : Nat) (it : FlatIt) (extra : Nat) (acc : List String) (offs : List Int) : FlatIt × List String × List Int :=
    match fuel with
    | 0 => (it, acc, offs)
    | fuel + 1 =>
      match it.next with
      | (it', some i) => nexts fuel it' extra (s!"{i}@{showInts it'.track}" :: acc) (i :: offs)
      | (it', none) => if extra == 0 then (it', acc, offs) else nexts fuel it' (extra - 1) ("E" :: acc) offs
  let (_, out, offs) ← script.toList.foldlM (fun (acc : FlatIt × List String × List Int) c => do
    let (it, out, offs) := acc
    match c with
    | 'n' => match it.next with
      | (it', some i) => pure (it', s!"{i}" :: out, offs)
      | (it', none) => pure (it', "E" :: out, offs)
    | 'N' => pure (nexts (bound + 3) it 2 out offs)
    | 'r' => pure ((← it.setReverse), out, offs)
    | 'f' => pure ((← it.setForward), out, offs)
    | 'x' => pure ((← it.reset), out, offs)
    | 'c' => pure (it, s!"c{showInts it.track}" :: out, offs)
    | 'd' => pure (it, (if it.done then "d1" else "d0") :: out, offs)
    | _ => pure (it, "?" :: out, offs)) (it0, [], [])
  pure (String.intercalate "|" out.reverse, offs.reverse)

def stepM (ps : PState) (stepIdx : Nat) (toks : List String) : PState × StepOut :=
  match toks with
  | ["new", dt, shape, order] =>
    match parseIntList shape with
    | none => (ps.failVar, .fields "r=badprog")
    | some sh =>
      let n := (totalSize sh).toNat
      let bid := ps.st.heap.size
      let cells : Array Val := (Array.range n).map (fun i => Val.src bid i)
      match order with
      | "C" => finishNew ps (Dense.newRow ps.st dt sh cells)
      | "Fraw" =>
        -- New(WithShape, WithBacking, AsFortran(nil)): column-major strides over the raw backing
        finishNew ps (do
          let (st, d) ← Dense.newRow ps.st dt sh cells
          pure (st, { d with ap := { d.ap with strides := calcStridesCol sh, o := { d.ap.o with col := true } } }))
      | "Fconv" =>
        -- New(WithShape, AsFortran(backing)): copy, lazy transpose, physical transpose, copy back
        finishNew ps (do
          let (st, d) ← Dense.newRow ps.st dt sh cells
          let (st, tmp) ← Dense.T st d []
          let (st, tmp) ← Dense.transpose st tmp
          pure (st, { d with ap := { shape := sh, strides := calcStridesCol sh, fin := true, o := { col := true } }, win := tmp.win }))
      | _ => (ps.failVar, .fields "r=badprog")
  | ["slice", v, spec] =>
    match ps.obj v, parseSlList spec with
    | some (_, t), some sls => finishNew ps ((t.slice sls).map (fun d => (ps.st, d)))
    | _, _ => (ps.failVar, .fields "r=skip")
  | ["T", v, axes] =>
    match ps.obj v, parseIntList axes with
    | some (id, t), some ax => finishMut ps id (Dense.T ps.st t ax)
    | _, _ => (ps, .fields "r=skip")
  | ["UT", v] =>
    match ps.obj v with
    | some (id, t) => finishMut ps id (.ok (ps.st, t.ut))
    | _ => (ps, .fields "r=skip")
  | ["transpose", v] =>
    match ps.obj v with
    | some (id, t) => finishMut ps id (Dense.transpose ps.st t)
    | _ => (ps, .fields "r=skip")
  | ["at", v, coords] =>
    match ps.obj v, parseIntList coords with
    | some (_, t), some c => (ps, match t.at_ ps.st c with
        | .ok x => .fields s!"r=ok v={x}"
        | .error (.err _) => .fields "r=err"
        | .error (.panic _) => .stop "r=panic")
    | _, _ => (ps, .fields "r=skip")
  | ["setat", v, coords] =>
    match ps.obj v, parseIntList coords with
    | some (_, t), some c => (match t.setAt ps.st c (.lit s!"w{stepIdx}") with
        | .ok st => ({ ps with st := st }, .fields "r=ok")
        | .error (.err _) => (ps, .fields "r=err")
        | .error (.panic _) => (ps, .stop "r=panic"))
    | _, _ => (ps, .fields "r=skip")
  | ["atbox", v, lo, hi] =>
    match ps.obj v, lo.toInt?, hi.toInt? with
    | some (_, t), some lo, some hi =>
      let axes := t.shape.map (fun d => (rangeI ((d + hi - lo + 1).toNat)).map (· + lo))
      let coords := axes.foldr (fun ax acc => ax.flatMap (fun i => acc.map (i :: ·))) [[]]
      (ps, .fields ("box=" ++ String.intercalate "," (coords.map (fun c => showRes (t.at_ ps.st c) Val.toStr))))
    | _, _, _ => (ps, .fields "r=skip")
  | ["clone", v] =>
    match ps.obj v with
    | some (_, t) => finishNew ps (Dense.clone ps.st t)
    | _ => (ps.failVar, .fields "r=skip")
  | ["shallow", v] =>
    match ps.obj v with
    | some (_, t) => finishNew ps (.ok (ps.st, t))
    | _ => (ps.failVar, .fields "r=skip")
  | ["mat", v] =>
    match ps.obj v with
    | some (id, t) =>
      (match Dense.materialize ps.st t with
      | .ok (st, some d) => ({ ps with st := st }.newVar d, .fields "r=ok")
      | .ok (_, none) => (ps.aliasVar id, .fields "r=ok")
      | .error (.err _) => (ps.failVar, .fields "r=err")
      | .error (.panic _) => (ps.failVar, .stop "r=panic"))
    | _ => (ps.failVar, .fields "r=skip")
  | ["safeT", v, axes] =>
    match ps.obj v, parseIntList axes with
    | some (_, t), some ax => finishNew ps (Dense.safeT ps.st t ax)
    | _, _ => (ps.failVar, .fields "r=skip")
  | ["roll", v, axis, start, safe] =>
    match ps.obj v, axis.toInt?, start.toInt? with
    | some (id, t), some axis, some start =>
      (match Dense.rollAxes t.dims axis start with
      | .error (.err _) => (ps.failVar, .fields "r=err")
      | .error (.panic _) => (ps.failVar, .stop "r=panic")
      | .ok none => (ps.aliasVar id, .fields "r=ok")
      | .ok (some axes) =>
        if safe == "1" then finishNew ps (Dense.safeT ps.st t axes)
        else match Dense.T ps.st t axes with
          | .ok (st, d) => (({ ps with st := st }.setObj id d).aliasVar id, .fields "r=ok")
          | .error (.err _) => (ps.failVar, .fields "r=err")
          | .error (.panic _) => (ps.failVar, .stop "r=panic"))
    | _, _, _ => (ps.failVar, .fields "r=skip")
  | ["memset", v] =>
    match ps.obj v with
    | some (_, t) => (match Dense.memset ps.st t (.lit s!"w{stepIdx}") with
        | .ok st => ({ ps with st := st }, .fields "r=ok")
        | .error (.err _) => (ps, .fields "r=err")
        | .error (.panic _) => (ps, .stop "r=panic"))
    | _ => (ps, .fields "r=skip")
  | ["zero", v] =>
    match ps.obj v with
    | some (_, t) => (match Dense.zero ps.st t with
        | .ok st => ({ ps with st := st }, .fields "r=ok")
        | .error (.err _) => (ps, .fields "r=err")
        | .error (.panic _) => (ps, .stop "r=panic"))
    | _ => (ps, .fields "r=skip")
  | ["copy", d, v] =>
    match ps.obj d, ps.obj v with
    | some (did, dst), some (_, src) => finishMut ps did (Dense.copy ps.st dst src)
    | _, _ => (ps, .fields "r=skip")
  | ["copyto", v, d] =>
    match ps.obj v, ps.obj d with
    | some (sid, src), some (did, dst) =>
      if sid == did then (ps, .fields "r=ok") else finishMut ps did (Dense.copyTo ps.st src dst)
    | _, _ => (ps, .fields "r=skip")
  | ["reshape", v, dims] =>
    match ps.obj v, parseIntList dims with
    | some (id, t), some dims =>
      (match Dense.reshape ps.st t dims with
      | .ok (.ok st d) => ({ ps with st := st }.setObj id d, .fields "r=ok")
      | .ok (.errKept _) => (ps, .fields "r=err")
      | .ok (.errMutated st d) => ({ ps with st := st }.setObj id d, .fields "r=err")
      | .error (.err _) => (ps, .fields "r=err")
      | .error (.panic _) => (ps, .stop "r=panic"))
    | _, _ => (ps, .fields "r=skip")
  | ["calcS", v, spec] =>
    match ps.obj v, parseSlList spec with
    | some (_, t), some sls => (ps, match shapeS t.shape sls with
        | .ok sh => .fields s!"r=ok shape={showInts sh}"
        | .error (.err _) => .fields "r=err"
        | .error (.panic _) => .stop "r=panic")
    | _, _ => (ps, .fields "r=skip")
  | ["calcT", v, axes] =>
    match ps.obj v, parseIntList axes with
    | some (_, t), some ax => (ps, match t.ap.T ax with
        | .ok (.ok ap _) => .fields s!"r=ok shape={showInts ap.shape}"
        | .ok (.noop ap _) => .fields s!"r=ok shape={showInts ap.shape}"
        | .error (.err _) => .fields "r=err"
        | .error (.panic _) => .stop "r=panic")
    | _, _ => (ps, .fields "r=skip")
  | ["iter", v, script] =>
    match ps.obj v with
    | some (_, t) => (ps, match runIterScript t script with
        | .ok (q, offs) =>
          let cells := offs.map (fun i => match ps.st.get t.win i with | .ok v => v.toStr | .error _ => "oob")
          .fields s!"seq={q} cells={if cells.isEmpty then "-" else String.intercalate "," cells}"
        | .error (.err _) => .fields "r=err"
        | .error (.panic _) => .stop "r=panic")
    | _ => (ps, .fields "r=skip")
  | ["dump", v] =>
    match ps.obj v with
    | some (_, t) => (ps, .fields (dumpFields ps.st t))
    | _ => (ps, .fields "r=skip")
  | _ => (ps, .fields "r=badprog")

end TM
