module gol

go 1.13
