// gox: a deliberately dumb Go -> Lean dumper for the generated per-type kernels and
// dispatchers of gorgonia/tensor (internal/execution). It makes NO semantic decision:
// every FuncDecl is printed as a MiniGo term (see lean/TensorModel/MiniGo.lean) after
// three purely syntactic canonicalisations (alpha-renaming, element-type abstraction,
// de-duplication). Anything outside the MiniGo subset becomes an `opaque` node.
package main

import (
	"bytes"
	"flag"
	"fmt"
	"go/ast"
	"go/parser"
	"go/printer"
	"go/token"
	"os"
	"path/filepath"
	"strings"
)

var kernelFiles = []string{"generic_arith_vv.go", "generic_arith_mixed.go", "generic_cmp_vv.go",
	"generic_cmp_mixed.go", "generic_unary.go", "generic_minmax.go", "generic_map.go",
	"generic_reduce.go", "generic_argmethods.go", "generic_arith.go"}

var dispatchFiles = []string{"eng_arith.go", "eng_arith_manual.go", "eng_cmp.go", "eng_unary.go",
	"eng_minmaxbetween.go", "eng_map.go", "eng_reduce.go", "eng_argmethods.go"}

// One element type: name suffix of kernels, Go type, reflect-type case name, accessor method.
type tyInfo struct{ suffix, goType, caseName, accessor string }

var tys = []tyInfo{
	{"I", "int", "Int", "Ints"}, {"I8", "int8", "Int8", "Int8s"}, {"I16", "int16", "Int16", "Int16s"},
	{"I32", "int32", "Int32", "Int32s"}, {"I64", "int64", "Int64", "Int64s"},
	{"U", "uint", "Uint", "Uints"}, {"U8", "uint8", "Uint8", "Uint8s"}, {"U16", "uint16", "Uint16", "Uint16s"},
	{"U32", "uint32", "Uint32", "Uint32s"}, {"U64", "uint64", "Uint64", "Uint64s"},
	{"F32", "float32", "Float32", "Float32s"}, {"F64", "float64", "Float64", "Float64s"},
	{"C64", "complex64", "Complex64", "Complex64s"}, {"C128", "complex128", "Complex128", "Complex128s"},
	{"Str", "string", "String", "Strings"}, {"B", "bool", "Bool", "Bools"},
	{"Uintptr", "uintptr", "Uintptr", "Uintptrs"},
	{"UnsafePointer", "unsafe.Pointer", "UnsafePointer", "UnsafePointers"},
}

var basicTypes = map[string]bool{"bool": true, "int": true, "int8": true, "int16": true, "int32": true,
	"int64": true, "uint": true, "uint8": true, "uint16": true, "uint32": true, "uint64": true,
	"uintptr": true, "float32": true, "float64": true, "complex64": true, "complex128": true,
	"string": true, "byte": true, "rune": true}

// splitName("VecAddI16") = ("VecAdd", tyInfo{I16}); longest suffix wins; nil if untyped.
func splitName(name string) (string, *tyInfo) {
	var best *tyInfo
	for i := range tys {
		s := tys[i].suffix
		if strings.HasSuffix(name, s) && len(name) > len(s) && (best == nil || len(s) > len(best.suffix)) {
			best = &tys[i]
		}
	}
	if best == nil {
		return name, nil
	}
	return name[:len(name)-len(best.suffix)], best
}

func tyByCase(name string) *tyInfo {
	for i := range tys {
		if tys[i].caseName == name {
			return &tys[i]
		}
	}
	return nil
}

// ---------------------------------------------------------------------------------------
// translator state

type tr struct {
	fset    *token.FileSet
	ty      *tyInfo // element type being abstracted (nil: none)
	scopes  []map[string]string
	nLocal  int
	nOpaque int
}

func (t *tr) push()                   { t.scopes = append(t.scopes, map[string]string{}) }
func (t *tr) pop()                    { t.scopes = t.scopes[:len(t.scopes)-1] }
func (t *tr) bind(name, canon string) { t.scopes[len(t.scopes)-1][name] = canon }

// declare a local in the innermost scope (re-using the binding if it is already there,
// as `:=` does); "_" is never bound.
func (t *tr) declare(name string) string {
	if name == "_" {
		return "_"
	}
	if c, ok := t.scopes[len(t.scopes)-1][name]; ok {
		return c
	}
	c := fmt.Sprintf("v%d", t.nLocal)
	t.nLocal++
	t.bind(name, c)
	return c
}

func (t *tr) lookup(name string) (string, bool) {
	for i := len(t.scopes) - 1; i >= 0; i-- {
		if c, ok := t.scopes[i][name]; ok {
			return c, true
		}
	}
	return "", false
}

// a copy of the translator with the same bindings (used per dispatch arm)
func (t *tr) fork(ty *tyInfo) *tr {
	n := &tr{fset: t.fset, ty: ty, nLocal: t.nLocal}
	for _, s := range t.scopes {
		c := map[string]string{}
		for k, v := range s {
			c[k] = v
		}
		n.scopes = append(n.scopes, c)
	}
	return n
}

// name of an identifier occurrence: canonical local, or global with type abstraction.
func (t *tr) name(id string) string {
	if c, ok := t.lookup(id); ok {
		return c
	}
	if t.ty != nil {
		if id == t.ty.goType {
			return "$T"
		}
		if s := t.ty.suffix; strings.HasSuffix(id, s) && len(id) > len(s) {
			return id[:len(id)-len(s)] + "$S"
		}
	}
	return id
}

func q(s string) string { // Lean string literal
	var b strings.Builder
	b.WriteByte('"')
	for _, r := range s {
		switch {
		case r == '"':
			b.WriteString("\\\"")
		case r == '\\':
			b.WriteString("\\\\")
		case r == '\n':
			b.WriteString("\\n")
		case r == '\t':
			b.WriteString("\\t")
		case r < 32 || r > 126:
			fmt.Fprintf(&b, "\\u{%x}", r)
		default:
			b.WriteRune(r)
		}
	}
	b.WriteByte('"')
	return b.String()
}

func (t *tr) src(n ast.Node) string {
	var b bytes.Buffer
	printer.Fprint(&b, t.fset, n)
	return strings.Join(strings.Fields(b.String()), " ")
}

func (t *tr) opaqueE(n ast.Node) string { t.nOpaque++; return "(Expr.opaque " + q(t.src(n)) + ")" }
func (t *tr) opaqueS(n ast.Node) string { t.nOpaque++; return "(Stmt.opaque " + q(t.src(n)) + ")" }

func elist(xs []string) string { return "e[" + strings.Join(xs, ", ") + "]" }
func slist(xs []string) string { return "s[" + strings.Join(xs, ", ") + "]" }

// ---------------------------------------------------------------------------------------
// expressions and types

func (t *tr) exprs(xs []ast.Expr) string {
	var out []string
	for _, x := range xs {
		out = append(out, t.expr(x))
	}
	return elist(out)
}

func (t *tr) isUnsafePtr(x ast.Expr) bool {
	s, ok := x.(*ast.SelectorExpr)
	if !ok {
		return false
	}
	id, ok := s.X.(*ast.Ident)
	_, local := t.lookup("unsafe")
	return ok && id.Name == "unsafe" && s.Sel.Name == "Pointer" && !local
}

// dotted callee name: ident or ident.Sel...; "" if the callee has another shape.
func (t *tr) callee(x ast.Expr) string {
	switch x := x.(type) {
	case *ast.Ident:
		return t.name(x.Name)
	case *ast.SelectorExpr:
		if p := t.callee(x.X); p != "" {
			return p + "." + t.selName(x.Sel.Name)
		}
	case *ast.ParenExpr:
		return t.callee(x.X)
	}
	return ""
}

func (t *tr) selName(s string) string {
	if t.ty != nil && s == t.ty.accessor {
		return "$acc"
	}
	return s
}

func (t *tr) isTypeExpr(x ast.Expr) bool {
	switch x := x.(type) {
	case *ast.Ident:
		_, local := t.lookup(x.Name)
		return !local && basicTypes[x.Name]
	case *ast.ArrayType, *ast.FuncType, *ast.InterfaceType, *ast.MapType, *ast.ChanType, *ast.StructType:
		return true
	case *ast.ParenExpr:
		return t.isTypeExpr(x.X)
	case *ast.StarExpr:
		return t.isTypeExpr(x.X)
	}
	return t.isUnsafePtr(x)
}

func (t *tr) fieldTypes(fl *ast.FieldList) string {
	var out []string
	if fl != nil {
		for _, f := range fl.List {
			n := len(f.Names)
			if n == 0 {
				n = 1
			}
			for i := 0; i < n; i++ {
				out = append(out, t.expr(f.Type))
			}
		}
	}
	return elist(out)
}

func (t *tr) optExpr(x ast.Expr) string {
	if x == nil {
		return "Expr.absent"
	}
	return t.expr(x)
}

// ap("f", a, b) = "(f a b)"
func ap(ctor string, args ...string) string { return "(" + ctor + " " + strings.Join(args, " ") + ")" }
func ident(name string) string              { return ap("ident", q(name)) }

func (t *tr) expr(x ast.Expr) string {
	switch x := x.(type) {
	case *ast.Ident:
		return ident(t.name(x.Name))
	case *ast.BasicLit:
		return ap("lit", q(x.Value))
	case *ast.ParenExpr:
		return t.expr(x.X)
	case *ast.IndexExpr:
		return ap("idx", t.expr(x.X), t.expr(x.Index))
	case *ast.SliceExpr:
		if !x.Slice3 {
			return ap("slc", t.expr(x.X), t.optExpr(x.Low), t.optExpr(x.High))
		}
	case *ast.UnaryExpr:
		return ap("un", q(x.Op.String()), t.expr(x.X))
	case *ast.BinaryExpr:
		return ap("bin", q(x.Op.String()), t.expr(x.X), t.expr(x.Y))
	case *ast.StarExpr:
		return ap("star", t.expr(x.X))
	case *ast.SelectorExpr:
		if t.ty != nil && t.ty.goType == "unsafe.Pointer" && t.isUnsafePtr(x) {
			return ident("$T")
		}
		return ap("sel", t.expr(x.X), q(t.selName(x.Sel.Name)))
	case *ast.CallExpr:
		if len(x.Args) == 1 && !x.Ellipsis.IsValid() && t.isTypeExpr(x.Fun) {
			return ap("conv", t.expr(x.Fun), t.expr(x.Args[0]))
		}
		if fn := t.callee(x.Fun); fn != "" && x.Ellipsis.IsValid() {
			return ap("callv", q(fn), t.exprs(x.Args))
		} else if fn != "" {
			return ap("call", q(fn), t.exprs(x.Args))
		}
	case *ast.TypeAssertExpr:
		if x.Type != nil {
			return ap("assert", t.expr(x.X), t.expr(x.Type))
		}
	case *ast.CompositeLit:
		if x.Type != nil {
			return ap("comp", t.expr(x.Type), t.exprs(x.Elts))
		}
	case *ast.KeyValueExpr:
		return ap("kv", t.expr(x.Key), t.expr(x.Value))
	case *ast.ArrayType:
		if x.Len == nil {
			return ap("sliceTy", t.expr(x.Elt))
		}
	case *ast.Ellipsis:
		if x.Elt != nil {
			return ap("variadicTy", t.expr(x.Elt))
		}
	case *ast.FuncType:
		return ap("funcTy", t.fieldTypes(x.Params), t.fieldTypes(x.Results))
	case *ast.InterfaceType:
		if x.Methods == nil || len(x.Methods.List) == 0 {
			return ident("interface{}")
		}
	}
	return t.opaqueE(x)
}

// ---------------------------------------------------------------------------------------
// statements

func (t *tr) block(b *ast.BlockStmt) string {
	t.push()
	defer t.pop()
	return t.stmts(b.List)
}

func (t *tr) stmts(xs []ast.Stmt) string {
	var out []string
	for _, x := range xs {
		out = append(out, t.stmt(x)...)
	}
	return slist(out)
}

func (t *tr) optStmt(x ast.Stmt) string {
	if x == nil {
		return "skip"
	}
	if r := t.stmt(x); len(r) == 1 {
		return r[0]
	}
	return t.opaqueS(x)
}

// declares the identifiers of a `:=` / `var` / `range` left-hand side
func (t *tr) declared(xs []ast.Expr) (string, bool) {
	var out []string
	for _, x := range xs {
		id, ok := x.(*ast.Ident)
		if !ok {
			return "", false
		}
		out = append(out, ident(t.declare(id.Name)))
	}
	return elist(out), true
}

func (t *tr) stmt(x ast.Stmt) []string {
	one := func(s string) []string { return []string{s} }
	switch x := x.(type) {
	case *ast.EmptyStmt:
		return nil
	case *ast.ExprStmt:
		return one(ap("expr", t.expr(x.X)))
	case *ast.IncDecStmt:
		return one(ap("incdec", t.expr(x.X), q(x.Tok.String())))
	case *ast.AssignStmt:
		rhs, ok := t.exprs(x.Rhs), true // before the left-hand side is declared
		lhs := ""
		if x.Tok == token.DEFINE {
			lhs, ok = t.declared(x.Lhs)
		} else {
			lhs = t.exprs(x.Lhs)
		}
		if ok {
			return one(ap("asg", lhs, q(x.Tok.String()), rhs))
		}
	case *ast.DeclStmt:
		gd, ok := x.Decl.(*ast.GenDecl)
		if !ok || gd.Tok != token.VAR {
			break
		}
		var out []string
		for _, sp := range gd.Specs {
			vs := sp.(*ast.ValueSpec)
			vals, ty := t.exprs(vs.Values), t.optExpr(vs.Type)
			var names []ast.Expr
			for _, n := range vs.Names {
				names = append(names, n)
			}
			lhs, _ := t.declared(names)
			out = append(out, ap("var", lhs, ty, vals))
		}
		return out
	case *ast.ReturnStmt:
		return one(ap("ret", t.exprs(x.Results)))
	case *ast.BranchStmt:
		if x.Label == nil && x.Tok == token.BREAK {
			return one("brk")
		}
		if x.Label == nil && x.Tok == token.CONTINUE {
			return one("cont")
		}
	case *ast.BlockStmt:
		return one(ap("block", t.block(x)))
	case *ast.IfStmt:
		t.push()
		defer t.pop()
		init, cond, thn, els := t.optStmt(x.Init), t.expr(x.Cond), t.block(x.Body), "s[]"
		switch e := x.Else.(type) {
		case *ast.BlockStmt:
			els = t.block(e)
		case *ast.IfStmt:
			els = slist(t.stmt(e))
		}
		return one(ap("ifs", init, cond, thn, els))
	case *ast.ForStmt:
		t.push()
		defer t.pop()
		init, cond, post := t.optStmt(x.Init), t.optExpr(x.Cond), t.optStmt(x.Post)
		return one(ap("for_", init, cond, post, t.block(x.Body)))
	case *ast.RangeStmt:
		rng := t.expr(x.X)
		t.push()
		defer t.pop()
		kv := [2]string{"Expr.absent", "Expr.absent"}
		for i, e := range []ast.Expr{x.Key, x.Value} {
			if id, ok := e.(*ast.Ident); ok && x.Tok == token.DEFINE {
				kv[i] = ident(t.declare(id.Name))
			} else if e != nil {
				kv[i] = t.expr(e)
			}
		}
		return one(ap("range", kv[0], kv[1], q(x.Tok.String()), rng, t.block(x.Body)))
	case *ast.SwitchStmt:
		t.push()
		defer t.pop()
		init := t.optStmt(x.Init)
		return one(ap("switch", init, t.optExpr(x.Tag), t.clauses(x.Body)))
	case *ast.TypeSwitchStmt:
		t.push()
		defer t.pop()
		var bind *ast.Ident
		var subj ast.Expr
		switch a := x.Assign.(type) {
		case *ast.ExprStmt:
			subj = a.X
		case *ast.AssignStmt:
			if len(a.Lhs) == 1 && len(a.Rhs) == 1 {
				bind, _ = a.Lhs[0].(*ast.Ident)
				subj = a.Rhs[0]
			}
		}
		ta, ok := subj.(*ast.TypeAssertExpr)
		if x.Init != nil || !ok || ta.Type != nil {
			break
		}
		s, b := t.expr(ta.X), "Expr.absent"
		if bind != nil {
			b = ident(t.declare(bind.Name))
		}
		return one(ap("tswitch", b, s, t.clauses(x.Body)))
	}
	return one(t.opaqueS(x))
}

func (t *tr) clauses(b *ast.BlockStmt) string {
	var out []string
	for _, c := range b.List {
		if cc, ok := c.(*ast.CaseClause); ok {
			out = append(out, t.clause(cc))
		} else {
			out = append(out, t.opaqueS(c))
		}
	}
	return slist(out)
}

func (t *tr) clause(cc *ast.CaseClause) string {
	t.push()
	defer t.pop()
	if cc.List == nil {
		return ap("dflt", t.stmts(cc.Body))
	}
	return ap("case", t.exprs(cc.List), t.stmts(cc.Body))
}

// ---------------------------------------------------------------------------------------
// functions

// binds receiver / parameters / named results and returns the (params, results) type lists
func (t *tr) signature(fd *ast.FuncDecl) (string, string) {
	t.push()
	var ps []string
	do := func(fl *ast.FieldList, pre string, out *[]string) {
		if fl == nil {
			return
		}
		k := 0
		for _, f := range fl.List {
			ty := t.expr(f.Type)
			if len(f.Names) == 0 {
				*out = append(*out, ty)
				k++
			}
			for _, n := range f.Names {
				if n.Name != "_" {
					t.bind(n.Name, fmt.Sprintf("%s%d", pre, k))
				}
				*out = append(*out, ty)
				k++
			}
		}
	}
	do(fd.Recv, "rcv", &ps)
	var qs, rs []string
	do(fd.Type.Params, "p", &qs)
	do(fd.Type.Results, "r", &rs)
	return elist(append(ps, qs...)), elist(rs)
}

func (t *tr) fn(fd *ast.FuncDecl) string {
	ps, rs := t.signature(fd)
	if fd.Body == nil {
		return "⟨" + ps + ", " + rs + ", s[" + t.opaqueS(fd) + "]⟩"
	}
	return "⟨" + ps + ", " + rs + ", " + t.block(fd.Body) + "⟩"
}

// ---------------------------------------------------------------------------------------
// tables

type table struct { // de-duplicated bodies
	prefix string
	index  map[string]int
	defs   []string
}

func (tb *table) add(s string) int {
	if tb.index == nil {
		tb.index = map[string]int{}
	}
	if i, ok := tb.index[s]; ok {
		return i
	}
	tb.index[s] = len(tb.defs)
	tb.defs = append(tb.defs, s)
	return len(tb.defs) - 1
}

func (tb *table) emit(b *strings.Builder, typ string) {
	var names []string
	for i, d := range tb.defs {
		fmt.Fprintf(b, "def %s_%d : %s := %s\n", tb.prefix, i, typ, d)
		names = append(names, fmt.Sprintf("%s_%d", tb.prefix, i))
	}
	fmt.Fprintf(b, "\ndef %ss : List %s := [%s]\n\n", tb.prefix, typ, strings.Join(names, ", "))
}

const chunk = 250

// rows grouped by a key (kernel family base name / dispatcher method), first-occurrence order
type groups struct {
	order   []string
	heads   map[string]string
	members map[string][]string
	n       int
}

func (g *groups) add(key, head, member string) {
	if g.heads == nil {
		g.heads, g.members = map[string]string{}, map[string][]string{}
	}
	if _, ok := g.heads[key]; !ok {
		g.order = append(g.order, key)
		g.heads[key] = head
	}
	if member != "" {
		g.members[key] = append(g.members[key], member)
		g.n++
	}
}

// one def per group, then chunk lists holding at most `chunk` members each
func (g *groups) emit(b *strings.Builder, name, typ string) int {
	var parts, cur []string
	size := 0
	flush := func() {
		if len(cur) > 0 {
			fmt.Fprintf(b, "def %ss_%d : List %s := [%s]\n", name, len(parts), typ, strings.Join(cur, ", "))
			parts = append(parts, fmt.Sprintf("%ss_%d", name, len(parts)))
			cur, size = nil, 0
		}
	}
	for i, k := range g.order {
		fmt.Fprintf(b, "def %s_%d : %s := ⟨%s, [%s]⟩\n", name, i, typ, g.heads[k], strings.Join(g.members[k], ", "))
	}
	b.WriteString("\n")
	for i, k := range g.order {
		if size > 0 && size+len(g.members[k]) > chunk {
			flush()
		}
		cur = append(cur, fmt.Sprintf("%s_%d", name, i))
		size += len(g.members[k])
	}
	flush()
	fmt.Fprintf(b, "\ndef %ssChunks : List (List %s) := [%s]\n\n", name, typ, strings.Join(parts, ", "))
	return len(parts)
}

const header = "-- GENERATED by tools/gox from %s. DO NOT EDIT.\nimport TensorModel.MiniGo\nset_option maxRecDepth 100000\nnamespace TM.Generated\nopen TM.MiniGo Expr Stmt\n\n"

func writeIfChanged(path, content string) {
	if old, err := os.ReadFile(path); err == nil && string(old) == content {
		return
	}
	if err := os.WriteFile(path, []byte(content), 0o644); err != nil {
		fatal(err)
	}
}

func fatal(err error) { fmt.Fprintln(os.Stderr, "gox:", err); os.Exit(2) }

func parse(fset *token.FileSet, dir, name string) *ast.File {
	f, err := parser.ParseFile(fset, filepath.Join(dir, name), nil, parser.SkipObjectResolution)
	if err != nil {
		fatal(err)
	}
	return f
}

// the top-level `switch <tag> { case T: ... }` of a dispatcher (index in body, or -1)
func typeSwitchIndex(fd *ast.FuncDecl) int {
	if fd.Body == nil {
		return -1
	}
	for i, s := range fd.Body.List {
		if sw, ok := s.(*ast.SwitchStmt); ok && sw.Tag != nil && sw.Init == nil {
			return i
		}
	}
	return -1
}

func main() {
	repo := flag.String("repo", "/repo", "directory containing internal/execution")
	out := flag.String("out", "", "output directory for the generated Lean files")
	flag.Parse()
	if *out == "" {
		fatal(fmt.Errorf("-out is required"))
	}
	dir := filepath.Join(*repo, "internal", "execution")
	if err := os.MkdirAll(*out, 0o755); err != nil {
		fatal(err)
	}
	fset := token.NewFileSet()
	opaque := 0

	// ---- kernels
	kb := &table{prefix: "kbody"}
	kf := &groups{}
	for _, name := range kernelFiles {
		for _, d := range parse(fset, dir, name).Decls {
			fd, ok := d.(*ast.FuncDecl)
			if !ok {
				continue
			}
			base, ty := splitName(fd.Name.Name)
			t := &tr{fset: fset, ty: ty}
			body := t.fn(fd)
			opaque += t.nOpaque
			tag := ""
			if ty != nil {
				tag = ty.suffix
			}
			kf.add(base, q(base), fmt.Sprintf("(%s, kbody_%d)", q(tag), kb.add(body)))
		}
	}
	var b strings.Builder
	fmt.Fprintf(&b, header, strings.Join(kernelFiles, ", "))
	kb.emit(&b, "Fn")
	kchunks := kf.emit(&b, "kfam", "KFam")
	b.WriteString("end TM.Generated\n")
	writeIfChanged(filepath.Join(*out, "Kernels.lean"), b.String())

	// ---- dispatchers
	fb := &table{prefix: "dframe"} // method frame: prelude, switch with its default arm only, epilogue
	ab := &table{prefix: "darm"}   // abstracted arm bodies
	df := &groups{}
	for _, name := range dispatchFiles {
		for _, d := range parse(fset, dir, name).Decls {
			fd, ok := d.(*ast.FuncDecl)
			if !ok {
				continue
			}
			t := &tr{fset: fset}
			ps, rs := t.signature(fd)
			k := typeSwitchIndex(fd)
			if k < 0 { // no type switch: the whole function is the frame, no arms
				body := "s[" + t.opaqueS(fd) + "]"
				if fd.Body != nil {
					body = t.block(fd.Body)
				}
				df.add(fd.Name.Name, fmt.Sprintf("%s, dframe_%d", q(fd.Name.Name), fb.add("⟨"+ps+", "+rs+", "+body+"⟩")), "")
				opaque += t.nOpaque
				continue
			}
			t.push()
			var frame []string
			for _, s := range fd.Body.List[:k] {
				frame = append(frame, t.stmt(s)...)
			}
			sw := fd.Body.List[k].(*ast.SwitchStmt)
			var dflt, arms []string
			for _, c := range sw.Body.List {
				cc := c.(*ast.CaseClause)
				if cc.List == nil {
					dflt = append(dflt, t.fork(nil).clause(cc))
					continue
				}
				var ty *tyInfo
				caseName := t.src(cc.List[0])
				if id, ok := cc.List[0].(*ast.Ident); ok && len(cc.List) == 1 {
					ty = tyByCase(id.Name)
				} else {
					for _, e := range cc.List[1:] {
						caseName += "," + t.src(e)
					}
				}
				a := t.fork(ty)
				a.push()
				arm := a.stmts(cc.Body)
				opaque += a.nOpaque
				arms = append(arms, fmt.Sprintf("(%s, darm_%d)", q(caseName), ab.add(arm)))
			}
			frame = append(frame, "(switch skip "+t.expr(sw.Tag)+" "+slist(dflt)+")")
			for _, s := range fd.Body.List[k+1:] {
				frame = append(frame, t.stmt(s)...)
			}
			opaque += t.nOpaque
			df.add(fd.Name.Name, fmt.Sprintf("%s, dframe_%d", q(fd.Name.Name), fb.add("⟨"+ps+", "+rs+", "+slist(frame)+"⟩")), "")
			for _, a := range arms {
				df.add(fd.Name.Name, "", a)
			}
		}
	}
	b.Reset()
	fmt.Fprintf(&b, header, strings.Join(dispatchFiles, ", "))
	fb.emit(&b, "Fn")
	ab.emit(&b, "Stmts")
	achunks := df.emit(&b, "dmeth", "DMethod")
	b.WriteString("end TM.Generated\n")
	writeIfChanged(filepath.Join(*out, "Dispatch.lean"), b.String())

	summary := fmt.Sprintf("{\n  \"kernel_functions\": %d,\n  \"distinct_kernel_bodies\": %d,\n  \"kernel_chunks\": %d,\n"+
		"  \"dispatch_methods\": %d,\n  \"distinct_method_frames\": %d,\n  \"dispatch_arms\": %d,\n  \"distinct_arm_bodies\": %d,\n"+
		"  \"arm_chunks\": %d,\n  \"opaque_nodes\": %d\n}\n",
		kf.n, len(kb.defs), kchunks, len(df.order), len(fb.defs), df.n, len(ab.defs), achunks, opaque)
	writeIfChanged(filepath.Join(*out, "summary.json"), summary)
	fmt.Print(summary)
}
