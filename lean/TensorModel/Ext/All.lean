import TensorModel.Ext.Hooks
/-! Registry of operation families (one import + one list entry per family). -/
namespace TM

def families : List Family := []

end TM
