package main

// C08 — program generator for the reductions Sum / Max / Min (functions and methods), Argmax /
// Argmin and the generic (*Dense).Reduce.
//
// Domain: element types (all accepted ones + the refused ones) x shapes of rank 1-4 (vector-like
// shapes, length-one axes, rank-4 shapes whose middle axes have extent 1, 2, 3 and 4: the default
// kernel's walk, finding F40) x every non-empty subset of axes in ascending and in shuffled order
// plus "no axes" (= all) x operand layouts {contiguous, lazily transposed, offset slice, stepped
// slice, materialised} (+ column-major, contiguous leading-axis view, clone of a stepped view at low
// volume) x value sets {0 distinct, 1 special: overflow / extremes / NaN / Inf, 2 small positive,
// 3 ties and negatives}. Every program dumps the result, the operand and the first tensor built.

import (
	"fmt"
	"strings"
)

var redShapes = [][]int{
	{3}, {1}, {4}, {2},
	{2, 3}, {3, 2}, {1, 3}, {3, 1}, {4, 4}, {1, 1},
	{2, 3, 2}, {3, 2, 4}, {2, 1, 3}, {1, 3, 3}, {3, 4, 1},
	{2, 2, 3, 4}, {2, 3, 3, 2}, {3, 2, 1, 2}, {2, 2, 2, 2}, {1, 2, 3, 2}, {2, 3, 4, 1}, {2, 1, 3, 2}, {2, 3, 2, 2}, {2, 2, 4, 3},
}

// subsets returns every non-empty subset of {0..n-1} (ascending).
func subsets(n int) [][]int {
	var out [][]int
	for m := 1; m < 1<<uint(n); m++ {
		var s []int
		for i := 0; i < n; i++ {
			if m&(1<<uint(i)) != 0 {
				s = append(s, i)
			}
		}
		out = append(out, s)
	}
	return out
}

func (g *gen) shuffled(a []int) []int {
	b := append([]int{}, a...)
	for i := len(b) - 1; i > 0; i-- {
		j := g.r.intn(i + 1)
		b[i], b[j] = b[j], b[i]
	}
	return b
}

var redLayouts = []string{"contig", "lazyT", "sliced", "stepped", "mat"}

func isFloatish(dt string) bool { return strings.HasPrefix(dt, "f") || strings.HasPrefix(dt, "c") }

// redOperand builds the operand (incl. the extra layout classes of this family).
func (g *gen) redOperand(steps *[]string, nv *int, dt string, sh []int, layout string) int {
	switch layout {
	case "leadview":
		// contiguous view: slice of the leading axis only
		if len(sh) == 0 || size(sh) == 1 {
			break
		}
		big := append([]int{sh[0] + 2}, sh[1:]...)
		*steps = append(*steps, fmt.Sprintf("new %s %s C", dt, ints(big)))
		p := *nv
		*nv++
		*steps = append(*steps, fmt.Sprintf("slice $%d 1:%d", p, sh[0]+1))
		v := *nv
		*nv++
		return v
	case "cloneview":
		v := g.operand(steps, nv, dt, sh, "stepped")
		*steps = append(*steps, fmt.Sprintf("clone $%d", v))
		c := *nv
		*nv++
		return c
	case "fconv":
		*steps = append(*steps, fmt.Sprintf("new %s %s Fconv", dt, ints(sh)))
		v := *nv
		*nv++
		return v
	}
	if layout == "leadview" || layout == "cloneview" {
		layout = "contig"
	}
	return g.operand(steps, nv, dt, sh, layout)
}

func (g *gen) redVset(dt string) int {
	switch g.r.intn(6) {
	case 0, 1:
		return 1
	case 2:
		return 0
	case 3:
		return 2
	}
	return 3
}

// redProgram: one Sum/Max/Min program.
func (g *gen) redProgram(op, via, dt string, sh []int, along []int, layout string, vs int) {
	var steps []string
	nv := 0
	steps = append(steps, fmt.Sprintf("vset=%d", vs))
	a := g.redOperand(&steps, &nv, dt, sh, layout)
	steps = append(steps, fmt.Sprintf("red %s %s $%d %s vs=%d", op, via, a, ints(along), vs))
	res := nv
	steps = append(steps, fmt.Sprintf("dump $%d", res), fmt.Sprintf("dump $%d", a))
	if a != 0 {
		steps = append(steps, "dump $0")
	}
	g.emit(steps...)
}

func (g *gen) reduceProgram(dt string, sh []int, axis int, layout string, vs int) {
	var steps []string
	nv := 0
	steps = append(steps, fmt.Sprintf("vset=%d", vs))
	a := g.redOperand(&steps, &nv, dt, sh, layout)
	steps = append(steps, fmt.Sprintf("reduce $%d %d vs=%d", a, axis, vs))
	res := nv
	steps = append(steps, fmt.Sprintf("dump $%d", res), fmt.Sprintf("dump $%d", a))
	if a != 0 {
		steps = append(steps, "dump $0")
	}
	g.emit(steps...)
}

// argProgram: one Argmax/Argmin program; tie > 0 first overwrites part of the operand so that equal
// values arise (memset of a sub-view, zeroing, a written cell).
func (g *gen) argProgram(op, via, dt string, sh []int, axis string, layout string, vs int, tie int) {
	var steps []string
	nv := 0
	steps = append(steps, fmt.Sprintf("vset=%d", vs))
	a := g.redOperand(&steps, &nv, dt, sh, layout)
	if len(sh) > 0 && size(sh) > 1 {
		switch tie {
		case 1: // a written maximum somewhere inside
			c := make([]int, len(sh))
			for i, d := range sh {
				c[i] = g.r.intn(d)
			}
			steps = append(steps, fmt.Sprintf("setat $%d %s", a, ints(c)))
		case 2: // ties: a sub-view set to one value
			spec := make([]string, len(sh))
			for i, d := range sh {
				if d > 1 && g.r.chance(1, 2) {
					spec[i] = fmt.Sprintf("%d:%d", g.r.intn(d-1), d)
				} else {
					spec[i] = "n"
				}
			}
			steps = append(steps, fmt.Sprintf("slice $%d %s", a, strings.Join(spec, ",")))
			v := nv
			nv++
			if g.r.chance(1, 2) {
				steps = append(steps, fmt.Sprintf("memset $%d", v))
			} else {
				steps = append(steps, fmt.Sprintf("zero $%d", v))
			}
		}
	}
	steps = append(steps, fmt.Sprintf("arg %s %s $%d %s vs=%d", op, via, a, axis, vs))
	res := nv
	steps = append(steps, fmt.Sprintf("dump $%d", res), fmt.Sprintf("dump $%d", a))
	if a != 0 {
		steps = append(steps, "dump $0")
	}
	g.emit(steps...)
}

var sumDtypes = numDtypes                                                                               // 14 accepted by Sum
var maxDtypes = []string{"i", "i8", "i16", "i32", "i64", "u", "u8", "u16", "u32", "u64", "f32", "f64"} // accepted by Max/Min
var argDtypes = ordDtypes                                                                               // 13 accepted by Argmax/Argmin

func genC08(g *gen) {
	rep := 1
	if g.thorough() {
		rep = 24
	}
	vias := []string{"fn", "meth"}
	ops := []string{"sum", "max", "min"}
	dtFor := func(op string) string {
		if op == "sum" {
			return g.r.pick(sumDtypes)
		}
		return g.r.pick(maxDtypes)
	}

	// 1. Sum/Max/Min: every shape x every non-empty axis subset (+ all) x every layout x every op
	for k := 0; k < rep; k++ {
		for _, sh := range redShapes {
			subs := subsets(len(sh))
			for _, sub := range subs {
				for _, op := range ops {
					for _, lay := range redLayouts {
						along := sub
						if len(sub) > 1 && g.r.chance(1, 3) {
							along = g.shuffled(sub) // the implementation sorts the caller's slice
						}
						dt := dtFor(op)
						g.redProgram(op, g.r.pick(vias), dt, sh, along, lay, g.redVset(dt))
					}
				}
			}
			for _, op := range ops {
				for _, lay := range redLayouts {
					dt := dtFor(op)
					g.redProgram(op, g.r.pick(vias), dt, sh, nil, lay, g.redVset(dt))
				}
			}
		}
	}
	// 2. every accepted element type on a fixed set of (shape, axes): first / last / middle / multi / all
	type sa struct {
		sh []int
		ax []int
	}
	fixed := []sa{{[]int{3}, []int{0}}, {[]int{2, 3}, []int{0}}, {[]int{2, 3}, []int{1}}, {[]int{2, 3, 2}, []int{1}},
		{[]int{2, 2, 3, 4}, []int{2}}, {[]int{2, 3, 2}, []int{0, 2}}, {[]int{2, 3}, nil}, {[]int{2, 3, 3, 2}, []int{1, 2}}}
	for k := 0; k < rep; k++ {
		for _, f := range fixed {
			for _, op := range ops {
				dts := sumDtypes
				if op != "sum" {
					dts = maxDtypes
				}
				for _, dt := range dts {
					for _, vs := range []int{1, 3} {
						g.redProgram(op, g.r.pick(vias), dt, f.sh, f.ax, g.r.pick(redLayouts), vs)
					}
				}
			}
		}
	}
	// 3. arg-reductions: every shape x every axis + all x layouts x both ops
	argShapes := redShapes
	for k := 0; k < rep; k++ {
		for _, sh := range argShapes {
			axes := []string{"all"}
			for i := range sh {
				axes = append(axes, fmt.Sprint(i))
			}
			for _, ax := range axes {
				for _, op := range []string{"argmax", "argmin"} {
					for _, lay := range redLayouts {
						dt := g.r.pick(argDtypes)
						vs := []int{0, 1, 3, 3, 2, 1}[g.r.intn(6)]
						g.argProgram(op, g.r.pick(vias), dt, sh, ax, lay, vs, g.r.intn(3))
					}
				}
			}
		}
		// every accepted element type, special values
		for _, dt := range argDtypes {
			for _, op := range []string{"argmax", "argmin"} {
				for _, vs := range []int{1, 3, 0} {
					g.argProgram(op, g.r.pick(vias), dt, []int{3, 4}, g.r.pick([]string{"0", "1", "all"}), g.r.pick(redLayouts), vs, 0)
					g.argProgram(op, g.r.pick(vias), dt, []int{2, 3, 5}, g.r.pick([]string{"0", "1", "2", "all"}), g.r.pick(redLayouts), vs, g.r.intn(3))
					g.argProgram(op, g.r.pick(vias), dt, []int{17}, g.r.pick([]string{"0", "all"}), g.r.pick(redLayouts), vs, g.r.intn(3))
				}
			}
		}
	}
	// 4. generic Reduce: every element type x shapes x every axis x layouts (views are refused)
	genLayouts := []string{"contig", "mat", "leadview", "contig", "lazyT", "sliced", "stepped"}
	for k := 0; k < rep; k++ {
		for _, sh := range redShapes {
			for ax := range sh {
				for _, lay := range genLayouts {
					dt := g.r.pick(allDtypes)
					g.reduceProgram(dt, sh, ax, lay, g.redVset(dt))
				}
			}
		}
		for _, dt := range allDtypes {
			g.reduceProgram(dt, []int{2, 3}, 0, "contig", 3)
			g.reduceProgram(dt, []int{2, 3}, 1, "contig", 1)
			g.reduceProgram(dt, []int{2, 3, 2}, 1, "contig", 2)
			g.reduceProgram(dt, []int{2, 2, 3, 2}, 2, "mat", 0)
		}
	}
	// 5. refusals and low-volume layout classes
	for k := 0; k < rep; k++ {
		for _, op := range ops {
			for _, dt := range []string{"b", "str", "c64", "c128"} {
				g.redProgram(op, g.r.pick(vias), dt, []int{2, 3}, []int{g.r.intn(2)}, g.r.pick(redLayouts), 3)
				g.redProgram(op, g.r.pick(vias), dt, []int{2, 3}, nil, "contig", 3)
			}
		}
		for _, dt := range []string{"b", "c64", "c128"} {
			g.argProgram("argmax", "fn", dt, []int{2, 3}, "0", "contig", 0, 0)
			g.argProgram("argmin", "meth", dt, []int{2, 3}, "all", "contig", 0, 0)
		}
		// column-major (refusal allowed), clone of a stepped view, contiguous leading-axis views
		for _, lay := range []string{"colmajor", "fconv", "cloneview", "leadview"} {
			for _, sh := range [][]int{{3}, {2, 3}, {3, 1}, {2, 3, 2}, {2, 2, 3, 2}} {
				for _, sub := range subsets(len(sh)) {
					op := g.r.pick(ops)
					dt := dtFor(op)
					g.redProgram(op, g.r.pick(vias), dt, sh, sub, lay, g.redVset(dt))
				}
				g.redProgram("sum", "fn", g.r.pick(sumDtypes), sh, nil, lay, 3)
				g.redProgram("max", "meth", g.r.pick(maxDtypes), sh, nil, lay, 3)
				for ax := range sh {
					g.reduceProgram(g.r.pick(allDtypes), sh, ax, lay, 3)
					g.argProgram(g.r.pick([]string{"argmax", "argmin"}), g.r.pick(vias), g.r.pick(argDtypes), sh, fmt.Sprint(ax), lay, g.r.pick2(0, 3), g.r.intn(3))
				}
				g.argProgram(g.r.pick([]string{"argmax", "argmin"}), g.r.pick(vias), g.r.pick(argDtypes), sh, "all", lay, g.r.pick2(0, 3), g.r.intn(3))
			}
		}
	}
	// 5b. float rows that start with the infinity searched for and contain it again (finding F43)
	for k := 0; k < rep; k++ {
		for _, dt := range []string{"f32", "f64"} {
			for _, via := range vias {
				g.emit("vset=1", fmt.Sprintf("new %s 48 C", dt), "slice $0 8:48:8", fmt.Sprintf("arg argmax %s $1 0 vs=1", via), "dump $2", "arg argmax fn $1 all vs=1", "dump $3", "dump $1")
				g.emit("vset=1", fmt.Sprintf("new %s 49 C", dt), "slice $0 9:49:8", fmt.Sprintf("arg argmin %s $1 0 vs=1", via), "dump $2", "arg argmin fn $1 all vs=1", "dump $3", "dump $1")
				g.emit("vset=1", fmt.Sprintf("new %s 3,32 C", dt), "slice $0 n,8:32:8", fmt.Sprintf("arg argmax %s $1 1 vs=1", via), "dump $2", fmt.Sprintf("arg argmax %s $1 0 vs=1", via), "dump $3", "mat $1", "arg argmax fn $4 all vs=1", "dump $5", "dump $1")
				g.emit("vset=1", fmt.Sprintf("new %s 3,32 C", dt), "slice $0 n,9:32:8", fmt.Sprintf("arg argmin %s $1 1 vs=1", via), "dump $2", fmt.Sprintf("arg argmin %s $1 0 vs=1", via), "dump $3", "mat $1", "arg argmin fn $4 all vs=1", "dump $5", "dump $1")
				// the other infinity, and NaN rows, are handled correctly / are outside the specification
				g.emit("vset=1", fmt.Sprintf("new %s 50 C", dt), "slice $0 9:49:8", fmt.Sprintf("arg argmax %s $1 0 vs=1", via), "dump $2", "slice $0 10:50:8", fmt.Sprintf("arg argmax %s $3 0 vs=1", via), "dump $4", fmt.Sprintf("arg argmin %s $3 0 vs=1", via), "dump $5")
			}
		}
	}
	// 6. malformed stream: invalid / repeated / unsorted axes, rank-0 and one-cell operands, unknown variables
	badAxes := []string{"2", "-1", "5", "0,0", "1,1", "1,2", "0,2", "-1,0", "2,1,0", "0,1,2", "3", "-2", "1,0,1"}
	for k := 0; k < rep; k++ {
		for _, sh := range [][]int{{3}, {2, 3}, {2, 3, 2}, {1}, {1, 1}} {
			for _, ax := range badAxes {
				op := g.r.pick(ops)
				dt := dtFor(op)
				vs := g.redVset(dt)
				lay := g.r.pick([]string{"contig", "contig", "lazyT", "sliced"})
				var steps []string
				nv := 0
				steps = append(steps, fmt.Sprintf("vset=%d", vs))
				a := g.redOperand(&steps, &nv, dt, sh, lay)
				steps = append(steps, fmt.Sprintf("red %s %s $%d %s vs=%d", op, g.r.pick(vias), a, ax, vs), fmt.Sprintf("dump $%d", nv), fmt.Sprintf("dump $%d", a))
				g.emit(steps...)
			}
			for _, ax := range []string{"-1", "-2", "1", "2", "3", "7"} {
				g.reduceProgram(g.r.pick(allDtypes), sh, atoiOr(ax), "contig", 3)
				g.argProgram(g.r.pick([]string{"argmax", "argmin"}), g.r.pick(vias), g.r.pick(argDtypes), sh, ax, g.r.pick([]string{"contig", "lazyT"}), 0, 0)
			}
		}
		// rank-0 operands (single-cell slices) and unknown variables
		for _, dt := range []string{"f64", "i8", "u16"} {
			// ties (value set 3: five values over more cells): the first extreme element in the *logical* (row-major
			// coordinate) order wins, whatever the storage order - flat and per axis, every constructor
			for _, ord := range []string{"C", "Fraw", "Fconv"} {
				for _, sh := range []string{"2,2", "2,3", "3,3", "3,4", "2,3,2", "4,2"} {
					for _, via := range []string{"fn", "meth"} {
						g.emit("vset=3", fmt.Sprintf("new %s %s %s", dt, sh, ord), fmt.Sprintf("arg argmax %s $0 all vs=3", via), "dump $1",
							fmt.Sprintf("arg argmin %s $0 all vs=3", via), "dump $2", fmt.Sprintf("arg argmax %s $0 0 vs=3", via), "dump $3",
							fmt.Sprintf("arg argmin %s $0 1 vs=3", via), "dump $4", "dump $0")
					}
				}
			}
			g.emit("vset=3", fmt.Sprintf("new %s 2,3 C", dt), "slice $0 1,2", "red sum fn $1 - vs=3", "dump $2", "red max meth $1 0 vs=3", "arg argmax fn $1 all vs=3", "dump $4", "arg argmin meth $1 0 vs=3", "reduce $1 0 vs=3", "dump $1", "dump $0")
			g.emit("vset=3", fmt.Sprintf("new %s 2,3 C", dt), "red sum fn $4 0 vs=3", "arg argmax fn $4 0 vs=3", "reduce $4 0 vs=3", "red sum fn $1 0 vs=3", "dump $0")
			g.emit("vset=2", fmt.Sprintf("new %s 2,3 C", dt), "red sum fn $0 0 vs=2", "red max fn $1 0 vs=2", "dump $2", "red sum fn $0 1 vs=2", "reduce $3 0 vs=2", "dump $4", "dump $0")
		}
	}
}

func atoiOr(s string) int {
	n := 0
	fmt.Sscanf(s, "%d", &n)
	return n
}

func (r *rng) pick2(a, b int) int {
	if r.intn(2) == 0 {
		return a
	}
	return b
}

func init() { generators["C08"] = genC08 }
