#!/bin/bash
# Developer aid: which functions of gorgonia/tensor do the generated programs of the quick tier reach?
# Builds the harness with Go's coverage instrumentation for the library packages, runs every generator once and
# prints, per source file the properties are anchored in, the functions with 0% coverage.
# Usage: tools/cover.sh [outdir]   (outdir defaults to a fresh temporary directory, removed unless given)
set -e
cd "$(dirname "$0")/.."
export GOFLAGS=-mod=mod GOPROXY=off GOSUMDB=off GOTOOLCHAIN=local
OUT=${1:-$(mktemp -d)}
mkdir -p $OUT/data $OUT/w
(cd tools/harness && cp /repo/go.sum . && go build -tags verif -cover -coverpkg=verifharness,gorgonia.org/tensor,gorgonia.org/tensor/internal/execution -o $OUT/harness_cov .)
for p in C01 C02 C03 C04 C05 C06 C07 C08 C09 C10 C11 C12 C13 C14 C15 C16 C17 C19 C20; do
  $OUT/harness_cov gen -prop $p -tier quick -seed ${VERIF_SEED:-1} > $OUT/w/$p.progs 2>/dev/null
  lean/.lake/build/bin/tmdriver < $OUT/w/$p.progs > $OUT/w/$p.model
  GOCOVERDIR=$OUT/data $OUT/harness_cov run -progs $OUT/w/$p.progs -model $OUT/w/$p.model -out $OUT/w/$p.res >/dev/null 2>&1 || true
done
go tool covdata textfmt -i=$OUT/data -o $OUT/cov.txt
(cd /repo && go tool cover -func=$OUT/cov.txt 2>/dev/null | grep -v verifharness > $OUT/func.txt) || true
python3 - $OUT/func.txt <<'PY'
import re, sys, json, collections
props = {json.loads(l)['id']: json.loads(l) for l in open('properties.jsonl')}
anch = collections.defaultdict(set)
for pid, d in props.items():
    for f in d['anchors']['files']:
        anch[f].add(pid)
byf = collections.defaultdict(list)
for l in open(sys.argv[1]):
    m = re.match(r'gorgonia.org/tensor/(\S+?):(\d+):\s+(\S+)\s+([\d.]+)%', l)
    if m:
        byf[m.group(1)].append((m.group(3), float(m.group(4))))
for f in sorted(anch):
    if f not in byf:
        continue
    z = [fn for fn, pc in byf[f] if pc == 0]
    print(f"{f} [{','.join(sorted(anch[f]))}] functions={len(byf[f])} unreached={len(z)}: {' '.join(z)[:400]}")
PY
if [ -z "$1" ]; then rm -rf $OUT; fi
