package main

import (
	"fmt"
)

// C14: serialisation round trips. 5 formats x element types x shapes of rank 0-4 (scalars,
// length-one axes, row/column vectors) x layouts x masks x value sets; a random stream of layout
// chains; a malformed stream.

func init() { generators["C14"] = genC14 }

var serialFormats = []string{"gob", "npy", "csv", "pb", "fb"}

// layout classes of the operand handed to `rt`
var serialLayouts = []string{"contig", "colmajor", "fconv", "lazyT", "colT", "sliced", "stepped", "rowview", "mat", "physT"}

var serialShapes = [][]int{
	{}, {1}, {3}, {4},
	{1, 1}, {1, 3}, {3, 1}, {2, 3}, {2, 2}, {3, 2},
	{2, 1, 3}, {2, 3, 2}, {1, 1, 4},
	{2, 1, 2, 3}, {1, 1, 1, 3}, {2, 2, 2, 2},
}

// serialOperand builds an operand of logical shape sh in the given layout class.
func (g *gen) serialOperand(steps *[]string, nv *int, dt string, sh []int, layout string) int {
	add := func(s string) { *steps = append(*steps, s) }
	switch layout {
	case "fconv":
		add(fmt.Sprintf("new %s %s Fconv", dt, ints(sh)))
		v := *nv
		*nv++
		return v
	case "colT", "physT":
		if len(sh) < 2 {
			break
		}
		p := g.randPerm(len(sh))
		src := make([]int, len(sh))
		for i, a := range p {
			src[a] = sh[i]
		}
		ord := "C"
		if layout == "colT" {
			ord = "Fraw"
		}
		add(fmt.Sprintf("new %s %s %s", dt, ints(src), ord))
		v := *nv
		*nv++
		add(fmt.Sprintf("T $%d %s", v, ints(p)))
		if layout == "physT" {
			add(fmt.Sprintf("transpose $%d", v))
		}
		return v
	case "rowview":
		// a contiguous view: rows 1..d of a tensor with two more rows (a cell of a vector for rank 0)
		if len(sh) == 0 {
			add(fmt.Sprintf("new %s 3 C", dt))
			p := *nv
			*nv++
			add(fmt.Sprintf("slice $%d 1", p))
			v := *nv
			*nv++
			return v
		}
		big := append([]int{sh[0] + 2}, sh[1:]...)
		add(fmt.Sprintf("new %s %s C", dt, ints(big)))
		p := *nv
		*nv++
		add(fmt.Sprintf("slice $%d 1:%d", p, sh[0]+1))
		v := *nv
		*nv++
		return v
	}
	if layout == "colT" || layout == "physT" || layout == "fconv" || layout == "rowview" {
		layout = "contig"
	}
	return g.operand(steps, nv, dt, sh, layout)
}

// maskToken returns the `mask=` option for a tensor of n logical elements and cols columns.
func (g *gen) maskToken(mode string, n, cols int) string {
	if mode == "none" || n == 0 {
		return ""
	}
	b := make([]byte, n)
	for i := range b {
		b[i] = '0'
		switch mode {
		case "some":
			if g.r.chance(1, 3) {
				b[i] = '1'
			}
		case "all":
			b[i] = '1'
		case "row0":
			if i < cols && g.r.chance(1, 2) {
				b[i] = '1'
			}
		case "clear":
		}
	}
	return " mask=" + string(b)
}

var serialMasks = []string{"none", "none", "some", "row0", "all", "clear"}

func (g *gen) serialProgram(format, dt string, sh []int, layout, mask string, vset int) {
	var steps []string
	if vset != 0 {
		steps = append(steps, fmt.Sprintf("vset=%d", vset))
	}
	nv := 0
	v := g.serialOperand(&steps, &nv, dt, sh, layout)
	cols := 1
	if len(sh) > 0 {
		cols = sh[len(sh)-1]
	}
	steps = append(steps, fmt.Sprintf("rt %s $%d%s", format, v, g.maskToken(mask, size(sh), cols)))
	d := nv
	steps = append(steps, fmt.Sprintf("dump $%d", d), fmt.Sprintf("dump $%d", v))
	g.emit(steps...)
}

func genC14(g *gen) {
	// 1. the support matrix: every format x every element type on plain tensors of rank 0, 1, 2, 3
	for _, f := range serialFormats {
		for _, dt := range allDtypes {
			for si, sh := range [][]int{{}, {3}, {2, 3}, {3, 1}, {2, 1, 2}} {
				g.serialProgram(f, dt, sh, "contig", "none", (si+len(dt))%2)
			}
			g.serialProgram(f, dt, []int{2, 2}, "contig", "some", 1)
		}
	}
	// text formats and strings that look like syntax (leading '#', separators, quotes): every format, string vectors and
	// matrices, value set 1
	for _, f := range serialFormats {
		for _, sh := range [][]int{{3, 2}, {1, 3}, {3, 1}, {4}, {2, 3}} {
			for _, lay := range []string{"contig", "physT"} {
				g.serialProgram(f, "str", sh, lay, "none", 1)
			}
		}
	}
	// an element type outside the specialised ones (uintptr): every format either round-trips it or refuses it
	for _, f := range serialFormats {
		for _, sh := range [][]int{{2, 3}, {4}, {2, 1, 2}} {
			for _, lay := range []string{"contig", "physT", "rowview"} {
				g.serialProgram(f, "uptr", sh, lay, "none", 0)
			}
		}
	}
	// 2. formats x shapes x layouts, element types / masks / value sets rotating (all in thorough)
	k := 0
	for _, f := range serialFormats {
		shs := serialShapes
		if f == "csv" {
			// csv accepts matrices only: more of them
			shs = append(append([][]int{}, serialShapes...), []int{2, 4}, []int{4, 1}, []int{1, 4}, []int{3, 3}, []int{4, 2})
		}
		for si, sh := range shs {
			for li, lay := range serialLayouts {
				for di, dt := range allDtypes {
					if g.thorough() {
						for mi, m := range []string{"none", "some", "row0"} {
							g.serialProgram(f, dt, sh, lay, m, (di+mi+si)%2)
						}
						continue
					}
					if (si+li+di)%4 != 0 {
						continue
					}
					k++
					g.serialProgram(f, dt, sh, lay, serialMasks[k%len(serialMasks)], (k/7)%2)
				}
			}
		}
	}
	// 3. random layout chains (slices of transposes, transposes of slices, clones, materialised views)
	nrand := 400
	if g.thorough() {
		nrand = 12000
	}
	for i := 0; i < nrand; i++ {
		dt := g.r.pick(allDtypes)
		rank := 1 + g.r.intn(4)
		sh := make([]int, rank)
		for j := range sh {
			sh[j] = 1 + g.r.intn(3)
		}
		var steps []string
		if g.r.chance(1, 2) {
			steps = append(steps, "vset=1")
		}
		steps = append(steps, fmt.Sprintf("new %s %s %s", dt, ints(sh), g.r.pick(orders)))
		cur, nv := 0, 1
		depth := 1 + g.r.intn(3)
		for d := 0; d < depth; d++ {
			switch g.r.intn(6) {
			case 0:
				steps = append(steps, fmt.Sprintf("T $%d %s", cur, ints(g.randPerm(rank))))
			case 1:
				// slicing keeps the rank only approximately; later steps that no longer fit are refusals
				steps = append(steps, fmt.Sprintf("slice $%d %s", cur, g.randSliceList(sh)))
				cur = nv
				nv++
			case 2:
				steps = append(steps, fmt.Sprintf("clone $%d", cur))
				cur = nv
				nv++
			case 3:
				steps = append(steps, fmt.Sprintf("mat $%d", cur))
				cur = nv
				nv++
			case 4:
				steps = append(steps, fmt.Sprintf("transpose $%d", cur))
			case 5:
				steps = append(steps, fmt.Sprintf("UT $%d", cur))
			}
		}
		f := g.r.pick(serialFormats)
		steps = append(steps, fmt.Sprintf("rt %s $%d", f, cur), fmt.Sprintf("dump $%d", nv), fmt.Sprintf("dump $%d", cur))
		// a second format on the decoded tensor: decoded tensors are ordinary tensors
		if g.r.chance(1, 3) {
			f2 := g.r.pick(serialFormats)
			steps = append(steps, fmt.Sprintf("rt %s $%d", f2, nv), fmt.Sprintf("dump $%d", nv+1))
		}
		g.emit(steps...)
	}
	// 4. malformed stream
	for _, f := range serialFormats {
		g.emit("new f64 2,3 C", fmt.Sprintf("rt %s $3", f), "dump $1")                             // unbound variable
		g.emit("new f64 2,3 C", fmt.Sprintf("rt %s $0 mask=101", f), "dump $1", "dump $0")         // mask of the wrong length
		g.emit("new f64 2,3 C", fmt.Sprintf("rt %s $0 mask=10x010", f), "dump $1")                 // not a bit string
		g.emit("new f64 2,3 C", fmt.Sprintf("rt %s $0 frobnicate", f), "dump $1")                  // unknown option
		g.emit("new f64 2,3 C", "slice $0 5:6", fmt.Sprintf("rt %s $1", f), "dump $2")             // failed operand
		g.emit("new f64 2,3 C", fmt.Sprintf("rt %s $0", f), fmt.Sprintf("rt %s $1", f), "dump $2") // twice
	}
	g.emit("new f64 2,3 C", "rt json $0", "dump $1")
	g.emit("new f64 2,3 C", "rt", "dump $0")
	g.emit("new f64 2,3 C", "rt gob", "dump $0")
}
