import TensorModel.Run
/-! C16 — property theorems. -/
namespace TM.C16
end TM.C16
