package main

import (
	"fmt"

	"gorgonia.org/tensor"
)

// Family Linalg (property C09): the `la` step.
//
//	la <inner|mv|mm|outer|dot|tdot|trace> <fn|meth> $a [$b] [axesA axesB] [reuse=$k] [incr=$k] [unsafe]
//
// inner / trace answer `r=ok v=<scalar>` and push no variable; the others push one variable (nil on
// failure) and answer `r=ok ident=<$k|new>`.

func init() { extSteps["la"] = stepLa }

var laScalarOps = map[string]bool{"inner": true, "trace": true}

func stepLa(p *prog, idx int, toks []string) *rec {
	if len(toks) < 4 {
		return simple("badprog")
	}
	op, via := toks[1], toks[2]
	var rest []string
	var axesA, axesB []int
	var bt string
	switch op {
	case "trace":
		if len(toks) != 4 {
			return simple("badprog")
		}
	case "tdot":
		if len(toks) < 7 {
			return simple("badprog")
		}
		var e1, e2 error
		axesA, e1 = parseInts(toks[5])
		axesB, e2 = parseInts(toks[6])
		if e1 != nil || e2 != nil {
			return simple("badprog")
		}
		bt = toks[4]
		rest = toks[7:]
	case "inner", "mv", "mm", "outer", "dot":
		if len(toks) < 5 {
			return simple("badprog")
		}
		bt = toks[4]
		rest = toks[5:]
	default:
		return simple("badprog")
	}
	pushes := !laScalarOps[op]
	skip := func() *rec {
		if pushes {
			p.push(nil, nil)
		}
		return simple("skip")
	}
	opts, ok := p.parseFuncOpts(rest)
	if !ok {
		return skip()
	}
	a, adt := p.get(toks[3])
	if a == nil {
		return skip()
	}
	var b *tensor.Dense
	if op != "trace" {
		b, _ = p.get(bt)
		if b == nil {
			return skip()
		}
	}
	fn := via == "fn"
	if !pushes {
		var v interface{}
		res := guard(func() error {
			var err error
			switch op {
			case "trace":
				v, err = a.Trace()
			case "inner":
				if fn {
					v, err = tensor.Inner(a, b)
				} else {
					v, err = a.Inner(b)
				}
			}
			if err == nil && v == nil {
				return fmt.Errorf("nil result")
			}
			return err
		})
		r := simple(res)
		if res == "ok" {
			r.dt = adt
			r.vals["v"] = []interface{}{v}
		}
		return r
	}
	asDense := func(t tensor.Tensor, err error) (*tensor.Dense, error) {
		if err != nil {
			return nil, err
		}
		d, ok := t.(*tensor.Dense)
		if !ok {
			return nil, fmt.Errorf("not dense")
		}
		return d, nil
	}
	return p.finishTensorOp(func() (*tensor.Dense, error) {
		switch op {
		case "mv":
			if fn {
				return asDense(tensor.MatVecMul(a, b, opts...))
			}
			return a.MatVecMul(b, opts...)
		case "mm":
			if fn {
				return asDense(tensor.MatMul(a, b, opts...))
			}
			return a.MatMul(b, opts...)
		case "outer":
			if fn {
				return asDense(tensor.Outer(a, b, opts...))
			}
			return a.Outer(b, opts...)
		case "tdot":
			xa := append([]int{}, axesA...)
			xb := append([]int{}, axesB...)
			if fn {
				return asDense(tensor.Contract(a, b, xa, xb))
			}
			return a.TensorMul(b, xa, xb)
		case "dot":
			return asDense(tensor.Dot(a, b, opts...))
		}
		return nil, fmt.Errorf("bad op")
	})
}
