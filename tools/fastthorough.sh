#!/bin/bash
# Developer aid: tools/fastthorough.sh Cxx [seed] — runs the thorough domain of one property once (16 shards), without
# the widening / minimising of ./check, and lists every correspondence mismatch and every unexcused spec mismatch.
cd "$(dirname "$0")/.."
export GOFLAGS=-mod=mod GOPROXY=off GOSUMDB=off GOTOOLCHAIN=local
P=$1; S=${2:-1}; W=.work/dev; mkdir -p $W
(cd tools/harness && cp /repo/go.sum . && go build -tags verif -o ../../$W/harness .) || exit 2
rm -f $W/$P.t.*
$W/harness gen -prop $P -tier thorough -seed $S > $W/$P.t.progs
split -n l/16 -d $W/$P.t.progs $W/$P.t.part
for i in $(seq -w 0 15); do
  (lean/.lake/build/bin/tmdriver < $W/$P.t.part$i > $W/$P.t.model$i && $W/harness run -progs $W/$P.t.part$i -model $W/$P.t.model$i -out $W/$P.t.res$i >/dev/null 2>&1) &
done
wait
cat $W/$P.t.res* | python3 -c "
import json,sys
known={f['id'] for f in json.load(open('known_findings.json')) if f['status']=='known'}
n=0
for l in sys.stdin:
    d=json.loads(l)
    if 'summary' in d: continue
    tags=set(d.get('tags') or [])
    if d['kind']=='corr' or not (tags & known) or not d.get('corr_ok', True):
        n+=1
        if n<=12:
            steps=d['program'].split(' ; ')
            print(d['kind'], steps[0], 'step', d['step'], steps[d['step']+1] if d['step']+1 < len(steps) else '', '|', d['detail'][:120], '|', sorted(tags))
print('unexcused:', n)
"
