package main

// Family "MaskOps" (property C15, the mask setters and the reductions of masked tensors):
//
//   marg <argmax|argmin> <fn|meth> $a <axis|all> [vs=<n>]   Argmax/Argmin of a (masked) tensor; pushes the result
//   mred <sum|max|min> <fn|meth> $a <axes|-> [vs=<n>]       Sum/Max/Min of a (masked) tensor; pushes the result
//   msetat $a <0|1> <coords|->                              SetMaskAt(v, coords...)
//   mseti $a <0|1> <i>                                      SetMaskAtIndex(v, i)
//   mreset $a <0|1|->                                       ResetMask(v) / ResetMask()
//   mfromslice $a <ty> <digits|->                           MaskFromSlice([]ty{...}); ty = element type name,
//                                                           `uptr` ([]uintptr), `scalar` (an int), `nil`
//   mfromdense $a [$b|nil ...]                              a.MaskFromDense(b, ...)
//   mcons <dt> <shape|-> <opts> <ty> <digits|->             New(opts...): S = WithShape, B = WithBacking, M = WithMask
//                                                           (Of(dt) first when B is absent); pushes the tensor
//
// The setters report `lmask` (MaskAt at every coordinate after the call). The reductions report, next to
// the result, `vres`: the result with `?` at the positions the property does not speak about (arg-reductions:
// the lane has no valid element; Sum/Max/Min: the lane holds a masked element), decided by MaskAt on the operand.

import (
	"fmt"
	"strconv"

	"gorgonia.org/tensor"
)

func init() {
	extSteps["marg"] = stepMarg
	extSteps["mred"] = stepMred
	extSteps["msetat"] = stepMsetat
	extSteps["mseti"] = stepMseti
	extSteps["mreset"] = stepMreset
	extSteps["mfromslice"] = stepMfromslice
	extSteps["mfromdense"] = stepMfromdense
	extSteps["mcons"] = stepMcons
}

func moValidAt(t *tensor.Dense, c []int) bool {
	b, isB := maskAtSafe(t, c).(bool)
	return isB && !b
}

func moInsertAt(c []int, ax, i int) []int {
	out := make([]int, 0, len(c)+1)
	out = append(out, c[:ax]...)
	out = append(out, i)
	return append(out, c[ax:]...)
}

func moEraseAxes(l []int, axes []int) []int {
	out := []int{}
	for i, v := range l {
		drop := false
		for _, a := range axes {
			if a == i {
				drop = true
			}
		}
		if !drop {
			out = append(out, v)
		}
	}
	return out
}

func moSameInts(a, b []int) bool {
	if len(a) != len(b) {
		return false
	}
	for i := range a {
		if a[i] != b[i] {
			return false
		}
	}
	return true
}

// moResultVals lists the elements of a result tensor by At in row-major order.
func moResultVals(d *tensor.Dense) []interface{} {
	cs := allCoords(d.Shape())
	out := make([]interface{}, len(cs))
	for i, c := range cs {
		out[i] = atSafe(d, c)
	}
	return out
}

func stepMarg(p *prog, idx int, toks []string) *rec {
	if len(toks) < 5 || !p.vsDeclOK(toks[5:]) {
		p.push(nil, nil)
		return simple("badprog")
	}
	op, via := toks[1], toks[2]
	a, _ := p.get(toks[3])
	if a == nil {
		p.push(nil, nil)
		return simple("skip")
	}
	axis := tensor.AllAxes
	if toks[4] != "all" {
		n, err := strconv.Atoi(toks[4])
		if err != nil {
			p.push(nil, nil)
			return simple("skip")
		}
		axis = n
	}
	if op != "argmax" && op != "argmin" || (via != "fn" && via != "meth") {
		p.push(nil, nil)
		return simple("badprog")
	}
	// which lanes hold a valid element (observed before the call)
	var lanes []bool
	shape := append([]int{}, a.Shape()...)
	if axis == tensor.AllAxes {
		any := false
		for _, c := range allCoords(shape) {
			if moValidAt(a, c) {
				any = true
			}
		}
		lanes = []bool{any}
	} else if axis >= 0 && axis < len(shape) {
		for _, c := range allCoords(moEraseAxes(shape, []int{axis})) {
			any := false
			for i := 0; i < shape[axis]; i++ {
				if moValidAt(a, moInsertAt(c, axis, i)) {
					any = true
				}
			}
			lanes = append(lanes, any)
		}
	}
	r := p.finishRed(func() (*tensor.Dense, error) {
		if via == "meth" {
			if op == "argmax" {
				return a.Argmax(axis)
			}
			return a.Argmin(axis)
		}
		var ret tensor.Tensor
		var err error
		if op == "argmax" {
			ret, err = tensor.Argmax(a, axis)
		} else {
			ret, err = tensor.Argmin(a, axis)
		}
		if err != nil {
			return nil, err
		}
		d, ok := ret.(*tensor.Dense)
		if !ok {
			return nil, fmt.Errorf("not dense")
		}
		return d, nil
	})
	if r.fields["r"] == "ok" {
		out := p.vars[len(p.vars)-1]
		res := rawVals(out)
		r.dt = dtByName("i")
		r.vals["res"] = res
		vres := make([]interface{}, len(res))
		for i := range res {
			if i < len(lanes) && lanes[i] {
				vres[i] = res[i]
			} else {
				vres[i] = errMark("?")
			}
		}
		r.vals["vres"] = vres
	}
	return r
}

func stepMred(p *prog, idx int, toks []string) *rec {
	if len(toks) < 5 || !p.vsDeclOK(toks[5:]) {
		p.push(nil, nil)
		return simple("badprog")
	}
	op, via := toks[1], toks[2]
	a, dt := p.get(toks[3])
	along, err := parseInts(toks[4])
	if a == nil || err != nil {
		p.push(nil, nil)
		return simple("skip")
	}
	if op != "sum" && op != "max" && op != "min" || (via != "fn" && via != "meth") {
		p.push(nil, nil)
		return simple("badprog")
	}
	// lanes holding a masked element (observed before the call)
	shape := append([]int{}, a.Shape()...)
	axes := append([]int{}, along...)
	axesOK := true
	if len(axes) == 0 {
		for i := range shape {
			axes = append(axes, i)
		}
	} else {
		seen := map[int]bool{}
		for _, x := range axes {
			if x < 0 || x >= len(shape) || seen[x] {
				axesOK = false
			}
			seen[x] = true
		}
	}
	var flags []bool
	if axesOK {
		ins := allCoords(shape)
		masked := make([]bool, len(ins))
		for i, c := range ins {
			masked[i] = !moValidAt(a, c)
		}
		for _, c := range allCoords(moEraseAxes(shape, axes)) {
			f := false
			for i, ci := range ins {
				if masked[i] && moSameInts(moEraseAxes(ci, axes), c) {
					f = true
				}
			}
			flags = append(flags, f)
		}
	}
	r := p.finishRed(func() (*tensor.Dense, error) {
		var ret tensor.Tensor
		var err error
		if via == "meth" {
			var d *tensor.Dense
			switch op {
			case "sum":
				d, err = a.Sum(along...)
			case "max":
				d, err = a.Max(along...)
			case "min":
				d, err = a.Min(along...)
			}
			if err != nil {
				return nil, err
			}
			return d, nil
		}
		switch op {
		case "sum":
			ret, err = tensor.Sum(a, along...)
		case "max":
			mx, ok := a.Engine().(tensor.Maxer)
			if !ok {
				return nil, fmt.Errorf("engine is not a Maxer")
			}
			ret, err = mx.Max(a, along...)
		case "min":
			mn, ok := a.Engine().(tensor.Miner)
			if !ok {
				return nil, fmt.Errorf("engine is not a Miner")
			}
			ret, err = mn.Min(a, along...)
		}
		if err != nil {
			return nil, err
		}
		d, ok := ret.(*tensor.Dense)
		if !ok {
			return nil, fmt.Errorf("not dense")
		}
		return d, nil
	})
	r.fields["along"] = showInts(along)
	if r.fields["r"] == "ok" {
		out := p.vars[len(p.vars)-1]
		res := moResultVals(out)
		r.dt = dt
		vres := make([]interface{}, len(res))
		for i := range res {
			if i < len(flags) && flags[i] {
				vres[i] = errMark("?")
			} else {
				vres[i] = res[i]
			}
		}
		r.vals["vres"] = vres
	}
	return r
}

func moBit(tok string) (bool, bool) {
	switch tok {
	case "0":
		return false, true
	case "1":
		return true, true
	}
	return false, false
}

// moSetter runs a mask setter on t and reports the outcome and the logical mask afterwards.
func moSetter(t *tensor.Dense, dt *dtInfo, f func() error) *rec {
	res := guard(f)
	r := simple(res)
	if res != "panic" {
		r.dt = dt
		r.vals["lmask"] = maskLogical(t)
	}
	return r
}

func stepMsetat(p *prog, idx int, toks []string) *rec {
	if len(toks) != 4 {
		return simple("badprog")
	}
	t, dt := p.get(toks[1])
	if t == nil {
		return simple("skip")
	}
	v, ok := moBit(toks[2])
	c, err := parseInts(toks[3])
	if !ok || err != nil {
		return simple("badprog")
	}
	p.hold(c)
	return moSetter(t, dt, func() error { return t.SetMaskAt(v, c...) })
}

func stepMseti(p *prog, idx int, toks []string) *rec {
	if len(toks) != 4 {
		return simple("badprog")
	}
	t, dt := p.get(toks[1])
	if t == nil {
		return simple("skip")
	}
	v, ok := moBit(toks[2])
	i, err := strconv.Atoi(toks[3])
	if !ok || err != nil {
		return simple("badprog")
	}
	return moSetter(t, dt, func() error { return t.SetMaskAtIndex(v, i) })
}

func stepMreset(p *prog, idx int, toks []string) *rec {
	if len(toks) != 3 {
		return simple("badprog")
	}
	t, dt := p.get(toks[1])
	if t == nil {
		return simple("skip")
	}
	if toks[2] == "-" {
		return moSetter(t, dt, func() error { return t.ResetMask() })
	}
	v, ok := moBit(toks[2])
	if !ok {
		return simple("badprog")
	}
	return moSetter(t, dt, func() error { return t.ResetMask(v) })
}

// moMaskArg builds the argument of MaskFromSlice / WithMask: a slice of the named element type whose
// entry i is the zero value for digit 0 and a non-zero value for any other digit; `uptr`: a []uintptr
// (no arm in the type switch); `scalar`: an int; `nil`: the untyped nil.
func moMaskArg(ty, digits string) (interface{}, bool) {
	var ds []int
	if digits != "-" {
		for _, c := range digits {
			if c < '0' || c > '9' {
				return nil, false
			}
			ds = append(ds, int(c-'0'))
		}
	}
	switch ty {
	case "nil":
		return nil, true
	case "scalar":
		return 7, true
	case "uptr":
		out := make([]uintptr, len(ds))
		for i, d := range ds {
			out[i] = uintptr(d)
		}
		return out, true
	case "b":
		out := make([]bool, len(ds))
		for i, d := range ds {
			out[i] = d != 0
		}
		return out, true
	}
	dt := dtByName(ty)
	if dt == nil {
		return nil, false
	}
	return dt.makeSlice(len(ds), func(i int) interface{} {
		if ds[i] == 0 {
			return dt.zero()
		}
		return dt.fromInt(int64(ds[i]))
	}), true
}

func stepMfromslice(p *prog, idx int, toks []string) *rec {
	if len(toks) != 4 {
		return simple("badprog")
	}
	t, dt := p.get(toks[1])
	if t == nil {
		return simple("skip")
	}
	x, ok := moMaskArg(toks[2], toks[3])
	if !ok {
		return simple("badprog")
	}
	return moSetter(t, dt, func() error { t.MaskFromSlice(x); return nil })
}

func stepMfromdense(p *prog, idx int, toks []string) *rec {
	if len(toks) < 2 {
		return simple("badprog")
	}
	t, dt := p.get(toks[1])
	if t == nil {
		return simple("skip")
	}
	var args []*tensor.Dense
	for _, tok := range toks[2:] {
		if tok == "nil" {
			args = append(args, nil)
			continue
		}
		o, _ := p.get(tok)
		if o == nil {
			return simple("skip")
		}
		args = append(args, o)
	}
	return moSetter(t, dt, func() error { t.MaskFromDense(args...); return nil })
}

func stepMcons(p *prog, idx int, toks []string) *rec {
	if len(toks) != 6 {
		p.push(nil, nil)
		return simple("badprog")
	}
	dt := dtByName(toks[1])
	shape, err := parseInts(toks[2])
	x, okArg := moMaskArg(toks[4], toks[5])
	if dt == nil || err != nil || !okArg {
		p.push(nil, dt)
		return simple("badprog")
	}
	seen := map[rune]bool{}
	for _, c := range toks[3] {
		if (c != 'S' && c != 'B' && c != 'M') || seen[c] {
			p.push(nil, dt)
			return simple("badprog")
		}
		seen[c] = true
	}
	n := 1
	for _, d := range shape {
		if d < 0 {
			p.push(nil, dt)
			return simple("badprog")
		}
		n *= d
	}
	buf := p.nbuf
	p.nbuf++
	in := make([]interface{}, n)
	backing := dt.makeSlice(n, func(i int) interface{} { v := dt.genVal(p.vset, buf, i); in[i] = v; return v })
	p.inputs = append(p.inputs, in)
	var opts []tensor.ConsOpt
	if !seen['B'] {
		opts = append(opts, tensor.Of(dt.dt))
	}
	for _, c := range toks[3] {
		switch c {
		case 'S':
			opts = append(opts, tensor.WithShape(shape...))
		case 'B':
			opts = append(opts, tensor.WithBacking(backing))
		case 'M':
			opts = append(opts, tensor.WithMask(x))
		}
	}
	return p.newOp(dt, func() (*tensor.Dense, error) { return tensor.New(opts...), nil })
}
