package main

// C17compat — program generator for the generated per-type conversion code (family Compat):
// ToMat64 (`tomat`), FromMat64 (`frommat`), the typed native accessors (`native`).
//
// Domain
//   tomat:   every numeric element type (14) x operand layouts {contiguous, lazily transposed, offset
//            slice, stepped slice, materialised, column-major raw (Fraw), column-major converting (Fconv)}
//            (+ at low volume: physically transposed, lazily transposed column-major, slice of a
//            column-major tensor, contiguous leading-axis view, clone of a stepped view)
//            x shapes {(2,3),(3,2),(1,4),(4,1),(1,1),(3) refusal,(2,2,2) refusal}
//            x value sets {0 distinct, 1 special (negatives, extremes, NaN, Inf), 3 ties / negatives}
//            x {safe, unsafe}; bool / string tensors (no conversion arm) at low volume.
//            Every program also calls the native accessor of the operand's rank and dumps the operand.
//   frommat: every numeric type (+ bool, string: no arm) x shapes {(2,3),(3,2),(1,4),(4,1),(1,1)}
//            x value sets {0, 1, 3, 5 non-finite} x {safe, unsafe}; the result is dumped, written
//            through (setat) and converted back (tomat).
//   native:  all 16 element types x rank 1-3 shapes x layouts, the accessor of the right and of a wrong
//            rank, and the accessor of another element type (refusals must not depend on the type).
//   malformed stream: unknown variables / keywords / types, bad arities.
// quick: every (type, layout, shape) cell once with a drawn (value set, mode), every (type, value set,
// mode) cell on the main shapes; thorough: the full product.

import (
	"fmt"
	"strings"
)

var compatNumeric = []string{"i", "i8", "i16", "i32", "i64", "u", "u8", "u16", "u32", "u64", "f32", "f64", "c64", "c128"}
var compatLayouts = []string{"contig", "lazyT", "sliced", "stepped", "mat", "colmajor", "colconv"}
var compatExtraLayouts = []string{"physT", "colT", "colsliced", "leadview", "cloneview"}
var compatShapes = [][]int{{2, 3}, {3, 2}, {1, 4}, {4, 1}, {1, 1}, {3}, {2, 2, 2}}
var compatVsets = []int{0, 1, 3}
var fromMatShapes = [][]int{{2, 3}, {3, 2}, {1, 4}, {4, 1}, {1, 1}}
var fromMatVsets = []int{0, 1, 3, 5}

// compatOperand builds the operand (the layout classes of g.operand plus this family's extras).
func (g *gen) compatOperand(steps *[]string, nv *int, dt string, sh []int, layout string) int {
	add := func(s string) int { *steps = append(*steps, s); v := *nv; *nv++; return v }
	switch layout {
	case "physT":
		if len(sh) < 2 {
			break
		}
		p := g.randPerm(len(sh))
		src := make([]int, len(sh))
		for i, a := range p {
			src[a] = sh[i]
		}
		v := add(fmt.Sprintf("new %s %s C", dt, ints(src)))
		*steps = append(*steps, fmt.Sprintf("T $%d %s", v, ints(p)), fmt.Sprintf("transpose $%d", v))
		return v
	case "colsliced":
		if size(sh) == 1 {
			break
		}
		big := make([]int, len(sh))
		spec := make([]string, len(sh))
		for i, d := range sh {
			if d == 1 {
				big[i], spec[i] = 1, "n"
			} else {
				big[i], spec[i] = d+1, fmt.Sprintf("1:%d", d+1)
			}
		}
		p := add(fmt.Sprintf("new %s %s Fraw", dt, ints(big)))
		return add(fmt.Sprintf("slice $%d %s", p, strings.Join(spec, ",")))
	case "leadview":
		if len(sh) == 0 || size(sh) == 1 {
			break
		}
		big := append([]int{sh[0] + 2}, sh[1:]...)
		p := add(fmt.Sprintf("new %s %s C", dt, ints(big)))
		return add(fmt.Sprintf("slice $%d 1:%d", p, sh[0]+1))
	case "cloneview":
		v := g.operand(steps, nv, dt, sh, "stepped")
		return add(fmt.Sprintf("clone $%d", v))
	default:
		return g.operand(steps, nv, dt, sh, layout)
	}
	return g.operand(steps, nv, dt, sh, "contig")
}

func nativeKind(rank int) string {
	switch rank {
	case 1:
		return "vec"
	case 3:
		return "t3"
	}
	return "mat"
}

// toMatProgram: operand; native accessor of its rank; ToMat64; dump of the operand (and of its parent).
func (g *gen) toMatProgram(dt string, sh []int, layout string, vs int, unsafe bool) {
	var steps []string
	nv := 0
	steps = append(steps, fmt.Sprintf("vset=%d", vs))
	a := g.compatOperand(&steps, &nv, dt, sh, layout)
	steps = append(steps, fmt.Sprintf("native $%d %s", a, nativeKind(len(sh))))
	tm := fmt.Sprintf("tomat $%d", a)
	if unsafe {
		tm += " unsafe"
	}
	steps = append(steps, tm, fmt.Sprintf("dump $%d", a))
	if a != 0 && g.r.chance(1, 3) {
		steps = append(steps, "dump $0")
	}
	g.emit(steps...)
}

// fromMatProgram: FromMat64; dump; then the result is written through and converted back.
func (g *gen) fromMatProgram(dt string, sh []int, vs int, unsafe bool) {
	fm := fmt.Sprintf("frommat %s %s %d", dt, ints(sh), vs)
	if unsafe {
		fm += " unsafe"
	}
	steps := []string{fm, "dump $0"}
	switch g.r.intn(3) {
	case 0:
		steps = append(steps, "tomat $0")
	case 1:
		steps = append(steps, "setat $0 0,0", "dump $0", "tomat $0 unsafe")
	case 2:
		steps = append(steps, "T $0 1,0", "tomat $0", "native $0 mat")
	}
	g.emit(steps...)
}

func (g *gen) nativeProgram(dt string, sh []int, layout string, vs int) {
	var steps []string
	nv := 0
	steps = append(steps, fmt.Sprintf("vset=%d", vs))
	a := g.compatOperand(&steps, &nv, dt, sh, layout)
	steps = append(steps, fmt.Sprintf("native $%d %s", a, nativeKind(len(sh))))
	// the accessor of another rank and of another element type: refused for every type alike
	wrong := []string{"vec", "mat", "t3"}[g.r.intn(3)]
	other := g.r.pick(allDtypes)
	steps = append(steps, fmt.Sprintf("native $%d %s", a, wrong), fmt.Sprintf("native $%d %s %s", a, nativeKind(len(sh)), other))
	steps = append(steps, fmt.Sprintf("dump $%d", a))
	g.emit(steps...)
}

func genC17compat(g *gen) {
	pickVs := func() int { return compatVsets[g.r.intn(len(compatVsets))] }
	// --- tomat -------------------------------------------------------------------------------
	// column-major matrices that own their data, every numeric type, safe and UseUnsafe (float64 may share the storage
	// only when the storage is the row-major listing)
	for _, dt := range compatNumeric {
		for _, sh := range [][]int{{2, 3}, {3, 2}, {3, 3}} {
			for _, lay := range []string{"colmajor", "colconv"} {
				for _, uns := range []bool{false, true} {
					g.toMatProgram(dt, sh, lay, 0, uns)
				}
			}
		}
	}
	for _, dt := range compatNumeric {
		for _, layout := range compatLayouts {
			for _, sh := range compatShapes {
				if g.thorough() {
					for _, vs := range compatVsets {
						g.toMatProgram(dt, sh, layout, vs, false)
						g.toMatProgram(dt, sh, layout, vs, true)
					}
				} else {
					g.toMatProgram(dt, sh, layout, pickVs(), g.r.chance(1, 2))
				}
			}
		}
		// every (value set, mode) cell on the main shapes: negatives / extremes for every type on both data paths
		for _, vs := range compatVsets {
			for _, uns := range []bool{false, true} {
				g.toMatProgram(dt, []int{2, 3}, "contig", vs, uns)
				g.toMatProgram(dt, []int{3, 2}, g.r.pick([]string{"lazyT", "sliced", "stepped"}), vs, uns)
				if g.thorough() || g.r.chance(1, 2) {
					g.toMatProgram(dt, []int{2, 3}, g.r.pick([]string{"colmajor", "colconv"}), vs, uns)
				}
			}
		}
		for _, layout := range compatExtraLayouts {
			n := 2
			if g.thorough() {
				n = 12
			}
			for k := 0; k < n; k++ {
				// column-major vectors carry too few strides (finding F24: slicing / transposing them panics):
				// the column-major view layouts use the proper matrices only
				sh := compatShapes[g.r.intn(4)]
				if strings.HasPrefix(layout, "col") {
					sh = compatShapes[g.r.intn(2)]
				}
				g.toMatProgram(dt, sh, layout, pickVs(), g.r.chance(1, 2))
			}
		}
	}
	for _, dt := range []string{"b", "str"} {
		for _, layout := range []string{"contig", "lazyT", "colmajor"} {
			for _, sh := range [][]int{{2, 3}, {3}, {2, 2, 2}} {
				g.toMatProgram(dt, sh, layout, 0, g.r.chance(1, 2))
			}
		}
	}
	// --- frommat -----------------------------------------------------------------------------
	for _, dt := range compatNumeric {
		for _, vs := range fromMatVsets {
			for _, uns := range []bool{false, true} {
				if g.thorough() {
					for _, sh := range fromMatShapes {
						g.fromMatProgram(dt, sh, vs, uns)
					}
				} else {
					g.fromMatProgram(dt, fromMatShapes[g.r.intn(len(fromMatShapes))], vs, uns)
				}
			}
		}
		for _, sh := range fromMatShapes {
			g.fromMatProgram(dt, sh, fromMatVsets[g.r.intn(len(fromMatVsets))], g.r.chance(1, 2))
		}
		// a matrix long enough to run through the whole special-value table
		g.fromMatProgram(dt, []int{4, 4}, 1, g.r.chance(1, 2))
	}
	for _, dt := range []string{"b", "str"} {
		g.fromMatProgram(dt, []int{2, 2}, 0, false)
	}
	// --- native ------------------------------------------------------------------------------
	nativeShapes := [][]int{{3}, {1}, {2, 3}, {3, 1}, {1, 1}, {2, 2, 2}, {2, 1, 3}, {2, 2, 2, 2}}
	nativeLayouts := []string{"contig", "lazyT", "sliced", "stepped", "mat", "colmajor", "colconv", "leadview", "physT"}
	for _, dt := range allDtypes {
		for _, sh := range nativeShapes {
			if g.thorough() {
				for _, layout := range nativeLayouts {
					g.nativeProgram(dt, sh, layout, pickVs())
				}
			} else {
				g.nativeProgram(dt, sh, "contig", pickVs())
				g.nativeProgram(dt, sh, g.r.pick(nativeLayouts[1:]), pickVs())
			}
		}
	}
	// --- malformed stream ----------------------------------------------------------------------
	for _, s := range [][]string{
		{"tomat $0"}, {"tomat"}, {"new i16 2,3 C", "tomat $1"}, {"new i16 2,3 C", "tomat $0 bogus"},
		{"new i16 2,3 C", "tomat $0 unsafe safe"}, {"frommat"}, {"frommat i16", "new i16 2 C", "dump $1"},
		{"frommat i16 2 0", "new i16 2 C", "dump $1"}, {"frommat zz 2,2 0"}, {"frommat i16 0,2 0"},
		{"frommat i16 2,-1 0"}, {"frommat i16 2,2 x"}, {"frommat f64 2,2 1 unsafe bogus", "new f64 2 C", "dump $1"},
		{"frommat i16 2,2,2 0"}, {"new i16 2,3 C", "native $0 foo"}, {"new i16 2,3 C", "native $0 mat zz"},
		{"new i16 2,3 C", "native $0 mat i16 extra"}, {"native $0 mat"}, {"native $3 foo"}, {"native"},
		{"new i16 2,3 C", "native $0"}, {"new f64 2,3 C", "slice $0 5:9", "tomat $1", "native $1 mat"},
	} {
		g.emit(s...)
	}
}

func init() {
	generators["C17compat"] = genC17compat
}
