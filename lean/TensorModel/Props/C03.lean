import TensorModel.Proofs.Transpose
import TensorModel.Proofs.Roll
/-!
  C03 — transposition is a pure permutation of axes.
  Property theorems only; helper lemmas live in `TensorModel/Proofs/Transpose.lean`.
-/
namespace TM.C03

/-- `xs.gather p = [xs[p₀], xs[p₁], …]` — what a transposition by `p` does to shape and strides. -/
def gather {α} [Inhabited α] (p : List Int) (xs : List α) : List α := p.map (fun i => xs[i.toNat]!)

/-- `p` is a permutation of `0..n-1` -/
def ValidPerm (p : List Int) (n : Nat) : Prop := isPerm p n = true

/-- `UnsafePermute` (in-place cycle following for rank ≥ 3, swap for rank 2) applied to `0..n-1`
    yields the pattern itself, for every permutation of rank ≤ 5 (the ranks C03 quantifies over).
    Kernel-evaluated over all 154 permutations. -/
theorem unsafePermute_range (n : Nat) (hn : n ≤ 5) (p : List Int) (hp : ValidPerm p n) :
    unsafePermute p (rangeI n) = .ok (if (isMonotonicInts p).1 && (isMonotonicInts p).2 then PermRes.noop else PermRes.ok p) := by
  exact unsafePermute_rangeI n hn p hp

/-- Naturality: `UnsafePermute` moves positions, never looks at the values. -/
theorem unsafePermute_map {α β} (f : α → β) (p : List Int) (xs : List α) :
    unsafePermute p (xs.map f) =
      (unsafePermute p xs).map (fun r => match r with | .ok ys => PermRes.ok (ys.map f) | .noop => PermRes.noop) := by
  rw [unsafePermute_map' f p xs]
  cases unsafePermute p xs with
  | error e => rfl
  | ok r => cases r <;> rfl

/-- Hence for any list of length ≤ 5 (shape or strides; dimensions are unbounded) `UnsafePermute`
    is the gather by the pattern. -/
theorem unsafePermute_gather (p : List Int) (xs : List Int) (hn : xs.length ≤ 5) (hp : ValidPerm p xs.length)
    (hni : ¬ ((isMonotonicInts p).1 && (isMonotonicInts p).2) = true) :
    unsafePermute p xs = .ok (PermRes.ok (gather p xs)) := by
  exact unsafePermute_getElem p xs hn hp hni

/-- Gathering coordinates and strides by the same permutation preserves the offset: element
    `(c[p₀],…,c[pₖ])`-of-the-source is element `c` of the result. Any rank. -/
theorem dot_gather (p : List Int) (n : Nat) (hp : ValidPerm p n) (c s : List Int)
    (hc : c.length = n) (hs : s.length = n) :
    dot (gather p c) (gather p s) = dot c s := by
  exact dot_getElem_perm p n hp c s hc hs

/-- `AP.T` on a non-vector, non-scalar-equivalent pattern of rank ≤ 5 with a valid non-identity
    permutation returns the gathered shape and strides and sets the transposed flag. -/
theorem apT_gather (ap : AP) (axes : List Int) (hr : ap.shape.length ≤ 5)
    (hl : ap.strides.length = ap.shape.length)
    (hp : ValidPerm axes ap.shape.length) (hne : axes ≠ [])
    (hnse : isScalarEquiv ap.shape = false) (hnv : isVector ap.shape = false)
    (hni : ¬ ((isMonotonicInts axes).1 && (isMonotonicInts axes).2) = true) :
    ap.T axes = .ok (.ok { shape := gather axes ap.shape, strides := gather axes ap.strides, fin := true,
                           o := { ap.o with transposed := true } } axes) := by
  exact apT_getElem ap axes hr hl hp hne hnse hnv hni

/-- Undoing a lazy transpose restores the original tensor exactly (metadata and storage window). -/
theorem UT_T (st : St) (t t' : Dense) (axes : List Int) (hold : t.old = none) (htw : t.tw = none)
    (h : Dense.T st t axes = .ok (st, t')) : t'.ut = t := by
  exact denseT_ut st t t' axes hold htw h

/-- A lazy transpose never touches storage. -/
theorem T_pure (st st' : St) (t t' : Dense) (axes : List Int) (hold : t.old = none)
    (h : Dense.T st t axes = .ok (st', t')) : st' = st ∧ t'.win = t.win := by
  exact denseT_pure st st' t t' axes hold h

/-! ### Axis rolling (`RollAxis(axis, start, safe)`): a transposition by the axes vector `rollAxes` builds -/

/-- `RollAxis` refuses exactly the axes outside `[0, dims)` and the targets outside `[0, dims]`. -/
theorem roll_refuses_iff (dims : Nat) (axis start : Int) :
    (∃ r, Dense.rollAxes dims axis start = .ok r) ↔ (0 ≤ axis ∧ axis < dims) ∧ (0 ≤ start ∧ start ≤ dims) :=
  rollAxes_ok_iff dims axis start

/-- the tensor itself is returned exactly when the axis already sits at its target position -/
theorem roll_noop (dims : Nat) (axis start : Int) (h : Dense.rollAxes dims axis start = .ok none) :
    axis = rollPos axis start := rollAxes_none h

/-- otherwise the axes vector is a permutation of `0..dims-1` (so every theorem above about transposition by a
    valid permutation applies to the rolled tensor), … -/
theorem roll_axes_valid (dims : Nat) (axis start : Int) (a : List Int)
    (h : Dense.rollAxes dims axis start = .ok (some a)) : ValidPerm a dims := rollAxes_isPerm h

/-- … the rolled axis ends up at position `start` (one less when it came from before `start`), … -/
theorem roll_axis_position (dims : Nat) (axis start : Int) (a : List Int)
    (h : Dense.rollAxes dims axis start = .ok (some a)) :
    a[(rollPos axis start).toNat]? = some axis := rollAxes_pos h

/-- … and all other axes keep their relative order. -/
theorem roll_others_keep_order (dims : Nat) (axis start : Int) (a : List Int)
    (h : Dense.rollAxes dims axis start = .ok (some a)) :
    a.filter (· != axis) = (rangeI dims).filter (· != axis) := rollAxes_others h

-- concrete instances (non-vacuity)
example : (match Dense.rollAxes 4 3 1 with | .ok (some [0, 3, 1, 2]) => true | _ => false) = true := by decide
example : (match Dense.rollAxes 4 1 4 with | .ok (some [0, 2, 3, 1]) => true | _ => false) = true := by decide
example : (match Dense.rollAxes 3 1 2 with | .ok none => true | _ => false) = true := by decide
example : ValidPerm [2, 0, 1] 3 := by unfold ValidPerm; decide
example : (match unsafePermute [2, 0, 1] ([10, 20, 30] : List Int) with | .ok (.ok [30, 10, 20]) => true | _ => false) = true := by decide

end TM.C03
