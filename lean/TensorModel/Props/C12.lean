import TensorModel.Proofs.Kernels
import TensorModel.Proofs.IterPaths
import TensorModel.Props.C13
/-!
  C12 — unary functions and mapped functions.
  Property theorems only; helper lemmas live in `TensorModel/Proofs/Kernels.lean`
  (`cell`, `InBuf`, `ReuseFits` are defined there; see the header of `Props/C06.lean`).
  All theorems hold for an arbitrary scalar function `g : Val → Val`.
-/
set_option linter.unusedSimpArgs false
namespace TM.C12
open TM

/-! ## generated unary methods (`engUnary`), raw path -/

/-- Safe mode: a fresh clone of `a` whose cell `i` is `g a[i]`; `a`, every pre-existing buffer and the
    mask heap are untouched. -/
theorem engUnary_safe (st : St) (g : UnF) (tc kt : List String) (strict : Bool) (a : Dense)
    (htc : a.dt ∈ tc) (hk : a.dt ∈ kt) (hia : a.requiresIterator = false) (hm : a.mask = none)
    (hA : InBuf st a.win.buf a.win.off a.win.len) :
    ∃ out c, engUnary st g tc kt strict a {} = .ok out ∧ out.ret = .fresh c ∧
      c.ap = { a.ap with fin := true } ∧ c.dt = a.dt ∧ c.win = ⟨st.heap.size, 0, a.win.len, a.win.len⟩ ∧
      out.st.mheap = st.mheap ∧
      (∀ i, i < a.win.len → ∃ x, cell st a.win.buf (a.win.off + i) = some x ∧
        cell out.st c.win.buf i = some (g x)) ∧
      (∀ b' k, b' < st.heap.size → cell out.st b' k = cell st b' k) := by
  obtain ⟨st', h, hm', hv, hfr⟩ := engUnary_safe' st g tc kt strict a (by simpa using htc) (by simpa using hk)
    hia hm hA
  refine ⟨_, _, h, rfl, rfl, rfl, rfl, hm', ?_, hfr⟩
  intro i hi
  exact ⟨_, cell_some_cellD (hA.has i hi), hv i hi⟩

/-- `UseUnsafe()`: `a[i] = g a[i]` in place, `a` is returned, nothing else changes. -/
theorem engUnary_unsafe (st : St) (g : UnF) (tc kt : List String) (strict : Bool) (a : Dense)
    (htc : a.dt ∈ tc) (hk : a.dt ∈ kt) (hia : a.requiresIterator = false)
    (hA : InBuf st a.win.buf a.win.off a.win.len) :
    ∃ out, engUnary st g tc kt strict a { unsafe_ := true } = .ok out ∧ out.ret = .a ∧
      out.st.mheap = st.mheap ∧
      (∀ i, i < a.win.len → ∃ x, cell st a.win.buf (a.win.off + i) = some x ∧
        cell out.st a.win.buf (a.win.off + i) = some (g x)) ∧
      (∀ b' k, (b' ≠ a.win.buf ∨ k < a.win.off ∨ a.win.off + a.win.len ≤ k) → cell out.st b' k = cell st b' k) := by
  obtain ⟨st', h, w⟩ := engUnary_unsafe' st g tc kt strict a (by simpa using htc) (by simpa using hk) hia hA
  exact ⟨_, h, rfl, w.sem1 hA.has⟩

/-- `WithReuse(r)`: `r[i] = g a[i]` (copy, then in place); `r` is returned; nothing outside the window
    of `r` changes — in particular `a` is unchanged when it does not overlap `r`'s window. (`hal`: the destination does
    not share memory with the operand, or it addresses exactly the operand's cells in the operand's sequence - `r = a`
    included; a destination that overlaps the operand in another way makes `prepDataUnary` read the operand from a copy:
    `engUnary_reuse_alias_witness`.) -/
theorem engUnary_reuse (st : St) (g : UnF) (tc kt : List String) (strict : Bool) (a r : Dense)
    (htc : a.dt ∈ tc) (hk : a.dt ∈ kt) (hia : a.requiresIterator = false) (hir : r.requiresIterator = false)
    (hr : ReuseFits r a.shape a.dt a.ap.o.col) (hlen : r.win.len = a.win.len) (hal : sharesMemory a r = false ∨ sameAccess a r = true)
    (hA : InBuf st a.win.buf a.win.off a.win.len) (hR : InBuf st r.win.buf r.win.off r.win.len) :
    ∃ out, engUnary st g tc kt strict a { reuse := some r } = .ok out ∧ out.ret = .reuse ∧
      out.reuse = some r ∧ out.st.mheap = st.mheap ∧
      (∀ i, i < r.win.len → ∃ x, cell st a.win.buf (a.win.off + i) = some x ∧
        cell out.st r.win.buf (r.win.off + i) = some (g x)) ∧
      (∀ b' k, (b' ≠ r.win.buf ∨ k < r.win.off ∨ r.win.off + r.win.len ≤ k) → cell out.st b' k = cell st b' k) := by
  obtain ⟨st', h, w⟩ := engUnary_reuse' st g tc kt strict a r (by simpa using htc) (by simpa using hk) hia hir hr
    hlen hal hA hR
  exact ⟨_, h, rfl, rfl, w.sem1 (by rw [hlen]; exact hA.has)⟩

/-- Refusal by type class (`unaryCheck`): an error value, whatever the options; no state. -/
theorem engUnary_refuses (st : St) (g : UnF) (tc kt : List String) (strict : Bool) (a : Dense) (o : Opts)
    (h : a.dt ∉ tc) : engUnary st g tc kt strict a o = .error (.err "typeclass a") :=
  engUnary_refuses' st g tc kt strict a o (by simpa using h)

/-- the type classes of the generated unary methods: e.g. `Sqrt` admits exactly the float/complex types -/
example : (unaryClasses.lookup "sqrt") = some (floatcmplxTypes, floatcmplxTypes) := by decide

/-! ## the unary iterator kernel -/

/-- `E.<Op>Iter`: `a[i] = g a[i]` at every valid iterator offset; positions whose validity flag is
    clear (masked) are skipped; no other cell changes. -/
theorem kUnIter_sem (st : St) (a : Win) (g : UnF) (ia : ItS)
    (hr : InRange ia a.len) (hnd : (ia.map (·.1)).Nodup) (hA : InBuf st a.buf a.off a.len) :
    ∃ st', kUnIter st a g ia = .ok st' ∧ st'.mheap = st.mheap ∧
      (∀ i, (i, true) ∈ ia → ∃ x, cell st a.buf (a.off + i.toNat) = some x ∧
        cell st' a.buf (a.off + i.toNat) = some (g x)) ∧
      (∀ i, (i, false) ∈ ia → cell st' a.buf (a.off + i.toNat) = cell st a.buf (a.off + i.toNat)) ∧
      (∀ b' k', (b' ≠ a.buf ∨ ∀ i, (i, true) ∈ ia → k' ≠ a.off + i.toNat) → cell st' b' k' = cell st b' k') := by
  obtain ⟨st', h, hm, _, hv, hfr⟩ := kUnIter_spec st a g ia hr hnd hA.has
  refine ⟨st', h, hm, ?_, ?_, hfr⟩
  · intro i hi
    have := hr _ hi
    exact ⟨_, cell_some_cellD (hA.has.at this.1 this.2), hv i hi⟩
  · intro i hi
    apply hfr
    refine Or.inr (fun i' hi' he => ?_)
    have := nodup_fst_flag hnd hi hi'
    have h1 := hr _ hi
    have h2 := hr _ hi'
    simp only at h1 h2
    omega

/-! ## `StdEng.Map` (`Dense.Apply`) -/

/-- Safe mode, no reuse, on a non-view contiguous tensor: `g` is applied to a *clone* of the operand's
    data; the operand and every pre-existing buffer are untouched. -/
theorem engMap_safe (st : St) (g : UnF) (mt : List String) (a : Dense)
    (hmt : a.dt ∈ mt) (hmz : a.isMaterializable = false) (hia : a.requiresIterator = false)
    (hm : a.mask = none)
    (hA : InBuf st a.win.buf a.win.off a.win.len) :
    ∃ out c, engMap st g mt a {} = .ok out ∧ out.ret = .fresh c ∧ out.st.mheap = st.mheap ∧
      c.win = ⟨st.heap.size, 0, a.win.len, a.win.len⟩ ∧ c.ap.shape = a.shape ∧ c.dt = a.dt ∧
      (∀ i, i < a.win.len → ∃ x, cell st a.win.buf (a.win.off + i) = some x ∧
        cell out.st c.win.buf i = some (g x)) ∧
      (∀ b' k, b' < st.heap.size → cell out.st b' k = cell st b' k) := by
  obtain ⟨st', c, h, hm', hw, hs, hd, hv, hfr⟩ := engMap_safe' st g mt a (by simpa using hmt) hmz hia hm hA
  refine ⟨_, c, h, rfl, hm', hw, hs, hd, ?_, hfr⟩
  intro i hi
  rw [hw]
  exact ⟨_, cell_some_cellD (hA.has i hi), hv i hi⟩

/-- **`Apply(fn, WithReuse(r))`** (finding F34, repaired — the unguarded statement; no condition on what `r` holds
    before): the reuse tensor receives `g a[i]` (the operand's elements are copied into it, then the function is applied
    in place), it is returned (the same storage window), and nothing outside its window changes — in particular `a` is
    unchanged when it does not overlap `r`'s window. -/
theorem engMap_reuse (st : St) (g : UnF) (mt : List String) (a r : Dense)
    (hmt : a.dt ∈ mt) (hia : a.requiresIterator = false) (hir : r.requiresIterator = false)
    (hr : ReuseFits r a.shape a.dt a.ap.o.col) (hts : totalSize r.shape = totalSize a.shape)
    (hlen : r.win.len = a.win.len) (hal : sharesMemory a r = false ∨ sameAccess a r = true)
    (hA : InBuf st a.win.buf a.win.off a.win.len) (hR : InBuf st r.win.buf r.win.off r.win.len) :
    ∃ out r', engMap st g mt a { reuse := some r } = .ok out ∧ out.ret = .reuse ∧ out.reuse = some r' ∧
      r'.win = r.win ∧ out.st.mheap = st.mheap ∧
      (∀ i, i < r.win.len → ∃ x, cell st a.win.buf (a.win.off + i) = some x ∧
        cell out.st r.win.buf (r.win.off + i) = some (g x)) ∧
      (∀ b' k, (b' ≠ r.win.buf ∨ k < r.win.off ∨ r.win.off + r.win.len ≤ k) → cell out.st b' k = cell st b' k) := by
  obtain ⟨st', r', h, hw, w⟩ := engMap_reuse' st g mt a r (by simpa using hmt) hia hir hr hts hlen hal hA hR
  exact ⟨_, r', h, rfl, rfl, hw, w.sem1 (by rw [hlen]; exact hA.has)⟩

/-- **`Apply(fn, WithIncr(r))`** (finding F34, repaired): `r[i]` becomes `r[i] + g a[i]` — the function is applied to a
    clone of the operand, which is then added to the destination; the destination is returned; every other existing
    cell, the operand included, is unchanged. (bool has no addition: the call is refused.) -/
theorem engMap_incr (st : St) (g : UnF) (mt : List String) (a r : Dense)
    (hmt : a.dt ∈ mt) (hnb : a.dt ≠ "b") (hia : a.requiresIterator = false) (hir : r.requiresIterator = false)
    (hr : ReuseFits r a.shape a.dt a.ap.o.col) (hts : totalSize r.shape = totalSize a.shape)
    (hlen : r.win.len = a.win.len) (hm : a.mask = none) (hal : sharesMemory a r = false ∨ sameAccess a r = true)
    (hA : InBuf st a.win.buf a.win.off a.win.len) (hR : InBuf st r.win.buf r.win.off r.win.len) :
    ∃ out r', engMap st g mt a { incr := some r } = .ok out ∧ out.ret = .reuse ∧ out.reuse = some r' ∧
      r'.win = r.win ∧ out.st.mheap = st.mheap ∧
      (∀ i, i < r.win.len → ∃ x y, cell st a.win.buf (a.win.off + i) = some x ∧
        cell st r.win.buf (r.win.off + i) = some y ∧
        cell out.st r.win.buf (r.win.off + i) = some (.app2 "add" y (g x))) ∧
      (∀ b' k, b' < st.heap.size → (b' ≠ r.win.buf ∨ k < r.win.off ∨ r.win.off + r.win.len ≤ k) →
        cell out.st b' k = cell st b' k) := by
  obtain ⟨st', r', h, hw, hm', hv, hfr⟩ := engMap_incr' st g mt a r (by simpa using hmt) (by simpa using hnb) hia hir hr
    hts hlen hm hal hA hR
  refine ⟨_, r', h, rfl, rfl, hw, hm', ?_, hfr⟩
  intro i hi
  exact ⟨_, _, cell_some_cellD (hA.has i (by omega)), cell_some_cellD (hR.has i hi), hv i hi⟩

/-- increments on bool are refused (no addition), whatever the destination -/
theorem engMap_incr_bool_refused (st : St) (g : UnF) (mt : List String) (a r : Dense)
    (hmt : a.dt ∈ mt) (hb : a.dt = "b") (hia : a.requiresIterator = false) (hir : r.requiresIterator = false)
    (hr : ReuseFits r a.shape a.dt a.ap.o.col) (hts : totalSize r.shape = totalSize a.shape) (hm : a.mask = none)
    (hal : sharesMemory a r = false ∨ sameAccess a r = true)
    (hA : InBuf st a.win.buf a.win.off a.win.len) :
    ∃ e, engMap st g mt a { incr := some r } = .error (.err e) := by
  have hts' : (totalSize a.shape != totalSize r.shape) = false := by simp [hts]
  obtain ⟨s1, h1, _, _, hv1, _⟩ := clone_spec st a hm hA.lt hA.has
  have hHc : Has s1 st.heap.size 0 a.win.len := by
    intro i hi
    rw [Nat.zero_add, hv1 i hi]; rfl
  obtain ⟨s2, h2, _⟩ := kUn_spec s1 (cloneOf st a).win g hHc
  have hbb : (a.dt == "b") = true := by simp [hb]
  refine ⟨"Unsupported type for Add", ?_⟩
  unfold engMap mapKern
  simp only [hfo_incr _ _ _ _ _ _ hr, prepAliasT_keep _ _ _ hal, hts', hia, hir, hr.sameOrd, show mt.contains a.dt = true by simpa using hmt, h1, h2, hbb,
    bind, Except.bind, pure, Except.pure, throwErr,
    Bool.not_true, Bool.false_eq_true, if_false, Bool.or_false, Bool.not_false, if_true]

/-! ## generated unary methods on operands that need an iterator (views with gaps, pending transposes) -/

/-- **Layout-blind, safe mode**: the result is a fresh clone `c` of the operand (same access pattern over a copy of its
    storage window) in which every logical element - every cell the operand's iterator addresses - is `g` of the
    operand's element there; the cells of the window that are no elements of the operand (the gaps of a view) keep their
    value; the operand and every other pre-existing buffer are untouched. -/
theorem engUnary_safe_iter (st : St) (g : UnF) (tc kt : List String) (strict : Bool) (a : Dense)
    (htc : a.dt ∈ tc) (hk : a.dt ∈ kt) (hia : a.requiresIterator = true) (hm : a.mask = none)
    (hoa : ∀ i ∈ a.offsets, 0 ≤ i ∧ i < (a.win.len : Int)) (hnd : a.offsets.Nodup)
    (hA : InBuf st a.win.buf a.win.off a.win.len) :
    ∃ out c, engUnary st g tc kt strict a {} = .ok out ∧ out.ret = .fresh c ∧
      c.ap = { a.ap with fin := true } ∧ c.dt = a.dt ∧ c.win = ⟨st.heap.size, 0, a.win.len, a.win.len⟩ ∧
      c.offsets = a.offsets ∧ out.st.mheap = st.mheap ∧
      (∀ i ∈ a.offsets, ∃ x, cell st a.win.buf (a.win.off + i.toNat) = some x ∧
        cell out.st c.win.buf i.toNat = some (g x)) ∧
      (∀ m, m < a.win.len → (∀ i ∈ a.offsets, m ≠ i.toNat) →
        cell out.st c.win.buf m = cell st a.win.buf (a.win.off + m)) ∧
      (∀ b' k, b' < st.heap.size → cell out.st b' k = cell st b' k) := by
  obtain ⟨st', h, hm', hv, hrest, hfr⟩ := engUnary_safe_iter' st g tc kt strict a (by simpa using htc) (by simpa using hk)
    hia hm hoa hnd hA
  refine ⟨_, _, h, rfl, rfl, rfl, rfl, rfl, hm', ?_, ?_, hfr⟩
  · intro i hi
    have h1 := hoa i hi
    exact ⟨_, cell_some_cellD (hA.has.at h1.1 h1.2), hv i hi⟩
  · intro m hm1 hne
    show cell st' st.heap.size m = _
    rw [hrest m hm1 hne, cell_some_cellD (hA.has m hm1)]

/-- **… and `UseUnsafe()`**: exactly the operand's logical elements are replaced by `g` of themselves; every other
    cell - the gaps of the view and the rest of its parent included - keeps its value. -/
theorem engUnary_unsafe_iter (st : St) (g : UnF) (tc kt : List String) (strict : Bool) (a : Dense)
    (htc : a.dt ∈ tc) (hk : a.dt ∈ kt) (hia : a.requiresIterator = true) (hm : a.mask = none)
    (hoa : ∀ i ∈ a.offsets, 0 ≤ i ∧ i < (a.win.len : Int)) (hnd : a.offsets.Nodup)
    (hA : InBuf st a.win.buf a.win.off a.win.len) :
    ∃ out, engUnary st g tc kt strict a { unsafe_ := true } = .ok out ∧ out.ret = .a ∧ out.st.mheap = st.mheap ∧
      (∀ i ∈ a.offsets, ∃ x, cell st a.win.buf (a.win.off + i.toNat) = some x ∧
        cell out.st a.win.buf (a.win.off + i.toNat) = some (g x)) ∧
      (∀ b' k', (b' ≠ a.win.buf ∨ ∀ i ∈ a.offsets, k' ≠ a.win.off + i.toNat) → cell out.st b' k' = cell st b' k') := by
  obtain ⟨st', h, hm', hv, hfr⟩ := engUnary_unsafe_iter' st g tc kt strict a (by simpa using htc) (by simpa using hk)
    hia hm hoa hnd hA
  refine ⟨_, h, rfl, hm', ?_, hfr⟩
  intro i hi
  have h1 := hoa i hi
  exact ⟨_, cell_some_cellD (hA.has.at h1.1 h1.2), hv i hi⟩

namespace W
def st : St := { heap := #[#[.src 0 0, .src 0 1], #[.src 1 0, .src 1 1]] }
def a : Dense := { ap := { shape := [2], strides := [1] }, win := ⟨0, 0, 2, 2⟩, dt := "f64" }
def r : Dense := { ap := { shape := [2], strides := [1] }, win := ⟨1, 0, 2, 2⟩, dt := "f64" }
def g : UnF := fun x => .app1 "g" x
end W

/-- Concrete run of `a.Apply(g, WithReuse(r))` (the former witness of F34): cell 0 of `r` becomes `g a[0]`, the operand
    keeps its element. -/
theorem engMap_reuse_witness :
    ∃ out, engMap W.st W.g ["f64"] W.a { reuse := some W.r } = .ok out ∧
      cell out.st 1 0 = some (.app1 "g" (.src 0 0)) ∧ cell out.st 0 0 = some (.src 0 0) :=
  ⟨_, rfl, rfl, rfl⟩

/-- … and of `a.Apply(g, WithIncr(r))`: cell 0 of `r` becomes `r[0] + g a[0]`. -/
theorem engMap_incr_witness :
    ∃ out, engMap W.st W.g ["f64"] W.a { incr := some W.r } = .ok out ∧
      cell out.st 1 0 = some (.app2 "add" (.src 1 0) (.app1 "g" (.src 0 0))) ∧ cell out.st 0 0 = some (.src 0 0) :=
  ⟨_, rfl, rfl, rfl⟩

namespace AW
def st : St := { heap := #[#[.src 0 0, .src 0 1, .src 0 2, .src 0 3, .src 0 4, .src 0 5, .src 0 6, .src 0 7, .src 0 8]] }
def a : Dense := { ap := { shape := [3, 3], strides := [3, 1] }, win := ⟨0, 0, 9, 9⟩, dt := "f64" }
/-- the shallow clone of `a` with a pending transpose -/
def r : Dense := { ap := { shape := [3, 3], strides := [1, 3], o := { nonContig := true, transposed := true } },
                   old := some { shape := [3, 3], strides := [3, 1] }, tw := some [1, 0], win := ⟨0, 0, 9, 9⟩, dt := "f64" }
end AW

/-- **The destination is a transposed alias of the operand** (`r := a.ShallowClone(); r.T()` on a square matrix: the same
    storage window and shape, other strides - the witness `new f64 3,3 C ; shallow $0 ; T $1 - ; un neg $0 reuse=$1` of
    the repaired defect): `prepDataUnary` reads the operand from a copy, so `r` receives `g` of the operand's element at
    every *coordinate*: `r`'s coordinate (0,1) is cell 3 of the shared window and holds `g a[0,1] = g` of the former cell
    1; before the repair the copy into `r` read cells it had already overwritten. -/
theorem engUnary_reuse_alias_witness :
    ∃ out, engUnary AW.st (fun x => .app1 "g" x) floatTypes floatTypes true AW.a { reuse := some AW.r } = .ok out ∧
      cell out.st 0 3 = some (.app1 "g" (.src 0 1)) ∧ cell out.st 0 1 = some (.app1 "g" (.src 0 3)) ∧
      cell out.st 0 0 = some (.app1 "g" (.src 0 0)) ∧ cell out.st 0 5 = some (.app1 "g" (.src 0 7)) :=
  ⟨_, rfl, rfl, rfl, rfl, rfl⟩

/-- **`WithReuse(r)` on the iterator path** (operand or destination is a view with gaps / carries a pending transpose; the
    two live in different buffers): at every position `k` of the logical order the destination's cell receives `g` of
    the operand's element at `k` - by coordinate, whatever the two layouts; `r` is returned; nothing outside `r`'s buffer
    changes (the operand in particular). -/
theorem engUnary_reuse_iter (st : St) (g : UnF) (tc kt : List String) (strict : Bool) (a r : Dense)
    (htc : a.dt ∈ tc) (hk : a.dt ∈ kt)
    (hr : ReuseFits r a.shape a.dt a.ap.o.col)
    (hu : (a.requiresIterator || (r.requiresIterator || !sameOrd r a)) = true)
    (hma : a.mask = none) (hmr : r.mask = none) (hne : r.win.buf ≠ a.win.buf)
    (hcr : r.win.len ≤ r.win.cap) (hca : a.win.len ≤ a.win.cap)
    (hor : ∀ i ∈ r.offsets, 0 ≤ i ∧ i < (r.win.len : Int)) (hoa : ∀ j ∈ a.offsets, 0 ≤ j ∧ j < (a.win.len : Int))
    (hnd : r.offsets.Nodup)
    (hA : InBuf st a.win.buf a.win.off a.win.len) (hR : InBuf st r.win.buf r.win.off r.win.len) :
    ∃ out, engUnary st g tc kt strict a { reuse := some r } = .ok out ∧ out.ret = .reuse ∧ out.reuse = some r ∧
      out.st.mheap = st.mheap ∧
      (∀ (k : Nat) m j, r.offsets[k]? = some m → a.offsets[k]? = some j →
        ∃ x, cell st a.win.buf (a.win.off + j.toNat) = some x ∧
          cell out.st r.win.buf (r.win.off + m.toNat) = some (g x)) ∧
      (∀ b' k', b' ≠ r.win.buf → cell out.st b' k' = cell st b' k') := by
  obtain ⟨st', h, hm, hv, hfr⟩ := engUnary_reuse_iter' st g tc kt strict a r (by simpa using htc) (by simpa using hk) hr
    hu hma hmr hne hcr hca hor hoa hnd hA hR
  refine ⟨_, h, rfl, rfl, hm, ?_, hfr⟩
  intro k m j hk' hj
  have hj' := hoa j (List.mem_of_getElem? hj)
  exact ⟨_, cell_some_cellD (hA.has.at hj'.1 hj'.2), hv k m j hk' hj⟩

/-- **The destination aliases the operand through another access pattern - every shape** (finding F123, repaired). When the
    reuse tensor `r` shares memory with the operand `a` without addressing exactly its cells in its sequence (a shallow
    clone with a pending transpose, an overlapping window of one parent), the operand is read from a copy: at every
    position `k` of the logical order `r`'s cell receives `g` of the element `a` held at `k` *before the call*, i.e. the
    safe-mode value by coordinate; nothing outside `r`'s buffer changes. -/
theorem engUnary_reuse_alias (st : St) (g : UnF) (tc kt : List String) (strict : Bool) (a r : Dense)
    (htc : a.dt ∈ tc) (hk : a.dt ∈ kt)
    (hr : ReuseFits r a.shape a.dt a.ap.o.col)
    (hsh : sharesMemory a r = true) (hsa : sameAccess a r = false)
    (hu : (a.requiresIterator || (r.requiresIterator || !sameOrd r a)) = true)
    (hma : a.mask = none) (hmr : r.mask = none) (hcr : r.win.len ≤ r.win.cap)
    (hor : ∀ i ∈ r.offsets, 0 ≤ i ∧ i < (r.win.len : Int)) (hoa : ∀ j ∈ a.offsets, 0 ≤ j ∧ j < (a.win.len : Int))
    (hnd : r.offsets.Nodup)
    (hA : InBuf st a.win.buf a.win.off a.win.len) (hR : InBuf st r.win.buf r.win.off r.win.len) :
    ∃ out, engUnary st g tc kt strict a { reuse := some r } = .ok out ∧ out.ret = .reuse ∧ out.reuse = some r ∧
      out.st.mheap = st.mheap ∧
      (∀ (k : Nat) m j, r.offsets[k]? = some m → a.offsets[k]? = some j →
        ∃ x, cell st a.win.buf (a.win.off + j.toNat) = some x ∧
          cell out.st r.win.buf (r.win.off + m.toNat) = some (g x)) ∧
      (∀ b' k', b' < st.heap.size → b' ≠ r.win.buf → cell out.st b' k' = cell st b' k') := by
  obtain ⟨st', h, hm, hv, hfr⟩ := engUnary_reuse_alias' st g tc kt strict a r (by simpa using htc) (by simpa using hk) hr
    hsh hsa hu hma hmr hcr hor hoa hnd hA hR
  refine ⟨_, h, rfl, rfl, hm, ?_, hfr⟩
  intro k m j hk' hj
  have hj' := hoa j (List.mem_of_getElem? hj)
  exact ⟨_, cell_some_cellD (hA.has.at hj'.1 hj'.2), hv k m j hk' hj⟩

/-- its hypotheses hold for the transposed alias of a 3×3 matrix -/
example := engUnary_reuse_alias AW.st (fun x => .app1 "g" x) floatTypes floatTypes true AW.a AW.r (by decide) (by decide)
  ⟨rfl, by decide, by decide, rfl⟩ (by decide) (by decide) (by decide) rfl rfl (by decide) (by decide) (by decide) (by decide)
  ⟨_, rfl, by decide⟩ ⟨_, rfl, by decide⟩

/-- **Coordinate-wise, end to end** (safe mode, an operand that needs an iterator): for a well-formed operand (C13: its
    pattern covers its window and addresses distinct cells) the result is a clone with the operand's own access pattern
    in which, **for every coordinate `c`**, the cell addressed at `c` holds `g` of the operand's element at `c`. -/
theorem engUnary_safe_iter_coordinatewise (st : St) (g : UnF) (tc kt : List String) (strict : Bool) (a : Dense)
    (htc : a.dt ∈ tc) (hk : a.dt ∈ kt) (hia : a.requiresIterator = true) (hm : a.mask = none)
    (hca : C13.Covers a.ap (a.win.len : Int)) (hinj : InjectivePat a.ap.shape a.ap.strides)
    (hA : InBuf st a.win.buf a.win.off a.win.len) :
    ∃ out c, engUnary st g tc kt strict a {} = .ok out ∧ out.ret = .fresh c ∧ c.ap = { a.ap with fin := true } ∧
      (∀ co ∈ allCoords a.ap.shape, ∃ x, cell st a.win.buf (a.win.off + (dot co a.ap.strides).toNat) = some x ∧
        cell out.st c.win.buf (dot co a.ap.strides).toNat = some (g x)) ∧
      (∀ b' k, b' < st.heap.size → cell out.st b' k = cell st b' k) := by
  obtain ⟨hoa, hnd⟩ := C13.wf_offsets a a.win.len hca hinj
  obtain ⟨out, c, h, hret, hap, _, _, _, _, hv, _, hfr⟩ := engUnary_safe_iter st g tc kt strict a htc hk hia hm hoa hnd hA
  refine ⟨out, c, h, hret, hap, ?_, hfr⟩
  have eoa : a.offsets = (allCoords a.ap.shape).map (fun c => dot c a.ap.strides) := by
    unfold Dense.offsets; exact offsets_rowmajor a.ap hca.1 hca.2.2.1
  intro co hco
  exact hv (dot co a.ap.strides) (by rw [eoa]; exact List.mem_map.mpr ⟨co, hco, rfl⟩)

/-- **In place through a view, by coordinate, end to end** (unary operations, `Clamp`): for a well-formed operand that needs
    an iterator, `UseUnsafe()` replaces, for every coordinate `c`, the element at `c` by `g` of itself, and no cell that
    is not addressed by a coordinate of the operand changes (gaps of the view, the rest of its parent, other buffers). -/
theorem engUnary_unsafe_iter_coordinatewise (st : St) (g : UnF) (tc kt : List String) (strict : Bool) (a : Dense)
    (htc : a.dt ∈ tc) (hk : a.dt ∈ kt) (hia : a.requiresIterator = true) (hm : a.mask = none)
    (hca : C13.Covers a.ap (a.win.len : Int)) (hinj : InjectivePat a.ap.shape a.ap.strides)
    (hA : InBuf st a.win.buf a.win.off a.win.len) :
    ∃ out, engUnary st g tc kt strict a { unsafe_ := true } = .ok out ∧ out.ret = .a ∧
      (∀ co ∈ allCoords a.ap.shape, ∃ x, cell st a.win.buf (a.win.off + (dot co a.ap.strides).toNat) = some x ∧
        cell out.st a.win.buf (a.win.off + (dot co a.ap.strides).toNat) = some (g x)) ∧
      (∀ b' k', (b' ≠ a.win.buf ∨ ∀ co ∈ allCoords a.ap.shape, k' ≠ a.win.off + (dot co a.ap.strides).toNat) →
        cell out.st b' k' = cell st b' k') := by
  obtain ⟨hoa, hnd⟩ := C13.wf_offsets a a.win.len hca hinj
  obtain ⟨out, h, hret, _, hv, hfr⟩ := engUnary_unsafe_iter st g tc kt strict a htc hk hia hm hoa hnd hA
  have eoa : a.offsets = (allCoords a.ap.shape).map (fun c => dot c a.ap.strides) := by
    unfold Dense.offsets; exact offsets_rowmajor a.ap hca.1 hca.2.2.1
  refine ⟨out, h, hret, ?_, ?_⟩
  · intro co hco
    exact hv (dot co a.ap.strides) (by rw [eoa]; exact List.mem_map.mpr ⟨co, hco, rfl⟩)
  · intro b' k' hbk
    apply hfr
    rcases hbk with hb | hk'
    · exact Or.inl hb
    · refine Or.inr ?_
      intro i hi
      rw [eoa] at hi
      obtain ⟨co, hco, rfl⟩ := List.mem_map.mp hi
      exact hk' co hco

/-! ## non-vacuity -/
namespace Ex
def st : St := { heap := #[#[.src 0 0, .src 0 1, .src 0 2, .src 0 3], #[.src 1 0, .src 1 1, .src 1 2, .src 1 3]] }
def ta : Dense := { ap := { shape := [2, 2], strides := [2, 1] }, win := ⟨0, 0, 4, 4⟩, dt := "f64" }
def tr : Dense := { ap := { shape := [2, 2], strides := [2, 1] }, win := ⟨1, 0, 4, 4⟩, dt := "f64" }
def g : UnF := fun x => .app1 "g" x
theorem inA : InBuf st 0 0 4 := ⟨_, rfl, by decide⟩
theorem inR : InBuf st 1 0 4 := ⟨_, rfl, by decide⟩
theorem fits : ReuseFits tr ta.shape ta.dt ta.ap.o.col := ⟨rfl, by decide, by decide, rfl⟩

example := engUnary_safe st g floatTypes floatTypes true ta (by decide) (by decide) (by decide) rfl inA
example := engUnary_unsafe st g floatTypes floatTypes true ta (by decide) (by decide) (by decide) inA
example := engUnary_reuse st g floatTypes floatTypes true ta tr (by decide) (by decide) (by decide) (by decide)
  fits rfl (by decide) inA inR
example := engUnary_refuses st g floatTypes floatTypes true { ta with dt := "i" } {} (by decide)
example := kUnIter_sem st ⟨0, 0, 4, 4⟩ g [(0, true), (2, false), (1, true)] (by unfold InRange; decide) (by decide) inA
example := engMap_safe st g ["f64"] ta (by decide) (by decide) (by decide) rfl inA
example := engMap_reuse st g ["f64"] ta tr (by decide) (by decide) (by decide) fits rfl rfl (by decide) inA inR
/-- the destination may be the operand itself -/
example := engMap_reuse st g ["f64"] ta ta (by decide) (by decide) (by decide)
  ⟨rfl, by decide, by decide, rfl⟩ rfl rfl (by decide) inA inA
example := engMap_incr st g ["f64"] ta tr (by decide) (by decide) (by decide) (by decide) fits rfl rfl rfl (by decide) inA inR
-- the end-to-end form on a lazily transposed (2,2) tensor
def taT : Dense := { ap := { shape := [2, 2], strides := [1, 2] }, old := some { shape := [2, 2], strides := [2, 1] }, tw := some [1, 0],
                     win := ⟨0, 0, 4, 4⟩, dt := "f64" }
example := engUnary_safe_iter_coordinatewise st g floatTypes floatTypes true taT (by decide) (by decide) (by decide) rfl
  ⟨rfl, by decide, by decide, by decide⟩ (by
    have h := C13.T_distinct [1, 0] [2, 2] [2, 1] (by decide) rfl (C13.default_distinct [2, 2])
    simpa [gatherI, taT] using h) inA
example := engUnary_unsafe_iter_coordinatewise st g floatTypes floatTypes true taT (by decide) (by decide) (by decide) rfl
  ⟨rfl, by decide, by decide, by decide⟩ (by
    have h := C13.T_distinct [1, 0] [2, 2] [2, 1] (by decide) rfl (C13.default_distinct [2, 2])
    simpa [gatherI, taT] using h) inA
-- iterator path: a (1,3) view with a gap after every element (offsets 0, 2, 4 of a 5-cell window)
def st6 : St := { heap := #[#[.src 0 0, .src 0 1, .src 0 2, .src 0 3, .src 0 4, .src 0 5]] }
def tv : Dense := { ap := { shape := [1, 3], strides := [6, 2], o := { nonContig := true } }, win := ⟨0, 0, 5, 6⟩,
                    dt := "f64", view := true }
example : tv.offsets = [0, 2, 4] := by decide
example := engUnary_safe_iter st6 g floatTypes floatTypes true tv (by decide) (by decide) (by decide) rfl (by decide)
  (by decide) ⟨_, rfl, by decide⟩
example := engUnary_unsafe_iter st6 g floatTypes floatTypes true tv (by decide) (by decide) (by decide) rfl (by decide)
  (by decide) ⟨_, rfl, by decide⟩
/-- the run: the elements of the view become `g` of themselves, the gap cells 1 and 3 and the parent's cell 5 stay -/
example : ∃ out, engUnary st6 g floatTypes floatTypes true tv { unsafe_ := true } = .ok out ∧
    cell out.st 0 0 = some (.app1 "g" (.src 0 0)) ∧ cell out.st 0 1 = some (.src 0 1) ∧
    cell out.st 0 2 = some (.app1 "g" (.src 0 2)) ∧ cell out.st 0 5 = some (.src 0 5) := ⟨_, rfl, rfl, rfl, rfl, rfl⟩
/-- `engUnary_reuse_iter`: the (1,3) view with gaps into a contiguous (1,3) destination -/
def str6 : St := { heap := #[#[.src 0 0, .src 0 1, .src 0 2, .src 0 3, .src 0 4, .src 0 5], #[.src 1 0, .src 1 1, .src 1 2]] }
def trv : Dense := { ap := { shape := [1, 3], strides := [3, 1] }, win := ⟨1, 0, 3, 3⟩, dt := "f64" }
example := engUnary_reuse_iter str6 g floatTypes floatTypes true tv trv (by decide) (by decide) ⟨rfl, by decide, by decide, rfl⟩
  (by decide) rfl rfl (by decide) (by decide) (by decide) (by decide) (by decide) (by decide) ⟨_, rfl, by decide⟩ ⟨_, rfl, by decide⟩
example := engMap_incr_bool_refused st g ["b"] { ta with dt := "b" } { tr with dt := "b" } (by decide) rfl (by decide)
  (by decide) ⟨rfl, by decide, by decide, rfl⟩ rfl rfl (by decide) inA
end Ex

end TM.C12
