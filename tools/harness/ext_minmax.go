package main

import (
	"fmt"
	"strings"

	"gorgonia.org/tensor"
)

func init() {
	extSteps["mmb"] = func(p *prog, idx int, toks []string) *rec { return p.stepMinMax(toks) }
}

// stepMinMax: `mmb <minb|maxb> <fn|meth> A B opts…` — MinBetween / MaxBetween.
func (p *prog) stepMinMax(toks []string) *rec {
	if len(toks) < 5 {
		return simple("badprog")
	}
	op, via, at, bt := toks[1], toks[2], toks[3], toks[4]
	opts, ok := p.parseFuncOpts(toks[5:])
	if !ok || (op != "minb" && op != "maxb") {
		p.push(nil, nil)
		return simple("skip")
	}
	var a, b interface{}
	var ad, bd *tensor.Dense
	var adt, bdt *dtInfo
	if strings.HasPrefix(at, "$") {
		if ad, adt = p.get(at); ad == nil {
			p.push(nil, nil)
			return simple("skip")
		}
		a = ad
	}
	if strings.HasPrefix(bt, "$") {
		if bd, bdt = p.get(bt); bd == nil {
			p.push(nil, nil)
			return simple("skip")
		}
		b = bd
	}
	var err error
	if a == nil {
		if a, err = scalarLit(at, bdt); err != nil {
			p.push(nil, nil)
			return simple("skip")
		}
	}
	if b == nil {
		if b, err = scalarLit(bt, adt); err != nil {
			p.push(nil, nil)
			return simple("skip")
		}
	}
	return p.finishTensorOp(func() (*tensor.Dense, error) {
		var ret tensor.Tensor
		var err error
		if via == "meth" {
			// *Dense has no MinBetween method: the engine entry points are the "method" route
			e := tensor.StdEng{}
			switch {
			case ad != nil && bd != nil && op == "minb":
				ret, err = e.MinBetween(ad, bd, opts...)
			case ad != nil && bd != nil:
				ret, err = e.MaxBetween(ad, bd, opts...)
			case ad != nil && op == "minb":
				ret, err = e.MinBetweenScalar(ad, b, true, opts...)
			case ad != nil:
				ret, err = e.MaxBetweenScalar(ad, b, true, opts...)
			case bd != nil && op == "minb":
				ret, err = e.MinBetweenScalar(bd, a, false, opts...)
			case bd != nil:
				ret, err = e.MaxBetweenScalar(bd, a, false, opts...)
			default:
				return nil, fmt.Errorf("no tensor operand")
			}
		} else if op == "minb" {
			ret, err = tensor.MinBetween(a, b, opts...)
		} else {
			ret, err = tensor.MaxBetween(a, b, opts...)
		}
		if err != nil {
			return nil, err
		}
		d, ok := ret.(*tensor.Dense)
		if !ok {
			return nil, fmt.Errorf("not dense")
		}
		return d, nil
	})
}
