import TensorModel.Dense
/-!
  Copies and whole-tensor writes: `Clone`, `ShallowClone`, `Materialize`, `SafeT`, `RollAxis`,
  `Memset`, `Zero`, `tensor.Copy`, `CopyTo`, `Reshape` (dense.go, dense_views.go, dense_matop.go,
  array.go, api_matop.go, internal/storage/header.go).
-/
namespace TM
namespace Dense

/-- `copy(dst.Raw, src.Raw)`: the common prefix of the two windows. -/
def rawCopy (s : St) (dst src : Win) : Res St := do
  let n := min dst.len src.len
  let vals ← (rangeI n).mapM (fun i => s.get src i)
  let rec wr (s : St) (j : Int) : List Val → Res St
    | [] => .ok s
    | v :: vs => do
      let s ← s.set dst j v
      wr s (j + 1) vs
  wr s 0 vals

/-- mask part of `copyDense` (both sides walked in storage order): the source mask is copied in
    *storage* order into a destination mask (allocated when too small). -/
def copyMask (s : St) (dst src : Dense) : Res (St × Dense) := do
  match src.mask with
  | none => pure (s, dst)
  | some sm =>
    if !src.isMasked then pure (s, dst) else
    let svals ← (rangeI sm.len).mapM (fun i => s.mget sm i)
    let dcap := match dst.mask with | some m => m.cap | none => 0
    if dcap < sm.len then
      -- dmask = make([]bool, len(smask)); copy(dmask, old); SetMask(dmask); copy(dmask, smask)
      let (s, b) := s.allocMask svals.toArray
      pure (s, { dst with mask := some ⟨b, 0, sm.len, sm.len⟩ })
    else
      match dst.mask with
      | none => pure (s, dst)
      | some dm =>
        let n := min dm.len sm.len
        let rec wr (s : St) (j : Int) : List Bool → Res St
          | [] => .ok s
          | v :: vs => do
            if j ≥ n then .ok s else
            let s ← s.mset dm j v
            wr s (j + 1) vs
        let s ← wr s 0 svals
        pure (s, dst)

/-- `copyDense(dst, src)` -/
def copyDense (s : St) (dst src : Dense) : Res (St × Dense) := do
  let (s, dst) ← copyMask s dst src
  let s ← rawCopy s dst.win src.win
  pure (s, dst)

/-- `storage.CopyIter`: pairwise along both iterators until either is exhausted. -/
def copyIterOffsets (s : St) (dst src : Win) : List Int → List Int → Res St
  | i :: is, j :: js => do
    -- copy(dstBA[i:i+size], srcBA[j:j+size]) : slice bounds are checked against the *capacity*
    if i < 0 || j < 0 || i ≥ dst.cap || j ≥ src.cap then throwPanic "CopyIter: slice bounds out of range" else
    let v ← (match s.heap[src.buf]? with
      | some b => (match b[src.off + j.toNat]? with | some v => pure v | none => throwPanic "src")
      | none => throwPanic "src" : Res Val)
    match s.heap[dst.buf]? with
    | some b =>
      if dst.off + i.toNat < b.size then
        copyIterOffsets { s with heap := s.heap.set! dst.buf (b.set! (dst.off + i.toNat) v) } dst src is js
      else throwPanic "dst"
    | none => throwPanic "dst"
  | _, _ => .ok s

def sameOrder (a b : Dense) : Bool := a.ap.o.col == b.ap.o.col

/-- `dmask[i] = smask[j]` pairwise along both (reset) iterators until either is exhausted -/
def copyMaskOffsets (s : St) (dm sm : Win) : List Int → List Int → Res St
  | i :: is, j :: js => do
    let v ← s.mget sm j
    let s ← s.mset dm i v
    copyMaskOffsets s dm sm is js
  | _, _ => .ok s

/-- mask part of `copyDenseIter` on the iterator path (after the elements): when the source is
    masked, a destination mask shorter than the destination data is replaced by a fresh one of the
    data's length (old entries kept), then the mask is copied like the elements — entry by entry along
    both iterators. -/
def copyMaskIter (s : St) (dst src : Dense) (doffs soffs : List Int) : Res (St × Dense) := do
  if !src.isMasked then pure (s, dst) else
  let sm : Win := match src.mask with | some m => m | none => ⟨0, 0, 0, 0⟩
  let dm0 : Win := match dst.mask with | some m => m | none => ⟨0, 0, 0, 0⟩
  let (s, dst, dm) ← (if dm0.len < dst.win.len then do
      -- dmask = make([]bool, dst.len()); copy(dmask, md.Mask()); md.SetMask(dmask)
      let old ← (rangeI dm0.len).mapM (fun i => s.mget dm0 i)
      let (s, b) := s.allocMask (old ++ List.replicate (dst.win.len - dm0.len) false).toArray
      let dm : Win := ⟨b, 0, dst.win.len, dst.win.len⟩
      pure (s, { dst with mask := some dm }, dm)
    else pure (s, dst, dm0) : Res (St × Dense × Win))
  let s ← copyMaskOffsets s dm sm doffs soffs
  pure (s, dst)

/-- `copyDenseIter(dst, src, nil, nil)` -/
def copyDenseIter (s : St) (dst src : Dense) : Res (St × Dense) := do
  if !dst.requiresIterator && !src.requiresIterator && sameOrder dst src then copyDense s dst src else
  let s ← copyIterOffsets s dst.win src.win dst.offsets src.offsets
  copyMaskIter s dst src dst.offsets src.offsets

/-- `Clone()` -/
def clone (s : St) (t : Dense) : Res (St × Dense) := do
  let (s, b) := s.alloc (Array.replicate t.win.len Val.zero)
  let r : Dense := { ap := { t.ap with fin := true }, old := t.old, tw := t.tw,
                     win := ⟨b, 0, t.win.len, t.win.len⟩, dt := t.dt, eng := t.eng }
  copyDense s r t

/-- `Materialize()`: `none` = the tensor itself is returned. -/
def materialize (s : St) (t : Dense) : Res (St × Option Dense) := do
  if !t.isMaterializable then pure (s, none) else
  let n := (totalSize t.shape).toNat
  -- recycledDense(dt, shape): row-major strides, fresh zeroed buffer; sanity() needs len = size
  let (s, r) := fresh s t.dt t.shape false (Array.replicate (if t.shape.isEmpty then 1 else n) Val.zero) t.eng
  let (s, r) ← copyDenseIter s r t
  pure (s, some r)

/-- `SafeT(axes...)` -/
def safeT (s : St) (t : Dense) (axes : List Int) : Res (St × Dense) := do
  let (transform, axes) ← (match ← t.ap.T axes with
    | .noop ap ax => pure (ap, ax)
    | .ok ap ax => pure (ap, ax) : Res (AP × List Int))
  -- recycledDense(dt, Shape{t.len()}) then copyDense
  if t.win.len == 0 then throwPanic "empty" else
  let (s, b) := s.alloc (Array.replicate t.win.len Val.zero)
  let r0 : Dense := { ap := { shape := [t.win.len], strides := [1], fin := true }, win := ⟨b, 0, t.win.len, t.win.len⟩,
                      dt := t.dt, eng := t.eng }
  let (s, r) ← copyDense s r0 t
  -- `t` lazily transposed itself: the restored pattern does not visit the (unmoved) storage in order
  let oldAP : AP := if t.old.isSome then { t.ap with o := { t.ap.o with nonContig := true } } else t.ap
  pure (s, { r with ap := transform, old := some oldAP, tw := some axes })

/-- axes vector built by `RollAxis(axis, start)`; `none` = the tensor itself is returned. -/
def rollAxes (dims : Nat) (axis start : Int) : Res (Option (List Int)) := do
  if !(axis ≥ 0 && axis < dims) then throwErr "invalidAxis"
  if !(start ≥ 0 && start ≤ dims) then throwErr "invalidAxis start"
  let start := if axis < start then start - 1 else start
  if axis == start then return none
  -- axes = 0..dims-1; remove `axis`; insert at `start`
  let base := (rangeI dims).filter (· != axis)
  let a := base.take start.toNat ++ [axis] ++ base.drop start.toNat
  return some a

/-- `Memset(x)` -/
def memset (s : St) (t : Dense) (v : Val) : Res St := do
  let offs := if t.isMaterializable then t.offsets else rangeI t.win.len
  offs.foldlM (fun s i => s.set t.win i v) s

/-- the mask positions `ResetMask` writes: the storage offsets of the tensor's own elements for a view or a pending
    transpose (`if t.IsMaterializable() { it := newFlatIterator(&t.AP) … t.mask[i] = fillValue }`), the whole mask window
    otherwise (`memsetBools(t.mask, fillValue)`) -/
def maskResetOffsets (t : Dense) (m : Win) : List Int := if t.isMaterializable then t.offsets else rangeI m.len

/-- the fill loop of `ResetMask` on the mask window `m` -/
def resetMaskBits (s : St) (t : Dense) (m : Win) (v : Bool) : Res St :=
  (t.maskResetOffsets m).foldlM (fun s i => s.mset m i v) s

/-- `Zero()` (with the `fix:` of the view case): mask reset (`ResetMask()`), then element zeroing. -/
def zero (s : St) (t : Dense) : Res St := do
  let s ← (match t.mask with
    | some m => if t.isMasked then resetMaskBits s t m false else pure s
    | none => pure s : Res St)
  memset s t Val.zero

/-- `tensor.Copy(dst, src)` -/
def copy (s : St) (dst src : Dense) : Res (St × Dense) := do
  if dst.dt != src.dt then throwPanic "Cannot copy different types" else
  if src.requiresIterator || dst.requiresIterator || !sameOrder dst src then copyDenseIter s dst src
  else copyDense s dst src

/-- `t.CopyTo(other)` (distinct objects) -/
def copyTo (s : St) (t other : Dense) : Res (St × Dense) := do
  if other.size != t.size then throwErr "sizeMismatch"
  if !t.view && !other.view then
    if other.dt != t.dt then throwPanic "Cannot copy different types" else copyDense s other t
  else throwErr "NYI views"

/-- `hasDefaultLayout()`: the storage window holds exactly the tensor's elements, under the default strides of its
    shape and order flag (`AP.calcStrides`) -/
def hasDefaultLayout (t : Dense) : Bool :=
  (t.win.len : Int) == totalSize t.shape && t.ap.strides == defaultStrides t.ap.o.col t.shape

/-- `compacted()`: `newDenseLike(t.e, t.t, t)` (a fresh zeroed array of `Size()` cells, default strides of the
    tensor's data order, order flag only) filled by `copyDenseIter` -/
def compacted (s : St) (t : Dense) : Res (St × Dense) := do
  let n := if t.shape.isEmpty then 1 else (totalSize t.shape).toNat
  let (s, r) := fresh s t.dt t.shape t.ap.o.col (Array.replicate n Val.zero) t.eng
  copyDenseIter s r t

/-- `compact()`: the tensor takes over the array, the mask and the order flags of its compacted copy;
    `setShape(shape...)` installs the default strides -/
def compact (s : St) (t : Dense) : Res (St × Dense) := do
  let (s, p) ← compacted s t
  pure (s, { t with win := p.win, mask := p.mask, ap := { t.ap with o := p.ap.o, strides := p.ap.strides, fin := true } })

/-- `isDefaultLayout(ap, n)`: an array of `n` cells read through `ap` is exactly the elements `ap` describes, under
    the default strides of its shape and order flag -/
def isDefaultLayout (ap : AP) (n : Nat) : Bool :=
  (n : Int) == totalSize ap.shape && ap.strides == defaultStrides ap.o.col ap.shape

/-- `for i, d := range expShape { if d != 1 && i < len(expStrides) && i < len(strides) { expStrides[i] = strides[i] } }` -/
def vectorKeepStrides : Shape → List Int → List Int → List Int
  | d :: ds, e :: es, s :: ss => (if d != 1 then s else e) :: vectorKeepStrides ds es ss
  | _, es, _ => es

/-- `(*Dense).Transpose()`: physically move the data of a pending lazy transpose. -/
def transpose (s : St) (t : Dense) : Res (St × Dense) := do
  match t.old with
  | none => pure (s, t)
  | some o =>
    if isScalar t.shape then pure (s, t) else
    let exp := defaultStrides t.ap.o.col t.shape
    let done : Dense := { t with ap := { t.ap with strides := copyPrefix t.ap.strides exp }, old := none, tw := none }
    -- the tensor owns its data, but the array is not in the default layout of the shape it had before `T()` (the
    -- clone of a non-contiguous view, the `SafeT()` of a transposed tensor): `compact()` collects the elements by
    -- coordinate, under the current pattern, into a new array; neither engine is asked
    if !t.view && !isDefaultLayout o t.win.len then do
      let (s, c) ← compact s t
      pure (s, { c with ap := { c.ap with strides := copyPrefix c.ap.strides exp }, old := none, tw := none })
    else
    -- a vector: no data movement, the axis that holds the elements keeps the stride it has
    if isVector t.shape then
      pure (s, { done with ap := { t.ap with strides := copyPrefix t.ap.strides (vectorKeepStrides t.shape exp t.ap.strides) } })
    else
    let s ← gatherCopyMask s t
    let s ← gatherCopy s t
    pure (s, done)

/-- `UT()` -/
def ut (t : Dense) : Dense :=
  match t.old with
  | some o => { t with ap := o, old := none, tw := none }
  | none => t

/-- `T(axes...)` -/
def T (s : St) (t : Dense) (axes : List Int) : Res (St × Dense) := do
  match ← t.ap.T axes with
  | .noop _ _ => pure (s, t)
  | .ok transform axes =>
    match t.old with
    | none => pure (s, { t with old := some t.ap, tw := some axes, ap := transform })
    | some _ =>
      if isVector t.shape then pure (s, t.ut) else
      -- "is this the undo of the pending transpose?": transposeWith[axes[i]] == i for all i
      let tw := t.tw.getD []
      let isReversed := axes.length == tw.length &&
        (List.range axes.length).all (fun i => match axes[i]? with
          | some a => decide (0 ≤ a) && getI? tw a == some (Int.ofNat i)
          | none => false)
      if isReversed then pure (s, t.ut) else
      let (s, t') ← transpose s t
      -- the data has moved: the transform is recomputed from the materialised pattern
      match ← t'.ap.T axes with
      | .noop _ _ => pure (s, t')
      | .ok transform axes => pure (s, { t' with old := some t'.ap, tw := some axes, ap := transform })

inductive ReshapeRes where
  | ok (s : St) (t : Dense)
  | errKept (t : Dense)          -- an error is returned and the tensor is as given
  | errMutated (s : St) (t : Dense)  -- an error is returned *after* the metadata was overwritten

/-- `Reshape(dims...)` -/
def reshape (s : St) (t : Dense) (dims : List Int) : Res ReshapeRes := do
  if totalSize t.shape != totalSize dims then return .errKept t
  if t.view && t.ap.o.nonContig then return .errKept t
  let (s, t) ← (if t.old.isSome then transpose s t else pure (s, t) : Res (St × Dense))
  -- a tensor that owns its data but does not hold it in the default layout of its shape is compacted first
  let (s, t) ← (if !t.view && !t.hasDefaultLayout then compact s t else pure (s, t) : Res (St × Dense))
  -- setShape: new shape, default strides for the order; flags kept
  let t' : Dense := { t with ap := { t.ap with shape := dims, strides := if dims.isEmpty then [] else defaultStrides t.ap.o.col dims, fin := true } }
  -- sanity(): non-view, non-scalar: len must equal size
  if !t'.view && (t'.win.len : Int) != totalSize dims && !dims.isEmpty then return .errMutated s t'
  return .ok s t'

end Dense
end TM
