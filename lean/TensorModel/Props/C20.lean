import TensorModel.Run
import TensorModel.Proofs.Views
import TensorModel.Proofs.Builds
import TensorModel.Generated.Core
import TensorModel.Proofs.OperandCopy
/-!
  C20 — alternative engines and build configurations are observationally equivalent.
  Property theorems only (helper lemmas: `Proofs/Builds.lean`, `Proofs/Views.lean`).

  * build `noasm`: `divmod_amd64.s` (its instruction list is regenerated from the source on every
    run, `Generated/DivmodAsm.lean`) computes exactly what `mathutils_go.go` computes, for every
    pair of 64-bit operands, and faults exactly where Go panics;
  * engines: `Float64Engine` / `Float32Engine` `Add` and `FMA` (model `Ext/Engines.lean`) coincide
    with the default engine (model `Eng.lean`): `Add` defers to it whenever an operand needs an
    iterator, the shapes differ or the data orders differ, and equals it on the raw-storage path;
    `FMA` refuses operands of different shapes like the default engine and equals its `Mul(…, WithIncr(y))` for
    every layout of unmasked operands - iterator path and fused raw kernel, operands overlapping the increment
    tensor included (`floatFMA_eq_std_all`; `floatFMA_eq_std` is the contiguous case without the mask hypothesis);
    `FMAScalar` equals `MulScalar(…, WithIncr(y))` on the contiguous path (the former exception F37 — no shape /
    order check — is repaired);
  * build `inplacetranspose`: not modelled separately — the single model is compared with all three
    builds by the correspondence run (see DESIGN.md §4 C20).
-/
set_option linter.unusedSimpArgs false
namespace TM.C20
open TM TM.Asm TM.Generated

/-! ## `divmod`: assembly = pure Go -/

/-- every instruction of the regenerated list is understood by the machine model -/
theorem divmod_asm_no_unknown : divmodAsm.all (fun i => match i with | .unknown _ => false | _ => true) = true := by
  decide

/-- `b ≠ 0`: the assembly returns with `q = a / b`, `r = a % b` (Go semantics: truncated, `MinInt / -1 = MinInt`,
    `MinInt % -1 = 0`) and the argument slots untouched, from any entry state. -/
theorem divmod_asm_spec (regs : Reg → BitVec 64) (q0 r0 : BitVec 64) (zf dx : Bool) (a b : BitVec 64) (hb : b ≠ 0#64) :
    (runDivmod regs q0 r0 zf dx a b).frame = some (a.sdiv b, a.srem b, a, b) := by
  by_cases h1 : b = BitVec.allOnes 64
  · subst h1; exact divmod_asm_neg_one regs q0 r0 zf dx a
  · exact divmod_asm_general regs q0 r0 zf dx a b hb h1

/-- `b = 0`: the assembly faults (`IDIVQ` by zero → the runtime's divide panic), as `a / 0` does in Go. -/
theorem divmod_asm_zero_faults (regs : Reg → BitVec 64) (q0 r0 : BitVec 64) (zf dx : Bool) (a : BitVec 64) :
    (match runDivmod regs q0 r0 zf dx a 0#64 with | .fault => True | _ => False) := by
  obtain ⟨o, ho, h⟩ := divmod_asm_zero regs q0 r0 zf dx a
  rw [ho]; exact h

/-- The two builds agree: for all operands, the default build's `divmod` (assembly) and the `noasm`
    build's `divmod` (Go) return the same pair, or both panic. -/
theorem divmod_builds_agree (regs : Reg → BitVec 64) (q0 r0 : BitVec 64) (zf dx : Bool) (a b : BitVec 64) :
    (runDivmod regs q0 r0 zf dx a b).frame.map (fun f => (f.1, f.2.1)) = goDivmod a b := by
  by_cases hb : b = 0#64
  · subst hb
    have := divmod_asm_zero_faults regs q0 r0 zf dx a
    revert this
    cases h : runDivmod regs q0 r0 zf dx a 0#64 <;> simp [Outcome.frame, goDivmod]
  · rw [divmod_asm_spec regs q0 r0 zf dx a b hb]
    simp [goDivmod, hb]

/-- **The pure-Go build's `divmod` is the primitive** (source level, G): the body of `divmod` in `mathutils_go.go` -
    the file the `noasm` build compiles instead of the assembly - is translated on every run (`Gen.divmod_go`) and is,
    for all integers, the one meaning `divmod` has in the regenerated index arithmetic (`Itol` calls it): truncated
    quotient and remainder, the divide panic for a zero divisor. A fast path that is not the same function for every
    pair of operands makes this equality false (or leaves the translator's subset, which removes `Gen.divmod_go`). -/
theorem divmod_go_source (a b : Int) : Gen.divmod_go a b = Gen.divmod a b := by
  unfold Gen.divmod_go Gen.divmod Gen.gdiv Gen.gmod
  by_cases hb : (b == 0) = true
  · simp [hb, bind, Except.bind, Gen.gpanic, throw, throwThe, MonadExceptOf.throw]
  · simp [hb, bind, Except.bind, pure, Except.pure]

/-- link to the unbounded-integer model (`goDiv`/`goMod` of `Basic.lean`, used by `itol`): when the
    mathematical quotient fits (everything but `MinInt / -1`), the 64-bit result is the truncated
    quotient / remainder of the operands read as integers. -/
theorem divmod_int_model (a b : BitVec 64) (hb : b ≠ 0#64) (hov : ¬(a = BitVec.intMin 64 ∧ b = BitVec.allOnes 64)) :
    (a.sdiv b).toInt = goDiv a.toInt b.toInt ∧ (a.srem b).toInt = goMod a.toInt b.toInt := by
  constructor
  · unfold goDiv
    rw [BitVec.toInt_sdiv_of_ne_or_ne]
    by_cases h : a = BitVec.intMin 64
    · right; intro hb1; exact hov ⟨h, by simpa using hb1⟩
    · left; exact h
  · unfold goMod
    exact BitVec.toInt_srem a b

example : (runDivmod (fun _ => 0#64) 0#64 0#64 false false (BitVec.ofInt 64 (-7)) (BitVec.ofInt 64 2)).frame
    = some (BitVec.ofInt 64 (-3), BitVec.ofInt 64 (-1), BitVec.ofInt 64 (-7), BitVec.ofInt 64 2) := by decide

/-! ## specialised float engines = default engine -/

/-- On the iterator path the specialised `Add` *is* the default engine's `Add` (it defers to it). -/
theorem floatAdd_iter_defers (s : St) (e : Eng) (a b : Dense) (o : Opts)
    (h : (a.requiresIterator || b.requiresIterator) = true) :
    engFloatAdd s e a b o = engArithVV s "add" numberTypes a b o := by
  unfold engFloatAdd
  simp only [h, Bool.true_or, if_true]

/-- Operands of different shapes are handed to the default engine too (which refuses them), whatever the
    options. -/
theorem floatAdd_shape_mismatch_defers (s : St) (e : Eng) (a b : Dense) (o : Opts)
    (h : shapeEq a.shape b.shape = false) :
    engFloatAdd s e a b o = engArithVV s "add" numberTypes a b o := by
  unfold engFloatAdd
  simp only [h, Bool.not_false, Bool.or_true, if_true]

/-- … so they are refused with the default engine's shape-mismatch error when the element types pass its
    checks -/
theorem floatAdd_refuses_shape_mismatch (s : St) (e : Eng) (a b : Dense) (o : Opts)
    (hda : a.dt ∈ numberTypes) (hdb : b.dt = a.dt) (h : shapeEq a.shape b.shape = false) :
    engFloatAdd s e a b o = throwErr "shapeMismatch" := by
  rw [floatAdd_shape_mismatch_defers s e a b o h]
  unfold engArithVV
  simp [hda, hdb, h, throwErr, bind, Except.bind]

theorem shapeEq_totalSize (s o : Shape) (h : shapeEq s o = true) : totalSize s = totalSize o := by
  unfold shapeEq at h
  split at h
  · rename_i h1
    simp only [isScalar, Bool.and_eq_true, List.isEmpty_iff] at h1
    rw [h1.1, h1.2]
  · split at h
    · rename_i h2
      match s, o, h2, h with
      | [a, b], [c], _, h =>
        simp [isColVec, isRowVec] at h
        simp only [totalSize, prod]
        rcases h with ⟨⟨h1, _⟩, h3⟩ | ⟨⟨h1, _⟩, h3⟩ <;> subst h1 <;> subst h3 <;> simp
      | [], _, h2, _ => simp at h2
      | [_], _, h2, _ => simp at h2
      | _ :: _ :: _ :: _, _, h2, _ => simp at h2
      | [_, _], [], h2, _ => simp at h2
      | [_, _], _ :: _ :: _, h2, _ => simp at h2
    · split at h
      · rename_i h3
        match s, o, h3, h with
        | [c], [a, b], _, h =>
          simp [isColVec, isRowVec] at h
          simp only [totalSize, prod]
          rcases h with ⟨⟨h1, _⟩, h3⟩ | ⟨⟨h1, _⟩, h3⟩ <;> subst h1 <;> subst h3 <;> simp
        | _, [], h3, _ => simp at h3
        | _, [_], h3, _ => simp at h3
        | _, _ :: _ :: _ :: _, h3, _ => simp at h3
        | [], [_, _], h3, _ => simp at h3
        | _ :: _ :: _, [_, _], h3, _ => simp at h3
      · have : s = o := by simpa using h
        rw [this]

/-- Safe and `UseUnsafe()` modes: for operands of the engine's element type with equally long windows —
    **whatever their shapes, data orders and layouts** — the specialised `Add` returns exactly the default
    engine's outcome: the same new state (every buffer), the same returned tensor, the same errors. -/
theorem floatAdd_eq_std (s : St) (e : Eng) (a b : Dense) (u : Bool)
    (he : e ≠ .std) (hdt : a.dt = engDt e) (hdb : b.dt = a.dt)
    (hm : a.mask = none) (hlen : a.win.len = b.win.len) :
    engFloatAdd s e a b { unsafe_ := u } = engArithVV s "add" numberTypes a b { unsafe_ := u } := by
  by_cases hit : (a.requiresIterator || b.requiresIterator) = true
  · exact floatAdd_iter_defers s e a b _ hit
  cases hsh : shapeEq a.shape b.shape with
  | false => exact floatAdd_shape_mismatch_defers s e a b _ hsh
  | true =>
  have hia : a.requiresIterator = false := by
    cases h : a.requiresIterator <;> simp_all
  have hib : b.requiresIterator = false := by
    cases h : b.requiresIterator <;> simp_all
  cases hord : sameOrd a b with
  | false =>
    -- different data orders: handed to the default engine with the options unchanged
    unfold engFloatAdd handleFuncOptsF
    simp [hia, hib, hdt, hdb, hsh, hord, bind, Except.bind, pure, Except.pure]
  | true =>
  have hnum : engDt e ∈ numberTypes := by
    cases e <;> simp_all [engDt, numberTypes]
  have hk : engDt e ∈ kernelTypes "add" := by
    simpa [kernelTypes] using hnum
  have hv : vecFn "add" (engDt e) = fun x y => Val.app2 "add" x y := by
    simp [vecFn]
  have heop : ∀ (s' : St) (w : Win), w.len = b.win.len →
      eOp s' w b.win (fun x y => Val.app2 "add" x y) (vecFn "add" (engDt e)) = kVV s' w b.win (fun x y => Val.app2 "add" x y) := by
    intro s' w hw
    unfold eOp isSc
    rw [hv, hw]
    cases h1 : (b.win.len == 1) <;> simp
  have hpa : ∀ s' : St, prepAliasVV s' a b none = Except.ok (s', a, b) := fun _ => rfl
  have hbind : ∀ (p : St × Dense × Dense) (f : St × Dense × Dense → Res EngOut), (Except.ok p >>= f) = f p :=
    fun _ _ => rfl
  unfold engFloatAdd engArithVV handleFuncOptsF handleFuncOpts
  simp [hia, hib, hdt, hdb, hsh, hord, hnum, hk, hpa, hbind]
  cases u
  · simp
    cases hc : Dense.clone s a with
    | error err => simp [bind, Except.bind]
    | ok p =>
      obtain ⟨s', c⟩ := p
      have hcl := (clone_fresh' s s' a c hm hc).2.2.1
      simp [bind, Except.bind, heop s' c.win (by rw [hcl, hlen])]
  · simp [heop s a.win hlen]

/-- `FMA(a, x, y)`: operands `a`, `x` of different shapes are refused, with the default engine's error -/
theorem floatFMA_refuses_shape_mismatch (s : St) (e : Eng) (a x y : Dense)
    (hdt : a.dt = engDt e) (hdx : x.dt = a.dt) (hdy : y.dt = a.dt)
    (hsh : shapeEq a.shape x.shape = false) :
    engFloatFMA s e a x y = throwErr "shapeMismatch" := by
  unfold engFloatFMA
  simp [hdt, hdx, hdy, hsh, throwErr, bind, Except.bind]

/-- `FMA(a, x, y)`, contiguous path: the specialised engines' fused kernel is the default engine's
    `Mul(a, x, WithIncr(y))` — the shape-mismatch error when the shapes of `a` and `x` differ, and the
    plain `MulIncr` kernel otherwise (`y` of the operands' shape and order, more than one element). Operands that share
    memory with `y` are copied first by `prepDataVV`, which both engines call; the equality is stated for operands that
    do not. -/
theorem floatFMA_eq_std (s : St) (e : Eng) (a x y : Dense)
    (he : e ≠ .std) (hdt : a.dt = engDt e) (hdx : x.dt = a.dt) (hdy : y.dt = a.dt)
    (hshy : shapeEq y.shape a.shape = true)
    (hord : sameOrd a x = true) (hordy : sameOrd a y = true)
    (hia : a.requiresIterator = false) (hix : x.requiresIterator = false) (hiy : y.requiresIterator = false)
    (hleny : (y.win.len : Int) = totalSize a.shape)
    (hna : a.win.len ≠ 1) (hnx : x.win.len ≠ 1)
    (hsa : sharesMemory a y = false) (hsx : sharesMemory x y = false) :
    engFloatFMA s e a x y = engArithVV s "mul" numberTypes a x { incr := some y } := by
  have hnum : engDt e ∈ numberTypes := by
    cases e <;> simp_all [engDt, numberTypes]
  cases hsh : shapeEq a.shape x.shape with
  | false =>
    rw [floatFMA_refuses_shape_mismatch s e a x y hdt hdx hdy hsh]
    unfold engArithVV
    simp [hdt, hdx, hsh, hnum, throwErr, bind, Except.bind]
  | true =>
  have hk : engDt e ∈ kernelTypes "mul" := by
    simpa [kernelTypes] using hnum
  have hv : vecFn "mul" (engDt e) = fun p q => Val.app2 "mul" p q := by
    simp [vecFn]
  have hoxy : sameOrd x y = true := by
    unfold sameOrd at *; simp_all
  have hty : totalSize y.shape = totalSize a.shape := shapeEq_totalSize _ _ hshy
  have hnr : incrRefused a.win x.win y.win = false := by simp [incrRefused, isSc, hna, hnx]
  have hpa : ∀ s' : St, prepAliasVV s' a x (some y) = Except.ok (s', a, x) := fun s' => by
    simp [prepAliasVV, operandFor, hsa, hsx, bind, Except.bind, pure, Except.pure]
  unfold engFloatFMA engArithVV handleFuncOpts eOpIncr isSc
  have hbind : ∀ (p : St × Dense × Dense) (f : St × Dense × Dense → Res EngOut), (Except.ok p >>= f) = f p :=
    fun _ _ => rfl
  simp [hia, hix, hiy, hdt, hdx, hdy, hsh, hshy, hord, hordy, hoxy, hnum, hk, hleny, hna, hnx, hv, hty, hnr, hpa, hbind]

/-- `FMA(a, x, y)` for **every layout** of unmasked operands (contiguous, lazily transposed, views, mixed data orders; operands
    overlapping the increment tensor included): the specialised engines' `FMA` is the default engine's
    `Mul(a, x, WithIncr(y))`. Both start with `prepDataVV` (an operand that shares memory with `y` is replaced by a clone,
    which has the same type, shape, order, length and iterator requirement), take the iterator kernel under the same
    condition and the fused raw kernel otherwise. Remaining hypotheses: `y` already has the operands' shape (no reshape
    by `handleFuncOpts`) and neither operand's storage window is a single cell (the scalar dispatch of `E.MulIncr`). -/
theorem floatFMA_eq_std_all (s : St) (e : Eng) (a x y : Dense)
    (he : e ≠ .std) (hdt : a.dt = engDt e) (hdx : x.dt = a.dt) (hdy : y.dt = a.dt)
    (hshy : shapeEq y.shape a.shape = true)
    (hleny : (y.win.len : Int) = totalSize a.shape)
    (hna : a.win.len ≠ 1) (hnx : x.win.len ≠ 1)
    (hma : a.mask = none) (hmx : x.mask = none) :
    engFloatFMA s e a x y = engArithVV s "mul" numberTypes a x { incr := some y } := by
  have hnum : engDt e ∈ numberTypes := by
    cases e <;> simp_all [engDt, numberTypes]
  cases hsh : shapeEq a.shape x.shape with
  | false =>
    rw [floatFMA_refuses_shape_mismatch s e a x y hdt hdx hdy hsh]
    unfold engArithVV
    simp [hdt, hdx, hsh, hnum, throwErr, bind, Except.bind]
  | true =>
  have hk : engDt e ∈ kernelTypes "mul" := by
    simpa [kernelTypes] using hnum
  have hv : vecFn "mul" (engDt e) = fun p q => Val.app2 "mul" p q := by
    simp [vecFn]
  have hty : totalSize y.shape = totalSize a.shape := shapeEq_totalSize _ _ hshy
  cases hp : prepAliasVV s a x (some y) with
  | error err =>
    unfold engFloatFMA engArithVV handleFuncOpts
    simp [hdt, hdx, hdy, hsh, hshy, hnum, hleny, hty, hp, bind, Except.bind, pure, Except.pure]
  | ok p =>
    obtain ⟨s1, a1, x1⟩ := p
    obtain ⟨⟨fa1, fa2, fa3, fa4, fa5⟩, ⟨fx1, fx2, fx3, fx4, fx5⟩⟩ := prepAliasVV_facts s s1 a x y a1 x1 hma hmx hp
    have hnr : incrRefused a1.win x1.win y.win = false := by simp [incrRefused, isSc, fa2, fx2, hna, hnx]
    have hbind : ∀ (p : St × Dense × Dense) (f : St × Dense × Dense → Res EngOut), (Except.ok p >>= f) = f p :=
      fun _ _ => rfl
    unfold engFloatFMA engArithVV handleFuncOpts eOpIncr eOpIterIncr isSc
    simp [hdt, hdx, hdy, hsh, hshy, hnum, hk, hleny, hna, hnx, hv, hty, hnr, hp, hbind,
      fa1, fa2, fx1, fx2]
    simp only [or_assoc]

/-- `FMAScalar(a, x, y)`, contiguous path, literal scalar `x`: the specialised engines' kernel is the default engine's
    `MulScalar(a, x, leftTensor, WithIncr(y))` (`a` unmasked; it may overlap `y`) -/
theorem floatFMAScalar_eq_std (s : St) (e : Eng) (a y : Dense) (x : ScalarArg)
    (he : e ≠ .std) (hdt : a.dt = engDt e) (hdx : x.dt = a.dt) (hdy : y.dt = a.dt)
    (hshy : shapeEq y.shape a.shape = true)
    (hordy : sameOrd y a = true)
    (hia : a.requiresIterator = false) (hiy : y.requiresIterator = false)
    (hleny : (y.win.len : Int) = totalSize a.shape)
    (hna : a.win.len ≠ 1) (hny : y.win.len ≠ 1) (hx1 : x.win.len = 1) (hlit : x.src = none)
    (hma : a.mask = none) :
    engFloatFMAScalar s e a x y = engArithScalar s "mul" numberTypes a x true { incr := some y } := by
  have hnum : engDt e ∈ numberTypes := by
    cases e <;> simp_all [engDt, numberTypes]
  have hk : engDt e ∈ kernelTypes "mul" := by
    simpa [kernelTypes] using hnum
  have hv : vecFn "mul" (engDt e) = fun p q => Val.app2 "mul" p q := by
    simp [vecFn]
  have hty : totalSize y.shape = totalSize a.shape := shapeEq_totalSize _ _ hshy
  have hrf : ∀ s' : St, x.refresh s' = s' := fun s' => by simp [ScalarArg.refresh, hlit]
  cases hp : prepAliasT s a (some y) with
  | error err =>
    unfold engFloatFMAScalar engArithScalar handleFuncOpts
    simp [hdt, hdx, hdy, hshy, hnum, hleny, hty, hp, bind, Except.bind, pure, Except.pure]
  | ok p =>
    obtain ⟨s1, a1⟩ := p
    obtain ⟨fa1, fa2, fa3, fa4, fa5, _⟩ := operandFor_facts s s1 a y a1 true hma hp
    have hordy1 : sameOrd y a1 = true := by unfold sameOrd at *; rw [fa3]; exact hordy
    have hnr : incrRefused a1.win x.win y.win = false := by simp [incrRefused, isSc, fa2, hna, hny, hx1]
    unfold engFloatFMAScalar engArithScalar handleFuncOpts eOpIncr isSc
    simp [hia, hiy, hdt, hdx, hdy, hshy, hordy, hnum, hk, hleny, hna, hny, hx1, hv, hty, hnr, hp, hrf,
      fa1, fa2, fa4, fa5, hordy1, bind, Except.bind, pure, Except.pure]
    cases s1.rd x.win 1 0 <;> rfl

/-! ## non-vacuity -/

/-- two contiguous f64 vectors of length 2 over buffers 0 and 1 -/
def wA : Dense := { ap := { shape := [2], strides := [1], fin := true }, win := ⟨0, 0, 2, 2⟩, dt := "f64", eng := .f64 }
def wB : Dense := { ap := { shape := [2], strides := [1], fin := true }, win := ⟨1, 0, 2, 2⟩, dt := "f64", eng := .f64 }
/-- a contiguous f64 vector of length 3 over buffer 1 (different shape) -/
def wC : Dense := { ap := { shape := [3], strides := [1], fin := true }, win := ⟨1, 0, 3, 3⟩, dt := "f64", eng := .f64 }
def wSt : St := { heap := #[#[.src 0 0, .src 0 1], #[.src 1 0, .src 1 1, .src 1 2]] }

/-- the hypotheses of `floatAdd_eq_std` / `floatFMA_eq_std` are satisfiable, on the raw-storage path -/
example : Eng.f64 ≠ .std ∧ wA.dt = engDt .f64 ∧ wB.dt = wA.dt ∧ shapeEq wA.shape wB.shape = true ∧ sameOrd wA wB = true ∧
    wA.requiresIterator = false ∧ wB.requiresIterator = false ∧ wA.mask = none ∧ wA.win.len = wB.win.len := by decide

/-- … and on that instance the call does succeed (the equality is not between two errors) -/
example : (match engFloatAdd wSt .f64 wA wB { unsafe_ := true } with | .ok _ => true | .error _ => false) = true := by decide

/-- `floatFMA_eq_std_all` on an overlapping instance: `FMA(wA, wB, wB)` succeeds (the second operand is copied) -/
example : (match engFloatFMA wSt .f64 wA wB wB with | .ok _ => true | .error _ => false) = true ∧
    sharesMemory wB wB = true ∧ wA.mask = none ∧ wB.mask = none := by decide

/-- … and on the iterator path: a column-major flagged second operand (`sameOrd` fails) -/
def wBc : Dense := { wB with ap := { wB.ap with o := { wB.ap.o with col := true } } }
example : sameOrd wA wBc = false ∧
    (match engFloatFMA wSt .f64 wA wBc wB with | .ok _ => true | .error _ => false) = true := by decide

/-- `floatFMAScalar_eq_std`: a literal scalar in its own one-cell buffer -/
def wSt3 : St := { heap := #[#[.src 0 0, .src 0 1], #[.src 1 0, .src 1 1, .src 1 2], #[.src 2 0]] }
def wX : ScalarArg := { win := ⟨2, 0, 1, 1⟩, dt := "f64" }
example : wX.win.len = 1 ∧ wX.src = none ∧ wX.dt = wA.dt ∧ sameOrd wB wA = true ∧
    (match engFloatFMAScalar wSt3 .f64 wA wX wB with | .ok _ => true | .error _ => false) = true := by decide

/-- operands of *different shapes* (lengths 2 and 3) are refused by the specialised engine as by the
    default engine (this pair was the witness of the former finding F37) -/
theorem floatAdd_shape_check :
    (match engFloatAdd wSt .f64 wA wC { unsafe_ := true } with | .ok _ => true | .error _ => false) = false ∧
    (match engArithVV wSt "add" numberTypes wA wC { unsafe_ := true } with | .ok _ => true | .error _ => false) = false := by
  decide

end TM.C20
