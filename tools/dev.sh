#!/bin/bash
# dev helper: ./tools/dev.sh C01 [tier] [seed]  -> run gen | driver | harness, print triage
set -e
export GOFLAGS=-mod=mod GOPROXY=off GOSUMDB=off GOTOOLCHAIN=local
P=$1; T=${2:-quick}; S=${3:-1}
W=/verif/.work/dev; mkdir -p $W
(cd /verif/tools/harness && cp /repo/go.sum . && go build -tags verif -o $W/harness .)
(cd /verif/lean && lake build tmdriver 2>&1 | grep -v "^✔" | grep -v "Build completed" || true)
$W/harness gen -prop $P -tier $T -seed $S > $W/$P.progs
/verif/lean/.lake/build/bin/tmdriver < $W/$P.progs > $W/$P.model
$W/harness run -progs $W/$P.progs -model $W/$P.model -out $W/$P.res
python3 - $W/$P.res <<'PY'
import json,collections,re,sys
c=collections.Counter(); ex={}
for l in open(sys.argv[1]):
    d=json.loads(l)
    if 'summary' in d:
        s=d['summary']; print({k:s[k] for k in ['programs','steps','spec_checked','mismatches','distinct_nontrivial','outcomes','tagged']}); continue
    key=d['kind']+' '+re.sub(r'\d+','N',d['detail'])[:80]
    c[key]+=1; ex.setdefault(key,d)
for k,n in c.most_common(10):
    d=ex[k]; print(n,k); print('   ',d['program'][:300]); print('    step',d['step'],'detail',d['detail'][:200]); print('    impl ',d['impl'][:300]); print('    model',d['model'][:300]); print('    tags',d.get('tags'))
PY
