/-
  C19 — "No sequence of operations - including handing finished tensors back to the library's pools -
  ever changes the shape, strides, mask or elements of a different live tensor … The library never
  mutates, retains or recycles slices passed in by the caller …"

  Check:  (cd /verif/lean && lake build TensorModel.Props.C19)

  The logic of the claim over the ownership state machine of `TensorModel.Own` (slice identities,
  who owns them, what the pool hands out):

  * `inv_init`, `inv_step`, `inv_run`   the ownership invariant `Inv` holds initially, is preserved
                                        by every disciplined event, hence after disciplined histories
                                        of any length;
  * `no_corruption`                     under `Inv`, what `BorrowInts` hands out is neither the
                                        caller's nor referenced by a live tensor; writing through it
                                        is within the discipline and changes neither a live tensor's
                                        metadata slices nor a caller's slice;
  * `other_tensors_untouched`           along a disciplined history, the slices of live tensor `k`
                                        keep their contents and stay `k`'s as long as no event is
                                        about `k` itself (write with destination `k`, detach,
                                        `ReturnTensor k`) — whatever happens to other tensors,
                                        including their return to the pools;
  * `caller_slices_untouched`           … and a caller-owned slice keeps its contents unless the
                                        caller itself writes it, and stays the caller's;
  * `checkTrace_sound`                  the executable trace checker accepts only histories that end
                                        in `Inv` (and is complete for the discipline:
                                        `checkTrace_complete`);
  * defect witnesses as histories       `oldTUT` (T(axes…);UT() before the fix "T() and SafeT() keep
                                        their own copy of the axes"), `doubleReturn`, and the
                                        `ShallowClone` sharing pattern.

  The runtime half — that the library's actual sequence of BorrowInts/ReturnInts/attach events *is*
  disciplined — is checked by replaying hook traces of the Go tests through `checkTrace`.
-/
import TensorModel.Proofs.Own
namespace TM.C19
open TM.Own

theorem inv_init : Inv init := TM.Own.inv_init

theorem inv_step {st : State} {e : Event} (hI : Inv st) (hd : disciplined st e = true) :
    Inv (step st e) := TM.Own.inv_step hI hd

/-- every disciplined history, of any length, ends in a state satisfying the invariant -/
theorem inv_run (h : List Event) (hd : Disciplined init h) : Inv (run h) :=
  inv_runFrom h init TM.Own.inv_init hd

/-- Under `Inv`, a `borrow` never yields a slice that is caller-owned or referenced by a live
    tensor; writing through the borrowed slice is disciplined (for any destination) and changes
    neither a live tensor's metadata nor a caller's slice. -/
theorem no_corruption {st : State} {s : Sid} (hI : Inv st) (hb : disciplined st (.borrow s) = true) :
    s ∉ st.callerOwned ∧ (∀ k, (k, s) ∉ st.refs) ∧
    (∀ dst v, disciplined (step st (.borrow s)) (.write s dst v) = true) ∧
    (∀ dst v x, (x ∈ st.callerOwned ∨ ∃ k, (k, x) ∈ st.refs) →
        (step (step st (.borrow s)) (.write s dst v)).data x = st.data x) := by
  have hs := disc_borrow.1 hb
  have h1 := hI.poolCaller s hs
  have h2 := hI.poolRef s hs
  refine ⟨h1, h2, fun dst v => ?_, fun dst v x hx => ?_⟩
  · refine disc_write.2 ⟨hI.nodupPool.not_mem_erase, h1, fun k hk => absurd hk (h2 k)⟩
  · have hne : x ≠ s := by
      rintro rfl
      rcases hx with hx | ⟨k, hk⟩
      · exact h1 hx
      · exact h2 k hk
    simp [step, setD, hne]

/-- No sequence of (disciplined) operations that are not about slice `s` of live tensor `k` changes
    the contents of `s` or detaches it from `k` — including `ReturnTensor` of other tensors and any
    traffic through the pools. -/
theorem other_tensors_untouched (h g : List Event) (k : Nat) (s : Sid)
    (hd : Disciplined init (h ++ g)) (hr : (k, s) ∈ (run h).refs)
    (hg : ∀ e ∈ g, touches k s e = false) :
    (run (h ++ g)).data s = (run h).data s ∧ (k, s) ∈ (run (h ++ g)).refs := by
  have hsplit : ∀ (h g : List Event) (st : State), Disciplined st (h ++ g) →
      Disciplined st h ∧ Disciplined (runFrom st h) g := by
    intro h; induction h with
    | nil => intro g st hd; exact ⟨trivial, hd⟩
    | cons e h ih => intro g st hd; exact ⟨⟨hd.1, (ih g _ hd.2).1⟩, (ih g _ hd.2).2⟩
  obtain ⟨hd1, hd2⟩ := hsplit h g init hd
  simp only [run, runFrom_append]
  exact live_slice_stable_run g _ k s (inv_runFrom h init TM.Own.inv_init hd1) hd2 hr hg

/-- The library never mutates a caller's slice and never takes it away from the caller. -/
theorem caller_slices_untouched (h g : List Event) (s : Sid)
    (hd : Disciplined init (h ++ g)) (hs : s ∈ (run h).callerOwned)
    (hg : ∀ e ∈ g, isCallerWrite s e = false) :
    (run (h ++ g)).data s = (run h).data s ∧ s ∈ (run (h ++ g)).callerOwned := by
  have hsplit : ∀ (h g : List Event) (st : State), Disciplined st (h ++ g) →
      Disciplined st h ∧ Disciplined (runFrom st h) g := by
    intro h; induction h with
    | nil => intro g st hd; exact ⟨trivial, hd⟩
    | cons e h ih => intro g st hd; exact ⟨⟨hd.1, (ih g _ hd.2).1⟩, (ih g _ hd.2).2⟩
  obtain ⟨hd1, hd2⟩ := hsplit h g init hd
  simp only [run, runFrom_append]
  exact caller_slice_stable_run g _ s (inv_runFrom h init TM.Own.inv_init hd1) hd2 hs hg

/-- … and never retains or recycles it: after a disciplined history a caller-owned slice is neither
    in the pool, nor held by the library, nor referenced by a tensor. -/
theorem caller_slices_not_retained (h : List Event) (hd : Disciplined init h) (s : Sid)
    (hs : s ∈ (run h).callerOwned) :
    s ∉ (run h).pooled ∧ s ∉ (run h).held ∧ ∀ k, (k, s) ∉ (run h).refs :=
  have hI := inv_run h hd
  ⟨fun hp => hI.poolCaller s hp hs, hI.callerHeld s hs, hI.callerRef s hs⟩

theorem checkTraceR_sound (h : List Event) (hc : checkTraceR h = none) : Disciplined init h :=
  checkFrom_sound h init 0 hc

/-- the trace checker accepts only histories that end in a state satisfying `Inv` -/
theorem checkTrace_sound (h : List Event) (hc : checkTrace h = none) : Inv (run h) := by
  apply inv_run h (checkTraceR_sound h _)
  simpa [checkTrace] using hc

/-- … and rejects no disciplined history -/
theorem checkTrace_complete (h : List Event) (hd : Disciplined init h) : checkTrace h = none := by
  simp [checkTrace, checkTraceR, checkFrom_complete h init 0 hd]

/-! ### non-vacuity: concrete instances meeting the hypotheses -/

/-- the *fixed* `t.T(axes…); t.UT()`: the caller's axes (slice 1) are copied into a borrowed slice
    (2), which is what tensor 10 keeps and what `UT` later recycles; then an unrelated tensor 11 is
    built from the recycled slice and returned to the pool -/
def fixedTUT : List Event :=
  [.callerPass 1, .alloc 2, .write 2 none 7, .attach 10 2,      -- T(axes…)
   .detach 10 2, .ret 2,                                         -- UT()
   .borrow 2, .write 2 (some 11) 3, .attach 11 2, .kill 11]      -- somebody else's tensor

example : checkTrace fixedTUT = none := by decide
example : Disciplined init fixedTUT := checkTraceR_sound _ (by decide)
example : Inv (run fixedTUT) := checkTrace_sound _ (by decide)

-- `inv_step` / `no_corruption`: a state with a pooled slice, a live tensor and a caller slice
example : disciplined (run [.alloc 1, .ret 1, .alloc 2, .attach 10 2, .callerPass 3]) (.borrow 1) = true := by
  decide

-- `other_tensors_untouched`: tensor 10 refers to slice 2; tensor 11 is created and returned
example : Disciplined init ([.alloc 2, .write 2 (some 10) 5, .attach 10 2] ++
      [.alloc 3, .attach 11 3, .kill 11, .borrow 3, .write 3 none 9, .ret 3]) ∧
    (10, 2) ∈ (run [.alloc 2, .write 2 (some 10) 5, .attach 10 2]).refs ∧
    (∀ e ∈ [Event.alloc 3, .attach 11 3, .kill 11, .borrow 3, .write 3 none 9, .ret 3],
        touches 10 2 e = false) :=
  ⟨checkTraceR_sound _ (by decide), by decide, by decide⟩

-- `caller_slices_untouched`
example : Disciplined init ([.callerPass 1, .callerWrite 1 7] ++ [.alloc 2, .write 2 none 7, .attach 10 2,
      .detach 10 2, .ret 2]) ∧ 1 ∈ (run [.callerPass 1, .callerWrite 1 7]).callerOwned ∧
    (∀ e ∈ [Event.alloc 2, .write 2 none 7, .attach 10 2, .detach 10 2, .ret 2],
        isCallerWrite 1 e = false) :=
  ⟨checkTraceR_sound _ (by decide), by decide, by decide⟩

/-! ### defect witnesses, as histories

  (a) The old behaviour of `t.T(axes…); t.UT()` (fixed in /repo by "T() and SafeT() keep their own
      copy of the axes"): `T` stored the caller's variadic slice in `t.transposeWith`, `UT` handed
      it to `ReturnInts`, which zeroed it and pooled it. -/

def oldTUT : List Event := [.callerPass 1, .attach 10 1, .detach 10 1, .ret 1]

/-- The history contains two violations: the retention (index 1) and the recycling (index 3) of the
    caller's slice. `checkTrace` reports the first one; `violations` lists both. -/
theorem oldTUT_rejected :
    checkTrace oldTUT = some (1, "retains a caller-owned slice in a tensor (must copy)") ∧
    violations oldTUT = [(1, .attachCallerOwned), (3, .retCallerOwned)] := by
  constructor <;> rfl

/-- What a *pool* hook sees of it (it observes the caller's slice and `ReturnInts`, not the tensor's
    fields) is rejected with exactly the reason "returns a caller-owned slice". -/
theorem oldTUT_pool_view_rejected :
    checkTrace [.callerPass 1, .ret 1] = some (1, "returns a caller-owned slice") := by rfl

/-- after it the caller's slice sits in the pool: `Inv` is violated … -/
theorem oldTUT_breaks_inv : ¬ Inv (run oldTUT) :=
  fun h => h.poolCaller 1 (by decide) (by decide)

/-- … `ReturnInts` has zeroed the caller's slice (here: the caller had stored 7 in it) … -/
theorem oldTUT_mutates_caller :
    (run [.callerPass 1, .callerWrite 1 7]).data 1 = 7 ∧
    (run ([.callerPass 1, .callerWrite 1 7] ++ oldTUT.tail)).data 1 = 0 := by
  constructor <;> rfl

/-- … and the next `BorrowInts` hands the caller's slice to a new tensor 11 as its shape: the
    caller's later (perfectly legitimate) write through its own slice changes tensor 11's metadata. -/
theorem oldTUT_corrupts_later :
    let st := run (oldTUT ++ [.borrow 1, .write 1 (some 11) 3, .attach 11 1])
    (11, 1) ∈ st.refs ∧ 1 ∈ st.callerOwned ∧ ¬ Inv st ∧
    disciplined st (.callerWrite 1 99) = true ∧
    st.data 1 = 3 ∧ (step st (.callerWrite 1 99)).data 1 = 99 := by
  refine ⟨by decide, by decide, fun h => h.callerRef 1 (by decide) 11 (by decide), by decide, rfl, rfl⟩

/-! (b) double return: the same slice is handed to `ReturnInts` twice; the pool then hands it out
    twice, and a scratch slice of the library aliases live tensor 10's shape. -/

def doubleReturn : List Event := [.alloc 1, .ret 1, .ret 1]

theorem doubleReturn_rejected :
    checkTrace doubleReturn =
      some (2, "returns a slice that is already in the pool (double return)") := by rfl

theorem doubleReturn_breaks_inv : ¬ Inv (run doubleReturn) :=
  fun h => absurd h.nodupPool (by decide)

theorem doubleReturn_corrupts_later :
    let st := run (doubleReturn ++ [.borrow 1, .write 1 (some 10) 4, .attach 10 1, .borrow 1])
    (10, 1) ∈ st.refs ∧ 1 ∈ st.held ∧ ¬ Inv st ∧
    st.data 1 = 4 ∧ (step st (.write 1 none 0)).data 1 = 0 := by
  refine ⟨by decide, by decide, fun h => h.heldRef 1 (by decide) 10 (by decide), rfl, rfl⟩

/-! (c) the sharing pattern of `(*Dense).ShallowClone` (dense.go: `retVal.old = t.old;
    retVal.transposeWith = t.transposeWith`): the clone 11 of a transposed tensor 10 refers to the
    *same* `old.shape` / `transposeWith` slices. The discipline rejects the sharing; if it is
    allowed, `ReturnTensor(clone)` recycles slices tensor 10 still refers to. Reproduced at run time:
    `a.T(1,2,0); c := a.ShallowClone(); ReturnTensor(c); a.UT()` leaves `a.Shape() = (0, 0, 0)`
    (the clone's `old.zero()` zeroes and pools `a.old.shape`). -/

def shallowCloneShare : List Event :=
  [.alloc 1, .attach 10 1,     -- t.T(…): t.old.shape / t.transposeWith = slice 1
   .attach 11 1,               -- c := t.ShallowClone()
   .kill 11]                   -- ReturnTensor(c)

theorem shallowCloneShare_rejected :
    checkTrace shallowCloneShare = some (2, "shares a slice between two live tensors") := by rfl

theorem shallowCloneShare_corrupts :
    (10, 1) ∈ (run shallowCloneShare).refs ∧ 1 ∈ (run shallowCloneShare).pooled ∧
    ¬ Inv (run shallowCloneShare) :=
  ⟨by decide, by decide, fun h => h.poolRef 1 (by decide) 10 (by decide)⟩

/-- the discipline cannot be dropped from `inv_run` -/
theorem inv_needs_discipline : ¬ (∀ h : List Event, Inv (run h)) :=
  fun h => oldTUT_breaks_inv (h oldTUT)

end TM.C19
