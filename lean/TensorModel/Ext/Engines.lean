import TensorModel.Ext.Hooks
/-!
  Family `Engines` (C20): the specialised `Float64Engine` / `Float32Engine`
  (`defaultenginefloat64.go`, `defaultenginefloat32.go`): `Add`, `FMA`, `FMAScalar`, and the
  default engine's `FMA = Mul(a, x, WithIncr(y))` (`defaultengine_misc.go`, `api_arith.go:FMA`).
-/
namespace TM

def engDt : Eng → String
  | .f64 => "f64" | .f32 => "f32" | .std => "?"

/-- `handleFuncOptsF64/F32(expShape, o, opts...)`: no dtype check, no reshape -/
def handleFuncOptsF (s : St) (expShape : Shape) (col : Bool) (o : Opts) : Res (St × FO) := do
  let (reuseT, incr) := match o.incr with
    | some t => (some t, true)
    | none => (o.reuse, false)
  match reuseT with
  | none => pure (s, { reuse := none, safe := !o.unsafe_, toReuse := false, incr := incr, same := o.same })
  | some r =>
    if (r.win.len : Int) != totalSize expShape && !isScalar expShape then throwErr "shapeMismatch reuse"
    let r := if !incr && r.ap.o.col != col then { r with ap := { r.ap with o := { r.ap.o with col := !r.ap.o.col } } } else r
    pure (s, { reuse := some r, safe := !o.unsafe_, toReuse := true, incr := incr, same := o.same })

/-- `Float64Engine.Add` / `Float32Engine.Add`: the raw-storage fast path is taken only for contiguous
    operands of the same shape and data order (and a contiguous destination of that order); everything
    else is handed to the embedded default engine. -/
def engFloatAdd (s : St) (e : Eng) (a b : Dense) (o : Opts) : Res EngOut := do
  if a.requiresIterator || b.requiresIterator || !shapeEq a.shape b.shape then engArithVV s "add" numberTypes a b o else
  let (s, fo) ← handleFuncOptsF s a.shape a.ap.o.col o
  -- checkThree
  if a.dt != engDt e then throwErr "Expected a to be of the engine's float type"
  if a.dt != b.dt then throwErr "dtype mismatch"
  (match fo.reuse with | some r => if r.dt != b.dt then throwErr "dtype mismatch reuse" else pure () | none => pure ())
  -- `useIter` of `prepDataVV` (neither operand needs an iterator here)
  let useIter := (match fo.reuse with | some r => r.requiresIterator | none => false) || !sameOrd a b ||
    (match fo.reuse with | some r => !sameOrd a r || !sameOrd b r | none => false)
  -- `e.StdEng.Add(a, b, opts...)`: the reuse tensor is the one `handleFuncOptsF` has already touched
  if useIter then engArithVV s "add" numberTypes a b (if fo.incr then o else { o with reuse := fo.reuse }) else
  -- the headers come from `prepDataVV`: operands that share memory with the destination have been copied
  let (s, a, b) ← prepAliasVV s a b fo.reuse
  let f : BinF := fun x y => .app2 "add" x y
  match fo.incr, fo.reuse with
  | true, some r =>
    let s ← kIncrVV s a.win b.win r.win f accAdd
    pure ⟨s, some r, .reuse⟩
  | _, some r =>
    let s ← Dense.rawCopy s r.win a.win
    let s ← kVV s r.win b.win f
    pure ⟨s, some r, .reuse⟩
  | _, none =>
    if !fo.safe then
      let s ← kVV s a.win b.win f
      pure ⟨s, none, .a⟩
    else
      let (s, c) ← a.clone s
      let s ← kVV s c.win b.win f
      pure ⟨s, none, .fresh c⟩

/-- `Float64Engine.FMA(a, x, y)` : y += a*x -/
def engFloatFMA (s : St) (e : Eng) (a x y : Dense) : Res EngOut := do
  if a.dt != engDt e then throwErr "Expected a to be of the engine's float type"
  if a.dt != x.dt || x.dt != y.dt then throwErr "dtype mismatch"
  if !shapeEq a.shape x.shape then throwErr "shapeMismatch"
  if totalSize y.shape != totalSize a.shape then throwErr "shapeMismatch reuse"
  let (s, a, x) ← prepAliasVV s a x (some y)
  let f : BinF := fun p q => .app2 "mul" p q
  let useIter := a.requiresIterator || x.requiresIterator || y.requiresIterator || !sameOrd a x ||
    !sameOrd a y || !sameOrd x y
  if useIter then
    let s ← kIter3VV s a.win x.win y.win f accAdd (← a.itStream s) (← x.itStream s) (← y.itStream s)
    pure ⟨s, some y, .reuse⟩
  else
    let s ← kIncrVV s a.win x.win y.win f accAdd
    pure ⟨s, some y, .reuse⟩

/-- `Float64Engine.FMAScalar(a, x, y)` (with the `fix:` return after the iterator kernel) -/
def engFloatFMAScalar (s : St) (e : Eng) (a : Dense) (x : ScalarArg) (y : Dense) : Res EngOut := do
  if a.dt != engDt e then throwErr "Expected a to be of the engine's float type"
  if y.dt != a.dt then throwErr "dtype mismatch reuse"
  if totalSize y.shape != totalSize a.shape then throwErr "shapeMismatch reuse"
  if x.dt != engDt e then throwErr "b is not a float of the engine's type"
  let (s, a) ← prepAliasT s a (some y)
  let x0 ← s.rd x.win 1 0
  let f : BinF := fun p q => .app2 "mul" p q
  if a.requiresIterator || y.requiresIterator || !sameOrd y a then
    let s ← kIter3VS s a.win x0 y.win f accAdd (← a.itStream s) (← y.itStream s)
    pure ⟨s, some y, .reuse⟩
  else
    let s ← kIncrVS s a.win x0 y.win f accAdd
    pure ⟨s, some y, .reuse⟩

def enginesStepM (ps : PState) (_i : Nat) (toks : List String) : PState × StepOut :=
  match toks with
  | ["enew", dt, shape, order, eng] =>
    match parseIntList shape with
    | none => (ps.failVar, .fields "r=badprog")
    | some sh =>
      let n := (totalSize sh).toNat
      let bid := ps.nnew
      let ps := { ps with nnew := ps.nnew + 1 }
      let cells : Array Val := (Array.range n).map (fun i => Val.src bid i)
      let e : Eng := if eng == "f64" then .f64 else if eng == "f32" then .f32 else .std
      finishNew ps (do
        let (st, d) ← Dense.newRow ps.st dt sh cells
        let d := { d with eng := e }
        if order == "Fraw" then
          pure (st, { d with ap := { d.ap with strides := calcStridesCol sh, o := { d.ap.o with col := true } } })
        else pure (st, d))
  -- `Itol(i, shape, strides)`: the flat index split by `divmod` (assembly in the default build, `mathutils_go.go` in the
  -- `noasm` build); no tensor is involved, so indices beyond 2^31 cost nothing
  | ["itol", i, shape, strides] =>
    match i.toInt?, parseIntList shape, parseIntList strides with
    | some i, some sh, some st =>
      (ps, match itol i sh st with
        | .ok cs => .fields s!"r=ok coords={showInts cs}"
        | .error (.err _) => .fields "r=err"
        | .error (.panic _) => .fields "r=panic")
    | _, _, _ => (ps, .fields "r=badprog")
  | "eadd" :: via :: a :: b :: optToks =>
    let po := parseOpts ps optToks
    if po.bad then (ps.failVar, .fields "r=skip") else
    match ps.obj a, ps.obj b with
    | some (aId, x), some (_, y) =>
      -- package function: scalar-shaped tensors go to AddScalar (StdEng code for every engine)
      if via == "fn" && (isScalar x.shape || isScalar y.shape) then (ps.failVar, .fields "r=skip") else
      applyEng ps aId po (match x.eng with
        | .std => engArithVV ps.st "add" numberTypes x y po.o
        | e => engFloatAdd ps.st e x y po.o)
    | _, _ => (ps.failVar, .fields "r=skip")
  | ["fma", a, x, y] =>
    match ps.obj a, ps.obj y with
    | some (_, ad), some (yId, yd) =>
      let po : ParsedOpts := { o := { incr := some yd }, incrId := some yId }
      match parseOperand ps x with
      | .ten _ xd =>
        applyEng ps yId po (match ad.eng with
          | .std => engArithVV ps.st "mul" numberTypes ad xd po.o
          | e => engFloatFMA ps.st e ad xd yd)
      | .lit l dt =>
        let (st, sc) := litScalar ps.st l (dt.getD ad.dt)
        applyEng { ps with st := st } yId po (match ad.eng with
          | .std => engArithScalar st "mul" numberTypes ad sc true po.o
          | e => engFloatFMAScalar st e ad sc yd)
      | .bad => (ps.failVar, .fields "r=skip")
    | _, _ => (ps.failVar, .fields "r=skip")
  | _ => (ps, .fields "r=badprog")

/-- tags of the default engine's findings on the steps of this family (the specialised engines share
    them: they run the default engine's code, or code with the same behaviour, in those regions) -/
def enginesExcl (ps : PState) (toks : List String) : List String × Bool :=
  let objs := toks.filterMap (fun t => (ps.obj t).map (·.2))
  match toks.head?, objs with
  | some "eadd", a :: _ :: _ =>
    let reuse := (toks.find? (·.startsWith "reuse=")).bind (fun t => (ps.obj (t.drop 6).toString).map (·.2))
    ((if Excl_reuseOrderFlip a reuse then ["F35"] else []), true)
  | some "fma", _ :: _ => ([], true)
  | _, _ => ([], false)

/-- S: the specialised engines must deliver what the default engine delivers: `a + b`, `y += a*x`. -/
def enginesStepS (psBefore psAfter : PState) (ss : SState) (i : Nat) (toks : List String) (mres : String) : SOut :=
  let ss0 := ss.sync psBefore.ds.size
  let fin := finS psAfter
  match toks with
  | ["enew", dt, shape, order, _] => stepS psBefore psAfter ss i ["new", dt, shape, order] mres
  -- specification of `Itol` for the default row-major strides of the shape and an index inside the array: coordinate `d`
  -- is `(i / stride_d) mod shape_d` (stated axis by axis, without the running remainder of the implementation)
  | ["itol", idx, shape, strides] =>
    match idx.toInt?, parseIntList shape, parseIntList strides with
    | some n, some sh, some st =>
      if st == calcStrides sh && sh.all (· > 0) && 0 ≤ n && n < totalSize sh && !sh.isEmpty then
        fin ss0 (some s!"r=ok coords={showInts (List.zipWith (fun d s => (n / s) % d) sh st)}")
      else fin ss0 none
    | _, _, _ => fin ss0 none
  | "eadd" :: via :: a :: b :: opts => stepS psBefore psAfter ss i ("bin" :: "add" :: via :: a :: b :: opts) mres
  | ["fma", a, x, y] =>
    match sObj psBefore ss0 a, sObj psBefore ss0 y with
    | some (_, ao), some (yid, yo) =>
      let undef := fin (ss0.kill yid) none
      if ao.idx.shape != yo.idx.shape || ao.idx.shape.isEmpty then undef else
      let dt := match psBefore.obj a with | some (_, d) => d.dt | none => "?"
      let xs : Option (List Val) :=
        if x.startsWith "#" then
          let l := (x.drop 1).toString
          some (List.replicate ao.idx.elems.length (match l.splitOn ":" with | [v, d] => Val.lit s!"{v}:{d}" | _ => Val.lit s!"{l}:{dt}"))
        else match sObj psBefore ss0 x with
          | some (_, xo) => if xo.idx.shape == ao.idx.shape then xo.elems ss0 else none
          | none => none
      match ao.elems ss0, xs, yo.elems ss0, ss0.store[yo.root]? with
      | some ea, some ex, some ey, some bcells =>
        let vals := List.zipWith (fun r p => Val.app2 "add" r p) ey (List.zipWith (fun p q => Val.app2 "mul" p q) ea ex)
        let b' := (yo.idx.elems.zip vals).foldl (fun b (k, v) => b.setIfInBounds k v) bcells
        if yo.isView && mres != "ok" then fin ss0 (some "r=ok|err") else
        fin { ss0 with store := ss0.store.set! yo.root b' } (some s!"r={if yo.isView then "ok|err" else "ok"} ident={psBefore.firstVar yid}")
      | _, _, _, _ => undef
    | _, some (yid, _) => fin (ss0.kill yid) none
    | _, _ => fin ss0 none
  | _ => fin ss0 none

def enginesFamily : Family :=
  { name := "Engines", keys := ["enew", "eadd", "fma", "itol"], stepM := enginesStepM, stepS := enginesStepS, excl := enginesExcl }

end TM
