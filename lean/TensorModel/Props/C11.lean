import TensorModel.Proofs.Kernels
import TensorModel.Proofs.IterPaths
import TensorModel.Proofs.FreshWf
import TensorModel.Props.C13
/-!
  C11 — comparisons: bool result vs 1/0 same-type result; operand order for a scalar on the left.
  Property theorems only; helper lemmas live in `TensorModel/Proofs/Kernels.lean`
  (`cell`, `InBuf`, `denseLen` are defined there; see the header of `Props/C06.lean`).
  A comparison `op` applied to `x`, `y` is the symbolic value `.app2 op x y`; its 1/0 form of the
  operand type is `.app2 (op ++ ".same") x y`.
  The scalar-tensor theorems speak about a scalar held in its own one-cell header (`sc.src = none`: a literal, or the copy
  `scalarToHeader` has made); for a rank-0 *tensor* standing for the scalar the model makes that copy after
  `handleFuncOpts` (`ScalarArg.refresh`), as the source does.
-/
set_option linter.unusedSimpArgs false
namespace TM.C11
open TM

/-- number of cells `NewDense(dt, shape)` allocates -/
theorem denseLen_def (sh : Shape) : denseLen sh = if sh.isEmpty then 1 else (totalSize sh).toNat := rfl

/-- **Default mode returns a fresh bool tensor.** `StdEng.<Cmp>(a, b)` on the raw path: the result is a
    newly allocated tensor of element type `"b"` (bool), of `a`'s shape **and data order** (the default strides of
    that order: finding F36 repaired — the operands being stored in that same order, cell `i` of the result and cell
    `i` of the operands hold the same coordinate), whose cell `i` is `op a[i] b[i]`; operands, every pre-existing
    buffer and the mask heap are untouched. No hypothesis on the data order of the operands. -/
theorem engCmpVV_default (st : St) (op : String) (tc : List String) (a b : Dense)
    (hsh : shapeEq a.shape b.shape = true) (hdt : a.dt = b.dt) (htc : a.dt ∈ tc)
    (hia : a.requiresIterator = false) (hib : b.requiresIterator = false) (hord : sameOrd a b = true)
    (hlen : a.win.len = b.win.len) (hcap : a.win.len ≤ b.win.cap) (hsz : a.win.len ≤ denseLen a.shape)
    (hA : InBuf st a.win.buf a.win.off a.win.len) (hB : InBuf st b.win.buf b.win.off a.win.len) :
    ∃ out r, engCmpVV st op tc a b {} = .ok out ∧ out.ret = .fresh r ∧ out.reuse = none ∧
      r.dt = "b" ∧ r.ap.shape = a.shape ∧ r.ap.strides = Dense.defaultStrides a.ap.o.col a.shape ∧
      r.ap.o.col = a.ap.o.col ∧
      r.win = ⟨st.heap.size, 0, denseLen a.shape, denseLen a.shape⟩ ∧ r.view = false ∧ r.old = none ∧
      out.st.mheap = st.mheap ∧
      (∀ i, i < a.win.len → ∃ x y, cell st a.win.buf (a.win.off + i) = some x ∧
        cell st b.win.buf (b.win.off + i) = some y ∧ cell out.st r.win.buf i = some (.app2 op x y)) ∧
      (∀ b' k, b' < st.heap.size → cell out.st b' k = cell st b' k) := by
  obtain ⟨st', h, hm, hv, hfr⟩ := engCmpVV_default' st op tc a b ⟨by simpa using htc, hdt, hsh⟩ hia hib hord
    hlen hcap hsz hA hB
  refine ⟨_, _, h, rfl, rfl, rfl, rfl, rfl, rfl, rfl, rfl, rfl, hm, ?_, hfr⟩
  intro i hi
  exact ⟨_, _, cell_some_cellD (hA.has i hi), cell_some_cellD (hB.has i hi), hv i hi⟩

/-- **Layout-blind: default mode on the iterator path.** When an operand needs an iterator (a view with gaps, a pending
    transpose, …) or the operands have different data orders, `StdEng.<Cmp>(a, b)` returns a fresh bool tensor `r` of the
    first operand's shape and data order (default strides), and for every position `k` of the logical (row-major
    coordinate) order - the order in which the three iterators run (C05) - the cell `r`'s iterator addresses at `k` holds
    `op x y` for the elements `x`, `y` the operands' iterators address at `k`, in operand order. Operands and every
    pre-existing buffer are untouched. -/
theorem engCmpVV_default_iter (st : St) (op : String) (tc : List String) (a b : Dense)
    (hsh : shapeEq a.shape b.shape = true) (hdt : a.dt = b.dt) (htc : a.dt ∈ tc)
    (hu : (a.requiresIterator || b.requiresIterator || !sameOrd a b) = true)
    (hma : a.mask = none) (hmb : b.mask = none) (hla : a.win.len ≠ 1) (hlb : b.win.len ≠ 1)
    (hor : ∀ i ∈ (freshOf st "b" a.shape a.ap.o.col).offsets, 0 ≤ i ∧ i < (denseLen a.shape : Int))
    (hoa : ∀ i ∈ a.offsets, 0 ≤ i ∧ i < (a.win.len : Int)) (hob : ∀ j ∈ b.offsets, 0 ≤ j ∧ j < (b.win.len : Int))
    (hnd : (freshOf st "b" a.shape a.ap.o.col).offsets.Nodup)
    (hA : InBuf st a.win.buf a.win.off a.win.len) (hB : InBuf st b.win.buf b.win.off b.win.len) :
    ∃ out r, engCmpVV st op tc a b {} = .ok out ∧ out.ret = .fresh r ∧ out.reuse = none ∧
      r.dt = "b" ∧ r.ap.shape = a.shape ∧ r.ap.strides = Dense.defaultStrides a.ap.o.col a.shape ∧
      r.ap.o.col = a.ap.o.col ∧
      r.win = ⟨st.heap.size, 0, denseLen a.shape, denseLen a.shape⟩ ∧ r.view = false ∧ r.old = none ∧
      out.st.mheap = st.mheap ∧
      (∀ (k : Nat) m i j, r.offsets[k]? = some m → a.offsets[k]? = some i → b.offsets[k]? = some j →
        ∃ x y, cell st a.win.buf (a.win.off + i.toNat) = some x ∧ cell st b.win.buf (b.win.off + j.toNat) = some y ∧
          cell out.st r.win.buf m.toNat = some (.app2 op x y)) ∧
      (∀ b' k, b' < st.heap.size → cell out.st b' k = cell st b' k) := by
  obtain ⟨st', h, hm, hv, hfr⟩ := engCmpVV_default_iter' st op tc a b ⟨by simpa using htc, hdt, hsh⟩ hu hma hmb hla hlb
    hor hoa hob hnd hA hB
  refine ⟨_, _, h, rfl, rfl, rfl, rfl, rfl, rfl, rfl, rfl, rfl, hm, ?_, hfr⟩
  intro k m i j hk hi hj
  have h1 := hoa i (List.mem_of_getElem? hi)
  have h2 := hob j (List.mem_of_getElem? hj)
  exact ⟨_, _, cell_some_cellD (hA.has.at h1.1 h1.2), cell_some_cellD (hB.has.at h2.1 h2.2), hv k m i j hk hi hj⟩

/-- The two hypotheses of the iterator-path theorems that speak about the *result* (`hor`, `hnd`: its iterator stays inside
    its buffer and never addresses a cell twice) are theorems for every shape with positive extents: the result has the
    default strides of its data order (column-major: shapes that carry one stride per axis, i.e. outside the recorded
    region F24). -/
theorem fresh_result_offsets_wf (st : St) (dt : String) (sh : Shape) (col : Bool) (hp : ∀ d ∈ sh, 0 < d) (hne : sh ≠ [])
    (hcol : col = true → isScalarEquiv sh = false ∧ isVector sh = false) :
    (∀ i ∈ (freshOf st dt sh col).offsets, 0 ≤ i ∧ i < (denseLen sh : Int)) ∧ (freshOf st dt sh col).offsets.Nodup :=
  freshOf_offsets_wf st dt sh col hp hne hcol

/-- `engCmpVV_default_iter` with those two hypotheses discharged: for operands of any proper shape -/
theorem engCmpVV_default_iter_closed (st : St) (op : String) (tc : List String) (a b : Dense)
    (hsh : shapeEq a.shape b.shape = true) (hdt : a.dt = b.dt) (htc : a.dt ∈ tc)
    (hu : (a.requiresIterator || b.requiresIterator || !sameOrd a b) = true)
    (hma : a.mask = none) (hmb : b.mask = none) (hla : a.win.len ≠ 1) (hlb : b.win.len ≠ 1)
    (hp : ∀ d ∈ a.shape, 0 < d) (hne : a.shape ≠ [])
    (hcol : a.ap.o.col = true → isScalarEquiv a.shape = false ∧ isVector a.shape = false)
    (hoa : ∀ i ∈ a.offsets, 0 ≤ i ∧ i < (a.win.len : Int)) (hob : ∀ j ∈ b.offsets, 0 ≤ j ∧ j < (b.win.len : Int))
    (hA : InBuf st a.win.buf a.win.off a.win.len) (hB : InBuf st b.win.buf b.win.off b.win.len) :
    ∃ out r, engCmpVV st op tc a b {} = .ok out ∧ out.ret = .fresh r ∧ r.dt = "b" ∧ r.ap.shape = a.shape ∧
      r.ap.o.col = a.ap.o.col ∧
      (∀ (k : Nat) m i j, r.offsets[k]? = some m → a.offsets[k]? = some i → b.offsets[k]? = some j →
        ∃ x y, cell st a.win.buf (a.win.off + i.toNat) = some x ∧ cell st b.win.buf (b.win.off + j.toNat) = some y ∧
          cell out.st r.win.buf m.toNat = some (.app2 op x y)) ∧
      (∀ b' k, b' < st.heap.size → cell out.st b' k = cell st b' k) := by
  obtain ⟨hor, hnd⟩ := freshOf_offsets_wf st "b" a.shape a.ap.o.col hp hne hcol
  obtain ⟨out, r, h, hret, _, hrdt, hrs, _, hrc, _, _, _, _, hv, hfr⟩ :=
    engCmpVV_default_iter st op tc a b hsh hdt htc hu hma hmb hla hlb hor hoa hob hnd hA hB
  exact ⟨out, r, h, hret, hrdt, hrs, hrc, hv, hfr⟩

/-- **… and `AsSameType()` on the iterator path**: a fresh tensor `r` of the *operand* type, shape and data order; the cell
    `r`'s iterator addresses at position `k` holds the 1/0 form `op.same x y` of the elements the operands' iterators
    address at `k`. -/
theorem engCmpVV_same_iter (st : St) (op : String) (tc : List String) (a b : Dense)
    (hsh : shapeEq a.shape b.shape = true) (hdt : a.dt = b.dt) (htc : a.dt ∈ tc)
    (hu : (a.requiresIterator || b.requiresIterator || !sameOrd a b) = true)
    (hma : a.mask = none) (hmb : b.mask = none) (hlb : b.win.len ≠ 1) (hl1 : denseLen a.shape ≠ 1)
    (hca : a.win.len ≤ a.win.cap)
    (hor : ∀ i ∈ (freshOf st a.dt a.shape a.ap.o.col).offsets, 0 ≤ i ∧ i < (denseLen a.shape : Int))
    (hoa : ∀ i ∈ a.offsets, 0 ≤ i ∧ i < (a.win.len : Int)) (hob : ∀ j ∈ b.offsets, 0 ≤ j ∧ j < (b.win.len : Int))
    (hnd : (freshOf st a.dt a.shape a.ap.o.col).offsets.Nodup)
    (hA : InBuf st a.win.buf a.win.off a.win.len) (hB : InBuf st b.win.buf b.win.off b.win.len) :
    ∃ out r, engCmpVV st op tc a b { same := true } = .ok out ∧ out.ret = .fresh r ∧
      r.dt = a.dt ∧ r.ap.shape = a.shape ∧ r.ap.strides = Dense.defaultStrides a.ap.o.col a.shape ∧
      r.ap.o.col = a.ap.o.col ∧
      r.win = ⟨st.heap.size, 0, denseLen a.shape, denseLen a.shape⟩ ∧
      out.st.mheap = st.mheap ∧
      (∀ (k : Nat) m i j, r.offsets[k]? = some m → a.offsets[k]? = some i → b.offsets[k]? = some j →
        ∃ x y, cell st a.win.buf (a.win.off + i.toNat) = some x ∧ cell st b.win.buf (b.win.off + j.toNat) = some y ∧
          cell out.st r.win.buf m.toNat = some (.app2 (op ++ ".same") x y)) ∧
      (∀ b' k, b' < st.heap.size → cell out.st b' k = cell st b' k) := by
  obtain ⟨st', h, hm, hv, hfr⟩ := engCmpVV_same_iter' st op tc a b ⟨by simpa using htc, hdt, hsh⟩ hu hma hmb hlb hl1 hca
    hor hoa hob hnd hA hB
  refine ⟨_, _, h, rfl, rfl, rfl, rfl, rfl, rfl, hm, ?_, hfr⟩
  intro k m i j hk hi hj
  have h1 := hoa i (List.mem_of_getElem? hi)
  have h2 := hob j (List.mem_of_getElem? hj)
  exact ⟨_, _, cell_some_cellD (hA.has.at h1.1 h1.2), cell_some_cellD (hB.has.at h2.1 h2.2), hv k m i j hk hi hj⟩

/-- **`AsSameType()`**: a fresh tensor of the *operand* type, shape and data order whose cell `i` is the 1/0 form
    `op.same a[i] b[i]`. -/
theorem engCmpVV_same (st : St) (op : String) (tc : List String) (a b : Dense)
    (hsh : shapeEq a.shape b.shape = true) (hdt : a.dt = b.dt) (htc : a.dt ∈ tc)
    (hia : a.requiresIterator = false) (hib : b.requiresIterator = false) (hord : sameOrd a b = true)
    (hlen : a.win.len = b.win.len) (hcap : a.win.len ≤ b.win.cap) (hsz : a.win.len = denseLen a.shape)
    (hA : InBuf st a.win.buf a.win.off a.win.len) (hB : InBuf st b.win.buf b.win.off a.win.len) :
    ∃ out r, engCmpVV st op tc a b { same := true } = .ok out ∧ out.ret = .fresh r ∧
      r.dt = a.dt ∧ r.ap.shape = a.shape ∧ r.ap.strides = Dense.defaultStrides a.ap.o.col a.shape ∧
      r.ap.o.col = a.ap.o.col ∧
      r.win = ⟨st.heap.size, 0, denseLen a.shape, denseLen a.shape⟩ ∧
      out.st.mheap = st.mheap ∧
      (∀ i, i < a.win.len → ∃ x y, cell st a.win.buf (a.win.off + i) = some x ∧
        cell st b.win.buf (b.win.off + i) = some y ∧
        cell out.st r.win.buf i = some (.app2 (op ++ ".same") x y)) ∧
      (∀ b' k, b' < st.heap.size → cell out.st b' k = cell st b' k) := by
  obtain ⟨st', h, hm, hv, hfr⟩ := engCmpVV_same' st op tc a b ⟨by simpa using htc, hdt, hsh⟩ hia hib hord
    hlen hcap hsz hA hB
  refine ⟨_, _, h, rfl, rfl, rfl, rfl, rfl, rfl, hm, ?_, hfr⟩
  intro i hi
  exact ⟨_, _, cell_some_cellD (hA.has i hi), cell_some_cellD (hB.has i hi), hv i hi⟩

/-- **`UseUnsafe()`**: the 1/0 result of the operand type overwrites the window of `a`, and the
    returned tensor is `a` itself; nothing else changes. -/
theorem engCmpVV_unsafe (st : St) (op : String) (tc : List String) (a b : Dense)
    (hsh : shapeEq a.shape b.shape = true) (hdt : a.dt = b.dt) (htc : a.dt ∈ tc)
    (hia : a.requiresIterator = false) (hib : b.requiresIterator = false) (hord : sameOrd a b = true)
    (hne : a.win.buf ≠ b.win.buf) (hlen : a.win.len = b.win.len) (hcap : a.win.len ≤ b.win.cap)
    (hA : InBuf st a.win.buf a.win.off a.win.len) (hB : InBuf st b.win.buf b.win.off a.win.len) :
    ∃ out, engCmpVV st op tc a b { unsafe_ := true } = .ok out ∧ out.ret = .a ∧ out.st.mheap = st.mheap ∧
      (∀ i, i < a.win.len → ∃ x y, cell st a.win.buf (a.win.off + i) = some x ∧
        cell st b.win.buf (b.win.off + i) = some y ∧
        cell out.st a.win.buf (a.win.off + i) = some (.app2 (op ++ ".same") x y)) ∧
      (∀ b' k, (b' ≠ a.win.buf ∨ k < a.win.off ∨ a.win.off + a.win.len ≤ k) → cell out.st b' k = cell st b' k) := by
  obtain ⟨st', h, w⟩ := engCmpVV_unsafe' st op tc a b ⟨by simpa using htc, hdt, hsh⟩ hia hib hord hne hlen hcap hA hB
  exact ⟨_, h, rfl, Writes.sem2 (F := fun x y => .app2 (op ++ ".same") x y) w hA.has hB.has⟩

/-- **In place (`UseUnsafe()`) on the iterator path**: exactly the logical elements of the first operand are overwritten,
    each with the 1/0 form `op.same x y` of the operands' elements at the same position of the logical order; the gaps
    of a view, the rest of its parent, the second operand and every other buffer are unchanged. -/
theorem engCmpVV_unsafe_iter (st : St) (op : String) (tc : List String) (a b : Dense)
    (hsh : shapeEq a.shape b.shape = true) (hdt : a.dt = b.dt) (htc : a.dt ∈ tc)
    (hu : (a.requiresIterator || b.requiresIterator || !sameOrd a b) = true)
    (hma : a.mask = none) (hmb : b.mask = none) (hla : a.win.len ≠ 1) (hlb : b.win.len ≠ 1)
    (hne : a.win.buf ≠ b.win.buf)
    (hoa : ∀ i ∈ a.offsets, 0 ≤ i ∧ i < (a.win.len : Int)) (hob : ∀ j ∈ b.offsets, 0 ≤ j ∧ j < (b.win.len : Int))
    (hnd : a.offsets.Nodup)
    (hA : InBuf st a.win.buf a.win.off a.win.len) (hB : InBuf st b.win.buf b.win.off b.win.len) :
    ∃ out, engCmpVV st op tc a b { unsafe_ := true } = .ok out ∧ out.ret = .a ∧ out.st.mheap = st.mheap ∧
      (∀ (k : Nat) i j, a.offsets[k]? = some i → b.offsets[k]? = some j →
        ∃ x y, cell st a.win.buf (a.win.off + i.toNat) = some x ∧ cell st b.win.buf (b.win.off + j.toNat) = some y ∧
          cell out.st a.win.buf (a.win.off + i.toNat) = some (.app2 (op ++ ".same") x y)) ∧
      (∀ b' k', (b' ≠ a.win.buf ∨ ∀ (k : Nat) i j, a.offsets[k]? = some i → b.offsets[k]? = some j →
          k' ≠ a.win.off + i.toNat) → cell out.st b' k' = cell st b' k') := by
  obtain ⟨st', h, hm, hv, hfr⟩ := engCmpVV_unsafe_iter' st op tc a b ⟨by simpa using htc, hdt, hsh⟩ hu hma hmb hla hlb hne
    hoa hob hnd hA hB
  refine ⟨_, h, rfl, hm, ?_, hfr⟩
  intro k i j hi hj
  have h1 := hoa i (List.mem_of_getElem? hi)
  have h2 := hob j (List.mem_of_getElem? hj)
  exact ⟨_, _, cell_some_cellD (hA.has.at h1.1 h1.2), cell_some_cellD (hB.has.at h2.1 h2.2), hv k i j hi hj⟩

/-- Refusal by type class: an element type outside the comparison's class gives an error value,
    whatever the options; no state is produced. -/
theorem engCmpVV_refuses (st : St) (op : String) (tc : List String) (a b : Dense) (o : Opts) (h : a.dt ∉ tc) :
    engCmpVV st op tc a b o = .error (.err "typeclass a") :=
  engCmpVV_refuses' st op tc a b o (by simpa using h)

/-- **Operand order with the scalar on the left** (`leftTensor := false`), raw path, default mode: cell
    `i` of the fresh bool tensor is `op s t[i]` — the scalar is the FIRST argument. -/
theorem engCmpScalar_scalar_left (st : St) (op : String) (tc : List String) (t : Dense) (sc : ScalarArg)
    (htc : t.dt ∈ tc) (hdt : t.dt = sc.dt) (hsrc : sc.src = none) (hit : t.requiresIterator = false)
    (hs1 : sc.win.len = 1) (ht1 : t.win.len ≠ 1) (hsz : t.win.len = denseLen t.shape)
    (hS : InBuf st sc.win.buf sc.win.off 1) (hT : InBuf st t.win.buf t.win.off t.win.len) :
    ∃ out r s, engCmpScalar st op tc t sc false {} = .ok out ∧ out.ret = .fresh r ∧
      r.dt = "b" ∧ r.ap.shape = t.shape ∧ r.win.buf = st.heap.size ∧ r.win.off = 0 ∧
      cell st sc.win.buf sc.win.off = some s ∧ out.st.mheap = st.mheap ∧
      (∀ i, i < t.win.len → ∃ x, cell st t.win.buf (t.win.off + i) = some x ∧
        cell out.st r.win.buf i = some (.app2 op s x)) ∧
      (∀ b' k, b' < st.heap.size → cell out.st b' k = cell st b' k) := by
  obtain ⟨st', h, hm, hv, hfr⟩ := engCmpScalar_left' st op tc t sc (by simpa using htc) hdt hsrc hit hs1 ht1 hsz hS hT
  refine ⟨_, _, _, h, rfl, rfl, rfl, rfl, rfl, cell_some_cellD (by simpa using hS.has 0 (by omega)), hm, ?_, hfr⟩
  intro i hi
  exact ⟨_, cell_some_cellD (hT.has i hi), hv i hi⟩

/-- **`UseUnsafe()` with the scalar on the left of a one-element tensor** (finding F33, repaired): the tensor's only
    cell becomes the 1/0 form `op.same s t[0]` — scalar FIRST — and the tensor itself is returned; apart from the
    scalar's temporary header no cell changes. (For larger tensors the scalar-left kernel writes the tensor directly.) -/
theorem engCmpScalar_unsafe_scalar_left_one (st : St) (op : String) (tc : List String) (t : Dense) (sc : ScalarArg)
    (htc : t.dt ∈ tc) (hdt : t.dt = sc.dt) (hsrc : sc.src = none) (hs1 : sc.win.len = 1) (ht1 : t.win.len = 1)
    (hne : sc.win.buf ≠ t.win.buf) (hcap : 1 ≤ t.win.cap)
    (hS : InBuf st sc.win.buf sc.win.off 1) (hT : InBuf st t.win.buf t.win.off 1) :
    ∃ out s x, engCmpScalar st op tc t sc false { unsafe_ := true } = .ok out ∧ out.ret = .a ∧
      cell st sc.win.buf sc.win.off = some s ∧ cell st t.win.buf t.win.off = some x ∧
      out.st.mheap = st.mheap ∧
      cell out.st t.win.buf t.win.off = some (.app2 (op ++ ".same") s x) ∧
      (∀ b' k, b' ≠ sc.win.buf → (b' ≠ t.win.buf ∨ k ≠ t.win.off) → cell out.st b' k = cell st b' k) := by
  obtain ⟨st', h, hm, hv, hfr⟩ := engCmpScalar_unsafe_left_one' st op tc t sc (by simpa using htc) hdt hsrc hs1 ht1 hne hcap hS hT
  exact ⟨_, _, _, h, rfl, cell_some_cellD (by simpa using hS.has 0 (by omega)),
    cell_some_cellD (by simpa using hT.has 0 (by omega)), hm, hv, hfr⟩

/-- **Tensor-scalar comparison of an operand that needs an iterator, default mode, scalar on either side**: a fresh bool
    tensor of the operand's shape and data order whose cell at the `k`-th position of its own iterator is
    `op t[k-th] s` when the tensor is the left operand and `op s t[k-th]` when the scalar is - operand order is kept on
    the iterator path as on the raw path (`engCmpScalar_scalar_left`). -/
theorem engCmpScalar_default_iter (st : St) (op : String) (tc : List String) (t : Dense) (sc : ScalarArg) (left : Bool)
    (htc : t.dt ∈ tc) (hdt : t.dt = sc.dt) (hsrc : sc.src = none) (hit : t.requiresIterator = true)
    (hnsc : isScalar t.shape = false) (hs1 : sc.win.len = 1) (hmt : t.mask = none) (hl1 : denseLen t.shape ≠ 1)
    (hor : ∀ i ∈ (freshOf st "b" t.shape t.ap.o.col).offsets, 0 ≤ i ∧ i < (denseLen t.shape : Int))
    (hot : ∀ j ∈ t.offsets, 0 ≤ j ∧ j < (t.win.len : Int))
    (hnd : (freshOf st "b" t.shape t.ap.o.col).offsets.Nodup)
    (hT : InBuf st t.win.buf t.win.off t.win.len) (hS : InBuf st sc.win.buf sc.win.off 1) :
    ∃ out r s, engCmpScalar st op tc t sc left {} = .ok out ∧ out.ret = .fresh r ∧
      r.dt = "b" ∧ r.ap.shape = t.shape ∧ r.ap.o.col = t.ap.o.col ∧ r.win.buf = st.heap.size ∧ r.win.off = 0 ∧
      cell st sc.win.buf sc.win.off = some s ∧ out.st.mheap = st.mheap ∧
      (∀ (k : Nat) m j, r.offsets[k]? = some m → t.offsets[k]? = some j →
        ∃ x, cell st t.win.buf (t.win.off + j.toNat) = some x ∧
          cell out.st r.win.buf m.toNat = some (if left then .app2 op x s else .app2 op s x)) ∧
      (∀ b' k, b' < st.heap.size → cell out.st b' k = cell st b' k) := by
  obtain ⟨st', h, hm, hv, hfr⟩ := engCmpScalar_default_iter' st op tc t sc left (by simpa using htc) hdt hsrc hit hnsc hs1
    hmt hl1 hor hot hnd hT hS
  refine ⟨_, _, _, h, rfl, rfl, rfl, rfl, rfl, rfl, cell_some_cellD (by simpa using hS.has 0 (by omega)), hm, ?_, hfr⟩
  intro k m j hk hj
  have hjr := hot j (List.mem_of_getElem? hj)
  exact ⟨_, cell_some_cellD (hT.has.at hjr.1 hjr.2), hv k m j hk hj⟩

/-- **Scalar on the left of an operand that needs an iterator, result of the operand's type** (`AsSameType()`; finding
    F31, repaired: the result is walked with its own iterator, not with the operand's). The call returns a fresh tensor
    `r` of `t`'s element type, shape and data order; at the `k`-th offset `m` of `r`'s own iterator it holds the 1/0 form
    `op.same s t[j]`, `j` the `k`-th offset of `t`'s iterator — the scalar FIRST, the operand's `k`-th logical element
    second — for a view with gaps as for any other operand; every pre-existing buffer is unchanged. -/
theorem engCmpScalar_same_scalar_left_iter (st : St) (op : String) (tc : List String) (t : Dense) (sc : ScalarArg)
    (htc : t.dt ∈ tc) (hdt : t.dt = sc.dt) (hsrc : sc.src = none) (hit : t.requiresIterator = true) (hnsc : isScalar t.shape = false)
    (hs1 : sc.win.len = 1) (hmt : t.mask = none) (hl1 : denseLen t.shape ≠ 1) (hct : t.win.len ≤ t.win.cap)
    (hor : ∀ i ∈ (freshOf st t.dt t.shape t.ap.o.col).offsets, 0 ≤ i ∧ i < (denseLen t.shape : Int))
    (hot : ∀ j ∈ t.offsets, 0 ≤ j ∧ j < (t.win.len : Int))
    (hnd : (freshOf st t.dt t.shape t.ap.o.col).offsets.Nodup)
    (hT : InBuf st t.win.buf t.win.off t.win.len) (hS : InBuf st sc.win.buf sc.win.off 1) :
    ∃ out r s, engCmpScalar st op tc t sc false { same := true } = .ok out ∧ out.ret = .fresh r ∧
      r.dt = t.dt ∧ r.ap.shape = t.shape ∧ r.ap.o.col = t.ap.o.col ∧ r.win.buf = st.heap.size ∧ r.win.off = 0 ∧
      cell st sc.win.buf sc.win.off = some s ∧ out.st.mheap = st.mheap ∧
      (∀ (k : Nat) m j, r.offsets[k]? = some m → t.offsets[k]? = some j →
        ∃ x, cell st t.win.buf (t.win.off + j.toNat) = some x ∧
          cell out.st r.win.buf m.toNat = some (.app2 (op ++ ".same") s x)) ∧
      (∀ b' k, b' < st.heap.size → cell out.st b' k = cell st b' k) := by
  obtain ⟨st', h, hm, hv, hfr⟩ := engCmpScalar_iter_same_left' st op tc t sc (by simpa using htc) hdt hsrc hit hnsc hs1 hmt
    hl1 hct hor hot hnd hT hS
  refine ⟨_, _, _, h, rfl, rfl, rfl, rfl, rfl, rfl, cell_some_cellD (by simpa using hS.has 0 (by omega)), hm, ?_, hfr⟩
  intro k m j hk hj
  have hjr := hot j (List.mem_of_getElem? hj)
  exact ⟨_, cell_some_cellD (hT.has.at hjr.1 hjr.2), hv k m j hk hj⟩

/-- the same with a destination given (`WithReuse(r), AsSameType()`): `r` is returned and holds the 1/0 results at the
    offsets of its own iterator; nothing outside `r`'s buffer changes -/
theorem engCmpScalar_same_scalar_left_iter_reuse (st : St) (op : String) (tc : List String) (t r : Dense)
    (sc : ScalarArg)
    (htc : t.dt ∈ tc) (hdt : t.dt = sc.dt) (hsrc : sc.src = none) (hit : t.requiresIterator = true) (hnsc : isScalar t.shape = false)
    (hs1 : sc.win.len = 1) (hmt : t.mask = none) (hmr : r.mask = none) (hr : ReuseFits r t.shape t.dt t.ap.o.col)
    (hnrt : r.win.buf ≠ t.win.buf) (hnrs : r.win.buf ≠ sc.win.buf) (hlr : r.win.len ≠ 1)
    (hcr : r.win.len ≤ r.win.cap) (hct : t.win.len ≤ t.win.cap)
    (hor : ∀ i ∈ r.offsets, 0 ≤ i ∧ i < (r.win.len : Int)) (hot : ∀ j ∈ t.offsets, 0 ≤ j ∧ j < (t.win.len : Int))
    (hnd : r.offsets.Nodup)
    (hR : InBuf st r.win.buf r.win.off r.win.len) (hT : InBuf st t.win.buf t.win.off t.win.len)
    (hS : InBuf st sc.win.buf sc.win.off 1) :
    ∃ out s, engCmpScalar st op tc t sc false { reuse := some r, same := true } = .ok out ∧ out.ret = .reuse ∧
      out.reuse = some r ∧ cell st sc.win.buf sc.win.off = some s ∧ out.st.mheap = st.mheap ∧
      (∀ (k : Nat) m j, r.offsets[k]? = some m → t.offsets[k]? = some j →
        ∃ x, cell st t.win.buf (t.win.off + j.toNat) = some x ∧
          cell out.st r.win.buf (r.win.off + m.toNat) = some (.app2 (op ++ ".same") s x)) ∧
      (∀ b' k, b' ≠ r.win.buf → cell out.st b' k = cell st b' k) := by
  obtain ⟨st', h, hm, hv, hfr⟩ := engCmpScalar_iter_same_left_reuse' st op tc t r sc (by simpa using htc) hdt hsrc hit hnsc
    hs1 hmt hmr hr hnrt hnrs hlr hcr hct hor hot hnd hR hT hS
  refine ⟨_, _, h, rfl, rfl, cell_some_cellD (by simpa using hS.has 0 (by omega)), hm, ?_, hfr⟩
  intro k m j hk hj
  have hjr := hot j (List.mem_of_getElem? hj)
  exact ⟨_, cell_some_cellD (hT.has.at hjr.1 hjr.2), hv k m j hk hj⟩

/-- **Coordinate-wise, end to end.** For two well-formed operands of one proper shape of which at least one needs an
    iterator (or whose data orders differ) - well-formed in the sense of C13: the access pattern covers the storage window
    and addresses distinct cells - the comparison returns a fresh bool tensor `r` such that **for every coordinate `c` of
    the shape** the cell `r` addresses at `c` holds `op` of the cells `a` and `b` address at `c`, in operand order.
    No hypothesis about iterators is left: `wf_offsets` and `fresh_result_offsets_wf` discharge them, and
    `offsets_are_rowmajor` (C05/C06) turns positions of the walk into coordinates. -/
theorem engCmpVV_default_iter_coordinatewise (st : St) (op : String) (tc : List String) (a b : Dense)
    (hshape : b.ap.shape = a.ap.shape) (hdt : a.dt = b.dt) (htc : a.dt ∈ tc)
    (hu : (a.requiresIterator || b.requiresIterator || !sameOrd a b) = true)
    (hma : a.mask = none) (hmb : b.mask = none) (hla : a.win.len ≠ 1) (hlb : b.win.len ≠ 1)
    (hne : a.ap.shape ≠ [])
    (hcol : a.ap.o.col = true → isScalarEquiv a.ap.shape = false ∧ isVector a.ap.shape = false)
    (hca : C13.Covers a.ap (a.win.len : Int)) (hia : InjectivePat a.ap.shape a.ap.strides)
    (hcb : C13.Covers b.ap (b.win.len : Int)) (hib : InjectivePat b.ap.shape b.ap.strides)
    (hA : InBuf st a.win.buf a.win.off a.win.len) (hB : InBuf st b.win.buf b.win.off b.win.len) :
    ∃ out r, engCmpVV st op tc a b {} = .ok out ∧ out.ret = .fresh r ∧ r.dt = "b" ∧ r.ap.shape = a.ap.shape ∧
      r.ap.strides = Dense.defaultStrides a.ap.o.col a.ap.shape ∧
      (∀ c ∈ allCoords a.ap.shape, ∃ x y,
        cell st a.win.buf (a.win.off + (dot c a.ap.strides).toNat) = some x ∧
        cell st b.win.buf (b.win.off + (dot c b.ap.strides).toNat) = some y ∧
        cell out.st r.win.buf (dot c r.ap.strides).toNat = some (.app2 op x y)) ∧
      (∀ b' k, b' < st.heap.size → cell out.st b' k = cell st b' k) := by
  have hp : ∀ d ∈ a.ap.shape, 0 < d := hca.2.2.1
  obtain ⟨hoa, _⟩ := C13.wf_offsets a a.win.len hca hia
  obtain ⟨hob, _⟩ := C13.wf_offsets b b.win.len hcb hib
  obtain ⟨hor, hnd⟩ := freshOf_offsets_wf st "b" a.shape a.ap.o.col hp hne hcol
  have hsh : shapeEq a.shape b.shape = true := by
    have : b.shape = a.shape := hshape
    rw [this]; exact shapeEq_self _
  obtain ⟨out, r, h, hret, _, hrdt, hrs, hrst, _, _, _, _, _, hv, hfr⟩ :=
    engCmpVV_default_iter st op tc a b hsh hdt htc hu hma hmb hla hlb hor hoa hob hnd hA hB
  refine ⟨out, r, h, hret, hrdt, hrs, hrst, ?_, hfr⟩
  -- positions of the three walks are the coordinates in row-major order
  have hlr : r.ap.strides.length = r.ap.shape.length := by
    rw [hrst, hrs]
    cases hc : a.ap.o.col with
    | false => simp [Dense.defaultStrides, calcStrides_length]
    | true =>
      obtain ⟨h1, h2⟩ := hcol hc
      have := (colDefault_wf a.ap.shape hp h1 h2).2.1
      simp only [Dense.defaultStrides, if_true]
      exact this
  have eor : r.offsets = (allCoords a.ap.shape).map (fun c => dot c r.ap.strides) := by
    unfold Dense.offsets
    rw [offsets_rowmajor r.ap hlr (by rw [hrs]; exact hp), hrs]; rfl
  have eoa : a.offsets = (allCoords a.ap.shape).map (fun c => dot c a.ap.strides) := by
    unfold Dense.offsets; exact offsets_rowmajor a.ap hca.1 hp
  have eob : b.offsets = (allCoords a.ap.shape).map (fun c => dot c b.ap.strides) := by
    unfold Dense.offsets
    rw [offsets_rowmajor b.ap hcb.1 hcb.2.2.1, hshape]
  intro c hc
  obtain ⟨k, hk, hkc⟩ := List.getElem_of_mem hc
  have gr : r.offsets[k]? = some (dot c r.ap.strides) := by
    rw [eor, List.getElem?_map, List.getElem?_eq_getElem hk, hkc]; rfl
  have ga : a.offsets[k]? = some (dot c a.ap.strides) := by
    rw [eoa, List.getElem?_map, List.getElem?_eq_getElem hk, hkc]; rfl
  have gb : b.offsets[k]? = some (dot c b.ap.strides) := by
    rw [eob, List.getElem?_map, List.getElem?_eq_getElem hk, hkc]; rfl
  exact hv k _ _ _ gr ga gb

/-- **`AsSameType()`, coordinate-wise, end to end**: as `engCmpVV_default_iter_coordinatewise`, with the result of the
    operands' element type holding the 1/0 form at every coordinate. -/
theorem engCmpVV_same_iter_coordinatewise (st : St) (op : String) (tc : List String) (a b : Dense)
    (hshape : b.ap.shape = a.ap.shape) (hdt : a.dt = b.dt) (htc : a.dt ∈ tc)
    (hu : (a.requiresIterator || b.requiresIterator || !sameOrd a b) = true)
    (hma : a.mask = none) (hmb : b.mask = none) (hlb : b.win.len ≠ 1) (hl1 : denseLen a.shape ≠ 1)
    (hcap : a.win.len ≤ a.win.cap) (hne : a.ap.shape ≠ [])
    (hcol : a.ap.o.col = true → isScalarEquiv a.ap.shape = false ∧ isVector a.ap.shape = false)
    (hca : C13.Covers a.ap (a.win.len : Int)) (hia : InjectivePat a.ap.shape a.ap.strides)
    (hcb : C13.Covers b.ap (b.win.len : Int)) (hib : InjectivePat b.ap.shape b.ap.strides)
    (hA : InBuf st a.win.buf a.win.off a.win.len) (hB : InBuf st b.win.buf b.win.off b.win.len) :
    ∃ out r, engCmpVV st op tc a b { same := true } = .ok out ∧ out.ret = .fresh r ∧ r.dt = a.dt ∧
      r.ap.shape = a.ap.shape ∧ r.ap.strides = Dense.defaultStrides a.ap.o.col a.ap.shape ∧
      (∀ c ∈ allCoords a.ap.shape, ∃ x y,
        cell st a.win.buf (a.win.off + (dot c a.ap.strides).toNat) = some x ∧
        cell st b.win.buf (b.win.off + (dot c b.ap.strides).toNat) = some y ∧
        cell out.st r.win.buf (dot c r.ap.strides).toNat = some (.app2 (op ++ ".same") x y)) ∧
      (∀ b' k, b' < st.heap.size → cell out.st b' k = cell st b' k) := by
  have hp : ∀ d ∈ a.ap.shape, 0 < d := hca.2.2.1
  obtain ⟨hoa, _⟩ := C13.wf_offsets a a.win.len hca hia
  obtain ⟨hob, _⟩ := C13.wf_offsets b b.win.len hcb hib
  obtain ⟨hor, hnd⟩ := freshOf_offsets_wf st a.dt a.shape a.ap.o.col hp hne hcol
  have hsh : shapeEq a.shape b.shape = true := by
    have : b.shape = a.shape := hshape
    rw [this]; exact shapeEq_self _
  obtain ⟨out, r, h, hret, hrdt, hrs, hrst, _, _, _, hv, hfr⟩ :=
    engCmpVV_same_iter st op tc a b hsh hdt htc hu hma hmb hlb hl1 hcap hor hoa hob hnd hA hB
  refine ⟨out, r, h, hret, hrdt, hrs, hrst, ?_, hfr⟩
  have hlr : r.ap.strides.length = r.ap.shape.length := by
    rw [hrst, hrs]
    cases hc : a.ap.o.col with
    | false => simp [Dense.defaultStrides, calcStrides_length]
    | true =>
      obtain ⟨h1, h2⟩ := hcol hc
      have := (colDefault_wf a.ap.shape hp h1 h2).2.1
      simp only [Dense.defaultStrides, if_true]
      exact this
  have eor : r.offsets = (allCoords a.ap.shape).map (fun c => dot c r.ap.strides) := by
    unfold Dense.offsets
    rw [offsets_rowmajor r.ap hlr (by rw [hrs]; exact hp), hrs]; rfl
  have eoa : a.offsets = (allCoords a.ap.shape).map (fun c => dot c a.ap.strides) := by
    unfold Dense.offsets; exact offsets_rowmajor a.ap hca.1 hp
  have eob : b.offsets = (allCoords a.ap.shape).map (fun c => dot c b.ap.strides) := by
    unfold Dense.offsets
    rw [offsets_rowmajor b.ap hcb.1 hcb.2.2.1, hshape]
  intro c hc
  obtain ⟨k, hk, hkc⟩ := List.getElem_of_mem hc
  have gr : r.offsets[k]? = some (dot c r.ap.strides) := by
    rw [eor, List.getElem?_map, List.getElem?_eq_getElem hk, hkc]; rfl
  have ga : a.offsets[k]? = some (dot c a.ap.strides) := by
    rw [eoa, List.getElem?_map, List.getElem?_eq_getElem hk, hkc]; rfl
  have gb : b.offsets[k]? = some (dot c b.ap.strides) := by
    rw [eob, List.getElem?_map, List.getElem?_eq_getElem hk, hkc]; rfl
  exact hv k _ _ _ gr ga gb

/-! ## non-vacuity -/
namespace Ex
def st : St := { heap := #[#[.src 0 0, .src 0 1, .src 0 2, .src 0 3], #[.src 1 0, .src 1 1, .src 1 2, .src 1 3],
                           #[.src 2 0]] }
def ta : Dense := { ap := { shape := [2, 2], strides := [2, 1] }, win := ⟨0, 0, 4, 4⟩, dt := "f64" }
def tb : Dense := { ap := { shape := [2, 2], strides := [2, 1] }, win := ⟨1, 0, 4, 4⟩, dt := "f64" }
def sc : ScalarArg := { win := ⟨2, 0, 1, 1⟩, dt := "f64" }
theorem inA : InBuf st 0 0 4 := ⟨_, rfl, by decide⟩
theorem inB : InBuf st 1 0 4 := ⟨_, rfl, by decide⟩
theorem inS : InBuf st 2 0 1 := ⟨_, rfl, by decide⟩

example := engCmpVV_default st "gt" ordTypes ta tb (by decide) rfl (by decide) (by decide) (by decide) (by decide)
  rfl (by decide) (by decide) inA inB
example := engCmpVV_same st "gt" ordTypes ta tb (by decide) rfl (by decide) (by decide) (by decide) (by decide)
  rfl (by decide) (by decide) inA inB
example := engCmpVV_unsafe st "gt" ordTypes ta tb (by decide) rfl (by decide) (by decide) (by decide) (by decide)
  (by decide) rfl (by decide) inA inB
example := engCmpVV_refuses st "gt" ordTypes { ta with dt := "c128" } tb {} (by decide)
example := engCmpScalar_scalar_left st "gt" ordTypes ta sc (by decide) rfl rfl (by decide) rfl (by decide) (by decide)
  inS inA
-- column-major operands: the result is column-major as well (F36 repaired)
def tac : Dense := { ap := { shape := [2, 2], strides := [1, 2], o := { col := true } }, win := ⟨0, 0, 4, 4⟩, dt := "f64" }
def tbc : Dense := { ap := { shape := [2, 2], strides := [1, 2], o := { col := true } }, win := ⟨1, 0, 4, 4⟩, dt := "f64" }
example := engCmpVV_default st "gt" ordTypes tac tbc (by decide) rfl (by decide) (by decide) (by decide) (by decide)
  rfl (by decide) (by decide) inA inB
example : ∃ out r, engCmpVV st "gt" ordTypes tac tbc {} = .ok out ∧ out.ret = .fresh r ∧ r.ap.o.col = true ∧
    r.ap.strides = [1, 2] := ⟨_, _, rfl, rfl, rfl, by decide⟩
-- the one-element tensor and the scalar on its left, unsafe (F33 repaired): `gt.same 2 t[0]` ends up in the tensor
def st1 : St := { heap := #[#[.src 0 0], #[.src 1 0]] }
def t1 : Dense := { ap := { shape := [1, 1], strides := [1, 1] }, win := ⟨0, 0, 1, 1⟩, dt := "f64" }
def sc1 : ScalarArg := { win := ⟨1, 0, 1, 1⟩, dt := "f64" }
example := engCmpScalar_unsafe_scalar_left_one st1 "gt" ordTypes t1 sc1 (by decide) rfl rfl rfl rfl (by decide) (by decide)
  ⟨_, rfl, by decide⟩ ⟨_, rfl, by decide⟩
example : ∃ out, engCmpScalar st1 "gt" ordTypes t1 sc1 false { unsafe_ := true } = .ok out ∧
    cell out.st 0 0 = some (.app2 "gt.same" (.src 1 0) (.src 0 0)) := ⟨_, rfl, rfl⟩
-- the former witness of F31 (`new i8 1,6 C ; slice $0 n,0:6:2 ; bin gt meth #k3 $1 same`): a (1,3) view with a gap
-- after every element; its iterator yields the offsets 0, 2, 4 of a 5-cell window, the result has 3 cells
def st6 : St := { heap := #[#[.src 0 0, .src 0 1, .src 0 2, .src 0 3, .src 0 4, .src 0 5], #[.src 1 0],
                            #[.src 2 0, .src 2 1, .src 2 2]] }
def tv : Dense := { ap := { shape := [1, 3], strides := [6, 2], o := { nonContig := true } }, win := ⟨0, 0, 5, 6⟩,
                    dt := "i8", view := true }
def scv : ScalarArg := { win := ⟨1, 0, 1, 1⟩, dt := "i8" }
def trv : Dense := { ap := { shape := [1, 3], strides := [3, 1] }, win := ⟨2, 0, 3, 3⟩, dt := "i8" }
example : tv.offsets = [0, 2, 4] ∧ (freshOf st6 "i8" [1, 3] false).offsets = [0, 1, 2] := by decide
example := engCmpScalar_default_iter st6 "gt" ordTypes tv scv true (by decide) rfl rfl (by decide) (by decide) rfl rfl
  (by decide) (by decide) (by decide) (by decide) ⟨_, rfl, by decide⟩ ⟨_, rfl, by decide⟩
example := engCmpScalar_default_iter st6 "gt" ordTypes tv scv false (by decide) rfl rfl (by decide) (by decide) rfl rfl
  (by decide) (by decide) (by decide) (by decide) ⟨_, rfl, by decide⟩ ⟨_, rfl, by decide⟩
example := engCmpScalar_same_scalar_left_iter st6 "gt" ordTypes tv scv (by decide) rfl rfl (by decide) (by decide) rfl rfl
  (by decide) (by decide) (by decide) (by decide) (by decide) ⟨_, rfl, by decide⟩ ⟨_, rfl, by decide⟩
example := engCmpScalar_same_scalar_left_iter_reuse st6 "gt" ordTypes tv trv scv (by decide) rfl rfl (by decide) (by decide)
  rfl rfl rfl ⟨rfl, by decide, by decide, rfl⟩ (by decide) (by decide) (by decide) (by decide) (by decide) (by decide)
  (by decide) (by decide) ⟨_, rfl, by decide⟩ ⟨_, rfl, by decide⟩ ⟨_, rfl, by decide⟩
/-- the run itself: the three cells of the fresh result (buffer 3) are `gt.same 3 t[0]`, `gt.same 3 t[2]`, `gt.same 3 t[4]`
    (before the repair the kernel indexed the 3-cell result with the offsets 0, 2, 4 and panicked) -/
example : ∃ out, engCmpScalar st6 "gt" ordTypes tv scv false { same := true } = .ok out ∧
    cell out.st 3 0 = some (.app2 "gt.same" (.src 1 0) (.src 0 0)) ∧
    cell out.st 3 1 = some (.app2 "gt.same" (.src 1 0) (.src 0 2)) ∧
    cell out.st 3 2 = some (.app2 "gt.same" (.src 1 0) (.src 0 4)) := ⟨_, rfl, rfl, rfl, rfl⟩
-- the end-to-end form on a lazily transposed (2,2) operand and a contiguous one
def taT : Dense := { ap := { shape := [2, 2], strides := [1, 2] }, old := some { shape := [2, 2], strides := [2, 1] }, tw := some [1, 0],
                     win := ⟨0, 0, 4, 4⟩, dt := "f64" }
example := engCmpVV_default_iter_coordinatewise st "gt" ordTypes taT tb rfl rfl (by decide) (by decide) rfl rfl (by decide) (by decide)
  (by decide) (by intro h; cases h)
  ⟨rfl, by decide, by decide, by decide⟩ (by
    have h := C13.T_distinct [1, 0] [2, 2] [2, 1] (by decide) rfl (C13.default_distinct [2, 2])
    simpa [gatherI, taT] using h)
  ⟨rfl, by decide, by decide, by decide⟩ (C13.default_distinct [2, 2]) inA inB
example := engCmpVV_same_iter_coordinatewise st "gt" ordTypes taT tb rfl rfl (by decide) (by decide) rfl rfl (by decide) (by decide)
  (by decide) (by decide) (by intro h; cases h)
  ⟨rfl, by decide, by decide, by decide⟩ (by
    have h := C13.T_distinct [1, 0] [2, 2] [2, 1] (by decide) rfl (C13.default_distinct [2, 2])
    simpa [gatherI, taT] using h)
  ⟨rfl, by decide, by decide, by decide⟩ (C13.default_distinct [2, 2]) inA inB
-- the iterator path: the (1,3) view with gaps of the former F31 witness compared with a contiguous (1,3) tensor
example := engCmpVV_default_iter st6 "gt" ordTypes tv trv (by decide) rfl (by decide) (by decide) rfl rfl (by decide) (by decide)
  (by decide) (by decide) (by decide) (by decide) ⟨_, rfl, by decide⟩ ⟨_, rfl, by decide⟩
example := engCmpVV_unsafe_iter st6 "gt" ordTypes tv trv (by decide) rfl (by decide) (by decide) rfl rfl (by decide) (by decide)
  (by decide) (by decide) (by decide) (by decide) ⟨_, rfl, by decide⟩ ⟨_, rfl, by decide⟩
example := engCmpVV_same_iter st6 "gt" ordTypes tv trv (by decide) rfl (by decide) (by decide) rfl rfl (by decide) (by decide)
  (by decide) (by decide) (by decide) (by decide) (by decide) ⟨_, rfl, by decide⟩ ⟨_, rfl, by decide⟩
example : ∃ out, engCmpVV st6 "gt" ordTypes tv trv {} = .ok out ∧
    cell out.st 3 0 = some (.app2 "gt" (.src 0 0) (.src 2 0)) ∧
    cell out.st 3 1 = some (.app2 "gt" (.src 0 2) (.src 2 1)) ∧
    cell out.st 3 2 = some (.app2 "gt" (.src 0 4) (.src 2 2)) := ⟨_, rfl, rfl, rfl, rfl⟩
/-- a concrete run: `Gt(2, t)` compares `gt 2 t[i]`, not `gt t[i] 2` -/
example : ∃ out, engCmpScalar st "gt" ordTypes ta sc false {} = .ok out ∧
    cell out.st 3 1 = some (.app2 "gt" (.src 2 0) (.src 0 1)) := ⟨_, rfl, rfl⟩
end Ex

end TM.C11
