package main

import (
	"fmt"
	"strconv"
	"strings"

	"gorgonia.org/tensor"
)

type fnBin func(a, b interface{}, opts ...tensor.FuncOpt) (tensor.Tensor, error)
type methVV func(t *tensor.Dense, o *tensor.Dense, opts ...tensor.FuncOpt) (*tensor.Dense, error)
type methSc func(t *tensor.Dense, s interface{}, left bool, opts ...tensor.FuncOpt) (*tensor.Dense, error)

var binFns = map[string]fnBin{
	"add": tensor.Add, "sub": tensor.Sub, "mul": tensor.Mul, "div": tensor.Div, "mod": tensor.Mod, "pow": tensor.Pow,
	"gt": tensor.Gt, "gte": tensor.Gte, "lt": tensor.Lt, "lte": tensor.Lte, "eq": tensor.ElEq, "ne": tensor.ElNe,
}

var binMethVV = map[string]methVV{
	"add": (*tensor.Dense).Add, "sub": (*tensor.Dense).Sub, "mul": (*tensor.Dense).Mul, "div": (*tensor.Dense).Div,
	"mod": (*tensor.Dense).Mod, "pow": (*tensor.Dense).Pow,
	"gt": (*tensor.Dense).Gt, "gte": (*tensor.Dense).Gte, "lt": (*tensor.Dense).Lt, "lte": (*tensor.Dense).Lte,
	"eq": (*tensor.Dense).ElEq, "ne": (*tensor.Dense).ElNe,
}

var binMethSc = map[string]methSc{
	"add": (*tensor.Dense).AddScalar, "sub": (*tensor.Dense).SubScalar, "mul": (*tensor.Dense).MulScalar, "div": (*tensor.Dense).DivScalar,
	"mod": (*tensor.Dense).ModScalar, "pow": (*tensor.Dense).PowScalar,
	"gt": (*tensor.Dense).GtScalar, "gte": (*tensor.Dense).GteScalar, "lt": (*tensor.Dense).LtScalar, "lte": (*tensor.Dense).LteScalar,
	"eq": (*tensor.Dense).ElEqScalar, "ne": (*tensor.Dense).ElNeScalar,
}

// parseFuncOpts turns "unsafe", "same", "reuse=$k", "incr=$k" into FuncOpts.
func (p *prog) parseFuncOpts(toks []string) ([]tensor.FuncOpt, bool) {
	var out []tensor.FuncOpt
	for _, t := range toks {
		switch {
		case t == "safe":
		case t == "unsafe":
			out = append(out, tensor.UseUnsafe())
		case t == "same":
			out = append(out, tensor.AsSameType())
		case strings.HasPrefix(t, "reuse="):
			d, _ := p.get(t[6:])
			if d == nil {
				return nil, false
			}
			out = append(out, tensor.WithReuse(d))
		case strings.HasPrefix(t, "incr="):
			d, _ := p.get(t[5:])
			if d == nil {
				return nil, false
			}
			out = append(out, tensor.WithIncr(d))
		default:
			return nil, false
		}
	}
	return out, true
}

func (p *prog) identOf(t *tensor.Dense) string {
	for i, v := range p.vars {
		if v == t {
			return "$" + strconv.Itoa(i)
		}
	}
	return "new"
}

// scalarLit builds the Go scalar for "#k3" (type of the tensor operand) or "#k3:f32".
func scalarLit(tok string, def *dtInfo) (interface{}, error) {
	tok = strings.TrimPrefix(tok, "#")
	if def == nil && !strings.Contains(tok, ":") {
		return nil, fmt.Errorf("literal without type")
	}
	if def == nil {
		def = dtByName("i")
	}
	return def.litVal(tok)
}

// finishTensorOp records the returned tensor as a new variable (aliasing an existing one when the
// library returned one of its arguments) and reports its identity.
func (p *prog) finishTensorOp(f func() (*tensor.Dense, error)) *rec {
	var out *tensor.Dense
	res := guard(func() error {
		t, err := f()
		if err != nil {
			return err
		}
		out = t
		return nil
	})
	if res != "ok" || out == nil {
		p.push(nil, nil)
		if res == "ok" {
			res = "err"
		}
		return simple(res)
	}
	id := p.identOf(out)
	p.push(out, dtOf(out.Dtype()))
	r := simple("ok")
	r.fields["ident"] = id
	return r
}

func (p *prog) stepBin(toks []string) *rec {
	if len(toks) < 5 {
		return simple("badprog")
	}
	op, via, at, bt := toks[1], toks[2], toks[3], toks[4]
	opts, ok := p.parseFuncOpts(toks[5:])
	if !ok {
		p.push(nil, nil)
		return simple("skip")
	}
	fn := binFns[op]
	if fn == nil {
		p.push(nil, nil)
		return simple("badprog")
	}
	var a, b interface{}
	var ad, bd *tensor.Dense
	var adt, bdt *dtInfo
	if strings.HasPrefix(at, "$") {
		ad, adt = p.get(at)
		if ad == nil {
			p.push(nil, nil)
			return simple("skip")
		}
		a = ad
	}
	if strings.HasPrefix(bt, "$") {
		bd, bdt = p.get(bt)
		if bd == nil {
			p.push(nil, nil)
			return simple("skip")
		}
		b = bd
	}
	var err error
	if a == nil {
		if a, err = scalarLit(at, bdt); err != nil {
			p.push(nil, nil)
			return simple("skip")
		}
	}
	if b == nil {
		if b, err = scalarLit(bt, adt); err != nil {
			p.push(nil, nil)
			return simple("skip")
		}
	}
	return p.finishTensorOp(func() (*tensor.Dense, error) {
		if via == "meth" {
			switch {
			case ad != nil && bd != nil:
				return binMethVV[op](ad, bd, opts...)
			case ad != nil:
				return binMethSc[op](ad, b, true, opts...)
			case bd != nil:
				return binMethSc[op](bd, a, false, opts...)
			}
			return nil, fmt.Errorf("no tensor operand")
		}
		ret, err := fn(a, b, opts...)
		if err != nil {
			return nil, err
		}
		d, ok := ret.(*tensor.Dense)
		if !ok {
			return nil, fmt.Errorf("not dense")
		}
		return d, nil
	})
}
