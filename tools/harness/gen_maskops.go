package main

// Generator of the family MaskOps (property C15: mask setters, constructor option WithMask, arg-reductions and
// reductions of masked tensors, the operations of the C06 matrix gen_mask.go leaves out on masked operands).
// Chained into the C15 generator (see the end of gen_mask.go).

import (
	"fmt"
	"strings"
)

var moOrdDtypes = []string{"i", "i8", "i16", "i32", "i64", "u", "u8", "u16", "u32", "u64", "f32", "f64", "str"}
var moNumDtypes = []string{"i", "i8", "i16", "i32", "i64", "u", "u8", "u16", "u32", "u64", "f32", "f64", "c64", "c128"}
var moSliceTypes = []string{"b", "i", "i8", "i16", "i32", "i64", "u", "u8", "u16", "u32", "u64", "f32", "f64", "c64", "c128", "str"}
var moLayouts = []string{"contig", "lazyT", "sliced", "rowslice", "stepped", "mat", "physT", "colmajor"}

// moLaneBits: mask of a contiguous row-major tensor of shape sh in which exactly the elements of the
// lanes (along axis) selected by pick are masked.
func moLaneBits(sh []int, axis int, pick func(lane int) bool) string {
	cs := allCoords(sh)
	rest := moEraseAxes(sh, []int{axis})
	lanes := allCoords(rest)
	laneOf := func(c []int) int {
		r := moEraseAxes(c, []int{axis})
		for i, l := range lanes {
			if moSameInts(l, r) {
				return i
			}
		}
		return -1
	}
	return maskBitsOf(len(cs), func(i int) bool { return pick(laneOf(cs[i])) })
}

func moDigits(n int, f func(i int) int) string {
	if n == 0 {
		return "-"
	}
	var sb strings.Builder
	for i := 0; i < n; i++ {
		sb.WriteByte(byte('0' + f(i)))
	}
	return sb.String()
}

func (g *gen) moRandDigits(n int) string {
	if n == 0 {
		return ""
	}
	return moDigits(n, func(int) int {
		if g.r.chance(1, 2) {
			return 0
		}
		return 1 + g.r.intn(9)
	})
}

// moAxes: every axis of the shape plus the flat variant
func moAxes(sh []int) []string {
	out := []string{"all"}
	for i := range sh {
		out = append(out, fmt.Sprint(i))
	}
	return out
}

func genC15ops(g *gen) {
	th := g.thorough()
	rep := func(q, t int) int {
		if th {
			return t
		}
		return q
	}
	vsTok := func(vs int) (string, string) { return fmt.Sprintf("vset=%d", vs), fmt.Sprintf("vs=%d", vs) }
	argShapes := [][]int{{4}, {5}, {2, 3}, {3, 2}, {3, 3}, {2, 2, 2}, {2, 3, 2}, {3, 1}, {1, 4}, {2, 1, 3}, {1}, {}}

	// --- A. arg-reductions of masked tensors: element type x layout x mask class, every axis + flat
	maskKinds := []string{"rand", "zeros", "ones", "none", "alt"}
	for _, dt := range moOrdDtypes {
		for _, lay := range moLayouts {
			for _, mk := range maskKinds {
				for r := 0; r < rep(1, 12); r++ {
					sh := g.r.pickInts(argShapes)
					vs := []int{0, 2, 3, 2, 3, 1}[g.r.intn(6)]
					vset, vsd := vsTok(vs)
					for _, ax := range moAxes(sh) {
						if !th && len(sh) >= 2 && !g.r.chance(2, 3) {
							continue
						}
						steps := []string{vset}
						nv := 0
						v := g.moperand(&steps, &nv, dt, sh, lay, mk)
						op := g.r.pick([]string{"argmax", "argmin"})
						steps = append(steps, fmt.Sprintf("marg %s %s $%d %s %s", op, g.r.pick([]string{"fn", "meth"}), v, ax, vsd))
						res := nv
						steps = append(steps, fmt.Sprintf("dump $%d", res), fmt.Sprintf("mdump $%d", v))
						g.emit(steps...)
					}
				}
			}
		}
	}
	// lanes: all set along one lane / all but one lane / one element per lane, contiguous and lazily transposed
	for _, dt := range moOrdDtypes {
		for _, sh := range [][]int{{2, 3}, {3, 2}, {2, 2, 2}, {2, 3, 2}, {3, 3}} {
			for ax := range sh {
				for _, variant := range []string{"onelane", "allbutone", "firstlane", "diag"} {
					if !th && !g.r.chance(1, 2) {
						continue
					}
					nl := size(sh) / sh[ax]
					k := g.r.intn(nl)
					var bits string
					switch variant {
					case "onelane":
						bits = moLaneBits(sh, ax, func(l int) bool { return l == k })
					case "allbutone":
						bits = moLaneBits(sh, ax, func(l int) bool { return l != k })
					case "firstlane":
						bits = moLaneBits(sh, ax, func(l int) bool { return l == 0 })
					case "diag":
						cs := allCoords(sh)
						bits = maskBitsOf(len(cs), func(i int) bool { return (cs[i][ax]+i)%2 == 0 })
					}
					vs := []int{0, 2, 3}[g.r.intn(3)]
					vset, vsd := vsTok(vs)
					op := g.r.pick([]string{"argmax", "argmin"})
					steps := []string{vset, fmt.Sprintf("mnew %s %s C %s", dt, ints(sh), bits)}
					if g.r.chance(1, 3) {
						// the same lanes seen through a lazy transpose moving the axis
						p := g.randPerm(len(sh))
						steps = append(steps, fmt.Sprintf("T $0 %s", ints(p)))
						for i, a := range p {
							if a == ax {
								steps = append(steps, fmt.Sprintf("marg %s fn $0 %d %s", op, i, vsd), "dump $1", "mdump $0")
							}
						}
					} else {
						steps = append(steps, fmt.Sprintf("marg %s %s $0 %d %s", op, g.r.pick([]string{"fn", "meth"}), ax, vsd), "dump $1", "mdump $0")
					}
					g.emit(steps...)
				}
			}
		}
	}
	// floats under the special-value set (NaN, +-Inf, -0): the early returns of the float kernels; S is silent on
	// lanes with a valid NaN
	for _, dt := range []string{"f32", "f64"} {
		for _, sh := range [][]int{{8}, {16}, {4, 4}, {2, 8}, {2, 2, 4}} {
			for _, ax := range moAxes(sh) {
				for r := 0; r < rep(2, 12); r++ {
					op := g.r.pick([]string{"argmax", "argmin"})
					g.emit("vset=1", fmt.Sprintf("mnew %s %s C %s", dt, ints(sh), g.maskBits(size(sh), g.r.pick([]string{"rand", "rand", "zeros", "alt"}))),
						fmt.Sprintf("marg %s %s $0 %s vs=1", op, g.r.pick([]string{"fn", "meth"}), ax), "dump $1", "mdump $0")
				}
			}
		}
	}
	// flat vs per-axis on vectors (the two routes must agree), ties at the ends
	for _, dt := range moOrdDtypes {
		for r := 0; r < rep(2, 20); r++ {
			n := 2 + g.r.intn(6)
			vs := []int{2, 3}[g.r.intn(2)]
			vset, vsd := vsTok(vs)
			op := g.r.pick([]string{"argmax", "argmin"})
			bits := g.maskBits(n, g.r.pick([]string{"rand", "rand", "alt", "ones", "zeros"}))
			g.emit(vset, fmt.Sprintf("mnew %s %d C %s", dt, n, bits), fmt.Sprintf("marg %s fn $0 all %s", op, vsd), fmt.Sprintf("marg %s meth $0 0 %s", op, vsd), "dump $1", "dump $2")
		}
	}
	// refusals and malformed axes
	for r := 0; r < rep(30, 300); r++ {
		dt := g.r.pick([]string{"b", "c64", "c128", "f64", "i16", "str"})
		sh := g.r.pickInts([][]int{{2, 3}, {4}, {2, 2, 2}})
		ax := g.r.pick([]string{"0", fmt.Sprint(len(sh)), fmt.Sprint(len(sh) + 2), "all", "-2", "-3"})
		g.emit(fmt.Sprintf("mnew %s %s C %s", dt, ints(sh), g.maskBits(size(sh), "rand")), fmt.Sprintf("marg %s fn $0 %s vs=0", g.r.pick([]string{"argmax", "argmin"}), ax), "mdump $0")
	}

	// --- B. Sum / Max / Min of masked tensors
	for _, op := range []string{"sum", "max", "min"} {
		dts := moNumDtypes
		if op != "sum" {
			dts = moOrdDtypes[:12]
		}
		for _, dt := range dts {
			for r := 0; r < rep(4, 40); r++ {
				sh := g.r.pickInts(argShapes)
				lay := g.r.pick(moLayouts)
				mk := g.r.pick([]string{"rand", "zeros", "none", "ones", "rand"})
				vs := []int{0, 2, 3}[g.r.intn(3)]
				vset, vsd := vsTok(vs)
				var axes string
				switch g.r.intn(4) {
				case 0:
					axes = "-"
				case 1:
					if len(sh) > 0 {
						axes = fmt.Sprint(g.r.intn(len(sh)))
					} else {
						axes = "-"
					}
				case 2:
					all := make([]int, len(sh))
					for i := range all {
						all[i] = i
					}
					axes = ints(all)
				default:
					if len(sh) >= 2 {
						axes = fmt.Sprintf("%d,%d", len(sh)-1, 0)
					} else {
						axes = "-"
					}
				}
				steps := []string{vset}
				nv := 0
				v := g.moperand(&steps, &nv, dt, sh, lay, mk)
				steps = append(steps, fmt.Sprintf("mred %s %s $%d %s %s", op, g.r.pick([]string{"fn", "meth"}), v, axes, vsd))
				steps = append(steps, fmt.Sprintf("dump $%d", nv), fmt.Sprintf("mdump $%d", v))
				g.emit(steps...)
			}
		}
	}

	// --- C. SetMaskAt: every coordinate class x layout x mask state; parent dumped
	setShapes := [][]int{{2, 3}, {3, 2}, {2, 2, 2}, {4}, {3, 1}, {1, 3}, {}, {1}, {2, 1, 2}}
	parentDumps := func(steps []string, v int) []string {
		steps = append(steps, fmt.Sprintf("mdump $%d", v))
		if v != 0 {
			steps = append(steps, "mdump $0")
		}
		return steps
	}
	for _, lay := range moLayouts {
		for _, mk := range []string{"rand", "none", "zeros", "ones"} {
			for r := 0; r < rep(6, 60); r++ {
				sh := g.r.pickInts(setShapes)
				dt := g.r.pick(allDtypes)
				var steps []string
				nv := 0
				v := g.moperand(&steps, &nv, dt, sh, lay, mk)
				// a valid coordinate
				c := make([]int, len(sh))
				for i, d := range sh {
					c[i] = g.r.intn(d)
				}
				val := g.r.intn(2)
				switch g.r.intn(8) {
				case 0: // out of range
					if len(sh) > 0 {
						i := g.r.intn(len(sh))
						c[i] = sh[i] + g.r.intn(2)
					}
				case 1: // negative
					if len(sh) > 0 {
						c[g.r.intn(len(sh))] = -1 - g.r.intn(2)
					}
				case 2: // too few
					if len(c) > 0 {
						c = c[:len(c)-1]
					}
				case 3: // too many
					c = append(c, 0)
				}
				steps = append(steps, fmt.Sprintf("msetat $%d %d %s", v, val, ints(c)))
				steps = parentDumps(steps, v)
				// a second, valid write with the other value, then the flat view of the mask
				c2 := make([]int, len(sh))
				for i, d := range sh {
					c2[i] = g.r.intn(d)
				}
				steps = append(steps, fmt.Sprintf("msetat $%d %d %s", v, 1-val, ints(c2)))
				steps = parentDumps(steps, v)
				steps = append(steps, fmt.Sprintf("mq count $%d", v))
				g.emit(steps...)
			}
		}
	}
	// every coordinate of small tensors, both values, on masked tensors (frame: exactly one bit changes)
	for _, sh := range [][]int{{2, 3}, {2, 2, 2}, {4}, {3, 1}} {
		for i, c := range allCoords(sh) {
			for val := 0; val < 2; val++ {
				if !th && (i+val)%2 == 1 {
					continue
				}
				n := size(sh)
				g.emit(fmt.Sprintf("mnew %s %s C %s", g.r.pick(widthDtypes), ints(sh), g.maskBits(n, "rand")), "mdump $0",
					fmt.Sprintf("msetat $0 %d %s", val, ints(c)), "mdump $0", "miter $0 Y", "dump $0")
			}
		}
	}

	// --- D. SetMaskAtIndex
	for _, lay := range moLayouts {
		for _, mk := range []string{"rand", "none", "ones"} {
			for r := 0; r < rep(6, 60); r++ {
				sh := g.r.pickInts(setShapes)
				dt := g.r.pick(allDtypes)
				var steps []string
				nv := 0
				v := g.moperand(&steps, &nv, dt, sh, lay, mk)
				n := size(sh)
				i := g.r.intn(n)
				switch g.r.intn(6) {
				case 0:
					i = n + g.r.intn(3) // outside the elements (inside the window of a view with gaps, or outside)
				case 1:
					i = -1 - g.r.intn(2)
				case 2:
					i = 2*n + 7
				}
				steps = append(steps, fmt.Sprintf("mseti $%d %d %d", v, g.r.intn(2), i))
				steps = parentDumps(steps, v)
				steps = append(steps, fmt.Sprintf("mseti $%d %d %d", v, g.r.intn(2), g.r.intn(n)))
				steps = parentDumps(steps, v)
				g.emit(steps...)
			}
		}
	}
	// every index of small masked tensors, contiguous and lazily transposed
	for _, sh := range [][]int{{2, 3}, {2, 2, 2}, {5}} {
		for i := -1; i <= size(sh); i++ {
			for _, tr := range []bool{false, true} {
				if tr && len(sh) < 2 {
					continue
				}
				steps := []string{fmt.Sprintf("mnew %s %s C %s", g.r.pick(widthDtypes), ints(sh), g.maskBits(size(sh), "rand"))}
				if tr {
					steps = append(steps, fmt.Sprintf("T $0 %s", ints(g.randPerm(len(sh)))))
				}
				steps = append(steps, "mdump $0", fmt.Sprintf("mseti $0 %d %d", g.r.intn(2), i), "mdump $0", "dump $0")
				g.emit(steps...)
			}
		}
	}

	// --- E. ResetMask
	for _, lay := range moLayouts {
		for _, mk := range []string{"rand", "none", "ones", "zeros"} {
			for _, val := range []string{"0", "1", "-"} {
				for r := 0; r < rep(2, 20); r++ {
					sh := g.r.pickInts(setShapes)
					var steps []string
					nv := 0
					v := g.moperand(&steps, &nv, g.r.pick(allDtypes), sh, lay, mk)
					steps = append(steps, fmt.Sprintf("mreset $%d %s", v, val))
					steps = parentDumps(steps, v)
					steps = append(steps, fmt.Sprintf("mq count $%d", v), fmt.Sprintf("dump $%d", v))
					g.emit(steps...)
				}
			}
		}
	}

	// --- F. MaskFromSlice: slice type x size relation x layout x prior mask
	for _, ty := range append(append([]string{}, moSliceTypes...), "uptr", "scalar", "nil") {
		for _, rel := range []string{"eq", "eq", "eq", "short", "long0", "long1", "empty", "long2"} {
			for r := 0; r < rep(2, 16); r++ {
				sh := g.r.pickInts([][]int{{2, 3}, {4}, {2, 2, 2}, {3, 1}, {}, {1}, {3, 2}})
				lay := "contig"
				if r > 0 {
					lay = g.r.pick(moLayouts)
				}
				var steps []string
				nv := 0
				v := g.moperand(&steps, &nv, g.r.pick(allDtypes), sh, lay, g.r.pick([]string{"rand", "none", "ones"}))
				n := size(sh)
				var digits string
				switch rel {
				case "eq":
					digits = g.moRandDigits(n)
				case "short":
					digits = g.moRandDigits(g.r.intn(n))
				case "long0": // longer, entry n is zero: the loop returns quietly
					digits = g.moRandDigits(n) + "0" + g.moRandDigits(g.r.intn(3))
				case "long1": // longer, entry n is non-zero
					digits = g.moRandDigits(n) + "3" + g.moRandDigits(g.r.intn(3))
				case "long2":
					digits = g.moRandDigits(n) + g.moRandDigits(1+g.r.intn(3))
				case "empty":
					digits = "-"
				}
				if digits == "" {
					digits = "-"
				}
				steps = append(steps, fmt.Sprintf("mfromslice $%d %s %s", v, ty, digits))
				steps = parentDumps(steps, v)
				steps = append(steps, fmt.Sprintf("mq count $%d", v))
				g.emit(steps...)
			}
		}
	}

	// --- G. MaskFromDense
	for r := 0; r < rep(400, 6000); r++ {
		sh := g.r.pickInts([][]int{{2, 3}, {3, 2}, {4}, {2, 2, 2}, {3, 1}, {}, {1, 3}})
		dt := g.r.pick(allDtypes)
		var steps []string
		nv := 0
		recvLay := g.r.pick([]string{"contig", "contig", "contig", "lazyT", "rowslice", "sliced", "mat", "colmajor"})
		t := g.moperand(&steps, &nv, dt, sh, recvLay, g.r.pick([]string{"rand", "none", "none", "zeros"}))
		args := []string{}
		na := 1 + g.r.intn(3)
		for i := 0; i < na; i++ {
			switch g.r.intn(10) {
			case 0:
				args = append(args, "nil")
			case 1:
				args = append(args, fmt.Sprintf("$%d", t)) // the receiver itself
			case 2: // another size: the operand mask is cycled
				o := g.moperand(&steps, &nv, g.r.pick(allDtypes), g.r.pickInts([][]int{{2}, {3}, {7}, {2, 2}, {}}), "contig", "rand")
				args = append(args, fmt.Sprintf("$%d", o))
			case 3: // same size, other shape
				osh := []int{size(sh)}
				o := g.moperand(&steps, &nv, dt, osh, "contig", "rand")
				args = append(args, fmt.Sprintf("$%d", o))
			default:
				lay := g.r.pick([]string{"contig", "contig", "contig", "lazyT", "rowslice", "sliced", "mat", "stepped"})
				o := g.moperand(&steps, &nv, g.r.pick(allDtypes), sh, lay, g.r.pick([]string{"rand", "rand", "rand", "none", "ones"}))
				args = append(args, fmt.Sprintf("$%d", o))
			}
		}
		if g.r.chance(1, 25) {
			args = nil
		}
		steps = append(steps, strings.TrimSpace(fmt.Sprintf("mfromdense $%d %s", t, strings.Join(args, " "))))
		steps = append(steps, fmt.Sprintf("mdump $%d", t))
		for _, a := range args {
			if a != "nil" && a != fmt.Sprintf("$%d", t) {
				steps = append(steps, "mdump "+a)
			}
		}
		if t != 0 {
			steps = append(steps, "mdump $0")
		}
		g.emit(steps...)
	}

	// --- H. the constructor option WithMask: option order x mask type x size relation
	optOrders := []string{"SBM", "SMB", "BSM", "BMS", "MSB", "MBS", "BM", "MB", "SM", "MS", "M", "SB", "B", "S"}
	for _, opts := range optOrders {
		for _, ty := range []string{"b", "i", "f64", "u8", "str", "c128", "i16", "nil", "uptr", "scalar"} {
			for r := 0; r < rep(2, 12); r++ {
				sh := g.r.pickInts([][]int{{2, 3}, {4}, {2, 2, 2}, {1}, {3, 1}, {6}, {2}})
				if g.r.chance(1, 12) && strings.Contains(opts, "S") {
					sh = []int{}
				}
				n := size(sh)
				var digits string
				switch g.r.intn(6) {
				case 0:
					digits = g.moRandDigits(g.r.intn(n + 1))
				case 1:
					digits = g.moRandDigits(n + 1 + g.r.intn(2))
				case 2:
					digits = moDigits(n, func(i int) int { return 1 }) // all set: also the entry that panics without a shape
				default:
					digits = g.moRandDigits(n)
				}
				if digits == "" {
					digits = "-"
				}
				g.emit(fmt.Sprintf("mcons %s %s %s %s %s", g.r.pick(allDtypes), ints(sh), opts, ty, digits), "mdump $0", "mq count $0", "miter $0 Y")
			}
		}
	}

	// --- I. elementwise operations on masked operands: operations / element types gen_mask.go leaves out
	binOps := []string{"div", "mod", "pow", "gte", "lte", "ne"}
	opLayouts := []string{"contig", "lazyT", "rowslice", "sliced", "stepped", "mat"}
	for _, op := range binOps {
		for _, mode := range []string{"safe", "unsafe", "reuse"} {
			for _, kind := range []string{"TT", "TS", "ST"} {
				for r := 0; r < rep(3, 40); r++ {
					isCmp := op == "gte" || op == "lte" || op == "ne"
					dt := g.r.pick([]string{"i", "i8", "u16", "u32", "u64", "i32", "i64", "u"})
					sh := g.r.pickInts([][]int{{2, 3}, {4}, {3, 2}, {2, 2, 2}, {3, 1}})
					steps := []string{"vset=2"}
					nv := 0
					mk := func() string { return g.r.pick([]string{"rand", "rand", "rand", "none", "ones"}) }
					var A, B string
					var operands []int
					switch kind {
					case "TT":
						a := g.moperand(&steps, &nv, dt, sh, g.r.pick(opLayouts), mk())
						b := g.moperand(&steps, &nv, dt, sh, g.r.pick(opLayouts), mk())
						A, B = fmt.Sprintf("$%d", a), fmt.Sprintf("$%d", b)
						operands = []int{a, b}
					case "TS":
						a := g.moperand(&steps, &nv, dt, sh, g.r.pick(opLayouts), mk())
						A, B = fmt.Sprintf("$%d", a), fmt.Sprintf("#k%d", 2+g.r.intn(3))
						operands = []int{a}
					case "ST":
						b := g.moperand(&steps, &nv, dt, sh, g.r.pick(opLayouts), mk())
						A, B = fmt.Sprintf("#k%d", 2+g.r.intn(3)), fmt.Sprintf("$%d", b)
						operands = []int{b}
					}
					opts := ""
					valid := append([]int{}, operands...)
					written := -1
					switch mode {
					case "unsafe":
						opts = " unsafe"
						written = operands[0]
					case "reuse":
						d := g.moperand(&steps, &nv, dt, sh, g.r.pick([]string{"contig", "contig", "rowslice"}), g.r.pick([]string{"none", "none", "rand"}))
						valid = append(valid, d)
						written = d
						opts = fmt.Sprintf(" reuse=$%d", d)
						if isCmp {
							opts += " same"
						}
					}
					steps = append(steps, fmt.Sprintf("bin %s %s %s %s%s", op, g.r.pick([]string{"fn", "meth"}), A, B, opts))
					res := nv
					vl := ""
					for _, o := range valid {
						vl += fmt.Sprintf(" $%d", o)
					}
					steps = append(steps, fmt.Sprintf("mdump $%d%s", res, vl))
					for _, o := range operands {
						if o == written {
							steps = append(steps, fmt.Sprintf("mdump $%d%s", o, vl))
						} else {
							steps = append(steps, fmt.Sprintf("mdump $%d", o))
						}
					}
					g.emit(steps...)
				}
			}
		}
	}
	for _, op := range []string{"minb", "maxb"} {
		for _, kind := range []string{"TT", "TS", "ST"} {
			for r := 0; r < rep(8, 80); r++ {
				dt := g.r.pick([]string{"f64", "i32", "u8", "f32", "i16", "i64"})
				sh := g.r.pickInts([][]int{{2, 3}, {4}, {3, 2}, {2, 2, 2}})
				steps := []string{"vset=2"}
				nv := 0
				mk := func() string { return g.r.pick([]string{"rand", "rand", "none", "ones"}) }
				var A, B string
				var operands []int
				switch kind {
				case "TT":
					a := g.moperand(&steps, &nv, dt, sh, g.r.pick(opLayouts), mk())
					b := g.moperand(&steps, &nv, dt, sh, g.r.pick(opLayouts), mk())
					A, B = fmt.Sprintf("$%d", a), fmt.Sprintf("$%d", b)
					operands = []int{a, b}
				case "TS":
					a := g.moperand(&steps, &nv, dt, sh, g.r.pick(opLayouts), mk())
					A, B = fmt.Sprintf("$%d", a), fmt.Sprintf("#k%d", 2+g.r.intn(3))
					operands = []int{a}
				case "ST":
					b := g.moperand(&steps, &nv, dt, sh, g.r.pick(opLayouts), mk())
					A, B = fmt.Sprintf("#k%d", 2+g.r.intn(3)), fmt.Sprintf("$%d", b)
					operands = []int{b}
				}
				steps = append(steps, fmt.Sprintf("mmb %s fn %s %s", op, A, B))
				res := nv
				vl := ""
				for _, o := range operands {
					vl += fmt.Sprintf(" $%d", o)
				}
				steps = append(steps, fmt.Sprintf("mdump $%d%s", res, vl))
				for _, o := range operands {
					steps = append(steps, fmt.Sprintf("mdump $%d", o))
				}
				g.emit(steps...)
			}
		}
	}
	for _, op := range []string{"inv", "cube", "exp", "tanh", "log", "cbrt", "sign"} {
		for _, mode := range []string{"safe", "unsafe"} {
			for r := 0; r < rep(4, 60); r++ {
				dt := g.r.pick([]string{"f64", "f32"})
				if op == "cube" || op == "sign" {
					dt = g.r.pick([]string{"f64", "i32", "i8", "u16"})
				}
				sh := g.r.pickInts([][]int{{2, 3}, {4}, {3, 2}, {2, 2, 2}, {3, 1}})
				steps := []string{"vset=2"}
				nv := 0
				a := g.moperand(&steps, &nv, dt, sh, g.r.pick(opLayouts), g.r.pick([]string{"rand", "rand", "ones", "none"}))
				opts := ""
				if mode == "unsafe" {
					opts = " unsafe"
				}
				steps = append(steps, fmt.Sprintf("un %s $%d%s", op, a, opts))
				steps = append(steps, fmt.Sprintf("mdump $%d $%d", nv, a), fmt.Sprintf("mdump $%d $%d", a, a))
				g.emit(steps...)
			}
		}
	}

	// --- J. malformed stream
	for _, s := range [][]string{
		{"marg argmax fn $0 0"}, {"mnew i16 2,3 C 010010", "marg argmax fn $1 0"}, {"mnew i16 2,3 C 010010", "marg argfoo fn $0 0"},
		{"mnew i16 2,3 C 010010", "marg argmax fn $0 0 vs=9"}, {"mnew i16 2,3 C 010010", "marg argmax via $0 0"},
		{"mnew i16 2,3 C 010010", "mred prod fn $0 -"}, {"mred sum fn $3 -"}, {"mnew i16 2,3 C 010010", "mred sum fn $0 x"},
		{"mnew i16 2,3 C 010010", "msetat $0 2 0,0"}, {"mnew i16 2,3 C 010010", "msetat $0 1"}, {"msetat $4 1 0"},
		{"mnew i16 2,3 C 010010", "mseti $0 1 x"}, {"mseti $0 1 0"}, {"mnew i16 2,3 C 010010", "mreset $0 2"}, {"mreset $1 -"},
		{"mnew i16 2,3 C 010010", "mfromslice $0 zz 0101"}, {"mnew i16 2,3 C 010010", "mfromslice $0 b 01a1"}, {"mfromslice $0 b 01"},
		{"mnew i16 2,3 C 010010", "mfromdense $0 $5"}, {"mfromdense $0"}, {"mcons zz 2,3 SBM b 010010"}, {"mcons f64 2,3 SBX b 010010", "mnew i16 2 C -", "mdump $1"},
		{"mcons f64 2,3 SSB b 010010"}, {"mcons f64 2,x SBM b 010010"}, {"mcons f64 2,3 SBM"}, {"mcons f64 2,-3 SBM b 01"},
		{"mnew i16 2,3 C 010010", "slice $0 7:9", "msetat $1 1 0,0", "mreset $1 -", "marg argmax fn $1 0", "mdump $0"},
	} {
		g.emit(s...)
	}
}

func init() {
	generators["C15ops"] = genC15ops
}
