import TensorModel.Ext.Hooks
/-!
  Family `Linalg` (property C09): linear-algebra products.

  * §1  reference BLAS, by contract (gonum's row-major `dot`, `gemv`, `gemm`, `ger`, with gonum's
        argument checks; `alpha = 1`, `beta = 0` as the library always passes them);
  * §2  M: the mapping from tensors to those calls, mirroring `dense_linalg.go`,
        `defaultengine_linalg.go` and the package-level functions of `api_arith.go`
        (`Inner`, `MatVecMul`, `MatMul`, `Outer`, `Contract`, `Dot`) and `(*Dense).Trace`;
  * §3  S: textbook sums of products on logical arrays;
  * §4  known-defect regions (F51, F56, F58; F50, F52, F53, F54, F55, F57 are repaired) and the family record.

  Step syntax:  `la <inner|mv|mm|outer|dot|tdot|trace> <fn|meth> $a [$b] [axesA axesB] [opts…]`
  (`tdot` takes the two axis lists; `trace` takes one operand; opts = `reuse=$k`, `incr=$k`, `unsafe`).
  `inner` and `trace` answer `r=ok v=<term>`; the others push one variable and answer `r=ok ident=…`.
-/
namespace TM
namespace La

/-! ## 1. Reference BLAS (contract of gonum's `blas/gonum` package, row-major) -/

/-- the scalar operations the products are built from -/
structure Ops (α : Type) where
  zero : α
  add : α → α → α
  mul : α → α → α

/-- symbolic instance: the harness evaluates `add` / `mul` with Go's own operators -/
def valOps : Ops Val := ⟨.zero, fun a b => .app2 "add" a b, fun a b => .app2 "mul" a b⟩

/-- `0 + t₀ + t₁ + …` accumulated left to right (M and S share this helper; for the integer-valued
    inputs of the runs every accumulation order gives the same bits) -/
def sumTerms {α} (o : Ops α) (l : List α) : α := l.foldl o.add o.zero

/-- slice read after the length checks (never out of range there) -/
def rd {α} [Inhabited α] (l : List α) (i : Nat) : α := l[i]?.getD default

/-- overwrite the cells `(i, j)`, `i < m`, `j < n`, of a row-major matrix with leading dimension `ld` -/
def updMat {α} (c : List α) (m n ld : Nat) (f : Nat → Nat → α → α) : List α :=
  c.mapIdx fun p old => if p / ld < m ∧ p % ld < n then f (p / ld) (p % ld) old else old

def updVec {α} (y : List α) (n : Nat) (f : Nat → α) : List α :=
  y.mapIdx fun p old => if p < n then f p else old

/-- `Σ_l op(A)[i,l] · op(B)[l,j]` as the reference `gemm` reads it from the two raw slices -/
def gemmCell {α} [Inhabited α] (o : Ops α) (tA tB : Bool) (k : Nat) (a : List α) (lda : Nat) (b : List α) (ldb : Nat)
    (i j : Nat) : α :=
  sumTerms o ((List.range k).map fun l =>
    o.mul (rd a (if tA then l * lda + i else i * lda + l)) (rd b (if tB then j * ldb + l else l * ldb + j)))

/-- `Dgemm(tA, tB, m, n, k, 1, a, lda, b, ldb, 0, c, ldc)` (and S/C/Z variants) -/
def gemm {α} [Inhabited α] (o : Ops α) (tA tB : Bool) (m n k : Nat) (a : List α) (lda : Nat) (b : List α) (ldb : Nat)
    (c : List α) (ldc : Nat) : Res (List α) := do
  if lda < max 1 (if tA then m else k) then throwPanic "blas: bad leading dimension of A"
  if ldb < max 1 (if tB then k else n) then throwPanic "blas: bad leading dimension of B"
  if ldc < max 1 n then throwPanic "blas: bad leading dimension of C"
  if m == 0 || n == 0 then return c
  if a.length < (if tA then (k - 1) * lda + m else (m - 1) * lda + k) then throwPanic "blas: insufficient length of a"
  if b.length < (if tB then (n - 1) * ldb + k else (k - 1) * ldb + n) then throwPanic "blas: insufficient length of b"
  if c.length < (m - 1) * ldc + n then throwPanic "blas: insufficient length of c"
  pure (updMat c m n ldc fun i j _ => gemmCell o tA tB k a lda b ldb i j)

/-- one entry of `op(A)·x` -/
def gemvCell {α} [Inhabited α] (o : Ops α) (tA : Bool) (lenX : Nat) (a : List α) (lda : Nat) (x : List α) (i : Nat) : α :=
  sumTerms o ((List.range lenX).map fun j => o.mul (rd a (if tA then j * lda + i else i * lda + j)) (rd x j))

/-- `Dgemv(tA, m, n, 1, a, lda, x, 1, 0, y, 1)`: `A` is `m×n`; `y = A·x` or `Aᵀ·x` -/
def gemv {α} [Inhabited α] (o : Ops α) (tA : Bool) (m n : Nat) (a : List α) (lda : Nat) (x y : List α) : Res (List α) := do
  if lda < max 1 n then throwPanic "blas: bad leading dimension of A"
  let lenX := if tA then m else n
  let lenY := if tA then n else m
  if m == 0 || n == 0 then return y
  if lenX - 1 ≥ x.length then throwPanic "blas: insufficient length of x"
  if lenY - 1 ≥ y.length then throwPanic "blas: insufficient length of y"
  if a.length < lda * (m - 1) + n then throwPanic "blas: insufficient length of a"
  pure (updVec y lenY fun i => gemvCell o tA lenX a lda x i)

/-- `Dger(m, n, 1, x, 1, y, 1, a, lda)`: `A += x·yᵀ` -/
def ger {α} [Inhabited α] (o : Ops α) (m n : Nat) (x y a : List α) (lda : Nat) : Res (List α) := do
  if lda < max 1 n then throwPanic "blas: bad leading dimension of A"
  if m == 0 || n == 0 then return a
  if x.length ≤ m - 1 then throwPanic "blas: insufficient length of x"
  if y.length ≤ n - 1 then throwPanic "blas: insufficient length of y"
  if a.length < lda * (m - 1) + n then throwPanic "blas: insufficient length of a"
  pure (updMat a m n lda fun i j old => o.add old (o.mul (rd x i) (rd y j)))

/-- `Ddot(n, x, 1, y, 1)` / `Cdotu` -/
def dotu {α} [Inhabited α] (o : Ops α) (n : Nat) (x y : List α) : Res α := do
  if n == 0 then return o.zero
  if x.length < n then throwPanic "blas: insufficient length of x"
  if y.length < n then throwPanic "blas: insufficient length of y"
  pure (sumTerms o ((List.range n).map fun i => o.mul (rd x i) (rd y i)))

/-! ## 2. M — the mapping from tensors to BLAS calls -/

/-! ### pure decision tables (the subjects of `Props/C09.lean`) -/

/-- `StdEng.MatVecMul`: (data order, no pending transpose, oshape) ↦ (trans flag, lda, m, n) -/
def mvParams (col z : Bool) (m n : Int) : Bool × Int × Int × Int :=
  match col, z with
  | false, true => (false, n, m, n)
  | false, false => (true, n, m, n)
  | true, true => (true, m, n, m)
  | true, false => (false, m, n, m)

structure MMCall where
  tA : Bool
  tB : Bool
  /-- the two column-major operands are passed in swapped order (with `m` and `n` swapped) -/
  swap : Bool
  lda : Int
  ldb : Int
  ldc : Int
deriving Repr, DecidableEq

/-- `StdEng.MatMul`: flags and leading dimensions. `aT`/`bT`: pending transpose; `m,k` current shape
    of `a`; `b0,n` current shape of `b`; `c0,c1` shape of the destination. -/
def mmParams (acol bcol ccol aT bT : Bool) (m k b0 n c0 c1 : Int) : MMCall :=
  let lda := if acol then m else k
  let ldb := if bcol then b0 else n
  let ldc := if ccol then c0 else c1
  let lda := if aT then (if !acol then m else k) else lda
  let ldb := if bT then (if !bcol then b0 else n) else ldb
  { tA := aT, tB := bT, swap := acol && bcol, lda := lda, ldb := ldb, ldc := ldc }

/-- which routine `StdEng.Dot` dispatches to -/
inductive DotCase where
  | scalarScalar | scalarLeft | scalarRight
  | inner             -- vector · vector → `Inner`, result a fresh rank-0 tensor
  | vecMat            -- vector · matrix → `bT.MatVecMul(a)`, `bT` a shallow copy of `b`, transposed
  | matVec            -- matrix · vector → `a.MatVecMul(b)`
  | matMat            -- matrix · matrix → `a.MatMul(b)`
  | tensor            -- anything else → `a.TensorMul(b, [last], [second-to-last or 0])`
deriving Repr, DecidableEq

def isMatrix (s : Shape) : Bool := s.length == 2

/-- rank table of `StdEng.Dot` (after the float-only check of both operands) -/
def dotCase (sa sb : Shape) : DotCase :=
  if isScalar sa && isScalar sb then .scalarScalar
  else if isScalar sa then .scalarLeft
  else if isScalar sb then .scalarRight
  else if isVector sa then
    (if isVector sb then .inner else if isMatrix sb then .vecMat else .tensor)
  else if isMatrix sa then
    (if isVector sb then .matVec else if isMatrix sb then .matMat else .tensor)
  else .tensor

/-- shape check of `(*Dense).MatVecMul`: the documented result shape `(m)`, or the refusal -/
def mvCheck (ts os : Shape) : Res Shape := do
  if ts.length != 2 || !isVector os then throwErr "MatVecMul requires a matrix and a vector"
  let m ← idx ts 0
  let n ← idx ts 1
  let odim ← (if isColVec os then idx os 0 else if isRowVec os then idx os 1 else idx os 0)
  if odim != n then throwErr "shapeMismatch"
  pure [m]

/-- shape check of `(*Dense).MatMul`: the documented result shape `(m, n)`, or the refusal -/
def mmCheck (ts os : Shape) : Res Shape := do
  if !isMatrix ts || !isMatrix os then throwErr "MatMul requires both operands to be matrices"
  let m ← idx ts 0
  let k ← idx ts 1
  let n ← idx os 1
  if k != (← idx os 0) then throwErr "shapeMismatch"
  pure [m, n]

/-- shape check of `(*Dense).Outer`: `(size t, size other)` -/
def outerCheck (ts os : Shape) : Res Shape := do
  if !isVector ts || !isVector os then throwErr "Outer only works when there are two vectors"
  pure [totalSize ts, totalSize os]

/-- axes not named in `axes`, ascending (`notins`) -/
def notIns (rank : Nat) (axes : List Int) : List Int := (rangeI rank).filter (fun i => !axes.contains i)

/-- the permutation `TensorMul` hands to `doT.T(...)`: the free axes of the left operand followed by
    its contraction axes, built in a slice of its own -/
def tmulAxesA (td : Nat) (axesA : List Int) : List Int := notIns td axesA ++ axesA

/-! ### the interpreter monad: errors keep the state reached so far -/

abbrev LM := ExceptT Err (StateM PState)

def lift {α} (r : Res α) : LM α := match r with | .ok a => pure a | .error e => throw e
def failE {α} (tag : String) : LM α := throw (Err.err tag)
def failP {α} (tag : String) : LM α := throw (Err.panic tag)
def getObj (id : Nat) : LM Dense := do
  match (← get).ds[id]? with
  | some d => pure d
  | none => failP "no such object"
def putObj (id : Nat) (d : Dense) : LM Unit := modify fun ps => ps.setObj id d
/-- a temporary / result tensor: appended to the object table (trimmed again by `runLa`) -/
def addObj (d : Dense) : LM Nat := do
  let ps ← get
  set { ps with ds := ps.ds.push d }
  pure ps.ds.size
def getSt : LM St := do pure (← get).st
def putSt (s : St) : LM Unit := modify fun ps => { ps with st := s }

def rawOf (id : Nat) : LM (List Val) := do lift ((← getObj id).rawCells (← getSt))

def writeRaw (id : Nat) (vals : List Val) : LM Unit := do
  let d ← getObj id
  let s ← lift ((vals.zip (rangeI vals.length)).foldlM (fun s (p : Val × Int) => s.set d.win p.2 p.1) (← getSt))
  putSt s

def natOf (i : Int) (what : String) : LM Nat := if i < 0 then failP s!"{what} < 0" else pure i.toNat

structure LOpts where
  unsafe_ : Bool := false
  reuse : Option Nat := none
  incr : Option Nat := none
deriving Inhabited

/-- `d.T(axes...)` -/
def tObj (id : Nat) (axes : List Int) : LM Unit := do
  let (s, d) ← lift (Dense.T (← getSt) (← getObj id) axes)
  putSt s; putObj id d

/-- `d.Reshape(dims...)` -/
def reshapeObj (id : Nat) (dims : Shape) : LM Unit := do
  match ← lift (Dense.reshape (← getSt) (← getObj id) dims) with
  | .ok s d => putSt s; putObj id d
  | .errKept _ => failE "reshape"
  | .errMutated s d => putSt s; putObj id d; failE "reshape: sanity check failed"

/-- `(*Dense).reshape(dims...)` = `setShape` + `sanity` (no guards, the shape is set even when the
    sanity check then fails) -/
def lowerReshape (id : Nat) (dims : Shape) : LM Unit := do
  let d ← getObj id
  let st' : List Int := if dims.isEmpty then [] else Dense.defaultStrides d.ap.o.col dims
  let ap' : AP := { d.ap with shape := dims, strides := st', fin := true }
  let d' : Dense := { d with ap := ap' }
  putObj id d'
  if !d'.view && (d'.win.len : Int) != totalSize dims && !dims.isEmpty then failE "sanity check failed"

/-- `handleReuse(reuse, expectedShape, safe)` with `reuseCheckShape` -/
def handleReuse (reuse : Option Nat) (exp : Shape) (safe : Bool) : LM (Option Nat) := do
  match reuse with
  | none => pure none
  | some r =>
    if !safe then return some r
    lowerReshape r exp
    -- "clean up any funny things": pending transpose dropped, no longer a view
    let d ← getObj r
    putObj r { d with old := none, view := false }
    pure (some r)

/-- `recycledDense(t.t, expectedShape, WithEngine(t.e))`, `AsFortran(nil)` when `t` is column-major -/
def freshResult (t : Dense) (exp : Shape) : LM Nat := do
  let (s, d) := newDenseZero (← getSt) t.dt exp
  putSt s
  let d := if t.ap.o.col then
      { d with ap := { d.ap with o := { d.ap.o with col := true }, strides := calcStridesCol exp } } else d
  addObj d

/-- `handleIncr(res, reuse, incr, expectedShape)` -/
def handleIncr (res : Nat) (incr : Option Nat) (exp : Shape) : LM Nat := do
  match incr with
  | none => pure res
  | some i =>
    let incrD ← getObj i
    if !shapeEq exp incrD.shape then failE "shapeMismatch incr"
    if !numberTypes.contains incrD.dt then failE "handleIncr only handles Number types"
    -- incrD.Add(res, UseUnsafe())
    let out ← lift (engArithVV (← getSt) "add" numberTypes incrD (← getObj res) { unsafe_ := true })
    putSt out.st
    match out.ret with
    | .a => pure i
    | .failed => failE "Add failed"
    | _ => failP "unexpected return of Add(UseUnsafe)"

def checkTwoFC (a b : Dense) : LM Unit := do
  if a.dt != b.dt then failE "Expected a and b to have the same Dtype"
  if !floatcmplxTypes.contains a.dt then failE "getFloatDense a"
  if !floatcmplxTypes.contains b.dt then failE "getFloatDense b"

def checkThreeFC (a b p : Dense) : LM Unit := do
  if a.dt != b.dt || b.dt != p.dt then failE "Expected a and b and retVal all to have the same Dtype"
  if !floatcmplxTypes.contains a.dt then failE "getFloatDense a"
  if !floatcmplxTypes.contains b.dt then failE "getFloatDense b"
  if !floatcmplxTypes.contains p.dt then failE "getFloatDense ret"

/-- the copy `blasOperand` makes of a non-contiguous view: `recycledDense(t.Dtype(), t.Shape().Clone(), …)`,
    `AsFortran(nil)` when `t` is column-major, `copyDenseIter(retVal, t, nil, nil)` -/
def blasCopy (st : St) (t : Dense) : Res (St × Dense) :=
  let (s, d) := newDenseZero st t.dt t.shape
  let d := if t.ap.o.col then
      { d with ap := { d.ap with o := { d.ap.o with col := true }, strides := calcStridesCol t.shape } } else d
  Dense.copyDenseIter s d t

/-- `blasOperand(t)`: the tensor whose storage is handed to BLAS. `t` itself when its data-order flags say
    contiguous (either order, with or without a pending transpose); for a non-contiguous view a contiguous
    copy in `t`'s data order (`blasCopy`). -/
def blasOperand (id : Nat) : LM Nat := do
  let t ← getObj id
  if !t.ap.o.nonContig then pure id else
  let (s, d) ← lift (blasCopy (← getSt) t)
  putSt s
  addObj d

/-- `StdEng.Inner(a, b)`: `dot(len(A), A, 1, B, 1)` on the two raw windows (of the operands, or of the
    contiguous copies of non-contiguous views) -/
def engInner (aId bId : Nat) : LM Val := do
  let a ← getObj aId
  let b ← getObj bId
  checkTwoFC a b
  let aId ← blasOperand aId
  let bId ← blasOperand bId
  let a ← getObj aId
  -- `ad.Data()` of a rank-0 tensor is not a slice: no arm of the type switch, nil result
  if isScalar a.shape then failE "nil result" else
  let A ← rawOf aId
  let B ← rawOf bId
  lift (dotu valOps A.length A B)

/-- `StdEng.MatVecMul(a, b, prealloc)` -/
def engMatVecMul (aId bId pId : Nat) : LM Unit := do
  let a ← getObj aId
  let b ← getObj bId
  let p ← getObj pId
  checkThreeFC a b p
  let aId ← blasOperand aId
  let bId ← blasOperand bId
  let a ← getObj aId
  let osh := a.oshape
  let m0 ← lift (idx osh 0 "oshape[0]")
  let n0 ← lift (idx osh 1 "oshape[1]")
  let (tA, lda, m, n) := mvParams a.ap.o.col a.old.isNone m0 n0
  let A ← rawOf aId
  let x ← rawOf bId
  let y ← rawOf pId
  let y' ← lift (gemv valOps tA (← natOf m "m") (← natOf n "n") A (← natOf lda "lda") x y)
  writeRaw pId y'

/-- `StdEng.MatMul(a, b, prealloc)` -/
def engMatMul (aId bId pId : Nat) : LM Unit := do
  let a ← getObj aId
  let b ← getObj bId
  let p ← getObj pId
  checkThreeFC a b p
  let aId ← blasOperand aId
  let bId ← blasOperand bId
  let a ← getObj aId
  let b ← getObj bId
  let m ← lift (idx a.shape 0 "ad.Shape()[0]")
  let k ← lift (idx a.shape 1 "ad.Shape()[1]")
  let n ← lift (idx b.shape 1 "bd.Shape()[1]")
  -- the leading dimensions are read lazily in Go: only the arms taken index the shapes
  let b0 ← (if b.ap.o.col || b.old.isSome then lift (idx b.shape 0 "bd.Shape()[0]") else pure 0 : LM Int)
  let c0 ← (if p.ap.o.col then lift (idx p.shape 0 "prealloc.Shape()[0]") else pure 0 : LM Int)
  let c1 ← (if !p.ap.o.col then lift (idx p.shape 1 "prealloc.Shape()[1]") else pure 0 : LM Int)
  let call := mmParams a.ap.o.col b.ap.o.col p.ap.o.col a.old.isSome b.old.isSome m k b0 n c0 c1
  let A ← rawOf aId
  let B ← rawOf bId
  let C ← rawOf pId
  let m ← natOf m "m"; let n ← natOf n "n"; let k ← natOf k "k"
  let lda ← natOf call.lda "lda"; let ldb ← natOf call.ldb "ldb"; let ldc ← natOf call.ldc "ldc"
  let C' ← lift (if call.swap then gemm valOps call.tA call.tB n m k B ldb A lda C ldc
                 else gemm valOps call.tA call.tB m n k A lda B ldb C ldc)
  writeRaw pId C'

/-- `StdEng.Outer(a, b, prealloc)` -/
def engOuter (aId bId pId : Nat) : LM Unit := do
  let a ← getObj aId
  let b ← getObj bId
  let p ← getObj pId
  checkThreeFC a b p
  let m := a.size
  let n := b.size
  if p.ap.o.col then
    -- column-major destination: reshape the caller's operands to (m,1), (1,n), MatMul, reshape back
    let aShape := a.shape
    let bShape := b.shape
    let a0 ← lift (idx aShape 0 "aShape[0]")
    let b0 ← lift (idx bShape 0 "bShape[0]")
    reshapeObj aId [a0, 1]
    reshapeObj bId [1, b0]
    engMatMul aId bId pId
    reshapeObj bId bShape
    reshapeObj aId aShape
  else
    let lda ← lift (idx p.shape 1 "pd.Shape()[1]")
    let aId ← blasOperand aId
    let bId ← blasOperand bId
    let x ← rawOf aId
    let y ← rawOf bId
    let A ← rawOf pId
    let A' ← lift (ger valOps (← natOf m "m") (← natOf n "n") x y A (← natOf lda "lda"))
    writeRaw pId A'

/-- the raw offsets `StdEng.Trace` adds up: `i·(rstride + cstride)`, `i < min(r, c)` -/
def traceOffsets (r c s0 s1 : Int) : List Int := (rangeI (min r c).toNat).map (fun i => i * (s0 + s1))

/-- `(*Dense).Trace()` → `StdEng.Trace` -/
def denseTrace (tId : Nat) : LM Val := do
  let t ← getObj tId
  if t.dims != 2 then failE "dimMismatch"
  if !numberTypes.contains t.dt then failE "Trace: typeclass"
  let rs ← lift (idx t.strides 0 "Strides()[0]")
  let cs ← lift (idx t.strides 1 "Strides()[1]")
  let r ← lift (idx t.shape 0)
  let c ← lift (idx t.shape 1)
  let s ← getSt
  let cells ← lift ((traceOffsets r c rs cs).mapM (fun off => s.get t.win off))
  pure (sumTerms valOps cells)

/-- `(*Dense).Inner(other)` -/
def denseInner (tId oId : Nat) : LM Val := do
  let t ← getObj tId
  let o ← getObj oId
  if !floatcmplxTypes.contains t.dt then failE "unsupported dtype"
  if !isVector t.shape || !isVector o.shape then failE "Inner only works when there are two vectors"
  -- `t.Size() != other.Size()`: the numbers of elements, not the lengths of the storage windows
  if t.size != o.size then failE "shapeMismatch"
  engInner tId oId

/-- `(*Dense).MatVecMul(other, opts...)` -/
def denseMatVecMul (tId oId : Nat) (o : LOpts) : LM Nat := do
  let t ← getObj tId
  let other ← getObj oId
  let exp ← lift (mvCheck t.shape other.shape)
  let r ← handleReuse o.reuse exp (!o.unsafe_)
  let ret ← (match r with | some r => pure r | none => freshResult t exp : LM Nat)
  engMatVecMul tId oId ret
  handleIncr ret o.incr exp

/-- `(*Dense).MatMul(other, opts...)` -/
def denseMatMul (tId oId : Nat) (o : LOpts) : LM Nat := do
  let t ← getObj tId
  let other ← getObj oId
  let exp ← lift (mmCheck t.shape other.shape)
  let r ← handleReuse o.reuse exp (!o.unsafe_)
  let ret ← (match r with | some r => pure r | none => freshResult t exp : LM Nat)
  engMatMul tId oId ret
  handleIncr ret o.incr exp

/-- `retVal.Zero()` -/
def zeroObj (id : Nat) : LM Unit := do
  let s ← lift (Dense.zero (← getSt) (← getObj id))
  putSt s

/-- `(*Dense).Outer(other, opts...)` -/
def denseOuter (tId oId : Nat) (o : LOpts) : LM Nat := do
  let t ← getObj tId
  let other ← getObj oId
  let exp ← lift (outerCheck t.shape other.shape)
  let r ← handleReuse o.reuse exp (!o.unsafe_)
  let ret ← (match r with | some r => pure r | none => freshResult t exp : LM Nat)
  zeroObj ret
  engOuter tId oId ret
  handleIncr ret o.incr exp

/-- apply the outcome of an arithmetic engine call (`Mul` with a scalar) -/
def applyEngOut (out : EngOut) (tId : Nat) (rid : Option Nat) : LM Nat := do
  putSt out.st
  match rid, out.reuse with
  | some i, some d => putObj i d
  | _, _ => pure ()
  match out.ret with
  | .a => pure tId
  | .reuse => (match rid with | some i => pure i | none => failP "no reuse tensor")
  | .fresh d => addObj d
  | .failed => failE "engine call failed"

/-- `Mul(x.ScalarValue(), t, opts)` / `Mul(t, x.ScalarValue(), opts)` of `StdEng.Dot` -/
def mulScalar (scId tId : Nat) (leftTensor : Bool) (o : LOpts) : LM Nat := do
  let sc ← getObj scId
  let t ← getObj tId
  let s ← getSt
  -- `ScalarValue()` copies the value out of the tensor
  let v ← lift (s.get sc.win 0)
  let (s, b) := s.alloc #[v]
  putSt s
  let rid := match o.incr with | some i => some i | none => o.reuse
  let opts : Opts ← (match o.incr, o.reuse with
    | some i, _ => do pure { incr := some (← getObj i) }
    | none, some r => do pure { reuse := some (← getObj r) }
    | none, none => pure {} : LM Opts)
  let out ← lift (engArithScalar s "mul" numberTypes t { win := ⟨b, 0, 1, 1⟩, dt := sc.dt } leftTensor opts)
  applyEngOut out tId rid

/-- the test `StdEng.Dot` makes on the reuse tensor of a vector·vector product before it is handed to
    `handleReuse`: the operands' element type, exactly one element (`sanity` accepts any storage for a
    rank-0 shape, so `reuseCheckShape` alone would not refuse a longer tensor) -/
def dotInnerReuseCheck (opDt reuseDt : String) (reuseShape : Shape) : Res Unit := do
  if reuseDt != opDt then throwErr "dtypeMismatch reuse"
  if totalSize reuseShape != 1 then throwErr "shapeMismatch reuse"

/-- `StdEng.Dot(x, y, opts...)`; `tmul` is `(*Dense).TensorMul` -/
def dotCore (tmul : Nat → Nat → List Int → List Int → LM Nat) (aId bId : Nat) (o : LOpts) : LM Nat := do
  let a ← getObj aId
  let b ← getObj bId
  if !floatTypes.contains a.dt then failE "getFloatDense only handles floats (x)"
  if !floatTypes.contains b.dt then failE "getFloatDense only handles floats (y)"
  match o.reuse with
  | some r => if !floatTypes.contains (← getObj r).dt then failE "Dot - reuse"
  | none => pure ()
  match o.incr with
  | some i => if !floatTypes.contains (← getObj i).dt then failE "Dot - incr"
  | none => pure ()
  let both : LOpts := { reuse := o.reuse, incr := o.incr }
  match dotCase a.shape b.shape with
  | .scalarScalar =>
    let s ← getSt
    let res := Val.app2 "mul" (← lift (s.get a.win 0)) (← lift (s.get b.win 0))
    match o.incr, o.reuse with
    | some i, _ =>
      let incr ← getObj i
      if !isScalar incr.shape then failE "shapeMismatch incr"
      -- e.E.MulIncr(a.hdr(), b.hdr(), incr.hdr())
      let s ← lift (eOpIncr s a.win b.win incr.win (fun x y => .app2 "mul" x y))
      putSt s
      pure i
    | none, some r =>
      let reuse ← getObj r
      putSt (← lift (s.set reuse.win 0 res))
      lowerReshape r []
      pure r
    | none, none =>
      let (s, bf) := s.alloc #[res]
      putSt s
      addObj { ap := { shape := [], strides := [], fin := true }, win := ⟨bf, 0, 1, 1⟩, dt := a.dt }
  | .scalarLeft => mulScalar aId bId false o
  | .scalarRight => mulScalar bId aId true o
  | .inner =>
    if a.size != b.size then failE "shapeMismatch"
    let v ← engInner aId bId
    -- the scalar product goes through `handleReuse` / `handleIncr` like the matrix products
    let rd ← (match o.reuse with
      | some r => do
        let reuse ← getObj r
        lift (dotInnerReuseCheck a.dt reuse.dt reuse.shape)
        let _ ← handleReuse (some r) [] (!o.unsafe_)
        -- rd.Set(0, ret)
        let reuse ← getObj r
        putSt (← lift ((← getSt).set reuse.win 0 v))
        pure r
      | none => do
        -- New(FromScalar(ret))
        let (s, bf) := (← getSt).alloc #[v]
        putSt s
        addObj { ap := { shape := [], strides := [], fin := true }, win := ⟨bf, 0, 1, 1⟩, dt := a.dt } : LM Nat)
    handleIncr rd o.incr []
  | .vecMat =>
    -- bT := shallow copy of b (same storage window, metadata of its own); bT.T(); return bT.MatVecMul(a, ...)
    -- the caller's `b` is not written
    let bT ← (match Dense.T (← getSt) b [] with
      | .ok (s, d) => do putSt s; addObj d
      | .error (.err _) => failE "Dot: T"
      | .error (.panic t) => failP t : LM Nat)
    denseMatVecMul bT aId both
  | .matVec => denseMatVecMul aId bId both
  | .matMat => denseMatMul aId bId both
  | .tensor =>
    let as_ := a.shape
    let bs := b.shape
    let lastA : Int := as_.length - 1
    let slB : Int := if bs.length ≥ 2 then bs.length - 2 else 0
    if (← lift (idx as_ lastA)) != (← lift (idx bs slB)) then failE "shapeMismatch"
    let rd ← tryCatch (tmul aId bId [lastA] [slB]) (fun e => match e with
      | .err t => failP s!"panic(err): {t}"
      | .panic t => failP t)
    let ret ← (match o.reuse with
      | some r => do
        -- copyDense(reuse, rd); reuse.setAP(rd.Info().Clone())
        let reuse ← getObj r
        let rdD ← getObj rd
        if reuse.dt != rdD.dt then failP "Cannot copy DenseTensors of different types"
        let (s, reuse') ← lift (Dense.copyDense (← getSt) reuse rdD)
        putSt s
        putObj r { reuse' with ap := rdD.ap }
        pure r
      | none => pure rd : LM Nat)
    -- handleIncr(res, reuse, incr, res.Shape())
    match o.incr with
    | some _ => handleIncr ret o.incr (← getObj ret).shape
    | none => pure ret

/-- `t.Clone()` as a temporary -/
def cloneObj (id : Nat) : LM Nat := do
  let (s, d) ← lift (Dense.clone (← getSt) (← getObj id))
  putSt s
  addObj d

/-- `(*Dense).TensorMul(other, axesA, axesB)`: the two flattened operands are multiplied with
    `(*Dense).MatMul` -/
def tensorMul (tId oId : Nat) (axesA axesB : List Int) : LM Nat := do
  let t ← getObj tId
  let other ← getObj oId
  let ts := t.shape
  let os := other.shape
  let td := ts.length
  let od := os.length
  let mut same := axesA.length == axesB.length
  if same then
    for (x, y) in axesA.zip axesB do
      -- `ts[axesA[i]] != os[axesB[i]]` comes first: a negative axis panics before it is normalised
      let da ← lift (idx ts x "ts[axesA[i]]")
      let db ← lift (idx os y "os[axesB[i]]")
      if da != db then
        same := false
        break
  if !same then failE "shapeMismatch"
  let nA := notIns td axesA
  let newAxesA := tmulAxesA td axesA
  let dimsA ← lift (axesA.mapM (fun x => idx ts x))
  let n2 := prod dimsA
  if n2 == 0 then failP "integer divide by zero"
  let newShapeT : Shape := [goDiv (totalSize ts) n2, n2]
  let retShape1 ← lift (nA.mapM (fun i => idx ts i))
  let nB := notIns od axesB
  let newAxesB := axesB ++ nB
  let newShapeO : Shape := [n2, goDiv (totalSize os) n2]
  let retShape2 ← lift (nB.mapM (fun i => idx os i))
  let doT ← cloneObj tId
  let doOther ← cloneObj oId
  tObj doT newAxesA
  let transposeObj (id : Nat) : LM Unit := do
    match Dense.transpose (← getSt) (← getObj id) with
    | .ok (s, d) => putSt s; putObj id d
    | .error (.err _) => pure ()
    | .error (.panic tg) => failP tg
  transposeObj doT
  reshapeObj doT newShapeT
  tObj doOther newAxesB
  transposeObj doOther
  reshapeObj doOther newShapeO
  let rt ← denseMatMul doT doOther {}
  let retShape := retShape1 ++ retShape2
  let retShape := if retShape.isEmpty then [1] else retShape
  reshapeObj rt retShape
  pure rt

def dot : Nat → Nat → LOpts → LM Nat := dotCore tensorMul

/-- package-level functions: `a.Dtype() != b.Dtype()` is refused first -/
def apiCheck (aId bId : Nat) : LM Unit := do
  if (← getObj aId).dt != (← getObj bId).dt then failE "dtypeMismatch"

/-! ### the `la` step of M -/

inductive LaRes where
  | tensor (id : Nat)
  | scalar (v : Val)

structure LaCmd where
  op : String
  fn : Bool
  a : String
  b : String := ""
  axesA : List Int := []
  axesB : List Int := []
  optToks : List String := []

def scalarOps : List String := ["inner", "trace"]

def parseLa (toks : List String) : Option LaCmd :=
  match toks with
  | "la" :: "trace" :: via :: a :: [] => some { op := "trace", fn := via == "fn", a := a }
  | "la" :: "tdot" :: via :: a :: b :: xa :: xb :: opts =>
    match parseIntList xa, parseIntList xb with
    | some xa, some xb => some { op := "tdot", fn := via == "fn", a := a, b := b, axesA := xa, axesB := xb, optToks := opts }
    | _, _ => none
  | "la" :: op :: via :: a :: b :: opts =>
    if ["inner", "mv", "mm", "outer", "dot"].contains op then
      some { op := op, fn := via == "fn", a := a, b := b, optToks := opts } else none
  | _ => none

def runCmd (c : LaCmd) (aId bId : Nat) (o : LOpts) : LM LaRes := do
  match c.op with
  | "trace" => pure (.scalar (← denseTrace aId))
  | "inner" => if c.fn then apiCheck aId bId
               pure (.scalar (← denseInner aId bId))
  | "mv" => if c.fn then apiCheck aId bId
            pure (.tensor (← denseMatVecMul aId bId o))
  | "mm" => if c.fn then apiCheck aId bId
            pure (.tensor (← denseMatMul aId bId o))
  | "outer" => if c.fn then apiCheck aId bId
               pure (.tensor (← denseOuter aId bId o))
  | "tdot" => if c.fn then apiCheck aId bId
              pure (.tensor (← tensorMul aId bId c.axesA c.axesB))
  | "dot" => pure (.tensor (← dot aId bId o))
  | _ => failE "badprog"

def stepM (ps : PState) (_ : Nat) (toks : List String) : PState × StepOut :=
  match parseLa toks with
  | none => (ps, .fields "r=badprog")
  | some c =>
    let pushes := !scalarOps.contains c.op
    let skip : PState × StepOut := (if pushes then ps.failVar else ps, .fields "r=skip")
    let po := parseOpts ps c.optToks
    if po.bad then skip else
    match ps.obj c.a, (if c.op == "trace" then ps.obj c.a else ps.obj c.b) with
    | some (aId, _), some (bId, _) =>
      let o : LOpts := { unsafe_ := po.o.unsafe_, reuse := po.reuseId, incr := po.incrId }
      let n0 := ps.ds.size
      let (r, ps') := (runCmd c aId bId o).run.run ps
      let trim (p : PState) : PState := { p with ds := p.ds.extract 0 n0 }
      match r with
      | .ok (.scalar v) => (trim ps', .fields s!"r=ok v={v}")
      | .ok (.tensor id) =>
        if id < n0 then
          let p := (trim ps').aliasVar id
          (p, .fields s!"r=ok ident={p.firstVar id}")
        else (match ps'.ds[id]? with
          | some d => ((trim ps').newVar d, .fields "r=ok ident=new")
          | none => ((trim ps').failVar, .fields "r=err"))
      | .error (.err _) => (if pushes then (trim ps').failVar else trim ps', .fields "r=err")
      | .error (.panic _) => (if pushes then (trim ps').failVar else trim ps', .stop "r=panic")
    | _, _ => skip

/-! ## 3. S — textbook sums of products on logical arrays -/

/-- element of a logical array at a coordinate (inside the box by construction) -/
def laAt (a : LA Val) (c : List Int) : Option Val := a.at c

/-- insert the contracted coordinates `cs` (for the axes `axes`, in that order) among the free ones -/
def mergeCoord (rank : Nat) (axes : List Int) (free cs : List Int) : List Int :=
  let rec go (i : Nat) (fuel : Nat) (free : List Int) : List Int :=
    match fuel with
    | 0 => []
    | fuel + 1 =>
      match axes.findIdx? (· == (i : Int)) with
      | some p => (cs[p]?.getD 0) :: go (i + 1) fuel free
      | none => (free.head?.getD 0) :: go (i + 1) fuel free.tail
  go 0 rank free

def validAxes (rank : Nat) (axes : List Int) : Bool :=
  axes.all (fun x => decide (0 ≤ x) && decide (x < rank)) && axes.eraseDups.length == axes.length

/-- general contraction: `C[i…, j…] = Σ_c A[i… with c on axesA] · B[j… with c on axesB]`,
    result shape = free axes of `A` then free axes of `B`. `none`: not defined (must be refused). -/
def contract (A B : LA Val) (axesA axesB : List Int) : Option (LA Val) :=
  let ra := A.shape.length
  let rb := B.shape.length
  if !(validAxes ra axesA && validAxes rb axesB && axesA.length == axesB.length) then none else
  let dimsA := axesA.map (fun x => (getI? A.shape x).getD 0)
  let dimsB := axesB.map (fun x => (getI? B.shape x).getD 0)
  if dimsA != dimsB then none else
  let fA := notIns ra axesA
  let fB := notIns rb axesB
  let shA := fA.map (fun x => (getI? A.shape x).getD 0)
  let shB := fB.map (fun x => (getI? B.shape x).getD 0)
  let cs := allCoords dimsA
  LA.tabulate (shA ++ shB) (fun c =>
    let ia := c.take shA.length
    let ib := c.drop shA.length
    (cs.mapM (fun k => do
      let x ← laAt A (mergeCoord ra axesA ia k)
      let y ← laAt B (mergeCoord rb axesB ib k)
      pure (valOps.mul x y))).map (sumTerms valOps))

/-- a vector form `(n)`, `(n,1)`, `(1,n)` as the plain vector `(n)` -/
def asVec (a : LA Val) : Option (LA Val) := if isVector a.shape then some ⟨[a.elems.length], a.elems⟩ else none

def specInner (a b : LA Val) : Option (LA Val) := do contract (← asVec a) (← asVec b) [0] [0]
def specMatVec (A x : LA Val) : Option (LA Val) := do
  if A.shape.length != 2 then none else contract A (← asVec x) [1] [0]
def specVecMat (x B : LA Val) : Option (LA Val) := do
  if B.shape.length != 2 then none else contract (← asVec x) B [0] [0]
def specMatMul (A B : LA Val) : Option (LA Val) :=
  if A.shape.length != 2 || B.shape.length != 2 then none else contract A B [1] [0]
def specOuter (a b : LA Val) : Option (LA Val) := do contract (← asVec a) (← asVec b) [] []
def specTrace (A : LA Val) : Option Val :=
  match A.shape with
  | [r, c] => ((rangeI (min r c).toNat).mapM (fun i => laAt A [i, i])).map
      (sumTerms valOps)
  | _ => none

inductive SVerdict where
  | value (a : LA Val)     -- defined: this is the result
  | refuse                 -- not defined: must be refused
  | silent                 -- outside the property's domain: no verdict

/-- the dispatching dot product, as documented: inner / matrix-vector / vector-matrix /
    matrix-matrix by rank, otherwise the contraction of the last axis of `a` with the
    second-to-last axis of `b` (its only axis when `b` is a vector) -/
def specDot (a b : LA Val) : SVerdict :=
  let ofOpt (x : Option (LA Val)) : SVerdict := match x with | some v => .value v | none => .refuse
  match dotCase a.shape b.shape with
  | .scalarScalar | .scalarLeft | .scalarRight => .silent
  | .inner => ofOpt (specInner a b)
  | .vecMat => ofOpt (specVecMat a b)
  | .matVec => ofOpt (specMatVec a b)
  | .matMat => ofOpt (specMatMul a b)
  | .tensor =>
    let ra : Int := a.shape.length
    let rb : Int := b.shape.length
    ofOpt (contract a b [ra - 1] [if rb ≥ 2 then rb - 2 else 0])

/-- every S object stored in `root` becomes undefined -/
def invalidateRoot (ss : SState) (root : Nat) : SState :=
  { ss with objs := ss.objs.map (fun o => match o with
      | some x => if x.root == root then none else some x
      | none => none) }

/-- destinations S gives a verdict for: tensors and views of the documented shape without a pending
    transpose (the result is written to the destination's own cells, nothing else changes) -/
def plainDest (o : SObj) (exp : Shape) : Bool :=
  (match o.pending with | .none => true | _ => false) && o.idx.shape == exp

def stepS (psB psA : PState) (ss : SState) (_ : Nat) (toks : List String) (mres : String) : SOut :=
  let ss := ss.sync psB.ds.size
  let newId := psB.ds.size
  match parseLa toks with
  | none => finS psA ss none
  | some c =>
    let optTok (pfx : String) : Option String :=
      (c.optToks.find? (·.startsWith pfx)).map (fun t => (t.drop pfx.length).toString)
    let reuseTok := optTok "reuse="
    let incrTok := optTok "incr="
    let dests : List (Nat × SObj) := ([reuseTok, incrTok].filterMap id).filterMap (fun t => sObj psB ss t)
    let destIds : List Nat := ([reuseTok, incrTok].filterMap id).filterMap (fun t => (psB.obj t).map (·.1))
    -- a destination S has lost track of makes everything it may share storage with unknown: S keeps
    -- no record of those, so such programs end S's account of the destination only
    let clobber (ss : SState) : SState :=
      let ss := dests.foldl (fun ss d => invalidateRoot ss d.2.root) ss
      destIds.foldl (fun ss i => ss.setObj i none) ss
    let silent : SOut := finS psA (clobber ss) none
    let unsafe_ := c.optToks.contains "unsafe"
    let isTrace := c.op == "trace"
    if (parseOpts psB c.optToks).bad then finS psA ss none else
    match sObj psB ss c.a, (if isTrace then sObj psB ss c.a else sObj psB ss c.b),
          psB.obj c.a, (if isTrace then psB.obj c.a else psB.obj c.b) with
    | some (aId, oa), some (bId, ob), some (_, da), some (_, db) =>
      match oa.elems ss, ob.elems ss with
      | some ea, some eb =>
        let A : LA Val := ⟨oa.idx.shape, ea⟩
        let B : LA Val := ⟨ob.idx.shape, eb⟩
        let destDt : List String := ([reuseTok, incrTok].filterMap id).filterMap (fun t => (psB.obj t).map (·.2.dt))
        let okTypes := if isTrace then numberTypes else floatcmplxTypes
        let typesOk := okTypes.contains da.dt && da.dt == db.dt && destDt.all (· == da.dt)
        let ofOpt (x : Option (LA Val)) : SVerdict := match x with | some v => .value v | none => .refuse
        let verdict : SVerdict :=
          if !typesOk then .refuse else
          match c.op with
          | "inner" => ofOpt (specInner A B)
          | "mv" => ofOpt (specMatVec A B)
          | "mm" => ofOpt (specMatMul A B)
          | "outer" => ofOpt (specOuter A B)
          | "tdot" =>
            if c.axesA.any (· < 0) || c.axesB.any (· < 0) then .silent else
            (match contract A B c.axesA c.axesB with
             | some v => .value (if v.shape.isEmpty then ⟨[1], v.elems⟩ else v)
             | none => .refuse)
          | "dot" => specDot A B
          | "trace" => (match specTrace A with | some v => .value ⟨[], [v]⟩ | none => .refuse)
          | _ => .silent
        let aliased := destIds.any (fun i => i == aId || i == bId) ||
          dests.any (fun d => d.2.root == oa.root || d.2.root == ob.root)
        match verdict with
        | .silent => silent
        | .refuse => finS psA (clobber ss) (some "r=err|panic")
        | .value v =>
          if unsafe_ || aliased then silent else
          -- a refusal is tolerated ("any combination that is not supported is refused loudly")
          if mres != "ok" then finS psA (clobber ss) (some "r=ok|err|panic") else
          if scalarOps.contains c.op then
            finS psA ss (some s!"r=ok v={showVals v.elems}")
          else
            let incrO := incrTok.bind (fun t => sObj psB ss t)
            let reuseO := reuseTok.bind (fun t => sObj psB ss t)
            -- where the result must be found
            match incrTok, reuseTok with
            | none, none =>
              let root := ss.store.size
              let ss := { ss with store := ss.store.push v.elems.toArray }
              let o' : SObj := { root := root, idx := ⟨v.shape, List.range v.elems.length⟩ }
              if psA.ds.size > psB.ds.size then
                finS psA ({ ss with objs := (ss.sync newId).objs.push (some o') }) (some "r=ok ident=new")
              else finS psA ss (some "r=ok ident=new")
            | some _, _ =>
              (match incrO with
              | some (iid, io) =>
                if !plainDest io v.shape then silent else
                match io.elems ss, ss.store[io.root]? with
                | some old, some cells =>
                  let nv := List.zipWith (fun r x => Val.app2 "add" r x) old v.elems
                  let cells' := (io.idx.elems.zip nv).foldl (fun b (k, x) => b.setIfInBounds k x) cells
                  -- a reuse tensor given together with incr receives an unspecified intermediate
                  let ss := match reuseO with
                    | some (rid, ro) => (invalidateRoot ss ro.root).setObj rid none
                    | none => ss
                  finS psA { ss with store := ss.store.set! io.root cells' } (some s!"r=ok ident={psB.firstVar iid}")
                | _, _ => silent
              | none => silent)
            | none, some _ =>
              (match reuseO with
              | some (rid, ro) =>
                if !plainDest ro v.shape then silent else
                match ss.store[ro.root]? with
                | some cells =>
                  let cells' := (ro.idx.elems.zip v.elems).foldl (fun b (k, x) => b.setIfInBounds k x) cells
                  finS psA { ss with store := ss.store.set! ro.root cells' } (some s!"r=ok ident={psB.firstVar rid}")
                | none => silent
              | none => silent)
      | _, _ => silent
    | _, _, _, _ => silent

/-! ## 4. Known-defect regions -/

/-- operands of different data order (F51) -/
def Excl_mixedOrder (ts : List Dense) : Bool :=
  ts.any (·.ap.o.col) && ts.any (fun t => !t.ap.o.col)

/-- F56: the `TensorMul` path (clone → `T` → `Transpose` → `Reshape` as a row-major matrix) on a
    column-major operand -/
def Excl_tmulColMajor (a b : Dense) : Bool := a.ap.o.col || b.ap.o.col

/-- F58: a reuse destination that is a view: `reuseCheckShape` overwrites its strides with those of a
    contiguous tensor and clears its view flag, so the product is written to the first cells of the
    view's storage window — over cells of the parent that do not belong to the view. -/
def Excl_reuseView (reuse : Option Dense) : Bool :=
  match reuse with | some d => d.view | none => false

def excl (ps : PState) (toks : List String) : List String × Bool :=
  match parseLa toks with
  | none => ([], false)
  | some c =>
    match ps.obj c.a, (if c.op == "trace" then ps.obj c.a else ps.obj c.b) with
    | some (_, a), some (_, b) =>
      let po := parseOpts ps c.optToks
      let dest : List Dense := (match po.o.reuse with | some d => [d] | none => []) ++
        (match po.o.incr with | some d => [d] | none => [])
      let f51 := c.op != "trace" && Excl_mixedOrder ([a, b] ++ dest)
      let isTm := c.op == "tdot" || (c.op == "dot" && dotCase a.shape b.shape == .tensor)
      let f58 := ["mv", "mm", "outer", "dot"].contains c.op && Excl_reuseView po.o.reuse
      let f56 := isTm && Excl_tmulColMajor a b
      let dc := dotCase a.shape b.shape
      let f24 := Excl_shortStrides a || Excl_shortStrides b
      -- F39 through `Dot(vector, matrix)`: the transpose is taken on a shallow copy `bT` that shares `b`'s
      -- storage; when `b` carries a pending transpose that `bT.T()` does not recognise as its own undo (a clone
      -- keeps the pending transpose but not the axes it was made with) the shared storage is physically
      -- transposed under `b`
      let f39 := c.op == "dot" && dc == .vecMat && T_materialises b []
      ((if f51 then ["F51"] else []) ++
       (if f56 then ["F56"] else []) ++ (if f58 then ["F58"] else []) ++ (if f24 then ["F24"] else []) ++
       (if f39 then ["F39"] else []), true)
    | _, _ => ([], false)

end La

def linalgFamily : Family :=
  { name := "Linalg", keys := ["la"], stepM := La.stepM, stepS := La.stepS, excl := La.excl }

end TM
