import TensorModel.Ext.MaskOps
import TensorModel.Props.C15
/-!
  C15 (second part) — the mask setters, the constructor option `WithMask`, and the arg-reductions of masked
  tensors. Theorems about the model functions of `Ext/MaskOps.lean`.

  * the masked arg kernel `argMaskedGo` (the loop of `Arg{max,min}Masked<T>`) equals, for every length, the
    specification `specArgValid` (fold over the valid elements), and that fold returns the *first* index of
    the extreme among the valid elements; a lane without valid element: the kernel answers 0, the spec `none`;
  * flat and per-axis routes agree on a single lane; the per-axis route hands the kernel the raw mask instead of
    the lane's bits (F110): `_partial` under the guard "every lane's bits equal the raw prefix", `_full_fails`;
  * setters: exactly the named bit changes, elements untouched, refusals; `SetMaskAt`/`SetMaskAtIndex` on a tensor
    without mask do nothing (F112): `_partial` / `_full_fails`; a view's bit is the parent's bit shifted by the
    window start; `ResetMask` fills the window (F113): `_partial` / `_full_fails`;
  * `MaskFromSlice`: the per-type loop tests its bound after the store;
  * `WithMask` before the shape is known drops the mask (F115): `_partial` / `_full_fails`.
-/
namespace TM.C15ops
open TM TM.Mask TM.MaskOps

/-! ## the masked arg kernel = fold over the valid elements (all lengths) -/

section kernel
variable {α : Type}

/-- the loop from any state: the remaining valid elements are folded into the loop state -/
theorem argMaskedGo_fold (better : α → α → Bool) (stop : α → Bool) :
    ∀ (row : List (α × Bool)) (i : Nat) (cur : Option (Nat × α)),
      (∀ p ∈ row, p.2 = false → stop p.1 = false) →
      argMaskedGo better stop i cur row =
        ((((validIdx i row).foldl (stepBest better) cur).map (·.1)).getD 0)
  | [], i, cur, _ => by cases cur <;> simp [argMaskedGo, validIdx]
  | (v, m) :: rest, i, cur, h => by
    have hrest : ∀ p ∈ rest, p.2 = false → stop p.1 = false := fun p hp => h p (List.mem_cons_of_mem _ hp)
    cases m with
    | true => simp [argMaskedGo, validIdx, argMaskedGo_fold better stop rest (i + 1) cur hrest]
    | false =>
      have hs : stop v = false := h (v, false) (List.mem_cons_self ..) rfl
      simp [argMaskedGo, validIdx, hs, argMaskedGo_fold better stop rest (i + 1) _ hrest]

/-- **masked arg kernel = specification**, every length: without a float early return among the valid
    elements the Go loop returns the index the fold over the valid elements selects (and 0 where the
    specification is silent). -/
theorem argMaskedGo_eq_spec (better : α → α → Bool) (stop : α → Bool) (row : List (α × Bool))
    (h : ∀ p ∈ row, p.2 = false → stop p.1 = false) :
    argMaskedGo better stop 0 none row = (specArgValid better row).getD 0 := by
  rw [argMaskedGo_fold better stop row 0 none h]; rfl

theorem validIdx_nil_iff : ∀ (row : List (α × Bool)) (i : Nat), validIdx i row = [] ↔ ∀ p ∈ row, p.2 = true
  | [], _ => by simp [validIdx]
  | (v, m) :: rest, i => by
    cases m with
    | true => simp [validIdx, validIdx_nil_iff rest (i + 1)]
    | false => simp [validIdx]

theorem foldl_stepBest_some (better : α → α → Bool) : ∀ (l : List (Nat × α)) (b : Nat × α),
    ∃ r, l.foldl (stepBest better) (some b) = some r
  | [], b => ⟨b, rfl⟩
  | y :: l, b => by
    simp only [List.foldl_cons, stepBest]
    split <;> exact foldl_stepBest_some better l _

/-- **where the property is silent**: the specification gives no index exactly when the lane has no valid
    element -/
theorem specArgValid_none_iff (better : α → α → Bool) (row : List (α × Bool)) :
    specArgValid better row = none ↔ ∀ p ∈ row, p.2 = true := by
  unfold specArgValid
  rw [← validIdx_nil_iff row 0]
  cases hv : validIdx 0 row with
  | nil => simp
  | cons y l =>
    obtain ⟨r, hr⟩ := foldl_stepBest_some better l y
    simp [stepBest, hr]

/-- … and there the Go kernel answers 0 -/
theorem argMaskedGo_all_masked (better : α → α → Bool) (stop : α → Bool) (row : List (α × Bool))
    (h : ∀ p ∈ row, p.2 = true) : argMaskedGo better stop 0 none row = 0 := by
  rw [argMaskedGo_eq_spec better stop row (fun p hp hf => by rw [h p hp] at hf; cases hf)]
  rw [(specArgValid_none_iff better row).mpr h]; rfl

/-! ### the fold returns the first index of the extreme -/

/-- `r` is the first best element of `l`: nothing in `l` beats it, it beats everything before it -/
def FirstBest (better : α → α → Bool) (l : List (Nat × α)) (r : Nat × α) : Prop :=
  ∃ pre post, l = pre ++ r :: post ∧ (∀ y ∈ pre, better r.2 y.2 = true) ∧ (∀ y ∈ post, better y.2 r.2 = false)

/-- the order facts used: `better` is asymmetric and its complement is transitive-compatible
    (a strict weak order: `>` or `<` of a linear order) -/
structure StrictWeak (better : α → α → Bool) : Prop where
  asymm : ∀ a b, better a b = true → better b a = false
  neg : ∀ a b c, better a b = true → better c b = false → better a c = true

theorem StrictWeak.trans {better : α → α → Bool} (hw : StrictWeak better) (a b c : α)
    (h1 : better a b = true) (h2 : better b c = true) : better a c = true :=
  hw.neg a b c h1 (hw.asymm b c h2)

theorem foldl_stepBest_firstBest {better : α → α → Bool} (hw : StrictWeak better) :
    ∀ (l done : List (Nat × α)) (b : Nat × α), FirstBest better done b →
      ∃ r, l.foldl (stepBest better) (some b) = some r ∧ FirstBest better (done ++ l) r
  | [], done, b, h => ⟨b, rfl, by simpa using h⟩
  | y :: l, done, b, ⟨pre, post, hd, hpre, hpost⟩ => by
    simp only [List.foldl_cons, stepBest]
    by_cases hy : better y.2 b.2 = true
    · simp only [hy, if_true]
      have hfb : FirstBest better (done ++ [y]) y := by
        refine ⟨done, [], by simp, ?_, by simp⟩
        intro p hp
        rw [hd] at hp
        rcases List.mem_append.mp hp with hp | hp
        · exact hw.trans _ _ _ hy (hpre p hp)
        · rcases List.mem_cons.mp hp with hp | hp
          · subst hp; exact hy
          · exact hw.neg _ _ _ hy (hpost p hp)
      obtain ⟨r, hr, hfr⟩ := foldl_stepBest_firstBest hw l (done ++ [y]) y hfb
      exact ⟨r, hr, by simpa using hfr⟩
    · have hy' : better y.2 b.2 = false := by simpa using hy
      simp only [hy', Bool.false_eq_true, if_false]
      have hfb : FirstBest better (done ++ [y]) b := by
        refine ⟨pre, post ++ [y], by simp [hd], hpre, ?_⟩
        intro p hp
        rcases List.mem_append.mp hp with hp | hp
        · exact hpost p hp
        · simp at hp; subst hp; exact hy'
      obtain ⟨r, hr, hfr⟩ := foldl_stepBest_firstBest hw l (done ++ [y]) b hfb
      exact ⟨r, hr, by simpa using hfr⟩

/-- **first index of the extreme among the valid elements.** The element the specification selects is a
    valid element, no valid element beats it, and it beats every valid element before it. -/
theorem specArgValid_first_extreme {better : α → α → Bool} (hw : StrictWeak better) (row : List (α × Bool))
    (i : Nat) (h : specArgValid better row = some i) :
    ∃ v, FirstBest better (validIdx 0 row) (i, v) := by
  unfold specArgValid at h
  cases hv : validIdx 0 row with
  | nil => simp [hv] at h
  | cons y l =>
    rw [hv] at h
    have hfb : FirstBest better [y] y := ⟨[], [], rfl, by simp, by simp⟩
    obtain ⟨r, hr, hfr⟩ := foldl_stepBest_firstBest hw l [y] y hfb
    simp only [List.foldl_cons, stepBest, hr, Option.map_some, Option.some.injEq] at h
    refine ⟨r.2, ?_⟩
    have : r = (i, r.2) := by rw [← h]
    rw [← this]; simpa using hfr

/-- the valid elements are listed with their positions, in increasing order of position -/
theorem validIdx_mem : ∀ (row : List (α × Bool)) (k j : Nat) (w : α),
    (j, w) ∈ validIdx k row ↔ k ≤ j ∧ row[j - k]? = some (w, false)
  | [], k, j, w => by simp [validIdx]
  | (v, m) :: rest, k, j, w => by
    have ih := validIdx_mem rest (k + 1) j w
    cases m with
    | true =>
      simp only [validIdx, if_true, ih]
      constructor
      · rintro ⟨h1, h2⟩
        refine ⟨by omega, ?_⟩
        have : j - k = (j - (k + 1)) + 1 := by omega
        rw [this]; simpa using h2
      · rintro ⟨h1, h2⟩
        by_cases hjk : j = k
        · subst hjk; simp at h2
        · refine ⟨by omega, ?_⟩
          have : j - k = (j - (k + 1)) + 1 := by omega
          rw [this] at h2; simpa using h2
    | false =>
      simp only [validIdx, Bool.false_eq_true, if_false, List.mem_cons, ih, Prod.mk.injEq]
      constructor
      · rintro (⟨h1, h2⟩ | ⟨h1, h2⟩)
        · subst h1; subst h2; simp
        · refine ⟨by omega, ?_⟩
          have : j - k = (j - (k + 1)) + 1 := by omega
          rw [this]; simpa using h2
      · rintro ⟨h1, h2⟩
        by_cases hjk : j = k
        · subst hjk; simp at h2; left; exact ⟨rfl, h2.symm⟩
        · right
          refine ⟨by omega, ?_⟩
          have : j - k = (j - (k + 1)) + 1 := by omega
          rw [this] at h2; simpa using h2

theorem validIdx_sorted : ∀ (row : List (α × Bool)) (k : Nat), (validIdx k row).Pairwise (fun a b => a.1 < b.1)
  | [], _ => by simp [validIdx]
  | (v, m) :: rest, k => by
    cases m with
    | true => simpa [validIdx] using validIdx_sorted rest (k + 1)
    | false =>
      simp only [validIdx, Bool.false_eq_true, if_false, List.pairwise_cons]
      refine ⟨?_, validIdx_sorted rest (k + 1)⟩
      intro p hp
      have := (validIdx_mem rest (k + 1) p.1 p.2).mp hp
      omega

/-- **row-level statement**: the selected index `i` is valid; no valid element beats `row[i]`; `row[i]` beats every
    valid element at a smaller position. -/
theorem specArgValid_row {better : α → α → Bool} (hw : StrictWeak better) (row : List (α × Bool))
    (i : Nat) (h : specArgValid better row = some i) :
    ∃ v, row[i]? = some (v, false) ∧
      (∀ (j : Nat) (w : α), row[j]? = some (w, false) → better w v = false) ∧
      (∀ (j : Nat) (w : α), j < i → row[j]? = some (w, false) → better v w = true) := by
  obtain ⟨v, pre, post, hl, hpre, hpost⟩ := specArgValid_first_extreme hw row i h
  have hmem : ∀ j w, (j, w) ∈ validIdx 0 row ↔ row[j]? = some (w, false) := by
    intro j w; simpa using validIdx_mem row 0 j w
  have hself : (i, v) ∈ validIdx 0 row := by rw [hl]; simp
  have hsorted := validIdx_sorted row 0
  rw [hl] at hsorted
  refine ⟨v, (hmem i v).mp hself, ?_, ?_⟩
  · intro j w hj
    have hjm := (hmem j w).mpr hj
    rw [hl] at hjm
    rcases List.mem_append.mp hjm with hp | hp
    · exact hw.asymm _ _ (hpre (j, w) hp)
    · rcases List.mem_cons.mp hp with hp | hp
      · have : w = v := by injection hp
        subst this
        cases hb : better w w with
        | false => rfl
        | true => have := hw.asymm w w hb; rw [hb] at this; cases this
      · exact hpost (j, w) hp
  · intro j w hji hj
    have hjm := (hmem j w).mpr hj
    rw [hl] at hjm
    rcases List.mem_append.mp hjm with hp | hp
    · exact hpre (j, w) hp
    · exfalso
      rcases List.mem_cons.mp hp with hp | hp
      · injection hp with h1 _; omega
      · have hs := (List.pairwise_append.mp hsorted).2.1
        have := (List.pairwise_cons.mp hs).1 (j, w) hp
        simp at this; omega

end kernel

/-- `>` and `<` of the integers are strict weak orders (the model's keys of the numeric element types) -/
theorem strictWeak_int_gt : StrictWeak (fun a b : Int => decide (a > b)) :=
  ⟨fun a b h => by simp at h ⊢; omega, fun a b c h1 h2 => by simp at h1 h2 ⊢; omega⟩
theorem strictWeak_int_lt : StrictWeak (fun a b : Int => decide (a < b)) :=
  ⟨fun a b h => by simp at h ⊢; omega, fun a b c h1 h2 => by simp at h1 h2 ⊢; omega⟩

/-! ## flat and per-axis routes -/

theorem chunks_one {β} (n : Nat) (l : List β) : Red.chunks n 1 l = [l.take n] := by
  simp [Red.chunks]

/-- **flat vs per-axis agreement** on a single lane (a vector reduced along its only axis): the per-axis route
    calls the kernel once, with the same data and the same raw mask as the flat route. -/
theorem argIterMasked_single_lane (isMax isFloat : Bool) (cells : List Red.Key) (raw : List Bool)
    (h : cells ≠ []) :
    argIterMasked isMax isFloat cells.length cells raw = [argMaskedK isMax isFloat cells raw] := by
  have hpos : 0 < cells.length := List.length_pos_iff.mpr h
  simp [argIterMasked, Red.argChunks, Nat.div_self hpos, chunks_one]

theorem zip_take_left {β γ} : ∀ (a : List β) (b : List γ) (n : Nat), a.length ≤ n → a.zip (b.take n) = a.zip b
  | [], _, _, _ => by simp
  | _ :: _, [], _, _ => by simp
  | _ :: _, _ :: _, 0, h => by simp at h
  | x :: a, y :: b, n + 1, h => by
    simp only [List.take_succ_cons, List.zip_cons_cons, List.cons.injEq, true_and]
    exact zip_take_left a b n (by simpa using h)

/-- the kernel looks at the first `lane.length` mask entries only -/
theorem argMaskedK_take (isMax isFloat : Bool) (lane : List Red.Key) (raw : List Bool) (n : Nat)
    (h : lane.length ≤ n) : argMaskedK isMax isFloat lane (raw.take n) = argMaskedK isMax isFloat lane raw := by
  simp [argMaskedK, zip_take_left lane raw n h]

/-- **F110, guarded statement.** `Arg{max,min}IterMasked` computes what its call site means (every lane judged
    by its own mask bits) whenever every lane's bits coincide with the first `lastSize` entries of the raw mask —
    in particular for a single lane in storage order, and for masks that repeat with period `lastSize`. -/
theorem argIterMasked_partial (isMax isFloat : Bool) (lastSize : Nat) (cells : List Red.Key) (laneMask raw : List Bool)
    (hl : ∀ lane ∈ Red.argChunks lastSize cells, lane.length ≤ lastSize)
    (hm : laneChunks lastSize laneMask = (Red.argChunks lastSize cells).map (fun _ => raw.take lastSize)) :
    argIterMasked isMax isFloat lastSize cells raw = argIterMaskedIntended isMax isFloat lastSize cells laneMask := by
  unfold argIterMasked argIterMaskedIntended
  rw [hm]
  generalize Red.argChunks lastSize cells = lanes at hl
  induction lanes with
  | nil => rfl
  | cons lane rest ih =>
    simp only [List.map_cons, List.zipWith_cons_cons, List.cons.injEq]
    refine ⟨(argMaskedK_take isMax isFloat lane raw lastSize (hl lane (List.mem_cons_self ..))).symm, ?_⟩
    exact ih (fun l hl' => hl l (List.mem_cons_of_mem _ hl'))

/-- **F110, the unguarded statement is false**: two lanes of two elements, the second lane's own bits differ
    from the raw prefix. -/
theorem argIterMasked_full_fails :
    ¬ ∀ (isMax isFloat : Bool) (lastSize : Nat) (cells : List Red.Key) (mask : List Bool),
        argIterMasked isMax isFloat lastSize cells mask = argIterMaskedIntended isMax isFloat lastSize cells mask := by
  intro h
  have := h true false 2 [.num 1, .num 2, .num 5, .num 3] [false, true, true, false]
  revert this
  decide

/-! ## the setters -/

/-- **SetMaskAtIndex: exactly the named bit.** On a masked tensor bit `i` of the mask window becomes `v`, every other
    bit of the window keeps its value, and the element storage is untouched. -/
theorem setMaskAtIndex_frame (s s' : St) (t : Dense) (m : Win) (v : Bool) (i : Int)
    (hm : t.mask = some m) (hk : t.isMasked = true) (h : setMaskAtIndex s t v i = .ok s') :
    s'.mget m i = .ok v ∧ (∀ j, j ≠ i → s'.mget m j = s.mget m j) ∧ s'.heap = s.heap := by
  simp only [setMaskAtIndex, hk, hm, Bool.not_true, Bool.false_eq_true, if_false] at h
  refine ⟨C15.St.mget_mset_same h, fun j hj => C15.St.mget_mset_other h hj, ?_⟩
  obtain ⟨b, _, _, _, _, rfl⟩ := C15.St.mset_ok h
  rfl

/-- refusal: an index outside the mask window panics (Go's slice index check); nothing is written -/
theorem setMaskAtIndex_oob (s : St) (t : Dense) (m : Win) (v : Bool) (i : Int)
    (hm : t.mask = some m) (hk : t.isMasked = true) (hi : i < 0 ∨ i ≥ m.len) :
    ∃ e, setMaskAtIndex s t v i = .error (.panic e) := by
  simp only [setMaskAtIndex, hk, hm, Bool.not_true, Bool.false_eq_true, if_false, St.mset]
  have : (decide (i < 0) || decide (i ≥ (m.len : Int))) = true := by
    rcases hi with hi | hi <;> simp [hi]
  simp [this, throwPanic]

/-- **SetMaskAt: exactly the named bit.** On a masked tensor: the coordinates are resolved like those of `At`,
    `MaskAt` of the named coordinates becomes `v`, `MaskAt` of every coordinate with another storage offset and every
    element (by `At`) are unchanged. -/
theorem setMaskAt_frame (s s' : St) (t : Dense) (m : Win) (v : Bool) (c : List Int) (i : Int)
    (hm : t.mask = some m) (hk : t.isMasked = true) (hl : c.length = t.dims)
    (hi : ltoi t.shape t.strides c = .ok i) (h : setMaskAt s t v c = .ok s') :
    maskAt s' t c = .ok v ∧
    (∀ c' i', c'.length = t.dims → ltoi t.shape t.strides c' = .ok i' → i' ≠ i → maskAt s' t c' = maskAt s t c') ∧
    (∀ c', t.at_ s' c' = t.at_ s c') := by
  have hl' : (c.length != t.dims) = false := by simp [hl]
  simp only [setMaskAt, hk, hm, hl', hi, Bool.not_true, Bool.false_eq_true, if_false, bind, Except.bind,
    pure, Except.pure] at h
  refine ⟨?_, ?_, ?_⟩
  · simp [maskAt, hk, hm, hl, hi, bind, Except.bind, C15.St.mget_mset_same h]
  · intro c' i' hl2 hi2 hne
    simp [maskAt, hk, hm, hl2, hi2, bind, Except.bind, C15.St.mget_mset_other h hne]
  · intro c'
    obtain ⟨b, _, _, _, _, rfl⟩ := C15.St.mset_ok h
    simp [Dense.at_, St.get]

/-- refusals of `SetMaskAt` on a masked tensor: wrong arity, and whatever `At` refuses (out of range) -/
theorem setMaskAt_refuses_arity (s : St) (t : Dense) (v : Bool) (c : List Int)
    (hk : t.isMasked = true) (hl : c.length ≠ t.dims) : ∃ e, setMaskAt s t v c = .error (.err e) := by
  have hl' : (c.length != t.dims) = true := by simp [hl]
  exact ⟨"dimMismatch", by simp [setMaskAt, hk, hl', throwErr, bind, Except.bind]⟩

theorem setMaskAt_refuses_range (s : St) (t : Dense) (v : Bool) (c : List Int) (e : Err)
    (hk : t.isMasked = true) (hl : c.length = t.dims) (hi : ltoi t.shape t.strides c = .error e) :
    setMaskAt s t v c = .error e := by
  have hl' : (c.length != t.dims) = false := by simp [hl]
  simp [setMaskAt, hk, hl', hi, bind, Except.bind, pure, Except.pure]

/-- F112: on a tensor without mask both setters return at once — whatever the arguments -/
theorem setters_unmasked_noop (s : St) (t : Dense) (v : Bool) (c : List Int) (i : Int) (hk : t.isMasked = false) :
    setMaskAt s t v c = .ok s ∧ setMaskAtIndex s t v i = .ok s := by
  simp [setMaskAt, setMaskAtIndex, hk, pure, Except.pure]

/-- **F112, guarded statement**: on a masked tensor a successful `SetMaskAt(v, c)` makes `MaskAt(c) = v` -/
theorem setMaskAt_sets_partial (s s' : St) (t : Dense) (m : Win) (v : Bool) (c : List Int)
    (hm : t.mask = some m) (hk : t.isMasked = true) (h : setMaskAt s t v c = .ok s') : maskAt s' t c = .ok v := by
  by_cases hl : c.length = t.dims
  · cases hi : ltoi t.shape t.strides c with
    | error e => rw [setMaskAt_refuses_range s t v c e hk hl hi] at h; cases h
    | ok i => exact (setMaskAt_frame s s' t m v c i hm hk hl hi h).1
  · obtain ⟨e, he⟩ := setMaskAt_refuses_arity s t v c hk hl
    rw [he] at h; cases h

/-- a one-dimensional tensor of two cells without mask (witness of F112) -/
def unmaskedVec : Dense := { ap := { shape := [2], strides := [1], fin := true }, win := ⟨0, 0, 2, 2⟩, dt := "i" }

/-- **F112, the unguarded statement is false**: on a tensor without mask `SetMaskAt(true, 0)` succeeds and
    `MaskAt(0)` is still false. -/
theorem setMaskAt_sets_full_fails :
    ¬ ∀ (s s' : St) (t : Dense) (v : Bool) (c : List Int), setMaskAt s t v c = .ok s' → maskAt s' t c = .ok v := by
  intro h
  have hk : unmaskedVec.isMasked = false := by decide
  have h1 := h {} {} unmaskedVec true [0] (setters_unmasked_noop {} unmaskedVec true [0] 0 hk).1
  simp [maskAt, hk, pure, Except.pure] at h1

/-- … and a malformed position is not refused there -/
theorem setMaskAt_refusal_full_fails :
    ¬ ∀ (s : St) (t : Dense) (v : Bool) (c : List Int), c.length ≠ t.dims → ∃ e, setMaskAt s t v c = .error (.err e) := by
  intro h
  have hk : unmaskedVec.isMasked = false := by decide
  obtain ⟨e, he⟩ := h {} unmaskedVec true [0, 0, 0] (by decide)
  rw [(setters_unmasked_noop {} unmaskedVec true [0, 0, 0] 0 hk).1] at he
  cases he

/-! ### views: which parent bit changes -/

/-- a window cut out of another one (`Dense.slice` cuts the mask window exactly like the data window,
    `C15.mask_follows_slice`): writing position `i` of the inner window writes position `k + i` of the outer one -/
theorem mset_shifted (s : St) (m mv : Win) (k : Nat) (i : Int) (v : Bool)
    (hb : mv.buf = m.buf) (ho : mv.off = m.off + k) (hi0 : 0 ≤ i) (hi1 : i < mv.len) (hfit : k + mv.len ≤ m.len) :
    s.mset mv i v = s.mset m ((k : Int) + i) v := by
  have h1 : (decide (i < 0) || decide (i ≥ (mv.len : Int))) = false := by
    simp only [Bool.or_eq_false_iff, decide_eq_false_iff_not]; omega
  have h2 : (decide ((k : Int) + i < 0) || decide ((k : Int) + i ≥ (m.len : Int))) = false := by
    simp only [Bool.or_eq_false_iff, decide_eq_false_iff_not]; omega
  have h3 : mv.off + i.toNat = m.off + ((k : Int) + i).toNat := by omega
  simp only [St.mset, h1, h2, hb, h3]

/-- **SetMaskAtIndex on a view changes the parent's bit `ndStart + i`** (and nothing else, by
    `setMaskAtIndex_frame` applied to the parent's window): the view's mask window is the parent's, shifted by the
    view's window start. -/
theorem setMaskAtIndex_view_parent (s : St) (t v : Dense) (m mv : Win) (k : Nat) (b : Bool) (i : Int)
    (hmv : v.mask = some mv) (hkv : v.isMasked = true)
    (hb : mv.buf = m.buf) (ho : mv.off = m.off + k) (hfit : k + mv.len ≤ m.len)
    (hi0 : 0 ≤ i) (hi1 : i < mv.len) :
    setMaskAtIndex s v b i = s.mset m ((k : Int) + i) b := by
  simp only [setMaskAtIndex, hkv, hmv, Bool.not_true, Bool.false_eq_true, if_false]
  exact mset_shifted s m mv k i b hb ho hi0 hi1 hfit

/-! ### ResetMask -/

theorem foldlM_map_zip (s : St) (m : Win) (v : Bool) : ∀ (l : List Int) (s : St),
    l.foldlM (fun s i => s.mset m i v) s =
      ((List.replicate l.length v).zip l).foldlM (fun s (p : Bool × Int) => s.mset m p.2 p.1) s
  | [], s => rfl
  | i :: l, s => by
    simp only [List.foldlM_cons, List.length_cons, List.replicate_succ, List.zip_cons_cons, bind, Except.bind]
    cases s.mset m i v with
    | error e => rfl
    | ok s1 => exact foldlM_map_zip s m v l s1

/-- `memsetBools(t.mask, v)` writes `v` to every position of the window -/
theorem memsetMask_eq_writeMask (s : St) (m : Win) (v : Bool) :
    memsetMask s m v = writeMask s m (List.replicate m.len v) := by
  unfold memsetMask writeMask
  have := foldlM_map_zip s m v (rangeI m.len) s
  simpa [rangeI] using this

theorem zip_foldlM_heap (m : Win) : ∀ (l : List (Bool × Int)) (s s' : St),
    l.foldlM (fun s (p : Bool × Int) => s.mset m p.2 p.1) s = .ok s' → s'.heap = s.heap
  | [], s, s', h => by
    simp only [List.foldlM_nil, pure, Except.pure] at h
    injection h with h; rw [h]
  | p :: l, s, s', h => by
    simp only [List.foldlM_cons, bind, Except.bind] at h
    cases h1 : s.mset m p.2 p.1 with
    | error e => rw [h1] at h; cases h
    | ok s1 =>
      rw [h1] at h
      have hheap : s1.heap = s.heap := by
        obtain ⟨b, _, _, _, _, rfl⟩ := C15.St.mset_ok h1
        rfl
      rw [zip_foldlM_heap m l s1 s' h, hheap]

/-- **ResetMask on a masked tensor (what the code does)**: every position of the mask *window* holds the fill value
    afterwards (`false` without argument), the tensor's metadata and the element storage are untouched. -/
theorem resetMask_masked (s s' : St) (t t' : Dense) (m : Win) (val : Option Bool)
    (hm : t.mask = some m) (hk : t.isMasked = true) (h : resetMask s t val = .ok (s', t')) :
    t' = t ∧ (∀ i : Nat, i < m.len → s'.mget m (i : Int) = .ok (val.getD false)) ∧ s'.heap = s.heap := by
  simp only [resetMask, hk, hm, Bool.not_true, Bool.false_eq_true, if_false, bind, Except.bind, pure, Except.pure] at h
  cases h1 : memsetMask s m (val.getD false) with
  | error e => rw [h1] at h; cases h
  | ok s1 =>
    rw [h1] at h
    injection h with h
    injection h with hs ht
    subst hs; subst ht
    refine ⟨rfl, ?_, ?_⟩
    · intro i hi
      rw [memsetMask_eq_writeMask] at h1
      exact C15.writeMask_read s s1 m _ h1 (by simp) i _ (by simp [hi])
    · rw [memsetMask_eq_writeMask] at h1
      exact zip_foldlM_heap m _ s s1 h1

/-- a (2,2) view with gaps into a masked (3,3) tensor: window cells 0,1,3,4 are its elements, cell 2 is a gap
    (witness of F113) -/
def gapView : Dense :=
  { ap := { shape := [2, 2], strides := [3, 1], fin := true, o := { nonContig := true } }, win := ⟨0, 4, 5, 5⟩, dt := "i",
    view := true, mask := some ⟨0, 4, 5, 5⟩ }
def gapState : St := { heap := #[Array.replicate 9 Val.zero], mheap := #[Array.replicate 9 false] }

/-- is window position `j` the storage offset of an element of `t`? -/
def isElemOffset (t : Dense) (j : Int) : Bool :=
  (allCoords t.shape).any (fun c => match ltoi t.shape t.strides c with | .ok i => i == j | .error _ => false)

/-- **F113, guarded statement**: the bits `ResetMask` changes lie inside the tensor's own mask window — when every
    window position is an element (no gaps: `¬ Excl_resetWindow`) these are exactly the tensor's elements. -/
theorem resetMask_frame_partial (s s' : St) (t t' : Dense) (m m2 : Win) (val : Option Bool) (j : Int)
    (hm : t.mask = some m) (hk : t.isMasked = true) (h : resetMask s t val = .ok (s', t'))
    (hb : m2.buf ≠ m.buf) : s'.mget m2 j = s.mget m2 j := by
  simp only [resetMask, hk, hm, Bool.not_true, Bool.false_eq_true, if_false, bind, Except.bind, pure, Except.pure] at h
  cases h1 : memsetMask s m (val.getD false) with
  | error e => rw [h1] at h; cases h
  | ok s1 =>
    rw [h1] at h
    injection h with h
    injection h with hs ht
    subst hs
    rw [memsetMask_eq_writeMask] at h1
    unfold writeMask at h1
    generalize (List.replicate m.len (val.getD false)).zip (rangeI m.len) = l at h1
    induction l generalizing s with
    | nil => simp only [List.foldlM_nil, pure, Except.pure] at h1; injection h1 with h1; rw [h1]
    | cons p l ih =>
      simp only [List.foldlM_cons, bind, Except.bind] at h1
      cases h2 : s.mset m p.2 p.1 with
      | error e => rw [h2] at h1; cases h1
      | ok s2 =>
        rw [h2] at h1
        rw [ih s2 h1, C15.St.mget_mset_otherbuf h2 hb]

/-- **F113, the unguarded statement is false**: "`ResetMask` changes only bits of the tensor's elements" fails on a view
    with gaps — window position 2 of `gapView` is not the offset of any of its elements, yet its bit (the parent's bit of a
    cell outside the view) is set. -/
theorem resetMask_frame_full_fails :
    ∃ (s s' : St) (t t' : Dense) (m : Win) (j : Int), t.mask = some m ∧ t.isMasked = true ∧
      resetMask s t (some true) = .ok (s', t') ∧ isElemOffset t j = false ∧ s.mget m j = .ok false ∧ s'.mget m j = .ok true := by
  refine ⟨gapState, _, gapView, _, ⟨0, 4, 5, 5⟩, 2, rfl, by decide, rfl, by decide, rfl, rfl⟩

/-! ## MaskFromSlice -/

/-- `copy(t.mask, m)` for a `[]bool`: position `i` of the window holds `m[i]` for every `i` below both lengths
    (sizes that do not match: the common prefix is copied, nothing is refused) -/
theorem copyBools_read (s s' : St) (m : Win) (l : List Bool) (h : copyBools s m l = .ok s')
    (i : Nat) (b : Bool) (hb : (l.take m.len)[i]? = some b) : s'.mget m (i : Int) = .ok b :=
  C15.writeMask_read s s' m (l.take m.len) h (by simp [List.length_take]; omega) i b hb

/-- the per-type loop of the numeric / string arms tests its bound **after** the store: an entry at a position
    at or behind the end of the mask panics when it is non-zero … -/
theorem numLoop_overrun_panics (s : St) (m : Win) (n i : Nat) (rest : List Bool) (hi : i ≥ m.len) :
    ∃ e, numLoop s m n i (true :: rest) = .error (.panic e) := by
  have hc : (i : Int) < 0 ∨ m.len ≤ i := Or.inr hi
  exact ⟨"mask index out of range", by simp [numLoop, St.mset, hc, throwPanic, bind, Except.bind]⟩

/-- … and ends the loop quietly when it is zero (the rest of the slice is ignored) -/
theorem numLoop_overrun_quiet (s : St) (m : Win) (n i : Nat) (rest : List Bool) (hi : i ≥ n) :
    numLoop s m n i (false :: rest) = .ok s := by
  simp [numLoop, hi, pure, Except.pure, bind, Except.bind]

/-- inside the mask the loop only ever *sets* bits: a zero entry writes nothing -/
theorem numLoop_zero_entry (s : St) (m : Win) (n i : Nat) (rest : List Bool) (hi : i < n) :
    numLoop s m n i (false :: rest) = numLoop s m n (i + 1) rest := by
  have : ¬ i ≥ n := by omega
  simp [numLoop, this, pure, Except.pure, bind, Except.bind]

theorem numLoop_set_entry (s s1 : St) (m : Win) (n i : Nat) (rest : List Bool) (hi : i < n)
    (h : s.mset m (i : Int) true = .ok s1) :
    numLoop s m n i (true :: rest) = numLoop s1 m n (i + 1) rest := by
  have : ¬ i ≥ n := by omega
  simp [numLoop, this, h, bind, Except.bind]

/-! ## the constructor option WithMask -/

/-- `makeMask` on a tensor that has no mask yet: a fresh window of the *shape's* size -/
theorem makeMask_fresh (s : St) (t : Dense) (hm : t.mask = none) (hs : (totalSize t.shape).toNat ≠ 0) :
    makeMask s t = .ok ((s.allocMask (Array.replicate (totalSize t.shape).toNat false)).1,
      { t with mask := some ⟨s.mheap.size, 0, (totalSize t.shape).toNat, (totalSize t.shape).toNat⟩ }) := by
  simp [makeMask, hm, hs, St.allocMask, pure, Except.pure]

/-- `MaskFromSlice` leaves the tensor's metadata as `makeMask` made it (the arms only write mask bits) -/
theorem maskFromSlice_meta (s s' : St) (t t' : Dense) (x : MaskSrc) (h : maskFromSlice s t x = .ok (s', t')) :
    ∃ s1, makeMask s t = .ok (s1, t') := by
  unfold maskFromSlice at h
  simp only [bind, Except.bind] at h
  cases hmk : makeMask s t with
  | error e => rw [hmk] at h; cases h
  | ok p =>
    obtain ⟨s1, t1⟩ := p
    rw [hmk] at h
    simp only at h
    cases x with
    | bools l =>
      simp only at h
      cases hc : copyBools s1 (t1.mask.getD ⟨0, 0, 0, 0⟩) l with
      | error e => rw [hc] at h; cases h
      | ok s2 =>
        rw [hc] at h
        simp only [pure, Except.pure] at h
        injection h with h; injection h with _ h2; subst h2; exact ⟨s1, rfl⟩
    | nums nz =>
      simp only at h
      cases hc : numLoop s1 (t1.mask.getD ⟨0, 0, 0, 0⟩) (t1.mask.getD ⟨0, 0, 0, 0⟩).len 0 nz with
      | error e => rw [hc] at h; cases h
      | ok s2 =>
        rw [hc] at h
        simp only [pure, Except.pure] at h
        injection h with h; injection h with _ h2; subst h2; exact ⟨s1, rfl⟩
    | other =>
      simp only [pure, Except.pure] at h
      injection h with h; injection h with _ h2; subst h2; exact ⟨s1, rfl⟩

/-- **the size `WithMask` gives the mask**: the total size of the shape *known when the option runs* — 1 when no
    `WithShape` preceded it (`Shape(nil).TotalSize() = 1`) — whatever the length of the slice. -/
theorem withMask_mask_len (dt : String) (dims : Shape) (x : MaskSrc) (s s' : St) (c c' : ConsSt)
    (hm : c.mask = none) (hs : (totalSize (c.shape.getD [])).toNat ≠ 0)
    (h : consOpt dt dims (some x) s c 'M' = .ok (s', c')) :
    ∃ w, c'.mask = some w ∧ w.len = (totalSize (c.shape.getD [])).toNat ∧ c'.shape = c.shape ∧ c'.hasData = c.hasData := by
  have e1 : ('M' == 'S') = false := by decide
  have e2 : ('M' == 'B') = false := by decide
  simp only [consOpt, e1, e2, Bool.false_eq_true, if_false, beq_self_eq_true, if_true, bind, Except.bind] at h
  cases hmf : maskFromSlice s
      { ap := { shape := c.shape.getD [], strides := [], fin := false }, win := ⟨0, 0, 0, 0⟩, dt := dt, mask := c.mask } x with
  | error e => rw [hmf] at h; cases h
  | ok p =>
    obtain ⟨s2, t2⟩ := p
    rw [hmf] at h
    simp only [pure, Except.pure] at h
    injection h with h; injection h with _ h2; subst h2
    obtain ⟨s1, hmk⟩ := maskFromSlice_meta _ _ _ _ _ hmf
    rw [makeMask_fresh s _ hm (by simpa [Dense.shape] using hs)] at hmk
    injection hmk with hmk; injection hmk with _ ht
    subst ht
    exact ⟨_, rfl, rfl, rfl, rfl⟩

/-- `fix()` keeps a mask exactly when its length is the data length -/
theorem consFix_mask (c : ConsSt) (n : Nat) (w : Win) (hm : c.mask = some w) :
    (consFix c n).2.2 = some (if w.len != (consFix c n).2.1 then { w with len := 0 } else w) := by
  simp [consFix, hm]

/-- **F115, guarded statement**: when `WithShape` has run before `WithMask` (and the backing, if any, has as many cells
    as the shape), the mask survives `fix()`: its length is the data length. -/
theorem withMask_kept_partial (c : ConsSt) (n : Nat) (sh : Shape) (w : Win)
    (hsh : c.shape = some sh) (hne : sh ≠ []) (hm : c.mask = some w) (hw : w.len = (totalSize sh).toNat)
    (hn : c.hasData = true → n = (totalSize sh).toNat) :
    (consFix c n).2.2 = some w ∧ (consFix c n).2.1 = w.len := by
  have hse : sh.isEmpty = false := by cases sh <;> simp_all
  cases hd : c.hasData with
  | false => simp [consFix, hsh, hd, hm, hw, hse]
  | true => simp [consFix, hsh, hd, hm, hw, hn hd]

/-- **F115, the unguarded statement is false**: the documented usage `New(WithBacking(b), WithMask(mask))` with a
    `[]bool` of the backing's length builds a tensor *without* mask. -/
theorem withMask_kept_full_fails :
    ∃ (s' : St) (t : Dense), consNew {} "f64" [6] 6 ((Array.range 6).map (fun i => Val.src 0 i)) ['B', 'M']
        (some (.bools [false, true, false, false, true, false])) = .ok (s', t) ∧ t.win.len = 6 ∧ t.isMasked = false := by
  refine ⟨_, _, rfl, rfl, rfl⟩

/-- the same options with `WithShape` first: masked, with the bits of the slice -/
example : ∃ (s' : St) (t : Dense) (m : Win), consNew {} "f64" [2, 3] 6 ((Array.range 6).map (fun i => Val.src 0 i)) ['S', 'B', 'M']
    (some (.bools [false, true, false, false, true, false])) = .ok (s', t) ∧ t.mask = some m ∧ t.isMasked = true ∧
    maskBits s' m = .ok [false, true, false, false, true, false] := ⟨_, _, _, rfl, rfl, rfl, rfl⟩

/-- a non-bool mask given before the shape is known panics on its first non-zero entry behind position 0 -/
example : ∃ e, consNew {} "f64" [6] 6 ((Array.range 6).map (fun i => Val.src 0 i)) ['B', 'M']
    (some (.nums [false, true, false, false, true, false])) = .error (.panic e) := ⟨_, rfl⟩

/-! ## MaskFromDense -/

/-- F117: a scalar receiver without mask is never given one (`DataSize()` is 0 for scalars) -/
theorem maskFromDense_scalar_noop (s s' : St) (objs : Array Dense) (self : Nat) (t t' : Dense) (tts : List (Option Nat))
    (hsc : t.shape = []) (hm : t.mask = none) (h : maskFromDense s objs self t tts = .ok (s', t')) :
    s' = s ∧ t' = t := by
  unfold maskFromDense at h
  simp only [bind, Except.bind, pure, Except.pure] at h
  split at h
  · injection h with h; injection h with h1 h2; exact ⟨h1.symm, h2.symm⟩
  · have hds : dataSize t = 0 := by simp [dataSize, isScalar, hsc]
    simp only [hm, hds, Nat.lt_irrefl, if_false] at h
    injection h with h; injection h with h1 h2; exact ⟨h1.symm, h2.symm⟩

/-- without a masked operand nothing happens -/
theorem maskFromDense_no_masked (s : St) (objs : Array Dense) (self : Nat) (t : Dense) :
    maskFromDense s objs self t [] = .ok (s, t) := by
  simp [maskFromDense, pure, Except.pure]

/-- one iteration of `for j := range t.mask { t.mask[j] = t.mask[j] || tt.mask[j%n] }` -/
def orStep (tm ttm : Win) (s : St) (j : Int) : Res St := do
  if ttm.len == 0 then throwPanic "integer divide by zero"
  let a ← s.mget tm j
  let b ← s.mget ttm (j % (ttm.len : Int))
  s.mset tm j (a || b)

theorem orInto_eq (s : St) (tm ttm : Win) : orInto s tm ttm = (rangeI tm.len).foldlM (orStep tm ttm) s := rfl

theorem orStep_ok {tm ttm : Win} {s s1 : St} {j : Int} (h : orStep tm ttm s j = .ok s1) :
    ∃ a b, s.mget tm j = .ok a ∧ s.mget ttm (j % (ttm.len : Int)) = .ok b ∧ s.mset tm j (a || b) = .ok s1 := by
  unfold orStep at h
  simp only [bind, Except.bind, pure, Except.pure] at h
  by_cases hz : (ttm.len == 0) = true
  · simp only [hz, if_true, throwPanic] at h; cases h
  · simp only [hz, Bool.false_eq_true, if_false] at h
    cases ha : s.mget tm j with
    | error e => rw [ha] at h; cases h
    | ok a0 =>
      rw [ha] at h
      simp only at h
      cases hbv : s.mget ttm (j % (ttm.len : Int)) with
      | error e => rw [hbv] at h; cases h
      | ok b0 =>
        rw [hbv] at h
        exact ⟨a0, b0, rfl, rfl, h⟩

/-- the loop from position `k` on, operand mask in another buffer: positions `k … k+n-1` receive the disjunction, every
    other position and the operand's mask keep their values -/
theorem orLoop_spec (tm ttm : Win) (hb : ttm.buf ≠ tm.buf) :
    ∀ (n k : Nat) (s s' : St),
      ((List.range' k n).map Int.ofNat).foldlM (orStep tm ttm) s = .ok s' →
      (∀ j : Nat, k ≤ j → j < k + n → ∀ a b, s.mget tm (j : Int) = .ok a → s.mget ttm ((j : Int) % (ttm.len : Int)) = .ok b →
          s'.mget tm (j : Int) = .ok (a || b)) ∧
      (∀ j : Int, (j < k ∨ j ≥ ((k + n : Nat) : Int)) → s'.mget tm j = s.mget tm j) ∧
      (∀ j : Int, s'.mget ttm j = s.mget ttm j)
  | 0, k, s, s', h => by
    simp only [List.range'_zero, List.map_nil, List.foldlM_nil, pure, Except.pure] at h
    injection h with h; subst h
    exact ⟨fun j h1 h2 => by omega, fun _ _ => rfl, fun _ => rfl⟩
  | n + 1, k, s, s', h => by
    simp only [List.range'_succ, List.map_cons, List.foldlM_cons, bind, Except.bind, Int.ofNat_eq_natCast] at h
    cases hst : orStep tm ttm s (k : Int) with
    | error e => rw [hst] at h; cases h
    | ok s1 =>
      rw [hst] at h
      obtain ⟨a0, b0, ha, hbv, hs⟩ := orStep_ok hst
      obtain ⟨ih1, ih2, ih3⟩ := orLoop_spec tm ttm hb n (k + 1) s1 s' h
      have hother : ∀ j : Int, s1.mget ttm j = s.mget ttm j := fun j => C15.St.mget_mset_otherbuf hs hb
      refine ⟨?_, ?_, ?_⟩
      · intro j hj1 hj2 a b hja hjb
        by_cases hjk : j = k
        · subst hjk
          rw [ha] at hja; injection hja with hja; subst hja
          rw [hbv] at hjb; injection hjb with hjb; subst hjb
          rw [ih2 (j : Int) (Or.inl (by omega))]
          exact C15.St.mget_mset_same hs
        · refine ih1 j (by omega) (by omega) a b ?_ ?_
          · rw [C15.St.mget_mset_other hs (by omega)]; exact hja
          · rw [hother]; exact hjb
      · intro j hj
        rw [ih2 j (by omega)]
        exact C15.St.mget_mset_other hs (by omega)
      · intro j; rw [ih3 j, hother]

/-- **MaskFromDense, one operand (what the code does)**: position `j` of the receiver's mask *window* becomes
    `old[j] ∨ operand[j mod n]` — both by **storage index** (finding F116: logical positions only when both tensors are stored
    in their logical order), an operand of another length is cycled; the operand's mask is unchanged. -/
theorem orInto_spec (s s' : St) (tm ttm : Win) (hb : ttm.buf ≠ tm.buf) (h : orInto s tm ttm = .ok s')
    (j : Nat) (hj : j < tm.len) (a b : Bool)
    (ha : s.mget tm (j : Int) = .ok a) (hbv : s.mget ttm ((j : Int) % (ttm.len : Int)) = .ok b) :
    s'.mget tm (j : Int) = .ok (a || b) ∧ ∀ i : Int, s'.mget ttm i = s.mget ttm i := by
  rw [orInto_eq] at h
  unfold rangeI at h
  rw [List.range_eq_range'] at h
  obtain ⟨h1, _, h3⟩ := orLoop_spec tm ttm hb tm.len 0 s s' h
  exact ⟨h1 j (by omega) (by omega) a b ha hbv, h3⟩

/-- **F116, the storage-order statement is not the logical one**: receiver (2,3) contiguous without set bits, operand the lazy
    transpose of a (3,2) tensor whose element (0,1) is masked — logically position (1,0), flat index 3 — and the
    receiver's bit 1 (element (0,1)) is set instead. -/
theorem maskFromDense_logical_full_fails :
    ∃ (s s' : St) (t t' tt : Dense) (m : Win), maskFromDense s #[t, tt] 0 t [some 1] = .ok (s', t') ∧ t'.mask = some m ∧
      maskAt s tt [1, 0] = .ok true ∧ maskAt s' t' [1, 0] = .ok false ∧ maskAt s' t' [0, 1] = .ok true := by
  refine ⟨{ heap := #[Array.replicate 6 Val.zero, Array.replicate 6 Val.zero],
            mheap := #[Array.replicate 6 false, #[false, true, false, false, false, false]] }, _,
    { ap := { shape := [2, 3], strides := [3, 1], fin := true }, win := ⟨0, 0, 6, 6⟩, dt := "i", mask := some ⟨0, 0, 6, 6⟩ }, _,
    { ap := { shape := [2, 3], strides := [1, 2], fin := true }, old := some { shape := [3, 2], strides := [2, 1], fin := true },
      win := ⟨1, 0, 6, 6⟩, dt := "i", mask := some ⟨1, 0, 6, 6⟩ }, ⟨0, 0, 6, 6⟩, rfl, rfl, rfl, rfl, rfl⟩

/-! ## decision logic of the masked arg-reductions -/

theorem engArgMasked_refuses_type (st : St) (isMax : Bool) (vs : Nat) (t : Dense) (m : Win) (axis : Int)
    (hm : t.mask = some m) (hk : t.isMasked = true) (h : ordTypes.contains t.dt = false) :
    ∃ e, engArgMasked st isMax vs t axis = .error (.err e) := by
  have h' : t.dt ∉ ordTypes := by simpa using h
  exact ⟨"typeclass", by simp [engArgMasked, hm, hk, h', throwErr, bind, Except.bind]⟩

theorem engArgMasked_refuses_axis (st : St) (isMax : Bool) (vs : Nat) (t : Dense) (m : Win) (axis : Int)
    (hm : t.mask = some m) (hk : t.isMasked = true) (h : ordTypes.contains t.dt = true) (ha : axis ≥ t.dims) :
    ∃ e, engArgMasked st isMax vs t axis = .error (.err e) := by
  have h' : t.dt ∈ ordTypes := by simpa using h
  exact ⟨"dimMismatch", by simp [engArgMasked, hm, hk, h', ha, throwErr, bind, Except.bind]⟩

/-- **the flat route runs the kernel over the raw window and the raw mask** (what F111 is about: on a contiguous row-major
    tensor the raw window is the row-major listing, elsewhere it is not) -/
theorem engArgMasked_flat_kernel (st : St) (isMax : Bool) (vs : Nat) (t : Dense) (m : Win)
    (cells : List Val) (bits : List Bool) (ks : List Red.Key)
    (hm : t.mask = some m) (hk : t.isMasked = true) (hty : ordTypes.contains t.dt = true)
    (hc : t.rawCells st = .ok cells) (hb : maskBits st m = .ok bits)
    (hkeys : cells.mapM (Red.knownKey vs t.dt) = some ks) :
    engArgMasked st isMax vs t (-1) =
      .ok (.ok (Dense.fresh st "i" [] false #[Val.lit s!"k{argMaskedK isMax (Red.isFloatDt t.dt) ks bits}:i"]).1
               (Dense.fresh st "i" [] false #[Val.lit s!"k{argMaskedK isMax (Red.isFloatDt t.dt) ks bits}:i"]).2) := by
  have hty' : t.dt ∈ ordTypes := by simpa using hty
  have hd : ¬ ((-1 : Int) ≥ (t.dims : Int)) := by omega
  simp [engArgMasked, hm, hk, hty', hd, hc, hb, hkeys, bind, Except.bind, pure, Except.pure]

/-- **refinement on the main path**: for a masked tensor whose raw window is the row-major listing of its elements (contiguous
    row-major: `cells` are the logical elements, `bits` the logical mask) and whose valid elements trigger no float early
    return (no NaN, no infinity of the searched direction), flat `Argmax/Argmin` returns the index S names — the first index
    of the extreme among the valid elements — and 0 where S is silent. -/
theorem engArgMasked_flat_spec (st : St) (isMax : Bool) (vs : Nat) (t : Dense) (m : Win)
    (cells : List Val) (bits : List Bool) (ks : List Red.Key)
    (hm : t.mask = some m) (hk : t.isMasked = true) (hty : ordTypes.contains t.dt = true)
    (hc : t.rawCells st = .ok cells) (hb : maskBits st m = .ok bits)
    (hkeys : cells.mapM (Red.knownKey vs t.dt) = some ks)
    (hstop : ∀ p ∈ ks.zip bits, p.2 = false → stopK isMax (Red.isFloatDt t.dt) p.1 = false) :
    ∃ st' r, engArgMasked st isMax vs t (-1) = .ok (.ok st' r) ∧ r.shape = [] ∧
      r.rawCells st' = .ok [Val.lit s!"k{(specArgValid (betterK isMax) (ks.zip bits)).getD 0}:i"] := by
  refine ⟨_, _, engArgMasked_flat_kernel st isMax vs t m cells bits ks hm hk hty hc hb hkeys, rfl, ?_⟩
  have : argMaskedK isMax (Red.isFloatDt t.dt) ks bits = (specArgValid (betterK isMax) (ks.zip bits)).getD 0 :=
    argMaskedGo_eq_spec _ _ _ hstop
  rw [this]
  simp [Dense.fresh, Dense.rawCells, St.alloc, St.get, rangeI]
  rfl

/-- tensors without mask take the route of C08 -/
theorem engArgMasked_unmasked (st : St) (isMax : Bool) (vs : Nat) (t : Dense) (axis : Int) (hk : t.isMasked = false) :
    engArgMasked st isMax vs t axis = Red.engArg st isMax vs t axis := by
  unfold engArgMasked
  cases hm : t.mask with
  | none => rfl
  | some m => simp [hk]

/-! ## non-vacuity -/

-- first of the tied maxima among the valid elements (positions 1 and 3 are masked)
example : argMaskedK true false [.num 1, .num 9, .num 5, .num 9, .num 5] [false, true, false, true, false] = 2 := by decide
example : specArgValid (betterK true) ([Red.Key.num 1, .num 9, .num 5, .num 9, .num 5].zip [false, true, false, true, false]) = some 2 := by decide
-- a lane without valid element: the kernel answers 0, the specification nothing
example : argMaskedK false false [.num 3, .num 1] [true, true] = 0 ∧
    specArgValid (betterK false) ([Red.Key.num 3, .num 1].zip [true, true]) = none := by decide
-- float early return on the infinity of the searched direction, NaN
example : argMaskedK true true [.num 1, .num Red.infKey, .num 7] [false, false, false] = 1 ∧
    argMaskedK true true [.nan, .num 2] [true, false] = 1 ∧ argMaskedK false true [.num 2, .nan, .num 1] [false, false, false] = 1 := by decide
-- strings
example : argMaskedK false false [.str "s2", .str "s10", .str "s1"] [false, false, true] = 1 := by decide
-- F110: (2,2) rows [1,2],[5,3] with mask rows [0,1],[1,0]: the code judges both rows by [0,1]
example : argIterMasked true false 2 [.num 1, .num 2, .num 5, .num 3] [false, true, true, false] = [0, 0] ∧
    argIterMaskedIntended true false 2 [.num 1, .num 2, .num 5, .num 3] [false, true, true, false] = [0, 1] := by decide
-- the guard of `argIterMasked_partial` is satisfiable with more than one lane
example : laneChunks 2 [false, true, false, true] = (Red.argChunks 2 [.num 1, .num 2, .num 5, .num 3]).map (fun _ => [false, true, false, true].take 2) := by decide
example : StrictWeak (fun a b : Int => decide (a > b)) := strictWeak_int_gt

end TM.C15ops
