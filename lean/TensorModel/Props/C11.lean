import TensorModel.Proofs.Kernels
/-!
  C11 — comparisons: bool result vs 1/0 same-type result; operand order for a scalar on the left.
  Property theorems only; helper lemmas live in `TensorModel/Proofs/Kernels.lean`
  (`cell`, `InBuf`, `denseLen` are defined there; see the header of `Props/C06.lean`).
  A comparison `op` applied to `x`, `y` is the symbolic value `.app2 op x y`; its 1/0 form of the
  operand type is `.app2 (op ++ ".same") x y`.
-/
set_option linter.unusedSimpArgs false
namespace TM.C11
open TM

/-- number of cells `NewDense(dt, shape)` allocates -/
theorem denseLen_def (sh : Shape) : denseLen sh = if sh.isEmpty then 1 else (totalSize sh).toNat := rfl

/-- **Default mode returns a fresh bool tensor.** `StdEng.<Cmp>(a, b)` on the raw path: the result is a
    newly allocated tensor of element type `"b"` (bool), of `a`'s shape, with row-major default strides,
    whose cell `i` is `op a[i] b[i]`; operands, every pre-existing buffer and the mask heap are untouched. -/
theorem engCmpVV_default (st : St) (op : String) (tc : List String) (a b : Dense)
    (hsh : shapeEq a.shape b.shape = true) (hdt : a.dt = b.dt) (htc : a.dt ∈ tc)
    (hia : a.requiresIterator = false) (hib : b.requiresIterator = false) (hord : sameOrd a b = true)
    (hlen : a.win.len = b.win.len) (hcap : a.win.len ≤ b.win.cap) (hsz : a.win.len ≤ denseLen a.shape)
    (hA : InBuf st a.win.buf a.win.off a.win.len) (hB : InBuf st b.win.buf b.win.off a.win.len) :
    ∃ out r, engCmpVV st op tc a b {} = .ok out ∧ out.ret = .fresh r ∧ out.reuse = none ∧
      r.dt = "b" ∧ r.ap.shape = a.shape ∧ r.ap.strides = calcStrides a.shape ∧ r.ap.o.col = false ∧
      r.win = ⟨st.heap.size, 0, denseLen a.shape, denseLen a.shape⟩ ∧ r.view = false ∧ r.old = none ∧
      out.st.mheap = st.mheap ∧
      (∀ i, i < a.win.len → ∃ x y, cell st a.win.buf (a.win.off + i) = some x ∧
        cell st b.win.buf (b.win.off + i) = some y ∧ cell out.st r.win.buf i = some (.app2 op x y)) ∧
      (∀ b' k, b' < st.heap.size → cell out.st b' k = cell st b' k) := by
  obtain ⟨st', h, hm, hv, hfr⟩ := engCmpVV_default' st op tc a b ⟨by simpa using htc, hdt, hsh⟩ hia hib hord
    hlen hcap hsz hA hB
  refine ⟨_, _, h, rfl, rfl, rfl, rfl, rfl, rfl, rfl, rfl, rfl, hm, ?_, hfr⟩
  intro i hi
  exact ⟨_, _, cell_some_cellD (hA.has i hi), cell_some_cellD (hB.has i hi), hv i hi⟩

/-- **`AsSameType()`**: a fresh tensor of the *operand* type whose cell `i` is the 1/0 form
    `op.same a[i] b[i]`. -/
theorem engCmpVV_same (st : St) (op : String) (tc : List String) (a b : Dense)
    (hsh : shapeEq a.shape b.shape = true) (hdt : a.dt = b.dt) (htc : a.dt ∈ tc)
    (hia : a.requiresIterator = false) (hib : b.requiresIterator = false) (hord : sameOrd a b = true)
    (hlen : a.win.len = b.win.len) (hcap : a.win.len ≤ b.win.cap) (hsz : a.win.len = denseLen a.shape)
    (hA : InBuf st a.win.buf a.win.off a.win.len) (hB : InBuf st b.win.buf b.win.off a.win.len) :
    ∃ out r, engCmpVV st op tc a b { same := true } = .ok out ∧ out.ret = .fresh r ∧
      r.dt = a.dt ∧ r.ap.shape = a.shape ∧ r.ap.strides = calcStrides a.shape ∧
      r.win = ⟨st.heap.size, 0, denseLen a.shape, denseLen a.shape⟩ ∧
      out.st.mheap = st.mheap ∧
      (∀ i, i < a.win.len → ∃ x y, cell st a.win.buf (a.win.off + i) = some x ∧
        cell st b.win.buf (b.win.off + i) = some y ∧
        cell out.st r.win.buf i = some (.app2 (op ++ ".same") x y)) ∧
      (∀ b' k, b' < st.heap.size → cell out.st b' k = cell st b' k) := by
  obtain ⟨st', h, hm, hv, hfr⟩ := engCmpVV_same' st op tc a b ⟨by simpa using htc, hdt, hsh⟩ hia hib hord
    hlen hcap hsz hA hB
  refine ⟨_, _, h, rfl, rfl, rfl, rfl, rfl, hm, ?_, hfr⟩
  intro i hi
  exact ⟨_, _, cell_some_cellD (hA.has i hi), cell_some_cellD (hB.has i hi), hv i hi⟩

/-- **`UseUnsafe()`**: the 1/0 result of the operand type overwrites the window of `a`, and the
    returned tensor is `a` itself; nothing else changes. -/
theorem engCmpVV_unsafe (st : St) (op : String) (tc : List String) (a b : Dense)
    (hsh : shapeEq a.shape b.shape = true) (hdt : a.dt = b.dt) (htc : a.dt ∈ tc)
    (hia : a.requiresIterator = false) (hib : b.requiresIterator = false) (hord : sameOrd a b = true)
    (hne : a.win.buf ≠ b.win.buf) (hlen : a.win.len = b.win.len) (hcap : a.win.len ≤ b.win.cap)
    (hA : InBuf st a.win.buf a.win.off a.win.len) (hB : InBuf st b.win.buf b.win.off a.win.len) :
    ∃ out, engCmpVV st op tc a b { unsafe_ := true } = .ok out ∧ out.ret = .a ∧ out.st.mheap = st.mheap ∧
      (∀ i, i < a.win.len → ∃ x y, cell st a.win.buf (a.win.off + i) = some x ∧
        cell st b.win.buf (b.win.off + i) = some y ∧
        cell out.st a.win.buf (a.win.off + i) = some (.app2 (op ++ ".same") x y)) ∧
      (∀ b' k, (b' ≠ a.win.buf ∨ k < a.win.off ∨ a.win.off + a.win.len ≤ k) → cell out.st b' k = cell st b' k) := by
  obtain ⟨st', h, w⟩ := engCmpVV_unsafe' st op tc a b ⟨by simpa using htc, hdt, hsh⟩ hia hib hord hne hlen hcap hA hB
  exact ⟨_, h, rfl, Writes.sem2 (F := fun x y => .app2 (op ++ ".same") x y) w hA.has hB.has⟩

/-- Refusal by type class: an element type outside the comparison's class gives an error value,
    whatever the options; no state is produced. -/
theorem engCmpVV_refuses (st : St) (op : String) (tc : List String) (a b : Dense) (o : Opts) (h : a.dt ∉ tc) :
    engCmpVV st op tc a b o = .error (.err "typeclass a") :=
  engCmpVV_refuses' st op tc a b o (by simpa using h)

/-- **Operand order with the scalar on the left** (`leftTensor := false`), raw path, default mode: cell
    `i` of the fresh bool tensor is `op s t[i]` — the scalar is the FIRST argument. -/
theorem engCmpScalar_scalar_left (st : St) (op : String) (tc : List String) (t : Dense) (sc : ScalarArg)
    (htc : t.dt ∈ tc) (hdt : t.dt = sc.dt) (hit : t.requiresIterator = false)
    (hs1 : sc.win.len = 1) (ht1 : t.win.len ≠ 1) (hsz : t.win.len = denseLen t.shape)
    (hS : InBuf st sc.win.buf sc.win.off 1) (hT : InBuf st t.win.buf t.win.off t.win.len) :
    ∃ out r s, engCmpScalar st op tc t sc false {} = .ok out ∧ out.ret = .fresh r ∧
      r.dt = "b" ∧ r.ap.shape = t.shape ∧ r.win.buf = st.heap.size ∧ r.win.off = 0 ∧
      cell st sc.win.buf sc.win.off = some s ∧ out.st.mheap = st.mheap ∧
      (∀ i, i < t.win.len → ∃ x, cell st t.win.buf (t.win.off + i) = some x ∧
        cell out.st r.win.buf i = some (.app2 op s x)) ∧
      (∀ b' k, b' < st.heap.size → cell out.st b' k = cell st b' k) := by
  obtain ⟨st', h, hm, hv, hfr⟩ := engCmpScalar_left' st op tc t sc (by simpa using htc) hdt hit hs1 ht1 hsz hS hT
  refine ⟨_, _, _, h, rfl, rfl, rfl, rfl, rfl, cell_some_cellD (by simpa using hS.has 0 (by omega)), hm, ?_, hfr⟩
  intro i hi
  exact ⟨_, cell_some_cellD (hT.has i hi), hv i hi⟩

/-! ## non-vacuity -/
namespace Ex
def st : St := { heap := #[#[.src 0 0, .src 0 1, .src 0 2, .src 0 3], #[.src 1 0, .src 1 1, .src 1 2, .src 1 3],
                           #[.src 2 0]] }
def ta : Dense := { ap := { shape := [2, 2], strides := [2, 1] }, win := ⟨0, 0, 4, 4⟩, dt := "f64" }
def tb : Dense := { ap := { shape := [2, 2], strides := [2, 1] }, win := ⟨1, 0, 4, 4⟩, dt := "f64" }
def sc : ScalarArg := { win := ⟨2, 0, 1, 1⟩, dt := "f64" }
theorem inA : InBuf st 0 0 4 := ⟨_, rfl, by decide⟩
theorem inB : InBuf st 1 0 4 := ⟨_, rfl, by decide⟩
theorem inS : InBuf st 2 0 1 := ⟨_, rfl, by decide⟩

example := engCmpVV_default st "gt" ordTypes ta tb (by decide) rfl (by decide) (by decide) (by decide) (by decide)
  rfl (by decide) (by decide) inA inB
example := engCmpVV_same st "gt" ordTypes ta tb (by decide) rfl (by decide) (by decide) (by decide) (by decide)
  rfl (by decide) (by decide) inA inB
example := engCmpVV_unsafe st "gt" ordTypes ta tb (by decide) rfl (by decide) (by decide) (by decide) (by decide)
  (by decide) rfl (by decide) inA inB
example := engCmpVV_refuses st "gt" ordTypes { ta with dt := "c128" } tb {} (by decide)
example := engCmpScalar_scalar_left st "gt" ordTypes ta sc (by decide) rfl (by decide) rfl (by decide) (by decide)
  inS inA
/-- a concrete run: `Gt(2, t)` compares `gt 2 t[i]`, not `gt t[i] 2` -/
example : ∃ out, engCmpScalar st "gt" ordTypes ta sc false {} = .ok out ∧
    cell out.st 3 1 = some (.app2 "gt" (.src 2 0) (.src 0 1)) := ⟨_, rfl, rfl⟩
end Ex

end TM.C11
