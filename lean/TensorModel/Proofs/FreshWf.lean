import TensorModel.Proofs.Compact
import TensorModel.Proofs.IterPaths
/-!
  The result tensors the engines create (`newDenseLike`) are well-formed for their own iterator.
-/
set_option linter.unusedSimpArgs false
namespace TM
open TM

/-- the tensor `newDenseLike` creates (default strides of its data order) is addressed by its own iterator at distinct
    cells inside its buffer: row-major for every shape with positive extents, column-major for every such shape that
    carries one stride per axis (neither scalar-equivalent nor a vector) -/
theorem freshOf_offsets_wf (st : St) (dt : String) (sh : Shape) (col : Bool) (hp : ∀ d ∈ sh, 0 < d) (hne : sh ≠ [])
    (hcol : col = true → isScalarEquiv sh = false ∧ isVector sh = false) :
    (∀ i ∈ (freshOf st dt sh col).offsets, 0 ≤ i ∧ i < (denseLen sh : Int)) ∧ (freshOf st dt sh col).offsets.Nodup := by
  have hdl : (denseLen sh : Int) = prod sh := by
    have hP := prod_pos sh hp
    have : sh.isEmpty = false := by cases sh <;> simp_all
    simp only [denseLen, this, Bool.false_eq_true, if_false, totalSize]
    omega
  cases col with
  | false =>
    obtain ⟨hl, hb, hnd⟩ := rowDefault_wf sh hp
    have ho : (freshOf st dt sh false).offsets = (allCoords sh).map (fun c => dot c (calcStrides sh)) := by
      simp only [Dense.offsets, freshOf, Dense.defaultStrides]
      exact offsets_rowmajor _ hl hp
    rw [ho, hdl]
    refine ⟨?_, hnd⟩
    intro i hi
    obtain ⟨c, hc, rfl⟩ := List.mem_map.mp hi
    exact hb c hc
  | true =>
    obtain ⟨hse, hv⟩ := hcol rfl
    obtain ⟨_, hl, hb, hnd⟩ := colDefault_wf sh hp hse hv
    have ho : (freshOf st dt sh true).offsets = (allCoords sh).map (fun c => dot c (calcStridesCol sh)) := by
      simp only [Dense.offsets, freshOf, Dense.defaultStrides]
      exact offsets_rowmajor _ hl hp
    rw [ho, hdl]
    refine ⟨?_, hnd⟩
    intro i hi
    obtain ⟨c, hc, rfl⟩ := List.mem_map.mp hi
    exact hb c hc
end TM
