import TensorModel.Proofs.Kernels
/-!
  Helper lemmas for C16 (column-major operands): the engine takes the iterator path whenever the two
  operands differ in data order, and that path combines the elements coordinate by coordinate.
-/
set_option linter.unusedSimpArgs false
namespace TM

/-- `prepDataVV`: operands of different data order force the iterator path (safe mode, no destination). -/
theorem engArithVV_iter_safe_ord (st : St) (op : String) (tc : List String) (a b : Dense) (hc : BinOK tc a b)
    (hk : (kernelTypes op).contains a.dt = true) (hord : sameOrd a b = false)
    (hma : a.mask = none) (hmb : b.mask = none) :
    engArithVV st op tc a b {} = (do
      let (s, c) ← a.clone st
      let s ← eOpIter s c.win b.win (fun x y => .app2 op x y) (a.offsets.map (·, true)) (b.offsets.map (·, true))
        (vecFn op a.dt)
      pure ⟨s, none, .fresh c⟩) := by
  unfold engArithVV
  simp only [hc.ta, hc.tb, hc.ne, hc.sh, hfo_none, prepAliasVV_none, prepAliasT_none, hk, hord, itStream_nomask _ _ hma, itStream_nomask _ _ hmb,
    bind, Except.bind, pure, Except.pure,
    Bool.not_true, Bool.false_eq_true, if_false, Bool.or_false, Bool.and_false, Bool.not_false,
    Bool.and_true, if_true, Bool.true_or, Bool.or_true]

/-- Mixed data orders, safe mode: the call succeeds, returns a fresh tensor laid out like `a`, and the
    cell at `a`'s k-th iterator offset holds `op (a's k-th logical element) (b's k-th logical element)`;
    all pre-existing buffers are unchanged. -/
theorem engArithVV_safe_mixed_order' (st : St) (op : String) (tc : List String) (a b : Dense) (hc : BinOK tc a b)
    (hk : (kernelTypes op).contains a.dt = true) (hord : sameOrd a b = false)
    (hma : a.mask = none) (hmb : b.mask = none) (hla : a.win.len ≠ 1) (hlb : b.win.len ≠ 1)
    (hoa : ∀ i ∈ a.offsets, 0 ≤ i ∧ i < (a.win.len : Int)) (hob : ∀ j ∈ b.offsets, 0 ≤ j ∧ j < (b.win.len : Int))
    (hnd : a.offsets.Nodup)
    (hA : InBuf st a.win.buf a.win.off a.win.len) (hB : InBuf st b.win.buf b.win.off b.win.len) :
    ∃ st', engArithVV st op tc a b {} = .ok ⟨st', none, .fresh (cloneOf st a)⟩ ∧ st'.mheap = st.mheap ∧
      (∀ (k : Nat) i j, a.offsets[k]? = some i → b.offsets[k]? = some j →
        cell st' st.heap.size i.toNat =
          some (.app2 op (cellD st a.win.buf (a.win.off + i.toNat)) (cellD st b.win.buf (b.win.off + j.toNat)))) ∧
      (∀ b' k, b' < st.heap.size → cell st' b' k = cell st b' k) := by
  rw [engArithVV_iter_safe_ord st op tc a b hc hk hord hma hmb]
  obtain ⟨s1, h1, hm1, hs1, hv1, hf1⟩ := clone_spec st a hma hA.lt hA.has
  simp only [h1, bind, Except.bind]
  rw [eOpIter_VV _ _ _ _ _ _ _ (by simp only [cloneOf]; exact hla) hlb]
  have hHc : Has s1 st.heap.size 0 a.win.len := by
    intro i hi
    rw [Nat.zero_add, hv1 i hi]; rfl
  have hHb : Has s1 b.win.buf b.win.off b.win.len := by
    intro i hi
    rw [hf1 _ _ hB.lt]; exact hB.has i hi
  obtain ⟨s2, h2, hm2, _, hv2, hf2⟩ := kIterVV_spec s1 (cloneOf st a).win b.win (fun x y => .app2 op x y)
    (a.offsets.map (·, true)) (b.offsets.map (·, true))
    (by simp only [cloneOf]; exact (Nat.ne_of_lt hB.lt).symm)
    (inRange_map_true hoa) (inRange_map_true hob) (by rw [map_true_fst]; exact hnd) hHc hHb
  simp only [cloneOf] at h2 hv2 hf2 ⊢
  refine ⟨s2, by rw [h2]; rfl, hm2.trans hm1, ?_, ?_⟩
  · intro k i j hi hj
    have := hv2 k i true j true (getElem?_map_true hi) (getElem?_map_true hj) rfl rfl
    simp only [Nat.zero_add] at this
    have hlt := hoa i (List.mem_of_getElem? hi)
    rw [this, cellD_of_some (hv1 i.toNat (by omega))]
    unfold cellD
    rw [hf1 _ _ hB.lt]
  · intro b' k hb'
    rw [hf2 _ _ (Or.inl (Nat.ne_of_lt hb')), hf1 b' k hb']

end TM
