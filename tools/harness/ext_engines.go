package main

import (
	"strconv"
	"fmt"
	"strings"

	"gorgonia.org/tensor"
)

func init() {
	extSteps["enew"] = func(p *prog, idx int, toks []string) *rec { return p.stepENew(toks) }
	extSteps["eadd"] = func(p *prog, idx int, toks []string) *rec { return p.stepEAdd(toks) }
	extSteps["fma"] = func(p *prog, idx int, toks []string) *rec { return p.stepFMA(toks) }
	extSteps["itol"] = func(p *prog, idx int, toks []string) *rec {
		if len(toks) != 4 {
			return simple("badprog")
		}
		i, e0 := strconv.ParseInt(toks[1], 10, 64)
		sh, e1 := parseInts(toks[2])
		st, e2 := parseInts(toks[3])
		if e0 != nil || e1 != nil || e2 != nil {
			return simple("badprog")
		}
		var coords []int
		res := guard(func() error {
			var err error
			coords, err = tensor.Itol(int(i), tensor.Shape(sh), st)
			return err
		})
		r := simple(res)
		if res == "ok" {
			r.fields["coords"] = showInts(coords)
		}
		return r
	}
	generators["C20"] = genC20
}

func engineOf(name string) tensor.Engine {
	switch name {
	case "f64":
		return tensor.Float64Engine{}
	case "f32":
		return tensor.Float32Engine{}
	}
	return tensor.StdEng{}
}

// enew <dt> <shape> <order> <eng>: like `new`, constructed WithEngine(...)
func (p *prog) stepENew(toks []string) *rec {
	if len(toks) != 5 {
		return simple("badprog")
	}
	dt := dtByName(toks[1])
	shape, err := parseInts(toks[2])
	if dt == nil || err != nil {
		return simple("badprog")
	}
	n := 1
	for _, d := range shape {
		n *= d
	}
	buf := p.nbuf
	p.nbuf++
	in := make([]interface{}, n)
	backing := dt.makeSlice(n, func(i int) interface{} { v := dt.genVal(p.vset, buf, i); in[i] = v; return v })
	p.inputs = append(p.inputs, in)
	return p.newOp(dt, func() (*tensor.Dense, error) {
		opts := []tensor.ConsOpt{tensor.WithShape(shape...), tensor.WithBacking(backing), tensor.WithEngine(engineOf(toks[4]))}
		if toks[3] == "Fraw" {
			opts = append(opts, tensor.AsFortran(nil))
		}
		return tensor.New(opts...), nil
	})
}

func (p *prog) stepEAdd(toks []string) *rec {
	if len(toks) < 4 {
		return simple("badprog")
	}
	via := toks[1]
	a, _ := p.get(toks[2])
	b, _ := p.get(toks[3])
	opts, ok := p.parseFuncOpts(toks[4:])
	if a == nil || b == nil || !ok {
		p.push(nil, nil)
		return simple("skip")
	}
	if via == "fn" && (a.IsScalar() || b.IsScalar()) {
		p.push(nil, nil)
		return simple("skip")
	}
	return p.finishTensorOp(func() (*tensor.Dense, error) {
		if via == "meth" {
			return a.Add(b, opts...)
		}
		ret, err := tensor.Add(a, b, opts...)
		if err != nil {
			return nil, err
		}
		return ret.(*tensor.Dense), nil
	})
}

func (p *prog) stepFMA(toks []string) *rec {
	if len(toks) != 4 {
		return simple("badprog")
	}
	a, adt := p.get(toks[1])
	y, _ := p.get(toks[3])
	if a == nil || y == nil {
		p.push(nil, nil)
		return simple("skip")
	}
	var x interface{}
	if strings.HasPrefix(toks[2], "$") {
		xd, _ := p.get(toks[2])
		if xd == nil {
			p.push(nil, nil)
			return simple("skip")
		}
		x = xd
	} else {
		v, err := scalarLit(toks[2], adt)
		if err != nil {
			p.push(nil, nil)
			return simple("skip")
		}
		x = v
	}
	return p.finishTensorOp(func() (*tensor.Dense, error) {
		ret, err := tensor.FMA(a, x, y)
		if err != nil {
			return nil, err
		}
		d, ok := ret.(*tensor.Dense)
		if !ok {
			return nil, fmt.Errorf("not dense")
		}
		return d, nil
	})
}

// C20: specialised engines (and, through the three harness builds the check runs, the alternative
// build configurations) on the transposition, arithmetic, FMA and index-arithmetic matrices.
func genC20(g *gen) {
	n := 6
	if g.thorough() {
		n = 120
	}
	engs := []string{"std", "f64", "f32"}
	stdDt := "f64"
	// index arithmetic of the two builds on large arrays (no allocation): flat indices around and far beyond 2^31 split
	// by the strides of big shapes, and small ones
	for _, c := range []struct {
		sh []int
		is []int64
	}{
		{[]int{65536, 65536}, []int64{0, 7, 65535, 65536, 65537, 2147483647, 2147483648, 2147483649, 40000<<16 + 7, 4294967295, 3000000000}},
		{[]int{100000, 50000, 3}, []int64{149999, 150000, 2147483648, 14999999999, 7500000001}},
		{[]int{3, 4}, []int64{0, 5, 11}},
		{[]int{1 << 20, 1 << 20, 4}, []int64{1 << 40, 1<<42 - 1, 4398046511103, 2199023255557}},
	} {
		st := make([]int, len(c.sh))
		acc := 1
		for d := len(c.sh) - 1; d >= 0; d-- {
			st[d] = acc
			acc *= c.sh[d]
		}
		for _, i := range c.is {
			g.emit(fmt.Sprintf("itol %d %s %s", i, ints(c.sh), ints(st)))
		}
	}
	mk := func(steps *[]string, nv *int, eng string, sh []int, layout string) int {
		dt := "f64"
		if eng == "f32" {
			dt = "f32"
		} else if eng == "std" {
			dt = stdDt
		}
		add := func(s string) { *steps = append(*steps, s) }
		switch layout {
		case "colmajor":
			add(fmt.Sprintf("enew %s %s Fraw %s", dt, ints(sh), eng))
		case "lazyT":
			if len(sh) >= 2 {
				p := g.randPerm(len(sh))
				src := make([]int, len(sh))
				for i, a := range p {
					src[a] = sh[i]
				}
				add(fmt.Sprintf("enew %s %s C %s", dt, ints(src), eng))
				v := *nv
				*nv++
				add(fmt.Sprintf("T $%d %s", v, ints(p)))
				return v
			}
			add(fmt.Sprintf("enew %s %s C %s", dt, ints(sh), eng))
		case "sliced", "stepped":
			if size(sh) > 1 {
				big := make([]int, len(sh))
				spec := make([]string, len(sh))
				for i, d := range sh {
					if d == 1 {
						big[i], spec[i] = 1, "n"
					} else if layout == "stepped" {
						big[i], spec[i] = 2*d, fmt.Sprintf("0:%d:2", 2*d)
					} else {
						big[i], spec[i] = d+1, fmt.Sprintf("1:%d", d+1)
					}
				}
				add(fmt.Sprintf("enew %s %s C %s", dt, ints(big), eng))
				pv := *nv
				*nv++
				add(fmt.Sprintf("slice $%d %s", pv, strings.Join(spec, ",")))
				v := *nv
				*nv++
				return v
			}
			add(fmt.Sprintf("enew %s %s C %s", dt, ints(sh), eng))
		default:
			add(fmt.Sprintf("enew %s %s C %s", dt, ints(sh), eng))
		}
		v := *nv
		*nv++
		return v
	}
	lays := []string{"contig", "contig", "lazyT", "sliced", "colmajor"}
	for _, eng := range engs {
		for _, mode := range []string{"safe", "unsafe", "reuse", "incr"} {
			for k := 0; k < n; k++ {
				var steps []string
				nv := 0
				stdDt = g.r.pick([]string{"f64", "f32"})
				steps = append(steps, "vset=2")
				sh := g.pickShape()
				if len(sh) == 0 {
					sh = []int{2, 3}
				}
				a := mk(&steps, &nv, eng, sh, g.r.pick(lays))
				b := mk(&steps, &nv, eng, sh, g.r.pick(lays))
				opts := ""
				extra := []int{a, b}
				switch mode {
				case "unsafe":
					opts = " unsafe"
				case "reuse", "incr":
					d := mk(&steps, &nv, eng, sh, g.r.pick([]string{"contig", "contig", "colmajor"}))
					extra = append(extra, d)
					opts = fmt.Sprintf(" %s=$%d", mode, d)
				}
				steps = append(steps, fmt.Sprintf("eadd %s $%d $%d%s", g.r.pick([]string{"fn", "meth"}), a, b, opts), fmt.Sprintf("dump $%d", nv))
				for _, o := range extra {
					steps = append(steps, fmt.Sprintf("dump $%d", o))
				}
				g.emit(steps...)
			}
		}
		// fused multiply-add, tensor and scalar multiplier
		for _, kind := range []string{"T", "S"} {
			for k := 0; k < 2*n; k++ {
				var steps []string
				nv := 0
				steps = append(steps, "vset=2")
				sh := g.pickShape()
				if len(sh) == 0 {
					sh = []int{3}
				}
				a := mk(&steps, &nv, eng, sh, g.r.pick(lays))
				x := fmt.Sprintf("#k%d", 2+g.r.intn(3))
				extra := []int{a}
				if kind == "T" {
					xv := mk(&steps, &nv, eng, sh, g.r.pick(lays))
					x = fmt.Sprintf("$%d", xv)
					extra = append(extra, xv)
				}
				y := mk(&steps, &nv, eng, sh, g.r.pick([]string{"contig", "contig", "sliced", "lazyT"}))
				extra = append(extra, y)
				steps = append(steps, fmt.Sprintf("fma $%d %s $%d", a, x, y), fmt.Sprintf("dump $%d", nv))
				for _, o := range extra {
					steps = append(steps, fmt.Sprintf("dump $%d", o))
				}
				g.emit(steps...)
			}
		}
		// products that are not representable (value set 4): the fused kernels of the specialised engines must round like
		// the default engine's multiply-then-add, bit for bit, on contiguous and on iterator paths
		for _, sh := range [][]int{{14}, {2, 7}, {28}} {
			for _, edt := range []string{"f64", "f32"} {
				if (eng == "f64" && edt != "f64") || (eng == "f32" && edt != "f32") {
					continue
				}
				mkc := func(lay string) string {
					if lay == "T" && len(sh) == 2 {
						return fmt.Sprintf("enew %s %s C %s", edt, ints([]int{sh[1], sh[0]}), eng)
					}
					return fmt.Sprintf("enew %s %s C %s", edt, ints(sh), eng)
				}
				g.emit("vset=4", mkc(""), mkc(""), mkc(""), "fma $0 $1 $2", "dump $3", "dump $2")
				g.emit("vset=4", mkc(""), mkc(""), "fma $0 #k3 $1", "dump $2", "dump $1")
				g.emit("vset=4", mkc(""), mkc(""), mkc(""), "eadd fn $0 $1", "dump $3", "eadd fn $0 $1 incr=$2", "dump $2")
				if len(sh) == 2 {
					g.emit("vset=4", mkc("T"), "T $0 1,0", mkc(""), mkc(""), "fma $0 $1 $2", "dump $3", "dump $2")
				}
			}
		}
		// long contiguous operands (block / unrolled paths of the vector kernels start at some length): every mode of
		// Add and both forms of FMA on 64-, 100- and 8x16-element tensors; operands are dumped afterwards
		for _, sh := range [][]int{{64}, {100}, {8, 16}} {
			for _, edt := range []string{"f64", "f32"} {
				if (eng == "f64" && edt != "f64") || (eng == "f32" && edt != "f32") {
					continue
				}
				mkc := func() string { return fmt.Sprintf("enew %s %s C %s", edt, ints(sh), eng) }
				for _, opts := range []string{"", " unsafe", " reuse=$2", " incr=$2"} {
					g.emit("vset=2", mkc(), mkc(), mkc(), "eadd fn $0 $1"+opts, "dump $3", "dump $0", "dump $1", "dump $2")
				}
				g.emit("vset=2", mkc(), mkc(), mkc(), "fma $0 $1 $2", "dump $3", "dump $0", "dump $1", "dump $2")
				g.emit("vset=2", mkc(), mkc(), "fma $0 #k3 $1", "dump $2", "dump $0", "dump $1")
			}
		}
		// inner products (the specialised engines have their own `Inner`): every vector form x layout, strided row and
		// column vectors and lazily transposed ones included; function and method
		for _, fa := range [][]int{{4}, {1, 4}, {4, 1}} {
			for _, fb := range [][]int{{4}, {1, 4}, {4, 1}} {
				for _, la := range []string{"contig", "sliced", "stepped", "lazyT"} {
					for _, lb := range []string{"contig", "stepped", "lazyT"} {
						if !g.thorough() && (len(fa)+len(fb)+len(la)+len(lb)+fa[0])%2 == 1 {
							continue
						}
						var steps []string
						nv := 0
						stdDt = g.r.pick([]string{"f64", "f32"})
						steps = append(steps, "vset=2")
						a := mk(&steps, &nv, eng, fa, la)
						b := mk(&steps, &nv, eng, fb, lb)
						steps = append(steps, fmt.Sprintf("la inner %s $%d $%d", g.r.pick([]string{"fn", "meth"}), a, b), fmt.Sprintf("dump $%d", a), fmt.Sprintf("dump $%d", b), "dump $0")
						g.emit(steps...)
					}
				}
			}
		}
		// mismatched shapes must be refused by every engine
		g.emit("vset=2", fmt.Sprintf("enew f64 2,3 C %s", eng), fmt.Sprintf("enew f64 3,2 C %s", eng), "eadd fn $0 $1", "dump $0", "dump $1")
		g.emit("vset=2", fmt.Sprintf("enew f64 6 C %s", eng), fmt.Sprintf("enew f64 2,3 C %s", eng), "eadd meth $0 $1", "dump $0", "dump $1")
	}
	// build-dependent code: transposition sequences (in-place vs copying transpose) and index
	// arithmetic (divmod: assembly vs pure Go) — the same programs as C03 / C05, sampled
	for _, sub := range []struct {
		f    func(*gen)
		keep int
	}{{genC03, 4}, {genC05, 8}, {genC06, 10}} {
		var sb strings.Builder
		_ = sb
		lines := captureGen(g, sub.f)
		for i, line := range lines {
			if !g.thorough() && i%sub.keep != 0 {
				continue
			}
			j := strings.Index(line, " ; ")
			if j < 0 {
				continue
			}
			g.n++
			fmt.Fprintf(g.w, "%s%d%s\n", g.pfx, g.n, line[j:])
		}
	}
}
