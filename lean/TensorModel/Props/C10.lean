import TensorModel.Proofs.Assemble
/-!
  C10 — concatenation, stacking, repetition (and the repeat / concat calculators of C13).
  Property theorems only; helper lemmas live in `TensorModel/Proofs/Assemble.lean`.

  * `concat_shape`, `stack_shape`, `repeat_shape`: the model of the shape calculators
    (`Shape.Concat`, the head of `StackDense`, `Shape.Repeat`) gives S's shape and refuses — with an
    *error*, never a panic — exactly where S refuses. `concat_shape` is `_partial` on an explicit
    `Excl_*` region, with a `_full_fails` witness inside the region.
  * `simpleStack_spec`: the block-copy kernels of `denseSimpleStack` (both the `case 0` and the
    `default` loop nest) on row-major listings of equally shaped operands produce exactly the element
    list of S's `stack`, for every rank and every axis position.
  * `viewStack_spec`: the same for the iterator-driven kernels `doViewStack*` (operands of any layout
    given by their iterator offsets).
  * `repeat_spec`: the `fastCopyDenseRepeat` loop nest (both the byte-broadcast shortcut and the
    general path) on the row-major listing of the source produces exactly the element list of S's
    `repeat`, for every rank, axis and count vector (zero counts included).
  * `stack_axisStride`, `repeat_params`: the block lengths and loop bounds the engine derives (from
    the strides of the row-major stacked result; from the shapes for `Repeat`) are the ones the two
    theorems above are stated for.
  * `stack_frame`, `repeat_frame`, `repeatReuse_frame`: these operations write nothing but the result
    (resp. reuse) buffer, whatever the operand layouts.

  Not proved here (covered by the harness correspondence only):
  * the statements above are about the pure kernels on window cell lists; the stateful wrappers
    (`readCap` / `writeCells` on the heap, the `allNoMat` dispatch of `stackDense`) are connected to
    them by definition only — there is no end-to-end theorem `abs (stackDense …) = laStack …`;
  * `viewStack_spec` takes "the iterator delivers the operand's logical elements in row-major order"
    as a hypothesis on the offset lists (C05's theorem for well-formed access patterns) instead of
    deriving it from the operands' access patterns;
  * `concat_spec` (`denseConcat` through `Dense.slice` + `assignArray`) and the frame property of
    `Concat`.
-/
namespace TM.C10
open TM TM.Asm

/-! ## shape calculators -/

/-- `Shape.Concat` = shape of S's `concatenate`, and it refuses (error) exactly when S refuses —
    outside finding F63 (`axis = AllAxes` is silently read as axis 0). -/
theorem concat_shape_partial (s : Shape) (axis : Int) (ss : List Shape)
    (hx : Excl_concatAllAxes axis = false) :
    Agrees (shapeConcat s axis ss) (if axis < 0 then none else concatShape axis.toNat (s :: ss)) := by
  apply shapeConcat_agrees
  simpa [Excl_concatAllAxes] using hx

def concat_shape_full : Prop :=
  ∀ (s : Shape) (axis : Int) (ss : List Shape),
    Agrees (shapeConcat s axis ss) (if axis < 0 then none else concatShape axis.toNat (s :: ss))

/-- F63: `(2,3)` and `(2,3)` along axis `-1`: the calculator answers `(4,3)`, S refuses. -/
theorem concat_shape_full_fails : ¬ concat_shape_full := by
  intro h
  have := h [2, 3] (-1) [[2, 3]]
  obtain ⟨tag, ht⟩ := this
  have e : shapeConcat [2, 3] (-1) [[2, 3]] = .ok [4, 3] := rfl
  have := e.symm.trans ht
  cases this

/-- The head of `StackDense` (axis test, comparison of the operands' shapes, new shape) = shape of
    S's `stack`, refusing — with an error: negative axis, axis past the rank, an operand of another
    shape — exactly when S refuses. -/
theorem stack_shape (s : Shape) (axis : Int) (rest : List Shape) :
    Agrees (stackNewShape s axis rest) (if axis < 0 then none else stackShape axis.toNat (s :: rest)) :=
  stackNewShape_agrees s axis rest

/-- `Shape.Repeat` = shape of S's `repeat` wherever S has a verdict (rank ≥ 1, non-negative counts,
    not the library's `(n)`-along-axis-1 extension), refusing — with an error, also for an axis below
    `AllAxes` — exactly when S refuses. -/
theorem repeat_shape (sh : Shape) (axis : Int) (reps : List Int) (hnn : ∀ d ∈ sh, 0 ≤ d)
    (r : Option Shape) (hS : specRepeatShape sh axis reps = some r) :
    Agrees (Prod.fst <$> shapeRepeat sh axis reps) r :=
  shapeRepeat_agrees sh axis reps hnn r hS

/-! ## refinement of the block-copy paths -/

/-- `retVal.Info().Strides()[axis]` of the row-major stacked result is the size of one block of an
    operand: `∏ shape[axis:]`. -/
theorem stack_axisStride (s : Shape) (k : Nat) (n : Int) (h : k ≤ s.length) :
    idx (calcStrides (insertAt s k n)) (k : Int) "strides[axis]" = .ok (prod (s.drop k)) :=
  Asm.stack_axisStride s k n h

/-- The loop bounds and block lengths of `denseRepeat` (`ProdInts(t.Shape()[0:axis])`,
    `ProdInts(newShape[axis+1:])`) are the ones `repeat_spec` is stated for: `∏ shape[:axis]` outer
    passes over blocks of `∏ shape[axis+1:]` cells, whatever the counts sum to. -/
theorem repeat_params (sh : Shape) (k : Nat) (x : Int) (hk : k < sh.length) :
    repeatParams sh (sh.set k x) (k : Int) =
      .ok (prod (sh.take k), prod (sh.drop (k + 1)), prod (sh.drop (k + 1))) := by
  have hne : sh.isEmpty = false := by cases sh with | nil => simp at hk | cons _ _ => rfl
  have hax : ¬ ((k : Int) < 0 ∨ (k : Int) > (sh.length : Nat)) := by omega
  have hax2 : ¬ ((k : Int) + 1 < 0 ∨ (k : Int) + 1 > ((sh.set k x).length : Nat)) := by
    rw [List.length_set]; omega
  have hto : ((k : Int) + 1).toNat = k + 1 := by omega
  have hdrop : (sh.set k x).drop (k + 1) = sh.drop (k + 1) := by
    rw [List.set_eq_take_append_cons_drop, if_pos hk, List.drop_append]
    have h1 : (sh.take k).length = k := by simp; omega
    simp [h1]
  simp only [repeatParams, hne, Bool.false_eq_true, if_false, Bool.or_eq_true, decide_eq_true_eq, hax, hax2,
    Int.toNat_natCast, hto, hdrop, bind, Except.bind, pure, Except.pure]

/-- **Stacking, contiguous operands.** For operands of one shape `s` (every extent positive) given by
    their row-major listings, a new axis at any position `k ≤ rank`, and a destination of the right
    size: S's `stack` is defined, has shape `s` with `#operands` inserted at `k`, and its element list
    is what `denseSimpleStack` leaves in the destination — `case 0` for `k = 0`, the
    `axisStride`/`batches` loop nest otherwise. -/
theorem simpleStack_spec (s : Shape) (as : List (LA Val)) (k : Nat) (dst : List Val)
    (hpos : ∀ d ∈ s, 0 < d) (hk : k ≤ s.length) (hne : as ≠ [])
    (hwf : ∀ a ∈ as, a.shape = s ∧ a.elems.length = (prod s).toNat)
    (hdst : dst.length = as.length * (prod s).toNat) :
    ∃ E, laStack k as = some ⟨insertAt s k (as.length : Int), E⟩ ∧
      (if k = 0 then simpleStack0 dst (as.map (·.elems))
       else simpleStackLoop (prod (s.drop k)) (as.map (·.elems))
              (stackIters (goDiv dst.length (prod (s.drop k))) (as.map (·.elems)).length) 0 0 dst) = .ok E := by
  have hnn : ∀ d ∈ s, 0 ≤ d := fun d hd => Int.le_of_lt (hpos d hd)
  refine ⟨stackE k s (as.map (·.elems)), ?_, ?_⟩
  · -- S side
    rw [laStack_eq]
    have hshape : stackShape k (as.map (·.shape)) = some (insertAt s k (as.length : Int)) := by
      match as, hne with
      | a :: rest, _ =>
        have ha := (hwf a (by simp)).1
        have hrest : (rest.map (·.shape)).all (· == a.shape) = true := by
          simp only [List.all_map, List.all_eq_true, Function.comp, beq_iff_eq]
          intro x hx
          rw [(hwf x (by simp [hx])).1, ha]
        rw [ha] at hrest
        simp only [List.map_cons, stackShape, ha, hrest, Bool.and_true, decide_eq_true_eq, hk, if_true,
          List.length_map, List.length_cons, Int.natCast_add, Int.natCast_one]
    rw [hshape]
    simp only [Option.bind_some, tabulate_eq, stack_tab k s as hk hnn hwf, Option.map_some]
  · -- M side
    have hlen : ∀ x ∈ as.map (·.elems), x.length = (prod s).toNat := by
      intro x hx
      simp only [List.mem_map] at hx
      obtain ⟨a, ha, rfl⟩ := hx
      exact (hwf a ha).2
    by_cases hk0 : k = 0
    · subst hk0
      simp only [if_true, stackE]
      apply simpleStack0_spec
      rw [hdst]
      clear hdst hne hwf
      induction as with
      | nil => simp
      | cons a rest ih =>
        simp only [List.map_cons, List.flatten_cons, List.length_append, List.length_cons, Nat.succ_mul]
        rw [ih (fun x hx => hlen x (by simp only [List.map_cons, List.mem_cons]; exact Or.inr hx)),
          hlen a.elems (by simp)]
        omega
    · simp only [hk0, if_false]
      have hnnT : ∀ x ∈ s.take k, 0 ≤ x := fun x hx => hnn x (List.mem_of_mem_take hx)
      have hposD : ∀ x ∈ s.drop k, 0 < x := fun x hx => hpos x (List.mem_of_mem_drop hx)
      have hA : 0 < prod (s.drop k) := prod_pos _ hposD
      have hP : (prod s).toNat = (prod (s.take k)).toNat * (prod (s.drop k)).toNat := by
        rw [prod_take_drop k s, Int.toNat_mul (prod_nonneg _ hnnT) (Int.le_of_lt hA)]
      have hAc : prod (s.drop k) = (((prod (s.drop k)).toNat : Nat) : Int) := by
        rw [Int.toNat_of_nonneg (Int.le_of_lt hA)]
      have hN : 0 < as.length := by
        cases as with
        | nil => exact absurd rfl hne
        | cons _ _ => simp
      have hd' : dst.length = (prod (s.take k)).toNat * (as.length * (prod (s.drop k)).toNat) := by
        rw [hdst, hP, Nat.mul_left_comm]
      rw [hAc, hd', List.length_map, stackIters_eq as.length _ _ hN (by omega)]
      have := simpleStackLoop_spec (prod (s.drop k)).toNat (as.map (·.elems)) (prod (s.take k)).toNat 0 [] dst
        (by intro x hx; rw [hlen x hx, hP]; simp)
        (by rw [List.length_map, hd']; exact Nat.le_refl _)
      simp only [Nat.zero_mul, List.length_nil, List.nil_append, List.length_map] at this
      rw [show ((0 : Nat) : Int) = 0 by rfl] at this
      rw [this, stackE_interleave k s _ hk hnn hlen]
      have : dst.drop ((prod (s.take k)).toNat * (as.length * (prod (s.drop k)).toNat)) = [] :=
        List.drop_eq_nil_of_le (by rw [hd']; exact Nat.le_refl _)
      rw [this, List.append_nil]

/-- **Stacking, operands of any layout.** As `simpleStack_spec`, for the iterator-driven path
    (`denseViewStack` / `doViewStack*`): every operand is given by its storage cells and the offsets
    its iterator delivers; if these offsets are inside the window and deliver the operand's logical
    elements in row-major order (what C05 shows for every well-formed access pattern), the cells
    appended to the result are the element list of S's `stack` — for every rank, axis position,
    operand count and both the sized and the arbitrary-size kernels. -/
theorem viewStack_spec (s : Shape) (as : List (LA Val)) (k : Nat) (dst : List Val) (srcs : List VSrc) (szd : Bool)
    (hpos : ∀ d ∈ s, 0 < d) (hk : k ≤ s.length) (hne : as ≠ [])
    (hwf : ∀ a ∈ as, a.shape = s ∧ a.elems.length = (prod s).toNat)
    (hdst : dst.length = as.length * (prod s).toNat)
    (hvalid : ∀ v ∈ srcs, v.valid) (hlist : srcs.map VSrc.listing = as.map (·.elems)) :
    ∃ E data, laStack k as = some ⟨insertAt s k (as.length : Int), E⟩ ∧
      viewStackLoop szd (prod (s.drop k)).toNat (goDiv dst.length (prod (s.drop k))).toNat srcs [] = .ok data ∧
      blit dst 0 (data.take dst.length) = E := by
  obtain ⟨E, hS, hM⟩ := simpleStack_spec s as k dst hpos hk hne hwf hdst
  have hnn : ∀ d ∈ s, 0 ≤ d := fun d hd => Int.le_of_lt (hpos d hd)
  have hnnT : ∀ x ∈ s.take k, 0 ≤ x := fun x hx => hnn x (List.mem_of_mem_take hx)
  have hposD : ∀ x ∈ s.drop k, 0 < x := fun x hx => hpos x (List.mem_of_mem_drop hx)
  have hA : 0 < prod (s.drop k) := prod_pos _ hposD
  have hP : (prod s).toNat = (prod (s.take k)).toNat * (prod (s.drop k)).toNat := by
    rw [prod_take_drop k s, Int.toNat_mul (prod_nonneg _ hnnT) (Int.le_of_lt hA)]
  have hlen : ∀ x ∈ as.map (·.elems), x.length = (prod s).toNat := by
    intro x hx
    simp only [List.mem_map] at hx
    obtain ⟨a, ha, rfl⟩ := hx
    exact (hwf a ha).2
  -- S's element list in interleaved form
  have hE : E = interleave (prod (s.drop k)).toNat (as.map (·.elems)) 0 (prod (s.take k)).toNat := by
    have h2 : laStack k as = some ⟨insertAt s k (as.length : Int), stackE k s (as.map (·.elems))⟩ := by
      obtain ⟨E', hS', _⟩ := simpleStack_spec s as k dst hpos hk hne hwf hdst
      rw [laStack_eq] at hS' ⊢
      cases hsh : stackShape k (as.map (·.shape)) with
      | none => simp [hsh] at hS'
      | some sh =>
        simp only [hsh, Option.bind_some, tabulate_eq] at hS' ⊢
        cases htab : tabE sh (stackF k as) with
        | none => simp [htab] at hS'
        | some es =>
          simp only [htab, Option.map_some, Option.some.injEq, LA.mk.injEq] at hS'
          obtain ⟨rfl, _⟩ := hS'
          rw [stack_tab k s as hk hnn hwf] at htab
          simp only [Option.some.injEq] at htab
          simp [htab]
    have := hS.symm.trans h2
    simp only [Option.some.injEq, LA.mk.injEq, true_and] at this
    rw [this, stackE_interleave k s _ hk hnn hlen]
  -- number of passes
  have hd' : dst.length = (as.length * (prod (s.take k)).toNat) * (prod (s.drop k)).toNat := by
    rw [hdst, hP, Nat.mul_assoc]
  have hAc : prod (s.drop k) = (((prod (s.drop k)).toNat : Nat) : Int) := by
    rw [Int.toNat_of_nonneg (Int.le_of_lt hA)]
  have hb0 : (goDiv dst.length (prod (s.drop k))).toNat = as.length * (prod (s.take k)).toNat := by
    have : goDiv (dst.length : Int) (prod (s.drop k)) =
        goDiv (((as.length * (prod (s.take k)).toNat) * (prod (s.drop k)).toNat : Nat) : Int)
          (((prod (s.drop k)).toNat : Nat) : Int) := by
      rw [hd']; congr 1
    rw [this, goDiv_mul_toNat _ _ (by omega)]
  have hb : (goDiv dst.length (prod (s.drop k))).toNat =
      (prod (s.take k)).toNat + (as.length * (prod (s.take k)).toNat - (prod (s.take k)).toNat) := by
    rw [hb0]
    have hN : 1 ≤ as.length := by
      cases as with
      | nil => exact absurd rfl hne
      | cons _ _ => simp
    have : (prod (s.take k)).toNat ≤ as.length * (prod (s.take k)).toNat := Nat.le_mul_of_pos_left _ hN
    omega
  have hdrop0 : srcs.map (fun v : VSrc => { v with offs := v.offs.drop (0 * (prod (s.drop k)).toNat) }) = srcs := by
    rw [List.map_congr_left (g := id)]
    · simp
    · intro v _; cases v; simp
  have hloop := viewStackLoop_spec szd (prod (s.drop k)).toNat (goDiv dst.length (prod (s.drop k))).toNat 0 srcs [] hvalid
  rw [hdrop0, hlist, List.nil_append, hb, interleave_extra _ _ _ _ (by
    intro x hx; rw [hlen x hx, hP]; exact Nat.le_refl _)] at hloop
  refine ⟨E, interleave (prod (s.drop k)).toNat (as.map (·.elems)) 0 (prod (s.take k)).toNat, hS, ?_, ?_⟩
  · rw [hb]; exact hloop
  · rw [← hE]
    have hEl : E.length = dst.length := by
      rw [hE, interleave_length _ _ _ 0 (by intro x hx; rw [hlen x hx, hP]; simp), List.length_map, hdst, hP]
      rw [Nat.mul_left_comm]
    rw [← hEl, List.take_length]
    have := blit_append [] dst E
    simp only [List.nil_append, List.length_nil] at this
    rw [this, List.drop_eq_nil_of_le (by omega), List.append_nil]

/-- **Repetition, contiguous source.** For a source of shape `sh` (every extent positive) given by its
    row-major listing, an axis `k < rank`, one count per entry of the axis (zeros allowed) and a
    destination of the right size: S's `repeat` is defined, has shape `sh[k ↦ Σ counts]`, and its
    element list is what the `outers × size × repeats` loop nest of `fastCopyDenseRepeat` — called with
    the block lengths `stride = newStride = ∏ sh[k+1:]` (`repeat_params`) — leaves in the
    destination. -/
theorem repeat_spec (sh : Shape) (k : Nat) (reps : List Nat) (e dst : List Val)
    (hpos : ∀ d ∈ sh, 0 < d) (hk : k < sh.length) (hr : reps.length = (sh[k]?.getD 0).toNat)
    (he : e.length = (prod sh).toNat) (hd : dst.length = (prod (sh.set k (sumN reps : Int))).toNat) :
    ∃ E, laRepeat ⟨sh, e⟩ k reps = some ⟨sh.set k (sumN reps : Int), E⟩ ∧
      fastRepeat e e.length dst.length (prod (sh.drop (k + 1))) (prod (sh.drop (k + 1)))
        (reps.map Int.ofNat) (prod (sh.take k)).toNat 0 0 dst = .ok E := by
  have hnn : ∀ d ∈ sh, 0 ≤ d := fun d hd => Int.le_of_lt (hpos d hd)
  have hk0 : 0 ≤ sh[k]?.getD 0 := by
    rw [List.getElem?_eq_getElem hk]; exact hnn _ (List.getElem_mem hk)
  refine ⟨repE k sh reps e, ?_, ?_⟩
  · rw [laRepeat_eq]
    have hshape : repeatShape sh k reps = some (sh.set k (sumN reps : Int)) := by
      rw [repeatShape_eq sh k reps hk, if_pos]
      rw [hr, Int.toNat_of_nonneg hk0]
    simp only [hshape, Option.bind_some, tabulate_eq, rep_tab k sh reps e hk hnn he hr, Option.map_some]
  · have hnnT : ∀ x ∈ sh.take k, 0 ≤ x := fun x hx => hnn x (List.mem_of_mem_take hx)
    have hposD : ∀ x ∈ sh.drop (k + 1), 0 < x := fun x hx => hpos x (List.mem_of_mem_drop hx)
    have hB : 0 < prod (sh.drop (k + 1)) := prod_pos _ hposD
    have hBc : prod (sh.drop (k + 1)) = (((prod (sh.drop (k + 1))).toNat : Nat) : Int) := by
      rw [Int.toNat_of_nonneg (Int.le_of_lt hB)]
    have hE : e.length = (prod (sh.take k)).toNat * (reps.length * (prod (sh.drop (k + 1))).toNat) := by
      rw [he, prod_take_drop k sh, prod_drop_getElem sh k hk,
        Int.toNat_mul (prod_nonneg _ hnnT) (Int.mul_nonneg hk0 (Int.le_of_lt hB)),
        Int.toNat_mul hk0 (Int.le_of_lt hB), hr]
    have hD : dst.length = (prod (sh.take k)).toNat * (sumN reps * (prod (sh.drop (k + 1))).toNat) := by
      rw [hd, prod_set sh k _ hk,
        Int.toNat_mul (prod_nonneg _ hnnT) (Int.mul_nonneg (Int.natCast_nonneg _) (Int.le_of_lt hB)),
        Int.toNat_mul (Int.natCast_nonneg _) (Int.le_of_lt hB)]
      simp
    have := fastRepeat_spec e (prod (sh.drop (k + 1))).toNat reps (by omega) (prod (sh.take k)).toNat 0 [] dst
      dst.length (by simp) (by rw [hE]; simp) (by rw [hD]; exact Nat.le_refl _)
    simp only [Nat.zero_mul, List.length_nil, List.nil_append] at this
    rw [show ((0 : Nat) : Int) = 0 by rfl] at this
    rw [hBc, this, repE_repM k sh reps e hk hnn he hr]
    have : dst.drop ((prod (sh.take k)).toNat * (sumN reps * (prod (sh.drop (k + 1))).toNat)) = [] :=
      List.drop_eq_nil_of_le (by rw [hD]; exact Nat.le_refl _)
    rw [this, List.append_nil]

/-! ## operands are left unchanged -/

/-- `Stack` (model of `StackDense`, any operand layouts) writes only the storage of its fresh result:
    every buffer that existed before the call — the operands' and the parents' of views — is cell
    for cell what it was; the operands' metadata are not touched (the function returns no operand). -/
theorem stack_frame (st st' : St) (t d : Dense) (axis : Int) (others : List Dense)
    (h : stackDense st t axis others = .ok (st', d)) :
    d.win.buf = st.heap.size ∧ ∀ b, b < st.heap.size → st'.heap[b]? = st.heap[b]? :=
  stackDense_frame st st' t d axis others h

/-- The same for `Repeat` (model of `StdEng.Repeat`): only the fresh result buffer is written. -/
theorem repeat_frame (st st' : St) (t d : Dense) (axis : Int) (reps : List Int)
    (h : repeatNew st t axis reps = .ok (st', d)) :
    d.win.buf = st.heap.size ∧ ∀ b, b < st.heap.size → st'.heap[b]? = st.heap[b]? :=
  repeatNew_frame st st' t d axis reps h

/-- `RepeatReuse` writes only the buffer of the reuse tensor. -/
theorem repeatReuse_frame (st st' : St) (t reuse : Dense) (axis : Int) (reps : List Int)
    (h : repeatReuse st t reuse axis reps = .ok st') :
    st'.heap.size = st.heap.size ∧ ∀ b, b ≠ reuse.win.buf → st'.heap[b]? = st.heap[b]? := by
  unfold repeatReuse at h
  obtain ⟨⟨newShape, newReps, size⟩, _, h⟩ := bind_ok h
  simp only [bind, Except.bind, throwErr] at h
  split at h
  · cases h
  · exact denseRepeat_frame st st' t reuse newShape _ size newReps h

/-! ## non-vacuity -/

example : ∃ E, laStack 1 [⟨[2, 2], [Val.src 0 0, .src 0 1, .src 0 2, .src 0 3]⟩,
      ⟨[2, 2], [Val.src 1 0, .src 1 1, .src 1 2, .src 1 3]⟩] = some ⟨[2, 2, 2], E⟩ ∧
    E.length = 8 := ⟨_, rfl, rfl⟩

example : (laRepeat (⟨[2, 2], [10, 11, 12, 13]⟩ : LA Nat) 0 [2, 0]).map (·.elems) = some [10, 11, 10, 11] := by
  decide

example : (laConcat 1 [(⟨[2, 1], [1, 2]⟩ : LA Nat), ⟨[2, 2], [3, 4, 5, 6]⟩]).map (·.elems) =
    some [1, 3, 4, 2, 5, 6] := by decide

end TM.C10
