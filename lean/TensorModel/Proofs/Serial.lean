import TensorModel.Ext.Serial
import TensorModel.Proofs.Views
import TensorModel.Proofs.Iter
/-! Helper lemmas for C14 (serialisation): decimal integers, the NumPy header, record round trips. -/
namespace TM
namespace Serial

/-! ### decimal integers -/

theorem dval_digitChar (k : Nat) (h : k < 10) : dval (digitChar k) = some k := by
  have : k = 0 ∨ k = 1 ∨ k = 2 ∨ k = 3 ∨ k = 4 ∨ k = 5 ∨ k = 6 ∨ k = 7 ∨ k = 8 ∨ k = 9 := by omega
  rcases this with rfl | rfl | rfl | rfl | rfl | rfl | rfl | rfl | rfl | rfl <;> rfl

/-- value of a digit string given least significant digit first -/
def valRev : List Char → Nat
  | [] => 0
  | c :: cs => (dval c).getD 0 + 10 * valRev cs

def IsDigit (c : Char) : Prop := (dval c).isSome = true

theorem digitsRevF_spec : ∀ (fuel n : Nat), n ≤ fuel →
    valRev (digitsRevF fuel n) = n ∧ (∀ c ∈ digitsRevF fuel n, IsDigit c) ∧ digitsRevF fuel n ≠ [] := by
  intro fuel
  induction fuel with
  | zero =>
    intro n hn
    have : n = 0 := by omega
    subst this
    refine ⟨by simp [digitsRevF, valRev, dval_digitChar 0 (by omega)], ?_, by simp [digitsRevF]⟩
    intro c hc
    simp only [digitsRevF, List.mem_singleton] at hc
    subst hc
    simp [IsDigit, dval_digitChar 0 (by omega)]
  | succ f ih =>
    intro n hn
    unfold digitsRevF
    split
    · rename_i h
      refine ⟨?_, ?_, by simp⟩
      · simp [valRev, dval_digitChar n h]
      · intro c hc
        simp only [List.mem_singleton] at hc
        subst hc
        simp [IsDigit, dval_digitChar n h]
    · rename_i h
      obtain ⟨h1, h2, _⟩ := ih (n / 10) (by omega)
      have hm : n % 10 < 10 := by omega
      refine ⟨?_, ?_, by simp⟩
      · simp only [valRev, dval_digitChar _ hm, h1, Option.getD_some]
        omega
      · intro c hc
        simp only [List.mem_cons] at hc
        rcases hc with rfl | hc
        · simp [IsDigit, dval_digitChar _ hm]
        · exact h2 c hc

theorem digitsRev_spec (n : Nat) : valRev (digitsRev n) = n ∧ (∀ c ∈ digitsRev n, IsDigit c) ∧ digitsRev n ≠ [] :=
  digitsRevF_spec n n (Nat.le_refl n)

theorem parseNatAux_snoc (l : List Char) (c : Char) : ∀ acc,
    parseNatAux acc (l ++ [c]) = (parseNatAux acc l).bind (fun a => (dval c).map (fun d => a * 10 + d)) := by
  induction l with
  | nil =>
    intro acc
    simp only [List.nil_append, parseNatAux]
    cases dval c <;> simp
  | cons x xs ih =>
    intro acc
    simp only [List.cons_append, parseNatAux]
    cases dval x with
    | none => simp
    | some d => simp [ih]

theorem parseNatAux_reverse (l : List Char) (h : ∀ c ∈ l, IsDigit c) :
    parseNatAux 0 l.reverse = some (valRev l) := by
  induction l with
  | nil => simp [parseNatAux, valRev]
  | cons c cs ih =>
    have hc : IsDigit c := h c (by simp)
    have ih' := ih (fun x hx => h x (by simp [hx]))
    simp only [List.reverse_cons, parseNatAux_snoc, ih', Option.bind_some, valRev]
    unfold IsDigit at hc
    cases hd : dval c with
    | none => simp [hd] at hc
    | some d => simp; omega

theorem parseNat_natDigits (n : Nat) : parseNatAux 0 (natDigits n) = some n := by
  obtain ⟨h1, h2, _⟩ := digitsRev_spec n
  unfold natDigits
  rw [parseNatAux_reverse _ h2, h1]

theorem natDigits_digits (n : Nat) : ∀ c ∈ natDigits n, IsDigit c := by
  intro c hc
  unfold natDigits at hc
  exact (digitsRev_spec n).2.1 c (by simpa using hc)

theorem natDigits_ne_nil (n : Nat) : natDigits n ≠ [] := by
  unfold natDigits
  simpa using (digitsRev_spec n).2.2

/-- characters an integer is printed with -/
def IntCh (c : Char) : Prop := IsDigit c ∨ c = '-'

theorem fmtInt_chars (i : Int) : ∀ c ∈ fmtInt i, IntCh c := by
  intro c hc
  unfold fmtInt at hc
  split at hc
  · simp only [List.mem_cons] at hc
    rcases hc with rfl | hc
    · exact Or.inr rfl
    · exact Or.inl (natDigits_digits _ c hc)
  · exact Or.inl (natDigits_digits _ c hc)

theorem fmtInt_ne_nil (i : Int) : fmtInt i ≠ [] := by
  unfold fmtInt
  split
  · simp
  · exact natDigits_ne_nil _

theorem IntCh_ne {c : Char} (h : IntCh c) : c ≠ ',' ∧ c ≠ ' ' ∧ c ≠ '(' ∧ c ≠ ')' := by
  rcases h with h | rfl
  · unfold IsDigit at h
    refine ⟨?_, ?_, ?_, ?_⟩ <;> (intro hc; subst hc; revert h; decide)
  · decide

theorem IsDigit_ne_sign {c : Char} (h : IsDigit c) : c ≠ '-' ∧ c ≠ '+' := by
  unfold IsDigit at h
  refine ⟨?_, ?_⟩ <;> (intro hc; subst hc; revert h; decide)

/-- `Atoi ∘ %d` is the identity. -/
theorem parseInt_fmtInt (i : Int) : parseInt (fmtInt i) = some i := by
  unfold fmtInt
  split
  · rename_i h
    have hne := natDigits_ne_nil (-i).toNat
    simp only [parseInt, if_true]
    cases hd : natDigits (-i).toNat with
    | nil => exact absurd hd hne
    | cons x xs =>
      rw [← hd, parseNat_natDigits]
      simp only [List.isEmpty_cons, Bool.false_eq_true, if_false, Option.map_some, Option.some.injEq, hd,
        Int.ofNat_eq_natCast]
      omega
  · rename_i h
    have hne := natDigits_ne_nil i.toNat
    cases hd : natDigits i.toNat with
    | nil => exact absurd hd hne
    | cons x xs =>
      have hx : IsDigit x := natDigits_digits i.toNat x (by simp [hd])
      obtain ⟨h1, h2⟩ := IsDigit_ne_sign hx
      simp only [parseInt, h1, h2, if_false]
      rw [← hd, parseNat_natDigits]
      simp only [Option.map_some, Option.some.injEq, Int.ofNat_eq_natCast]
      omega

/-! ### the shape tuple -/

def NoComma (l : List Char) : Prop := ∀ c ∈ l, c ≠ ','

theorem splitComma_noComma (a : List Char) (h : NoComma a) : splitComma a = [a] := by
  induction a with
  | nil => rfl
  | cons c cs ih =>
    have hc : c ≠ ',' := h c (by simp)
    have ih' := ih (fun x hx => h x (by simp [hx]))
    simp [splitComma, hc, ih']

theorem splitComma_append (a rest : List Char) (h : NoComma a) :
    splitComma (a ++ ',' :: rest) = a :: splitComma rest := by
  induction a with
  | nil => simp [splitComma]
  | cons c cs ih =>
    have hc : c ≠ ',' := h c (by simp)
    have ih' := ih (fun x hx => h x (by simp [hx]))
    simp [splitComma, hc, ih']

theorem trimR_noSpace (s : List Char) (h : ∀ c ∈ s, c ≠ ' ') : trimR s = s := by
  induction s with
  | nil => rfl
  | cons c cs ih =>
    have hc : c ≠ ' ' := h c (by simp)
    have ih' := ih (fun x hx => h x (by simp [hx]))
    cases cs with
    | nil => simp [trimR, hc]
    | cons x xs =>
      have : trimR (c :: x :: xs) =
          (match trimR (x :: xs) with | [] => if c = ' ' then [] else [c] | r => c :: r) := rfl
      rw [this, ih']

theorem dropSp_noSpace (s : List Char) (h : ∀ c ∈ s, c ≠ ' ') : s.dropWhile (· = ' ') = s := by
  cases s with
  | nil => rfl
  | cons c cs =>
    have hc : c ≠ ' ' := h c (by simp)
    simp [hc]

theorem trimSp_noSpace (s : List Char) (h : ∀ c ∈ s, c ≠ ' ') : trimSp s = s := by
  unfold trimSp
  rw [dropSp_noSpace s h, trimR_noSpace s h]

theorem trimSp_space_cons (s : List Char) (h : ∀ c ∈ s, c ≠ ' ') : trimSp (' ' :: s) = s := by
  unfold trimSp
  simp only [List.dropWhile_cons, decide_true, if_true]
  rw [dropSp_noSpace s h, trimR_noSpace s h]

theorem fmtInt_noSpace (d : Int) : ∀ c ∈ fmtInt d, c ≠ ' ' := fun c hc => (IntCh_ne (fmtInt_chars d c hc)).2.1
theorem fmtInt_noComma (d : Int) : NoComma (fmtInt d) := fun c hc => (IntCh_ne (fmtInt_chars d c hc)).1

theorem parseDims_cons (d : Int) (rest : List (List Char)) :
    parseDims (fmtInt d :: rest) = (parseDims rest).map (d :: ·) := by
  have hne := fmtInt_ne_nil d
  simp only [parseDims, trimSp_noSpace _ (fmtInt_noSpace d), parseInt_fmtInt]
  cases h : fmtInt d with
  | nil => exact absurd h hne
  | cons x xs => simp

theorem parseDims_cons_sp (d : Int) (rest : List (List Char)) :
    parseDims ((' ' :: fmtInt d) :: rest) = (parseDims rest).map (d :: ·) := by
  have hne := fmtInt_ne_nil d
  simp only [parseDims, trimSp_space_cons _ (fmtInt_noSpace d), parseInt_fmtInt]
  cases h : fmtInt d with
  | nil => exact absurd h hne
  | cons x xs => simp

theorem noComma_sp (d : Int) : NoComma (' ' :: fmtInt d) := by
  intro c hc
  simp only [List.mem_cons] at hc
  rcases hc with rfl | hc
  · decide
  · exact fmtInt_noComma d c hc

theorem parseDims_join : ∀ (ds : List Int), ds ≠ [] →
    parseDims (splitComma (joinDims ds)) = some ds ∧ parseDims (splitComma (' ' :: joinDims ds)) = some ds := by
  intro ds
  induction ds with
  | nil => intro h; exact absurd rfl h
  | cons d rest ih =>
    intro _
    cases rest with
    | nil =>
      constructor
      · simp only [joinDims]
        rw [splitComma_noComma _ (fmtInt_noComma d), parseDims_cons]
        simp [parseDims]
      · simp only [joinDims]
        rw [splitComma_noComma _ (noComma_sp d), parseDims_cons_sp]
        simp [parseDims]
    | cons d' r =>
      obtain ⟨_, ih2⟩ := ih (by simp)
      constructor
      · simp only [joinDims]
        rw [splitComma_append _ _ (fmtInt_noComma d), parseDims_cons]
        rw [ih2]; rfl
      · simp only [joinDims]
        rw [← List.cons_append, splitComma_append _ _ (noComma_sp d), parseDims_cons_sp]
        rw [ih2]; rfl

/-- the dimension loop of `ReadNpy` inverts the tuple text of `WriteNpy`, for every rank -/
theorem parseDims_body (shape : Shape) : parseDims (splitComma (shapeBody shape)) = some shape := by
  match shape with
  | [] => rfl
  | [d] =>
    simp only [shapeBody]
    rw [splitComma_append _ _ (fmtInt_noComma d), parseDims_cons]
    rfl
  | d :: d' :: r =>
    exact (parseDims_join (d :: d' :: r) (by simp)).1

def BodyCh (c : Char) : Prop := IntCh c ∨ c = ',' ∨ c = ' '

theorem BodyCh_ne {c : Char} (h : BodyCh c) : c ≠ '(' ∧ c ≠ ')' := by
  rcases h with h | rfl | rfl
  · exact ⟨(IntCh_ne h).2.2.1, (IntCh_ne h).2.2.2⟩
  · decide
  · decide

theorem joinDims_chars : ∀ (ds : List Int), ∀ c ∈ joinDims ds, BodyCh c := by
  intro ds
  induction ds with
  | nil => intro c hc; simp [joinDims] at hc
  | cons d rest ih =>
    cases rest with
    | nil => intro c hc; exact Or.inl (fmtInt_chars d c (by simpa [joinDims] using hc))
    | cons d' r =>
      intro c hc
      simp only [joinDims, List.mem_append, List.mem_cons] at hc
      rcases hc with hc | rfl | rfl | hc
      · exact Or.inl (fmtInt_chars d c hc)
      · exact Or.inr (Or.inl rfl)
      · exact Or.inr (Or.inr rfl)
      · exact ih c (by simpa [joinDims] using hc)

theorem shapeBody_chars (shape : Shape) : ∀ c ∈ shapeBody shape, BodyCh c := by
  match shape with
  | [] => intro c hc; simp [shapeBody, joinDims] at hc
  | [d] =>
    intro c hc
    simp only [shapeBody, List.mem_append, List.mem_singleton] at hc
    rcases hc with hc | rfl
    · exact Or.inl (fmtInt_chars d c hc)
    · exact Or.inr (Or.inl rfl)
  | d :: d' :: r => exact joinDims_chars _

theorem upToLastClose_none (tail : List Char) (h : ∀ c ∈ tail, c ≠ ')') : upToLastClose tail = none := by
  induction tail with
  | nil => rfl
  | cons c cs ih =>
    have hc : c ≠ ')' := h c (by simp)
    simp [upToLastClose, ih (fun x hx => h x (by simp [hx])), hc]

theorem upToLastClose_append (body tail : List Char) (h : ∀ c ∈ tail, c ≠ ')') :
    upToLastClose (body ++ ')' :: tail) = some body := by
  induction body with
  | nil => simp [upToLastClose, upToLastClose_none tail h]
  | cons c cs ih => simp [upToLastClose, ih]

theorem takeWhile_all (l : List Char) (h : ∀ c ∈ l, c ≠ '(') : l.takeWhile (· ≠ '(') = l := by
  induction l with
  | nil => rfl
  | cons c cs ih =>
    have hc : c ≠ '(' := h c (by simp)
    rw [List.takeWhile_cons, if_pos (by simpa using hc), ih (fun x hx => h x (by simp [hx]))]

/-- what `shapeRE` and the dimension loop do with the text following `'shape': (` -/
def parseShapeTail (r' : List Char) : Option (List Int) :=
  match upToLastClose (r'.takeWhile (· ≠ '(')) with
  | some body => parseDims (splitComma body)
  | none => none

theorem parseShapeTail_spec (shape : Shape) (n : Nat) :
    parseShapeTail (shapeBody shape ++ [')'] ++ ['}'] ++ List.replicate n ' ') = some shape := by
  unfold parseShapeTail
  have htail : ∀ c ∈ '}' :: List.replicate n ' ', c ≠ ')' ∧ c ≠ '(' := by
    intro c hc
    simp only [List.mem_cons, List.mem_replicate] at hc
    rcases hc with rfl | ⟨_, rfl⟩ <;> decide
  have hall : ∀ c ∈ shapeBody shape ++ [')'] ++ ['}'] ++ List.replicate n ' ', c ≠ '(' := by
    intro c hc
    simp only [List.mem_append, List.mem_singleton, List.mem_replicate] at hc
    rcases hc with ((hc | rfl) | rfl) | ⟨_, rfl⟩
    · exact (BodyCh_ne (shapeBody_chars shape c hc)).1
    · decide
    · decide
    · decide
  rw [takeWhile_all _ hall]
  have : shapeBody shape ++ [')'] ++ ['}'] ++ List.replicate n ' ' =
      shapeBody shape ++ ')' :: ('}' :: List.replicate n ' ') := by simp
  rw [this, upToLastClose_append _ _ (fun c hc => (htail c hc).1)]
  exact parseDims_body shape

/-! ### the whole header -/

theorem parseHdr_code (code : String) (hc : code ∈ npCodes) (shape : Shape) :
    parseDescr (fmtHdr code.toList shape) = some code.toList ∧
    parseOrder (fmtHdr code.toList shape) = some false ∧
    parseShape (fmtHdr code.toList shape) =
      parseShapeTail (shapeBody shape ++ [')'] ++ ['}'] ++
        List.replicate (16 - (10 + (hdrBase code.toList shape).length) % 16) ' ') ∧
    (fromNpCode (String.ofList code.toList)).isSome = true := by
  simp only [npCodes, List.mem_cons, List.not_mem_nil, or_false] at hc
  rcases hc with rfl | rfl | rfl | rfl | rfl | rfl | rfl | rfl | rfl | rfl | rfl | rfl | rfl <;>
    exact ⟨rfl, rfl, rfl, rfl⟩

theorem parseHdr_fmtHdr (code : String) (hc : code ∈ npCodes) (shape : Shape) :
    parseHdr (fmtHdr code.toList shape) = some (code.toList, shape) := by
  obtain ⟨h1, h2, h3, h4⟩ := parseHdr_code code hc shape
  unfold parseHdr
  rw [h1, h2, h3, parseShapeTail_spec]
  cases hf : fromNpCode (String.ofList code.toList) with
  | none => rw [hf] at h4; simp at h4
  | some d =>
    have hf' : fromNpCode code = some d := by simpa using hf
    simp [hf']

theorem fmtHdr_aligned (code : List Char) (shape : Shape) : (10 + (fmtHdr code shape).length) % 16 = 0 := by
  unfold fmtHdr
  simp only [List.length_append, List.length_replicate]
  omega

theorem fmtHdr_last (code : List Char) (shape : Shape) : (fmtHdr code shape).getLast? = some ' ' := by
  unfold fmtHdr
  have hpos : 0 < 16 - (10 + (hdrBase code shape).length) % 16 := by omega
  obtain ⟨k, hk⟩ : ∃ k, 16 - (10 + (hdrBase code shape).length) % 16 = k + 1 := ⟨_, (Nat.succ_pred_eq_of_pos hpos).symm⟩
  simp only [hk, List.replicate_succ']
  simp [List.getLast?_append]

/-! ### fresh buffers -/

theorem mapM_ok_length {α β : Type} (f : α → Res β) :
    ∀ (l : List α) (vals : List β), l.mapM f = .ok vals → vals.length = l.length := by
  intro l
  induction l with
  | nil => intro vals h; simp only [List.mapM_nil, pure, Except.pure] at h; injection h with h; subst h; rfl
  | cons x xs ih =>
    intro vals h
    simp only [List.mapM_cons, bind, Except.bind, pure, Except.pure] at h
    cases hx : f x with
    | error e => simp [hx] at h
    | ok y =>
      simp only [hx] at h
      cases hxs : xs.mapM f with
      | error e => simp [hxs] at h
      | ok ys =>
        simp only [hxs] at h
        injection h with h; subst h
        simp [ih ys hxs]

theorem rangeI_length (n : Nat) : (rangeI n).length = n := by simp [rangeI]

theorem rawCells_length (st : St) (t : Dense) (cells : List Val) (h : t.rawCells st = .ok cells) :
    cells.length = t.win.len := by
  unfold Dense.rawCells at h
  rw [mapM_ok_length _ _ _ h, rangeI_length]

/-- the decoded tensor `d` (in state `st'`) occupies a fresh buffer holding exactly `cells` -/
def FreshOf (st st' : St) (d : Dense) (cells : List Val) : Prop :=
  st'.heap = st.heap.push cells.toArray ∧ d.win = ⟨st.heap.size, 0, cells.length, cells.length⟩

theorem FreshOf_unique {st st' : St} {d d' : Dense} {c1 c2 : List Val}
    (h1 : FreshOf st st' d c1) (h2 : FreshOf st st' d' c2) : c1 = c2 := by
  have h := h1.1.symm.trans h2.1
  have := Array.push_inj_right.mp h
  simpa using this

/-- reading a fresh buffer -/
theorem get_fresh {st st' : St} {d : Dense} {cells : List Val} (hf : FreshOf st st' d cells) (i : Int) :
    st'.get d.win i =
      if i < 0 || i ≥ (cells.length : Int) then throwPanic "data index out of range"
      else match cells[i.toNat]? with
        | some v => .ok v
        | none => throwPanic "buffer too short" := by
  obtain ⟨hh, hw⟩ := hf
  unfold St.get
  rw [hw, hh]
  simp only [Array.getElem?_push_size, Nat.zero_add]
  split
  · rfl
  · rw [List.getElem?_toArray]
    cases cells[i.toNat]? <;> rfl

/-- a fresh copy of the storage window reads like the window itself, at every index -/
theorem get_fresh_raw {st0 st st' : St} {t d : Dense} {cells : List Val}
    (hr : t.rawCells st0 = .ok cells) (hf : FreshOf st st' d cells) (i : Int) :
    st'.get d.win i = st0.get t.win i := by
  have hlen := rawCells_length st0 t cells hr
  rw [get_fresh hf i]
  by_cases hi : i < 0 ∨ i ≥ (t.win.len : Int)
  · have : (i < 0 || i ≥ (cells.length : Int)) = true := by
      rw [hlen]; simpa using hi
    rw [if_pos this]
    unfold St.get
    have : (i < 0 || i ≥ (t.win.len : Int)) = true := by simpa using hi
    rw [if_pos this]
  · have hi' : 0 ≤ i ∧ i < (t.win.len : Int) := by omega
    have : ¬ ((i < 0 || i ≥ (cells.length : Int)) = true) := by
      rw [hlen]; simpa using hi
    rw [if_neg this]
    unfold Dense.rawCells at hr
    have hk : i.toNat < t.win.len := by omega
    obtain ⟨v, hv, hg⟩ := mapM_ok _ _ cells hr i.toNat (i.toNat : Int) (rangeI_getElem? _ _ hk)
    have hii : ((i.toNat : Nat) : Int) = i := by omega
    rw [hii] at hg
    rw [hv, hg]

/-- same shape, same strides, same window contents: every `At` agrees -/
theorem at_eq_of_raw {st st' : St} {t d : Dense}
    (hsh : d.ap.shape = t.ap.shape) (hst : d.ap.strides = t.ap.strides)
    (hg : ∀ i, st'.get d.win i = st.get t.win i) (c : List Int) :
    d.at_ st' c = t.at_ st c := by
  unfold Dense.at_ Dense.dims Dense.shape Dense.strides
  rw [hsh, hst]
  simp only [bind, Except.bind]
  split
  · rfl
  · cases ltoi t.ap.shape t.ap.strides c with
    | error e => rfl
    | ok i => exact hg i

/-! ### gob -/

/-- what a reader hands back: metadata of the decoded tensor -/
structure Decoded (st st' : St) (d : Dense) (ap : AP) (dt : String) (cells : List Val) : Prop where
  ap : d.ap = ap
  dt : d.dt = dt
  mask : d.mask = none
  view : d.view = false
  old : d.old = none
  fresh : FreshOf st st' d cells

theorem gobDec_data (st : St) (shape strides : List Int) (o : Order) (dt : String) (cells : List Val) :
    gobDec st { shape := shape, strides := strides, o := o, dt := dt, data := cells } =
      if sanityOk shape cells.length then
        .ok ({ st with heap := st.heap.push cells.toArray },
             { ap := { shape := shape, strides := strides, fin := true, o := o },
               win := ⟨st.heap.size, 0, cells.length, cells.length⟩, dt := dt, mask := none })
      else throwErr "sanity check failed" := by
  unfold gobDec
  simp only [St.alloc, bind, Except.bind, pure, Except.pure]
  by_cases hs : sanityOk shape cells.length = true
  · simp [hs]
  · simp [hs, throwErr]

/-- `sanity()` accepts a window exactly when it is as long as the tensor is large, or the tensor is
    of rank 0 -/
theorem sanityOk_iff (shape : Shape) (n : Nat) :
    sanityOk shape n = true ↔ ((n : Int) = totalSize shape ∨ isScalar shape = true) := by
  simp [sanityOk]

/-! ### `packed()` -/

/-- a tensor whose storage window is exactly as long as the tensor is large is encoded as it is -/
theorem packed_same (st : St) (t : Dense) (h : (t.win.len : Int) = totalSize t.ap.shape) :
    packed st t = .ok (st, t) := by
  unfold packed
  simp [Dense.shape, h]
  rfl

/-- the fields `GobEncode` writes are those of the packed tensor -/
theorem gobEnc_spec (st : St) (t : Dense) (rec : Rec) (h : gobEnc st t = .ok rec) :
    ∃ st1 r mask cells, packed st t = .ok (st1, r) ∧ maskCells st1 r = .ok mask ∧ r.rawCells st1 = .ok cells ∧
      rec = { shape := r.ap.shape, strides := r.ap.strides, o := r.ap.o, dt := r.dt, mask := mask, data := cells } := by
  unfold gobEnc at h
  simp only [bind, Except.bind, pure, Except.pure] at h
  cases hp : packed st t with
  | error e => simp [hp] at h
  | ok p =>
    obtain ⟨st1, r⟩ := p
    simp only [hp] at h
    cases hmk : maskCells st1 r with
    | error e => simp [hmk] at h
    | ok mask =>
      simp only [hmk] at h
      cases hr : r.rawCells st1 with
      | error e => simp [hr] at h
      | ok cells =>
        simp only [hr] at h
        injection h with h
        exact ⟨st1, r, mask, cells, rfl, hmk, hr, h.symm⟩

/-- `GobDecode ∘ GobEncode` in terms of the packed tensor `r` (unmasked): shape, strides and order flags of
    `r` are taken over, the buffer is a fresh copy of `r`'s window; `sanity()` accepts it when the window is
    exactly as long as the tensor is large or the tensor is of rank 0, and refuses it otherwise -/
theorem gob_dec_enc (st st1 : St) (t r : Dense) (rec : Rec) (hp : packed st t = .ok (st1, r)) (hm : r.mask = none)
    (h : gobEnc st t = .ok rec) :
    ∃ cells, r.rawCells st1 = .ok cells ∧
      ((((r.win.len : Int) = totalSize r.ap.shape ∨ isScalar r.ap.shape = true) →
          ∃ st' d, gobDec st rec = .ok (st', d) ∧
            Decoded st st' d { shape := r.ap.shape, strides := r.ap.strides, fin := true, o := r.ap.o } r.dt cells) ∧
       (((r.win.len : Int) ≠ totalSize r.ap.shape ∧ isScalar r.ap.shape = false) →
          ∃ tag, gobDec st rec = .error (.err tag))) := by
  obtain ⟨st1', r', mask, cells, hp', hmk, hr, hrec⟩ := gobEnc_spec st t rec h
  rw [hp] at hp'
  injection hp' with hp'
  injection hp' with h1 h2
  subst h1 h2
  simp only [maskCells, hm, pure, Except.pure] at hmk
  injection hmk with hmk
  subst hmk hrec
  have hlen := rawCells_length st1 r cells hr
  refine ⟨cells, hr, ?_, ?_⟩
  · intro hw
    have hsan : sanityOk r.ap.shape cells.length = true := by
      rw [sanityOk_iff, hlen]; exact hw
    rw [gobDec_data, if_pos hsan]
    exact ⟨_, _, rfl, ⟨rfl, rfl, rfl, rfl, rfl, ⟨rfl, rfl⟩⟩⟩
  · intro hw
    have hsan : ¬ sanityOk r.ap.shape cells.length = true := by
      rw [sanityOk_iff, hlen]
      intro h'
      rcases h' with h' | h'
      · exact hw.1 h'
      · rw [hw.2] at h'; cases h'
    rw [gobDec_data, if_neg hsan]
    exact ⟨_, rfl⟩

/-! ### gob with a mask -/

theorem maskCells_length (st : St) (t : Dense) (m : Win) (mc : List Bool) (hm : t.mask = some m)
    (h : maskCells st t = .ok mc) : mc.length = m.len := by
  unfold maskCells at h
  simp only [hm] at h
  rw [mapM_ok_length _ _ _ h, rangeI_length]

/-- gob carries the mask: a masked tensor (mask as long as the window) whose window is its size reads
    back with the same metadata, a fresh copy of the window and a fresh copy of the whole mask. -/
theorem gob_dec_enc_masked (st : St) (t : Dense) (rec : Rec) (m : Win) (hm : t.mask = some m)
    (hml : m.len = t.win.len) (hpos : 0 < t.win.len)
    (hw : (t.win.len : Int) = totalSize t.ap.shape) (h : gobEnc st t = .ok rec) :
    ∃ cells mc st' d, t.rawCells st = .ok cells ∧ maskCells st t = .ok mc ∧ gobDec st rec = .ok (st', d) ∧
      d.ap = { shape := t.ap.shape, strides := t.ap.strides, fin := true, o := t.ap.o } ∧ d.dt = t.dt ∧
      FreshOf st st' d cells ∧
      d.mask = some ⟨st.mheap.size, 0, mc.length, mc.length⟩ ∧ st'.mheap = st.mheap.push mc.toArray := by
  obtain ⟨st1, r, mc, cells, hp, hmk, hr, hrec⟩ := gobEnc_spec st t rec h
  rw [packed_same st t hw] at hp
  injection hp with hp
  injection hp with h1 h2
  subst h1 h2 hrec
  have hlen := rawCells_length st t cells hr
  have hmlen := maskCells_length st t m mc hm hmk
  have hsan : sanityOk t.ap.shape cells.length = true := by
    rw [sanityOk_iff, hlen]; exact Or.inl hw
  refine ⟨cells, mc, ?_⟩
  unfold gobDec
  have h2 : mc.length = cells.length := by omega
  have hc : 0 < cells.length := by omega
  simp only [St.alloc, St.allocMask, bind, Except.bind, pure, Except.pure, h2, hsan]
  simp [hc]
  exact ⟨hr, hmk, _, _, ⟨rfl, rfl⟩, rfl, rfl, ⟨rfl, rfl⟩, rfl, rfl⟩

/-! ### protobuf / flatbuffers -/

theorem rawFill_exact (cells : List Val) : rawFill cells.length cells = cells := by
  simp [rawFill]

theorem rawFill_take (n : Nat) (cells : List Val) (h : n ≤ cells.length) : rawFill n cells = cells.take n := by
  have : n - cells.length = 0 := by omega
  simp [rawFill, this]

theorem sanityOk_size (shape : Shape) (h : 0 ≤ totalSize shape) : sanityOk shape (totalSize shape).toNat = true := by
  simp [sanityOk, Int.toNat_of_nonneg h]

theorem rawEnc_spec (st : St) (t : Dense) (rec : Rec) (h : rawEnc st t = .ok rec) :
    ∃ st1 r cells, packed st t = .ok (st1, r) ∧ r.rawCells st1 = .ok cells ∧
      rec = { shape := r.ap.shape, strides := r.ap.strides, o := { col := r.ap.o.col, nonContig := r.ap.o.nonContig },
              dt := r.dt, data := cells } := by
  unfold rawEnc at h
  simp only [bind, Except.bind, pure, Except.pure] at h
  cases hp : packed st t with
  | error e => simp [hp] at h
  | ok p =>
    obtain ⟨st1, r⟩ := p
    simp only [hp] at h
    cases hr : r.rawCells st1 with
    | error e => simp [hr] at h
    | ok cells =>
      simp only [hr] at h
      injection h with h
      exact ⟨st1, r, cells, rfl, hr, h.symm⟩

theorem pbDec_data (st : St) (shape strides : List Int) (o : Order) (dt : String) (cells : List Val)
    (h0 : 0 ≤ totalSize shape) :
    pbDec st { shape := shape, strides := strides, o := o, dt := dt, data := cells } =
      .ok ({ st with heap := st.heap.push (rawFill (totalSize shape).toNat cells).toArray },
           { ap := { shape := shape, strides := strides, fin := false, o := o },
             win := ⟨st.heap.size, 0, (totalSize shape).toNat, (totalSize shape).toNat⟩, dt := dt }) := by
  unfold pbDec
  simp only [St.alloc, bind, Except.bind, pure, Except.pure, sanityOk_size shape h0]
  simp

theorem fbDec_data (st : St) (shape strides : List Int) (o : Order) (dt : String) (cells : List Val)
    (h0 : 0 ≤ totalSize shape) :
    fbDec st { shape := shape, strides := strides, o := o, dt := dt, data := cells } =
      .ok ({ st with heap := st.heap.push (rawFill (totalSize shape).toNat cells).toArray },
           { ap := { shape := shape, strides := strides, fin := true, o := o },
             win := ⟨st.heap.size, 0, (totalSize shape).toNat, (totalSize shape).toNat⟩, dt := dt }) := by
  unfold fbDec
  simp only [St.alloc, bind, Except.bind, pure, Except.pure, sanityOk_size shape h0]
  simp

theorem rawFill_length (n : Nat) (cells : List Val) : (rawFill n cells).length = n := by
  simp [rawFill]; omega

/-- `PBDecode ∘ PBEncode` in terms of the packed tensor `r`: its shape and strides are taken over, the buffer
    holds the first `size` cells of its window -/
theorem pb_dec_enc (st : St) (t : Dense) (rec : Rec) (h : rawEnc st t = .ok rec) :
    ∃ st1 r cells, packed st t = .ok (st1, r) ∧ r.rawCells st1 = .ok cells ∧
      (0 ≤ totalSize r.ap.shape → ∃ st' d, pbDec st rec = .ok (st', d) ∧
        Decoded st st' d { shape := r.ap.shape, strides := r.ap.strides, fin := false,
                           o := { col := r.ap.o.col, nonContig := r.ap.o.nonContig } } r.dt
          (rawFill (totalSize r.ap.shape).toNat cells)) := by
  obtain ⟨st1, r, cells, hp, hr, rfl⟩ := rawEnc_spec st t rec h
  refine ⟨st1, r, cells, hp, hr, ?_⟩
  intro h0
  rw [pbDec_data _ _ _ _ _ _ h0]
  exact ⟨_, _, rfl, ⟨rfl, rfl, rfl, rfl, rfl, ⟨rfl, by simp [rawFill_length]⟩⟩⟩

theorem fb_dec_enc (st : St) (t : Dense) (rec : Rec) (h : rawEnc st t = .ok rec) :
    ∃ st1 r cells, packed st t = .ok (st1, r) ∧ r.rawCells st1 = .ok cells ∧
      (0 ≤ totalSize r.ap.shape → ∃ st' d, fbDec st rec = .ok (st', d) ∧
        Decoded st st' d { shape := r.ap.shape, strides := r.ap.strides, fin := true,
                           o := { col := r.ap.o.col, nonContig := r.ap.o.nonContig } } r.dt
          (rawFill (totalSize r.ap.shape).toNat cells)) := by
  obtain ⟨st1, r, cells, hp, hr, rfl⟩ := rawEnc_spec st t rec h
  refine ⟨st1, r, cells, hp, hr, ?_⟩
  intro h0
  rw [fbDec_data _ _ _ _ _ _ h0]
  exact ⟨_, _, rfl, ⟨rfl, rfl, rfl, rfl, rfl, ⟨rfl, by simp [rawFill_length]⟩⟩⟩

/-! ### npy -/

/-- element types that `WriteNpy` writes and `ReadNpy` reads back as the same type -/
def NpGood (dt : String) : Prop := dt ∈ ["b", "i8", "i16", "i32", "u8", "u16", "u32", "f32", "f64", "c64", "c128"]

theorem npGood_codes (dt : String) (h : NpGood dt) :
    ∃ code, npCode dt = some code ∧ code ∈ npCodes ∧ fromNpCode code = some dt ∧
      (dt == "i") = false ∧ (dt == "u") = false := by
  simp only [NpGood, List.mem_cons, List.not_mem_nil, or_false] at h
  rcases h with rfl | rfl | rfl | rfl | rfl | rfl | rfl | rfl | rfl | rfl | rfl
  · exact ⟨"b1", rfl, by decide, rfl, by decide, by decide⟩
  · exact ⟨"i1", rfl, by decide, rfl, by decide, by decide⟩
  · exact ⟨"i2", rfl, by decide, rfl, by decide, by decide⟩
  · exact ⟨"i4", rfl, by decide, rfl, by decide, by decide⟩
  · exact ⟨"u1", rfl, by decide, rfl, by decide, by decide⟩
  · exact ⟨"u2", rfl, by decide, rfl, by decide, by decide⟩
  · exact ⟨"u4", rfl, by decide, rfl, by decide, by decide⟩
  · exact ⟨"f4", rfl, by decide, rfl, by decide, by decide⟩
  · exact ⟨"f8", rfl, by decide, rfl, by decide, by decide⟩
  · exact ⟨"c8", rfl, by decide, rfl, by decide, by decide⟩
  · exact ⟨"c16", rfl, by decide, rfl, by decide, by decide⟩

theorem iterCells_length (st : St) (t : Dense) (cells : List Val) (h : t.iterCells st = .ok cells) :
    cells.length = t.offsets.length := by
  unfold Dense.iterCells at h
  exact mapM_ok_length _ _ _ h

/-- `ReadNpy ∘ WriteNpy` on an unmasked tensor of any layout: the logical shape under row-major
    strides over the source's **logical listing** (the cells the iterator visits, in its order) -/
theorem npy_dec_enc (st : St) (t : Dense) (rec : Rec) (hm : t.mask = none) (hdt : NpGood t.dt)
    (h : npyEnc st t = .ok rec) (h0 : 0 ≤ totalSize t.ap.shape)
    (hsz : t.offsets.length = (totalSize t.ap.shape).toNat) :
    ∃ cells st' d, t.iterCells st = .ok cells ∧ npyDec st rec = .ok (st', d) ∧
      Decoded st st' d { shape := t.ap.shape, strides := calcStrides t.ap.shape, fin := true, o := {} } t.dt
        cells := by
  obtain ⟨code, hc1, hc2, hc3, hi, hu⟩ := npGood_codes t.dt hdt
  unfold npyEnc at h
  simp only [hc1, hm, bind, Except.bind, pure, Except.pure] at h
  cases hr : t.iterCells st with
  | error e => simp [hr] at h
  | ok cells =>
    simp only [hr, hi, hu, Bool.or_self, Bool.false_and, Bool.false_eq_true, if_false] at h
    injection h with h
    subst h
    have hlen := iterCells_length st t cells hr
    have hsize : ¬ cells.length < (totalSize t.ap.shape).toNat := by omega
    have htake : List.take (totalSize t.ap.shape).toNat cells = cells := List.take_of_length_le (by omega)
    refine ⟨cells, ?_⟩
    unfold npyDec
    simp only [Dense.shape, parseHdr_fmtHdr code hc2, String.ofList_toList, hc3, hi, hu, Bool.or_self,
      Bool.false_eq_true, if_false, hsize, htake, St.alloc, bind, Except.bind, pure, Except.pure,
      sanityOk_size _ h0]
    simp only [Bool.not_true, Bool.false_eq_true, if_false, true_and]
    refine ⟨_, _, rfl, ⟨rfl, rfl, rfl, rfl, rfl, ⟨rfl, ?_⟩⟩⟩
    have : (totalSize t.ap.shape).toNat = cells.length := by omega
    simp [this]

theorem npyEnc_unsupported (st : St) (t : Dense) (h : npCode t.dt = none) :
    ∃ tag, npyEnc st t = .error (.err tag) := by
  unfold npyEnc
  simp only [h]
  exact ⟨_, rfl⟩

/-! ### csv -/

theorem csvEnc_refuses (st : St) (t : Dense) (h : t.ap.shape.length ≠ 2) :
    ∃ tag, csvEnc st t = .error (.err tag) := by
  unfold csvEnc
  have : (t.shape.length != 2) = true := by simpa [Dense.shape] using h
  simp only [this, if_true, bind, Except.bind]
  exact ⟨_, rfl⟩

/-- `ReadCSV` on records of equal length: the cells in reading order under `(rows, cols)`, row-major -/
theorem csvDec_rows (st : St) (dt : String) (first : List Val) (rest : List (List Val))
    (hdt : csvTypes.contains dt = true) (hun : ∀ r ∈ first :: rest, r.length = first.length) :
    csvDec st { dt := dt, rows := first :: rest } =
      .ok ({ st with heap := st.heap.push (first :: rest).flatten.toArray },
           { ap := { shape := [((first :: rest).length : Int), (first.length : Int)],
                     strides := calcStrides [((first :: rest).length : Int), (first.length : Int)], fin := false },
             win := ⟨st.heap.size, 0, (first :: rest).flatten.length, (first :: rest).flatten.length⟩, dt := dt }) := by
  unfold csvDec
  have hany : (first :: rest).any (fun row => row.length != first.length) = false := by
    rw [List.any_eq_false]
    intro r hr
    simp [hun r hr]
  have hlast : ((first :: rest).getLast?.getD []).length = first.length := by
    have hne : (first :: rest) ≠ [] := by simp
    rw [List.getLast?_eq_some_getLast hne]
    exact hun _ (List.getLast_mem hne)
  simp only [hdt, hany, hlast, St.alloc, bind, Except.bind, pure, Except.pure]
  simp

/-- the `default` arm of `convFromStrs`: element types without a parser are refused by the reader -/
theorem csvDec_unreadable (st : St) (dt : String) (first : List Val) (rest : List (List Val))
    (hdt : csvTypes.contains dt = false) : ∃ tag, csvDec st { dt := dt, rows := first :: rest } = .error (.err tag) := by
  unfold csvDec
  simp only [hdt, bind, Except.bind]
  exact ⟨_, rfl⟩

end Serial
end TM
