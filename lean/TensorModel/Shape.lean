import TensorModel.Basic
/-! Model of `shape.go` (predicates, stride calculators) — mirrors the Go code. -/
namespace TM

abbrev Shape := List Int

def isScalar (s : Shape) : Bool := s.isEmpty
/-- `Shape.IsScalarEquiv`: rank 0 or all ones. -/
def isScalarEquiv (s : Shape) : Bool := s.all (· == 1)
def isColVec : Shape → Bool
  | [a, b] => b == 1 && decide (a > 1)
  | _ => false
def isRowVec : Shape → Bool
  | [a, b] => a == 1 && decide (b > 1)
  | _ => false
def isVector (s : Shape) : Bool := isColVec s || isRowVec s || s.length == 1
def isVectorLike (s : Shape) : Bool := (s.filter (· != 1)).length ≤ 1
def allOnes (l : List Int) : Bool := l.all (· == 1)
def totalSize (s : Shape) : Int := prod s

/-- `Shape.CalcStrides` (row-major): `ret[i] = ∏ s[i+1:]`; nil for a scalar. -/
def calcStrides : Shape → List Int
  | [] => []
  | _ :: ds => prod ds :: calcStrides ds

/-- prefix products `ret[i] = ∏ s[:i]` -/
def prefixProds (acc : Int) : Shape → List Int
  | [] => []
  | d :: ds => acc :: prefixProds (acc * d) ds

/-- `Shape.CalcStridesColMajor`: nil for scalar-equivalent shapes, one stride for vectors. -/
def calcStridesCol (s : Shape) : List Int :=
  if isScalarEquiv s then []
  else if isVector s then [1]
  else prefixProds 1 s

/-- `IsMonotonicInts` -/
def isMonotonicInts : List Int → Bool × Bool
  | [] => (true, true)
  | x :: xs =>
    let rec go (prev : Int) (incr1 : Bool) : List Int → Bool × Bool
      | [] => (true, incr1)
      | v :: vs => if v < prev then (false, false) else go v (incr1 && v == prev + 1) vs
    go x true xs

end TM
