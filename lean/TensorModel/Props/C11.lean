import TensorModel.Proofs.Kernels
/-! C11 — property theorems (see Proofs/Kernels.lean for the kernel-level lemmas). -/
namespace TM.C11
end TM.C11
