package main

import (
	"fmt"
	"strconv"
	"strings"
)

// C01: coordinate addressing. For every element type, constructor, shape and layout: the whole
// box [-2, d+1]^rank (`atbox`), wrong arities, and single writes followed by a full dump.
func genC01(g *gen) {
	dims := []int{1, 2, 3}
	maxRank := 3
	if g.thorough() {
		dims = []int{1, 2, 3, 4}
		maxRank = 4
	}
	shs := shapes(0, maxRank, dims)
	// vector-like rank-4 shapes
	for _, pos := range []int{0, 1, 2, 3} {
		s := []int{1, 1, 1, 1}
		s[pos] = 3
		shs = append(shs, s)
	}
	// higher ranks with pairwise different extents: the column-major constructors (raw backing / converting a
	// row-major sequence) permute axes, which a symmetric or low-rank shape cannot tell apart
	for _, sh := range [][]int{{2, 3, 2, 2}, {2, 3, 4, 2}, {3, 2, 2, 3}, {2, 1, 3, 2}, {2, 3, 2, 1, 2}, {2, 2, 3, 2, 2}} {
		for _, ord := range append(append([]string{}, orders...), "C1", "Fraw1", "Fraw2") {
			for _, dt := range []string{"i32", "f64", "str"} {
				g.emit(fmt.Sprintf("new %s %s %s", dt, ints(sh), ord), "atbox $0 0 -1", "dump $0", fmt.Sprintf("setat $0 %s", ints(make([]int, len(sh)))), "dump $0")
			}
		}
	}
	// addressing through composed layouts: a vector view (2-D with one unit axis, or 1-D) cut from a lazily transposed
	// tensor and transposed again - with default and explicit axes - then read over the whole box and written once;
	// two-dimensional vectors through T ; Transpose ; T
	for _, dt := range []string{"i32", "f64", "str"} {
		for _, src := range []string{"C", "Fraw"} {
			for _, sl := range []string{"1:2,n", "n,1:2", "n,0:1", "2:3,n", "1", "n,2"} {
				for _, ax := range []string{"-", "1,0", "0,1"} {
					if strings.Count(sl, ":") == 0 && ax != "-" {
						continue // the view is one-dimensional
					}
					g.emit(fmt.Sprintf("new %s 3,4 %s", dt, src), "T $0 1,0", "slice $0 "+sl, "T $1 "+ax, "atbox $1 -1 1", "dump $1",
						"setat $1 "+map[bool]string{true: "0,0", false: "1"}[strings.Count(sl, ":") > 0], "dump $0", "dump $1", "UT $1", "atbox $1 -1 1")
				}
			}
			for _, sh := range []string{"1,4", "4,1"} {
				g.emit(fmt.Sprintf("new %s %s %s", dt, sh, src), "T $0 -", "transpose $0", "T $0 -", "atbox $0 -1 1", "dump $0", "setat $0 0,0", "dump $0")
				g.emit(fmt.Sprintf("new %s %s %s", dt, sh, src), "T $0 1,0", "T $0 0,1", "atbox $0 -1 1", "T $0 1,0", "atbox $0 -1 1", "dump $0")
			}
		}
	}
	// a user-defined element type: reads over the whole box, single writes, through views and transpositions, copies
	for _, ord := range []string{"C", "Fraw"} {
		for _, sh := range []string{"4", "2,3", "2,3,2"} {
			z := map[string]string{"4": "1", "2,3": "1,2", "2,3,2": "1,2,0"}[sh]
			g.emit(fmt.Sprintf("new arr2 %s %s", sh, ord), "atbox $0 -1 1", "setat $0 "+z, "dump $0", "setat $0 "+map[string]string{"4": "0", "2,3": "0,0", "2,3,2": "0,0,0"}[sh], "dump $0")
			if sh != "4" {
				g.emit(fmt.Sprintf("new arr2 %s %s", sh, ord), "slice $0 1", "setat $1 "+map[string]string{"2,3": "2", "2,3,2": "2,1"}[sh], "dump $0", "dump $1", "clone $1", "setat $2 "+map[string]string{"2,3": "0", "2,3,2": "0,0"}[sh], "dump $2", "dump $0")
				g.emit(fmt.Sprintf("new arr2 %s %s", sh, ord), "T $0 -", "atbox $0 0 0", "setat $0 "+map[string]string{"2,3": "2,1", "2,3,2": "1,2,1"}[sh], "dump $0", "memset $0", "dump $0")
			}
		}
	}
	// a mask hides nothing from addressing: At and SetAt on masked tensors (hard mask - the default - and soft), at
	// masked and at valid coordinates, directly and through masked views
	for _, dt := range []string{"i32", "f64", "str"} {
		for _, bits := range []string{"101010", "111111", "000000", "010101"} {
			for _, soft := range []bool{false, true} {
				steps := []string{fmt.Sprintf("mnew %s 2,3 C %s", dt, bits)}
				if soft {
					steps = append(steps, "soften $0")
				}
				steps = append(steps, "atbox $0 -1 1", "setat $0 0,0", "setat $0 0,1", "setat $0 1,2", "dump $0", "atbox $0 0 0", "mdump $0",
					"slice $0 1,n", "setat $1 0", "setat $1 2", "dump $0", "dump $1", "mdump $0", "setat $0 2,0", "dump $0")
				g.emit(steps...)
			}
		}
	}
	classes := []string{"asis", "lazyT", "physT", "slice", "slice"}
	for si, sh := range shs {
		for oi, ord := range orders {
			// every dtype on a rotating subset of shapes in quick; all in thorough
			for di, dt := range allDtypes {
				if !g.thorough() && (si+oi+di)%4 != 0 {
					continue
				}
				for _, cl := range classes {
					if cl != "asis" && len(sh) == 0 {
						continue
					}
					nv := 1
					// the constructor options in a rotating order
					ordv := ord
					switch {
					case ord == "C" && (si+di)%2 == 1:
						ordv = "C1"
					case ord == "Fraw":
						ordv = []string{"Fraw", "Fraw1", "Fraw2"}[(si+di)%3]
					}
					steps := []string{fmt.Sprintf("new %s %s %s", dt, ints(sh), ordv)}
					ls, v, _ := g.layoutSteps(0, &nv, sh, cl)
					steps = append(steps, ls...)
					steps = append(steps, fmt.Sprintf("atbox $%d -2 1", v))
					// wrong arities
					steps = append(steps, fmt.Sprintf("at $%d %s", v, ints(make([]int, len(sh)+1))))
					if len(sh) > 0 {
						steps = append(steps, fmt.Sprintf("at $%d %s", v, ints(make([]int, len(sh)-1))))
					}
					// writes: one random in-range coordinate (w.r.t. the source shape; may be out of
					// range for a sliced view, which is then an expected rejection), one near-miss
					c := make([]int, len(sh))
					for i := range c {
						c[i] = g.r.intn(sh[i])
					}
					steps = append(steps, fmt.Sprintf("setat $%d %s", v, ints(c)), "dump $0")
					if v != 0 {
						steps = append(steps, fmt.Sprintf("dump $%d", v))
					}
					if len(sh) > 0 {
						c2 := append([]int{}, c...)
						k := g.r.intn(len(c2))
						if g.r.chance(1, 2) {
							c2[k] = -1 - g.r.intn(2)
						} else {
							c2[k] = sh[k] + g.r.intn(2)
						}
						steps = append(steps, fmt.Sprintf("setat $%d %s", v, ints(c2)), "dump $0")
					}
					g.emit(steps...)
				}
			}
		}
	}
}

// C02: slicing. Exhaustive per-axis argument space on rank 1 and 2; sampled for rank 3-4 and for
// nested slicing (depth ≤ 3) of transposed / column-major sources.
func genC02(g *gen) {
	maxd := 3
	if g.thorough() {
		maxd = 4
	}
	srcs := []string{"C", "Fraw", "Fconv"}
	// Narrow (method and package function) = Slice with leading nil slices: every axis incl. negative and wrapped
	// ones, windows inside, touching and beyond the extent, on plain, column-major, transposed and sliced sources
	for _, sh := range [][]int{{4}, {3, 4}, {2, 3, 4}, {1, 3}, {3, 1}} {
		for dim := -len(sh) - 1; dim <= len(sh)+1; dim++ {
			for _, sl := range [][2]int{{0, 1}, {1, 2}, {0, 3}, {2, 2}, {1, 0}, {-1, 2}, {3, 3}} {
				for k, src := range []string{"C", "Fraw", "T", "sliced"} {
					if !g.thorough() && (dim+sl[0]+sl[1]+k+len(sh))%2 != 0 {
						continue
					}
					via := []string{"fn", "meth"}[(dim+sl[0]+k+8)%2]
					switch src {
					case "T":
						if len(sh) < 2 {
							continue
						}
						g.emit(fmt.Sprintf("new i16 %s C", ints(sh)), "T $0 -", fmt.Sprintf("narrow $0 %d %d %d %s", dim, sl[0], sl[1], via), "dump $1", "dump $0")
					case "sliced":
						spec := make([]string, len(sh))
						big := make([]int, len(sh))
						for i, d := range sh {
							big[i] = d + 1
							spec[i] = fmt.Sprintf("1:%d", d+1)
						}
						g.emit(fmt.Sprintf("new i16 %s C", ints(big)), "slice $0 "+strings.Join(spec, ","), fmt.Sprintf("narrow $1 %d %d %d %s", dim, sl[0], sl[1], via), "dump $2", "dump $0")
					default:
						g.emit(fmt.Sprintf("new i16 %s %s", ints(sh), src), fmt.Sprintf("narrow $0 %d %d %d %s", dim, sl[0], sl[1], via), "dump $1")
					}
				}
			}
		}
	}
	// scalar views (every axis picked by a single index) and scalar tensors sliced again with the empty slice list, read,
	// materialised, cloned; one-element windows cut by ranges
	for _, src := range srcs {
		for _, dt := range []string{"i16", "f64", "str"} {
			for _, pick := range []string{"1,2", "0,0", "2,3"} {
				g.emit(fmt.Sprintf("new %s 3,4 %s", dt, src), "slice $0 "+pick, "dump $1", "slice $1 -", "dump $2", "at $2 -", "mat $2", "dump $3", "clone $2", "dump $4", "setat $2 -", "dump $0")
			}
			g.emit(fmt.Sprintf("new %s - %s", dt, src), "slice $0 -", "dump $1", "at $1 -", "slice $1 -", "dump $2", "mat $1", "dump $3")
			g.emit(fmt.Sprintf("new %s 5 %s", dt, src), "slice $0 3", "slice $1 -", "dump $2", "at $2 -", "clone $2", "dump $3")
			g.emit(fmt.Sprintf("new %s 3,4 %s", dt, src), "slice $0 1:2,2:3", "dump $1", "slice $1 0,0", "dump $2", "slice $2 -", "dump $3", "at $3 -")
		}
	}
	// sources that own their data under other strides than the default ones (the clone of a view with gaps, the SafeT of a
	// transposed tensor undone): leading single indices, ranges, nested
	for _, dt := range []string{"i16", "f64"} {
		for _, mk := range [][]string{{"new %s 2,3,4 C", "slice $0 n,n,1:3", "clone $1"}, {"new %s 3,4 C", "slice $0 n,0:4:2", "clone $1"},
			{"new %s 2,3,4 C", "slice $0 n,0:3:2", "clone $1"}, {"new %s 3,4 C", "T $0 1,0", "safeT $0 -", "UT $1"}, {"new %s 2,3,4 Fraw", "slice $0 n,1:3", "clone $1"}} {
			src := 2
			if len(mk) == 4 {
				src = 1
			}
			for _, sl := range []string{"0", "1", "1,n", "0,1", "1,0:2", "0:2", "n,1", "1,1,0", "0,n,1"} {
				steps := []string{}
				for _, m := range mk {
					if strings.Contains(m, "%s") {
						m = fmt.Sprintf(m, dt)
					}
					steps = append(steps, m)
				}
				steps = append(steps, fmt.Sprintf("slice $%d %s", src, sl), fmt.Sprintf("dump $%d", src+1), fmt.Sprintf("mat $%d", src+1), fmt.Sprintf("dump $%d", src+2), fmt.Sprintf("dump $%d", src))
				g.emit(steps...)
			}
		}
	}
	// rank 1: complete space, all sources
	for d := 1; d <= maxd+1; d++ {
		for k, a := range fullAxisSpace(d) {
			for _, ord := range srcs {
				g.emit(fmt.Sprintf("new i16 %d %s", d, ord), "slice $0 "+a, "dump $1")
			}
			// the same arguments through the library's slice constructor S(...): its defaults (end = start+1, step 0
			// for a one-element range, 1 otherwise) and its treatment of an explicit zero or negative step
			if a != "n" {
				g.emit(fmt.Sprintf("new i16 %d %s", d, srcs[k%3]), "slice $0 S"+a, "dump $1")
				if f := strings.Split(a, ":"); len(f) == 3 {
					g.emit(fmt.Sprintf("new i16 %d C", d), fmt.Sprintf("slice $0 S%s:%s", f[0], f[1]), "dump $1")
					if f[2] == "0" {
						g.emit(fmt.Sprintf("new i16 %d,%d C", d, d), fmt.Sprintf("slice $0 n,S%s:%s:-1", f[0], f[1]), "dump $1", fmt.Sprintf("slice $0 S%s,S%s", f[0], a), "dump $2")
					}
				}
			}
		}
	}
	// rank 2: complete cross product (quick: sampled 1/6 of it, boundary-complete per axis)
	for d0 := 1; d0 <= maxd; d0++ {
		for d1 := 1; d1 <= maxd; d1++ {
			A, B := fullAxisSpace(d0), fullAxisSpace(d1)
			for i, a := range A {
				for j, b := range B {
					if !g.thorough() && (i*31+j*17+d0+d1)%9 != 0 {
						continue
					}
					ord := srcs[(i+j)%3]
					steps := []string{fmt.Sprintf("new i32 %d,%d %s", d0, d1, ord)}
					if (i+2*j)%5 == 0 {
						steps = append(steps, "T $0 1,0")
						steps = append(steps, "slice $0 "+b+","+a, "dump $1")
					} else {
						steps = append(steps, "slice $0 "+a+","+b, "dump $1")
					}
					// the sub-array as a value: a materialised copy of the view (the path that trusts the view's
					// contiguity flag) must hold the same elements
					if (i+j)%2 == 0 && !emptyRange(a) && !emptyRange(b) {
						steps = append(steps, []string{"mat $1", "apimat $1"}[(i+j)%2], "dump $2")
					}
					g.emit(steps...)
				}
			}
			// shorter slice lists
			for k, a := range A {
				if emptyRange(a) {
					g.emit(fmt.Sprintf("new f32 %d,%d C", d0, d1), "slice $0 "+a, "dump $1")
					continue
				}
				g.emit(fmt.Sprintf("new f32 %d,%d %s", d0, d1, srcs[k%3]), "slice $0 "+a, "dump $1", "mat $1", "dump $2")
				if d0 > 1 && d1 > 1 {
					g.emit(fmt.Sprintf("new f32 %d,%d C", d0, d1), "T $0 1,0", "slice $0 "+a, "dump $1", "mat $1", "dump $2")
				}
			}
		}
	}
	// rank 3-4 and nesting: sampled
	n := 4000
	if g.thorough() {
		n = 120000
	}
	shs := shapes(3, 4, []int{1, 2, 3, 5})
	shs = append(shs, shapes(1, 2, []int{2, 3, 4, 5})...)
	for k := 0; k < n; k++ {
		sh := shs[g.r.intn(len(shs))]
		dt := g.r.pick([]string{"i16", "f64", "u8", "str", "c128"})
		steps := []string{fmt.Sprintf("new %s %s %s", dt, ints(sh), g.r.pick(srcs))}
		cur := 0
		curShape := sh
		if g.r.chance(1, 3) && len(sh) >= 2 {
			p := g.randPerm(len(sh))
			steps = append(steps, fmt.Sprintf("T $0 %s", ints(p)))
			ns := make([]int, len(sh))
			for i, a := range p {
				ns[i] = sh[a]
			}
			curShape = ns
		}
		depth := 1 + g.r.intn(3)
		for dpt := 0; dpt < depth; dpt++ {
			var spec string
			if g.r.chance(1, 5) {
				// any triple from the full space (mostly invalid → exercises rejection)
				parts := make([]string, len(curShape))
				for i := range parts {
					fs := fullAxisSpace(curShape[i])
					parts[i] = fs[g.r.intn(len(fs))]
				}
				spec = strings.Join(parts, ",")
				if len(parts) == 0 {
					spec = "-"
				}
			} else {
				spec = g.randSliceList(curShape)
			}
			steps = append(steps, fmt.Sprintf("slice $%d %s", cur, spec))
			cur++
			steps = append(steps, fmt.Sprintf("dump $%d", cur))
			curShape = sliceShapeGuess(curShape, spec)
			if curShape == nil {
				break
			}
		}
		g.emit(steps...)
	}
}

// sliceShapeGuess computes the nominal result shape of a valid slice list (used only to keep
// generating sensible nested slices; correctness of shapes is the model's business).
func sliceShapeGuess(shape []int, spec string) []int {
	if spec == "-" {
		return shape
	}
	parts := strings.Split(spec, ",")
	var out []int
	for i, d := range shape {
		if i >= len(parts) || parts[i] == "n" {
			out = append(out, d)
			continue
		}
		f := strings.Split(parts[i], ":")
		if len(f) == 1 {
			continue
		}
		s, _ := strconv.Atoi(f[0])
		e, _ := strconv.Atoi(f[1])
		st := 1
		if len(f) == 3 {
			st, _ = strconv.Atoi(f[2])
		}
		if e > d {
			e = d
		}
		if s < 0 || s >= d || e <= s || st <= 0 {
			return nil
		}
		n := (e - s + st - 1) / st
		if n == 1 {
			continue
		}
		out = append(out, n)
	}
	if len(out) == 0 {
		return nil
	}
	return out
}

// C03: transposition sequences.
func genC03(g *gen) {
	dimsets := [][]int{{1, 2, 3}}
	maxRank := 3
	seqLen := 2
	if g.thorough() {
		maxRank = 4
		seqLen = 4
	}
	shs := shapes(0, maxRank, dimsets[0])
	shs = append(shs, []int{2, 2, 2}, []int{2, 2, 2, 2}, []int{2, 3, 2, 3}, []int{2, 1, 3, 2}, []int{2, 3, 2, 1, 2}, []int{2, 2, 2, 2, 2}, []int{1, 2, 1, 3, 1})
	srcs := []string{"C", "Fraw", "Fconv", "sliced"}
	g.rollMatrix()
	// large extents (blocked / tiled data movement starts at some size): both extents of 16 and more and not multiples of
	// 16, one of them below, rank 3; every element width; physical transposition, the copying forms, the undo
	for _, dt := range widthDtypes {
		for _, c := range []struct{ sh, p string }{{"20,18", "1,0"}, {"17,17", "1,0"}, {"33,35", "1,0"}, {"16,32", "1,0"}, {"5,40", "1,0"}, {"3,17,18", "2,0,1"}, {"18,3,17", "1,2,0"}} {
			g.emit(fmt.Sprintf("new %s %s C", dt, c.sh), "T $0 "+c.p, "transpose $0", "dump $0")
			g.emit(fmt.Sprintf("new %s %s C", dt, c.sh), "apiTranspose $0 "+c.p, "dump $1", "safeT $0 "+c.p, "transpose $2", "dump $2", "dump $0")
		}
	}
	// the copy of a lazily transposed tensor is a lazily transposed tensor: undone, transposed again (also two-dimensional
	// vectors), moved physically - source and copy dumped after every step
	for _, dt := range []string{"i16", "f64", "str"} {
		for _, c := range []struct{ sh, p string }{{"2,3", "1,0"}, {"2,3,2", "2,0,1"}, {"2,3,2", "0,2,1"}, {"1,4", "1,0"}, {"4,1", "1,0"}, {"2,1,3", "1,2,0"}} {
			for _, cp := range []string{"clone $0", "shallow $0"} {
				for _, after := range [][]string{{"UT $1"}, {"T $1 -"}, {"T $1 " + c.p}, {"transpose $1"}, {"UT $1", "T $1 " + c.p, "UT $1"}, {"transpose $1", "UT $1"}} {
					steps := []string{fmt.Sprintf("new %s %s C", dt, c.sh), "T $0 " + c.p, cp, "dump $1"}
					for _, a := range after {
						steps = append(steps, a, "dump $1", "dump $0")
					}
					g.emit(steps...)
				}
			}
		}
	}
	for si, sh := range shs {
		ps := perms(len(sh))
		for pi, p := range ps {
			if len(sh) == 5 && !g.thorough() && pi%6 != 0 {
				continue
			}
			for wi, dt := range widthDtypes {
				if !g.thorough() && (si+pi+wi)%3 != 0 {
					continue
				}
				for _, src := range srcs {
					v := 0
					var steps []string
					if src == "sliced" {
						if len(sh) == 0 {
							continue
						}
						big := append([]int{}, sh...)
						spec := make([]string, len(sh))
						for i := range big {
							big[i] = sh[i] + 1
							spec[i] = fmt.Sprintf("%d:%d", g.r.intn(2), 0)
						}
						for i := range spec {
							st := g.r.intn(2)
							spec[i] = fmt.Sprintf("%d:%d", st, st+sh[i])
						}
						steps = []string{fmt.Sprintf("new %s %s C", dt, ints(big)), "slice $0 " + strings.Join(spec, ",")}
						v = 1
					} else {
						steps = []string{fmt.Sprintf("new %s %s %s", dt, ints(sh), src)}
					}
					vs := fmt.Sprintf("$%d", v)
					steps = append(steps, fmt.Sprintf("T %s %s", vs, ints(p)), "dump "+vs, "iter "+vs+" N")
					// a random continuation
					nv := v + 1
					for k := 0; k < seqLen; k++ {
						switch g.r.intn(10) {
						case 5, 6, 7:
							// the copying transposes: the method, the package function, the package function that
							// also moves the data; the copy is observed, undone, observed again
							kw := []string{"safeT", "apiT", "apiTranspose"}[g.r.intn(3)]
							ax := ints(g.randPerm(len(sh)))
							if g.r.chance(1, 4) {
								ax = "-"
							}
							steps = append(steps, fmt.Sprintf("%s %s %s", kw, vs, ax), fmt.Sprintf("dump $%d", nv), fmt.Sprintf("iter $%d N", nv),
								fmt.Sprintf("UT $%d", nv), fmt.Sprintf("dump $%d", nv))
							nv++
						case 8, 9:
							if len(sh) == 0 {
								continue
							}
							safe := g.r.intn(2)
							steps = append(steps, fmt.Sprintf("roll %s %d %d %d", vs, g.r.intn(len(sh)), g.r.intn(len(sh)+1), safe), fmt.Sprintf("dump $%d", nv))
							if safe == 1 {
								steps = append(steps, fmt.Sprintf("UT $%d", nv), fmt.Sprintf("dump $%d", nv))
							}
							nv++
						case 0:
							steps = append(steps, "UT "+vs)
						case 1:
							steps = append(steps, "transpose "+vs)
						case 2:
							steps = append(steps, fmt.Sprintf("T %s %s", vs, ints(g.randPerm(len(sh)))))
						case 3:
							steps = append(steps, fmt.Sprintf("T %s -", vs))
						case 4:
							steps = append(steps, fmt.Sprintf("T %s %s", vs, ints(p)))
						}
						steps = append(steps, "dump "+vs)
						if v != 0 {
							steps = append(steps, "dump $0")
						}
					}
					g.emit(steps...)
				}
			}
		}
	}
}

// rollMatrix: RollAxis for every (axis, start) pair including the refused ones, safe and in place, on every source
// kind; the result, the source and the state after undoing are observed.
func (g *gen) rollMatrix() {
	shs := [][]int{{3}, {2, 3}, {3, 1}, {1, 3}, {2, 3, 2}, {2, 1, 3}, {2, 3, 2, 2}, {1, 2, 1, 3}}
	for _, sh := range shs {
		for _, src := range []string{"C", "Fraw", "sliced", "lazyT"} {
			for axis := -1; axis <= len(sh); axis++ {
				for start := -1; start <= len(sh)+1; start++ {
					for safe := 0; safe <= 1; safe++ {
						if !g.thorough() && len(sh) == 4 && (axis+start+safe)%2 != 0 {
							continue
						}
						var steps []string
						v := 0
						switch src {
						case "sliced":
							big := make([]int, len(sh))
							spec := make([]string, len(sh))
							for i, d := range sh {
								big[i] = d + 1
								spec[i] = fmt.Sprintf("1:%d", d+1)
							}
							steps = []string{fmt.Sprintf("new i32 %s C", ints(big)), "slice $0 " + strings.Join(spec, ",")}
							v = 1
						case "lazyT":
							if len(sh) < 2 {
								continue
							}
							p := g.randPerm(len(sh))
							srcSh := make([]int, len(sh))
							for i, a := range p {
								srcSh[a] = sh[i]
							}
							steps = []string{fmt.Sprintf("new i32 %s C", ints(srcSh)), fmt.Sprintf("T $0 %s", ints(p))}
						default:
							steps = []string{fmt.Sprintf("new i32 %s %s", ints(sh), src)}
						}
						r := v + 1
						steps = append(steps, fmt.Sprintf("roll $%d %d %d %d", v, axis, start, safe), fmt.Sprintf("dump $%d", r), fmt.Sprintf("dump $%d", v),
							fmt.Sprintf("iter $%d N", r), fmt.Sprintf("UT $%d", r), fmt.Sprintf("dump $%d", r), "dump $0")
						g.emit(steps...)
					}
				}
			}
		}
	}
}

// C05: iterators over every access pattern reachable by slicing and transposing.
func genC05(g *gen) {
	dims := []int{1, 2, 3}
	shs := shapes(0, 3, dims)
	for _, r4 := range shapes(4, 4, []int{1, 2, 3}) {
		ones := 0
		for _, d := range r4 {
			if d == 1 {
				ones++
			}
		}
		if ones >= 2 || g.thorough() {
			shs = append(shs, r4)
		}
	}
	// (a direction setter restarts the walk also when the direction does not change: `nnfn…`, `rnnrn…`)
	scripts := []string{"Nd", "rNd", "nnxNd", "nrnnfNd", "rnnnxNd", "cncncnd", "rcncncnd", "nnrnnrxN", "nsnd", "Cd", "nLd", "rCdsn",
		"nnfcnNd", "rnnrcnNd", "nfnfncNd", "rnrnrncN"}
	for _, sh := range shs {
		for _, ord := range orders {
			// as built
			for _, sc := range scripts {
				g.emit(fmt.Sprintf("new i16 %s %s", ints(sh), ord), "iter $0 "+sc)
			}
			// every transpose
			if len(sh) >= 2 {
				for pi, p := range perms(len(sh)) {
					if !g.thorough() && len(sh) == 4 && pi%4 != 0 {
						continue
					}
					for _, sc := range scripts[:4] {
						g.emit(fmt.Sprintf("new i16 %s %s", ints(sh), ord), fmt.Sprintf("T $0 %s", ints(p)), "iter $0 "+sc)
					}
				}
			}
			// slices (and slices of transposes)
			reps := 6
			if g.thorough() {
				reps = 40
			}
			for k := 0; k < reps && len(sh) > 0; k++ {
				steps := []string{fmt.Sprintf("new i16 %s %s", ints(sh), ord)}
				cs := sh
				if g.r.chance(1, 3) && len(sh) >= 2 {
					p := g.randPerm(len(sh))
					steps = append(steps, fmt.Sprintf("T $0 %s", ints(p)))
					ns := make([]int, len(sh))
					for i, a := range p {
						ns[i] = sh[a]
					}
					cs = ns
				}
				steps = append(steps, "slice $0 "+g.randSliceList(cs), "iter $1 "+g.r.pick(scripts), "dump $1")
				if g.r.chance(1, 3) {
					steps = append(steps, "T $1 -", "iter $1 "+g.r.pick(scripts))
				}
				g.emit(steps...)
			}
		}
	}
}

// viewSteps builds a parent and a view of it; returns steps, parent var, view var.
func (g *gen) viewSteps(dt string, sh []int, ord string) (steps []string, view int, vshape []int) {
	steps = []string{fmt.Sprintf("new %s %s %s", dt, ints(sh), ord)}
	switch g.r.intn(4) {
	case 0: // slice
		spec := g.randSliceList(sh)
		steps = append(steps, "slice $0 "+spec)
		return steps, 1, sliceShapeGuess(sh, spec)
	case 1: // lazy transpose (the tensor itself is the "view" of its storage)
		if len(sh) >= 2 {
			p := g.randPerm(len(sh))
			steps = append(steps, fmt.Sprintf("T $0 %s", ints(p)))
			ns := make([]int, len(sh))
			for i, a := range p {
				ns[i] = sh[a]
			}
			return steps, 0, ns
		}
		return steps, 0, sh
	case 2: // slice of a transpose
		cs := sh
		if len(sh) >= 2 {
			p := g.randPerm(len(sh))
			steps = append(steps, fmt.Sprintf("T $0 %s", ints(p)))
			ns := make([]int, len(sh))
			for i, a := range p {
				ns[i] = sh[a]
			}
			cs = ns
		}
		spec := g.randSliceList(cs)
		steps = append(steps, "slice $0 "+spec)
		return steps, 1, sliceShapeGuess(cs, spec)
	default: // slice of slice
		spec := g.randSliceList(sh)
		s1 := sliceShapeGuess(sh, spec)
		steps = append(steps, "slice $0 "+spec)
		if s1 == nil {
			return steps, 1, nil
		}
		spec2 := g.randSliceList(s1)
		steps = append(steps, "slice $1 "+spec2)
		return steps, 2, sliceShapeGuess(s1, spec2)
	}
}

// C04: views alias their source, copies never do, writes stay inside the view.
func genC04(g *gen) {
	dims := []int{1, 2, 3, 4}
	maxRank := 3
	n := 2500
	if g.thorough() {
		maxRank = 4
		n = 60000
	}
	shs := shapes(1, maxRank, dims)
	// copies own their elements: a string written into a tensor the library allocated itself (clone, materialisation,
	// safe transposition, physical transposition of a string tensor, compaction by reshape) is kept alive by that
	// tensor alone - it must read back after a garbage collection
	for _, mk := range [][]string{{"clone $0"}, {"slice $0 0:2,1:3", "mat $1"}, {"safeT $0 -"}, {"slice $0 0:2,1:3", "clone $1"},
		{"T $0 1,0", "clone $0"}, {"slice $0 0:2,1:3", "clone $1", "reshape $2 4"}} {
		for _, wr := range []string{"memset", "setat"} {
			steps := append([]string{"new str 3,3 C"}, mk...)
			v := 0 // the variable made last: T and reshape create none
			for _, m := range mk {
				if !strings.HasPrefix(m, "T ") && !strings.HasPrefix(m, "reshape ") {
					v++
				}
			}
			if wr == "memset" {
				steps = append(steps, fmt.Sprintf("memset $%d", v))
			} else if len(mk) == 3 {
				steps = append(steps, fmt.Sprintf("setat $%d 1", v))
			} else {
				steps = append(steps, fmt.Sprintf("setat $%d 0,1", v))
			}
			steps = append(steps, "gc", fmt.Sprintf("dump $%d", v), "gc", fmt.Sprintf("dump $%d", v), "dump $0")
			g.emit(steps...)
		}
	}
	// wide shapes (inner extents of 8 and more, where row-wise fast paths start): views with a sliced middle or leading
	// axis materialised, cloned, copied into
	for _, dt := range []string{"i16", "f64", "str"} {
		for _, c := range []struct{ sh, sl string }{{"2,4,10", "n,1:3"}, {"2,4,10", "n,0:4:2"}, {"2,4,10", "1,1:3"}, {"3,4,9", "0:3:2,1:3"}, {"4,12", "1:3"},
			{"4,12", "n,2:11"}, {"2,3,8", "n,n,0:8:2"}, {"2,2,3,8", "n,1,1:3"}, {"3,16", "0:3:2"}} {
			g.emit(fmt.Sprintf("new %s %s C", dt, c.sh), "slice $0 "+c.sl, "mat $1", "dump $2", "clone $1", "dump $3", "dump $1", "memset $2", "dump $0")
			g.emit(fmt.Sprintf("new %s %s C", dt, c.sh), "T $0 -", "slice $0 "+strings.Join(reverseStrs(strings.Split(c.sl, ",")), ","), "mat $1", "dump $2", "dump $1")
		}
	}
	// a copy shares nothing with its source, the metadata included: the clone of a lazily transposed tensor is moved
	// physically (or handed back to the pool) and the source's pending transposition is then undone - and the other
	// way round; the same through the copying transposition and the materialisation of a transposed view
	for _, dt := range []string{"i16", "f64", "str"} {
		for _, shp := range [][2]string{{"3,4", "1,0"}, {"2,3,2", "2,0,1"}, {"2,3,2", "0,2,1"}} {
			for _, cp := range []string{"clone $0", "safeT $0 -"} {
				for _, later := range [][]string{{"transpose $1", "UT $0"}, {"transpose $0", "UT $1"}, {"ret $1", "new " + dt + " 2,2 C", "T $2 1,0", "UT $0"},
					{"UT $1", "T $1 " + shp[1], "transpose $1", "UT $0"}, {"transpose $1", "T $0 " + shp[1]}} {
					steps := []string{fmt.Sprintf("new %s %s C", dt, shp[0]), "T $0 " + shp[1], cp}
					steps = append(steps, later...)
					steps = append(steps, "dump $0")
					if later[0] != "ret $1" {
						steps = append(steps, "dump $1")
					}
					g.emit(steps...)
				}
			}
		}
	}
	for k := 0; k < n; k++ {
		sh := shs[g.r.intn(len(shs))]
		if size(sh) > 200 {
			continue
		}
		dt := g.r.pick([]string{"i16", "f64", "u8", "str", "c128", "b", "i64", "f32"})
		ord := g.r.pick([]string{"C", "C", "Fraw", "Fconv"})
		steps, v, _ := g.viewSteps(dt, sh, ord)
		nv := v + 1
		vs := fmt.Sprintf("$%d", v)
		switch g.r.intn(12) {
		case 9: // in-place unary arithmetic through the view (every generated unary method and Clamp)
			op := g.r.pick([]string{"neg", "square", "abs", "sign", "clamp", "cube", "inv", "sqrt", "tanh", "exp"})
			params := ""
			if op == "clamp" {
				params = " #k2 #k5"
			}
			vsn := 2
			if op != "inv" {
				vsn = 1 + g.r.intn(3)
			}
			steps = append([]string{fmt.Sprintf("vset=%d", vsn)}, steps...)
			steps = append(steps, fmt.Sprintf("un %s %s%s unsafe", op, vs, params), fmt.Sprintf("dump $%d", nv))
			nv++
		case 10: // in-place tensor-scalar arithmetic / comparison through the view
			op := g.r.pick([]string{"add", "sub", "mul", "gt", "eq", "minb"})
			side := g.r.pick([]string{vs + " #k3", "#k3 " + vs})
			kw := "bin"
			if op == "minb" {
				kw = "mmb"
			}
			steps = append(steps, fmt.Sprintf("%s %s %s %s unsafe", kw, op, g.r.pick([]string{"fn", "meth"}), side), fmt.Sprintf("dump $%d", nv))
			nv++
		case 11: // in-place tensor-tensor arithmetic: the view is the destination, a fresh copy the other operand
			op := g.r.pick([]string{"add", "sub", "mul", "lte", "maxb"})
			kw := "bin"
			if op == "maxb" {
				kw = "mmb"
			}
			steps = append(steps, "clone "+vs, fmt.Sprintf("%s %s %s %s $%d unsafe", kw, op, g.r.pick([]string{"fn", "meth"}), vs, nv), fmt.Sprintf("dump $%d", nv+1))
			nv += 2
		case 0:
			steps = append(steps, "memset "+vs)
		case 1:
			steps = append(steps, "zero "+vs)
		case 2: // copy into the view from an equally shaped fresh tensor
			steps = append(steps, "clone "+vs, fmt.Sprintf("memset $%d", nv), fmt.Sprintf("copy %s $%d", vs, nv))
			nv++
		case 3: // write through the parent, read through the view
			c := make([]int, len(sh))
			for i := range c {
				c[i] = g.r.intn(sh[i])
			}
			steps = append(steps, fmt.Sprintf("setat $0 %s", ints(c)))
		case 4: // clone, then write to the clone and to the source
			steps = append(steps, "clone "+vs, fmt.Sprintf("memset $%d", nv), "dump "+vs, "memset "+vs, fmt.Sprintf("dump $%d", nv))
			nv++
		case 5:
			steps = append(steps, g.r.pick([]string{"mat ", "apimat "})+vs, fmt.Sprintf("dump $%d", nv), fmt.Sprintf("zero $%d", nv))
			nv++
		case 6:
			steps = append(steps, fmt.Sprintf("safeT %s -", vs), fmt.Sprintf("dump $%d", nv), fmt.Sprintf("memset $%d", nv))
			nv++
		case 7: // CopyTo between plain tensors and (refused) views
			steps = append(steps, "clone "+vs, fmt.Sprintf("zero $%d", nv), fmt.Sprintf("copyto %s $%d", vs, nv), fmt.Sprintf("dump $%d", nv))
			nv++
		case 8:
			steps = append(steps, fmt.Sprintf("new %s %s C", dt, ints(sh)), fmt.Sprintf("copy $%d $0", nv), fmt.Sprintf("dump $%d", nv))
			nv++
		}
		steps = append(steps, "dump $0")
		if v != 0 {
			steps = append(steps, "dump "+vs)
		}
		if v == 2 {
			steps = append(steps, "dump $1")
		}
		g.emit(steps...)
	}
}

func reverseStrs(xs []string) []string {
	out := make([]string, len(xs))
	for i, x := range xs {
		out[len(xs)-1-i] = x
	}
	return out
}

func factorisations(n, maxRank int) [][]int {
	var out [][]int
	var rec func(rem int, cur []int)
	rec = func(rem int, cur []int) {
		if len(cur) > 0 && rem == 1 {
			out = append(out, append([]int{}, cur...))
		}
		if len(cur) == maxRank {
			return
		}
		for d := 1; d <= rem; d++ {
			if rem%d == 0 && !(d == 1 && len(cur) > 0 && rem == 1) {
				if d == 1 && rem != 1 && len(cur) >= maxRank-1 {
					continue
				}
				rec(rem/d, append(cur, d))
			}
		}
	}
	rec(n, nil)
	return out
}

// C13: shape algebra agrees with execution; reshape; metadata invariant.
// emptyRange: a slice argument s:e(:step) with s == e selects nothing; what the library does with the resulting
// zero-length window (Materialize reads past it) is outside every property and outside the model
func emptyRange(a string) bool {
	parts := strings.Split(a, ":")
	return len(parts) >= 2 && parts[0] == parts[1]
}

func genC13(g *gen) {
	maxd := 4
	n := 3000
	if g.thorough() {
		maxd = 5
		n = 80000
	}
	ds := []int{}
	for d := 1; d <= maxd; d++ {
		ds = append(ds, d)
	}
	shs := shapes(0, 4, ds)
	// calculators vs execution on the same arguments (valid and invalid)
	for k := 0; k < n; k++ {
		sh := shs[g.r.intn(len(shs))]
		if size(sh) > 300 {
			continue
		}
		ord := g.r.pick([]string{"C", "C", "Fraw"})
		steps := []string{fmt.Sprintf("new i32 %s %s", ints(sh), ord)}
		var spec string
		if g.r.chance(1, 4) {
			parts := make([]string, len(sh))
			for i := range parts {
				fs := fullAxisSpace(sh[i])
				parts[i] = fs[g.r.intn(len(fs))]
			}
			spec = strings.Join(parts, ",")
			if len(parts) == 0 {
				spec = "-"
			}
		} else {
			spec = g.randSliceList(sh)
		}
		steps = append(steps, "calcS $0 "+spec, "slice $0 "+spec, "dump $1")
		var p []int
		if g.r.chance(1, 6) {
			p = make([]int, len(sh))
			for i := range p {
				p[i] = g.r.intn(len(sh)+1) - 0
			}
		} else {
			p = g.randPerm(len(sh))
		}
		steps = append(steps, fmt.Sprintf("calcT $0 %s", ints(p)), fmt.Sprintf("T $0 %s", ints(p)), "dump $0")
		// a second / third transposition on top of the pending one: the same permutation again (the undo test
		// of Dense.T must compare with the inverse, not with the permutation itself), its inverse, a random one
		if len(sh) >= 2 && g.r.chance(1, 2) {
			for rep := 0; rep < 1+g.r.intn(2); rep++ {
				q := p
				switch g.r.intn(3) {
				case 1:
					q = make([]int, len(p))
					for i, a := range p {
						if a >= 0 && a < len(p) {
							q[a] = i
						}
					}
				case 2:
					q = g.randPerm(len(sh))
				}
				steps = append(steps, fmt.Sprintf("calcT $0 %s", ints(q)), fmt.Sprintf("T $0 %s", ints(q)), "dump $0")
			}
		}
		g.emit(steps...)
	}
	// every tensor a copying transposition returns reports size = product of its shape and strides that address only
	// positions inside its own data (`wf` of the dump, and the whole box is read): SafeT, tensor.T, tensor.Transpose and
	// safe axis rolling of views with gaps, of clones of such views and of masked tensors
	for _, dt := range []string{"i32", "f64", "str"} {
		for _, ord := range []string{"C", "Fraw"} {
			for _, sl := range []string{"n,1:3", "0:3:2,n", "1:3,1:4", "0:3:2,0:4:2"} {
				for _, cl := range []bool{false, true} {
					for _, op := range []string{"safeT $%d -", "safeT $%d 1,0", "apiT $%d -", "apiT $%d 1,0", "apiTranspose $%d 1,0", "roll $%d 1 0 1"} {
						steps := []string{fmt.Sprintf("new %s 3,4 %s", dt, ord), "slice $0 " + sl}
						v := 1
						if cl {
							steps = append(steps, "clone $1")
							v = 2
						}
						steps = append(steps, fmt.Sprintf(op, v), fmt.Sprintf("dump $%d", v+1), fmt.Sprintf("atbox $%d 0 0", v+1),
							fmt.Sprintf("memset $%d", v+1), fmt.Sprintf("dump $%d", v), "dump $0")
						g.emit(steps...)
					}
				}
			}
		}
	}
	// a reshape that is refused changes nothing: views with gaps, with and without a pending transposition, reshaped to
	// shapes of equal and of different size - the view, its parent and a sibling view are dumped afterwards
	for _, dt := range []string{"i16", "f64"} {
		for _, ord := range []string{"C", "Fraw"} {
			for _, sl := range []string{"n,1:3", "0:3:2,n", "1:3,1:3"} {
				for _, pre := range [][]string{{}, {"T $1 1,0"}, {"T $1 -"}} {
					for _, dims := range []string{"6", "2,3", "3,2", "4", "1,6", "2,2"} {
						steps := []string{fmt.Sprintf("new %s 3,4 %s", dt, ord), "slice $0 " + sl, "slice $0 0:2,0:2"}
						steps = append(steps, pre...)
						steps = append(steps, "reshape $1 "+dims, "dump $1", "dump $0", "dump $2", "UT $1", "dump $1", "dump $0")
						g.emit(steps...)
					}
				}
			}
		}
	}
	// reshape to every factorisation of the size (and wrong sizes), after slicing/transposing/cloning
	for k := 0; k < n; k++ {
		sh := shs[g.r.intn(len(shs))]
		if size(sh) > 64 || len(sh) == 0 {
			continue
		}
		ord := g.r.pick([]string{"C", "C", "Fraw", "Fconv"})
		steps := []string{fmt.Sprintf("new i16 %s %s", ints(sh), ord)}
		v := 0
		cur := sh
		switch g.r.intn(6) {
		case 0:
		case 1:
			if len(sh) >= 2 {
				p := g.randPerm(len(sh))
				steps = append(steps, fmt.Sprintf("T $0 %s", ints(p)))
			}
		case 2:
			spec := g.randSliceList(sh)
			steps = append(steps, "slice $0 "+spec)
			v = 1
			cur = sliceShapeGuess(sh, spec)
		case 3:
			spec := g.randSliceList(sh)
			steps = append(steps, "slice $0 "+spec, "clone $1")
			v = 2
			cur = sliceShapeGuess(sh, spec)
		case 4:
			spec := g.randSliceList(sh)
			steps = append(steps, "slice $0 "+spec, "mat $1")
			v = 2
			cur = sliceShapeGuess(sh, spec)
		case 5:
			steps = append(steps, "clone $0")
			v = 1
		}
		if cur == nil {
			cur = []int{1}
		}
		tot := size(cur)
		fs := factorisations(tot, 4)
		var target []int
		if g.r.chance(1, 6) || len(fs) == 0 {
			target = []int{tot + 1}
		} else {
			target = fs[g.r.intn(len(fs))]
		}
		vs := fmt.Sprintf("$%d", v)
		steps = append(steps, "dump "+vs, fmt.Sprintf("reshape %s %s", vs, ints(target)), "dump "+vs, "dump $0")
		g.emit(steps...)
	}
}

func init() {
	generators["C01"] = genC01
	generators["C02"] = genC02
	generators["C03"] = genC03
	generators["C04"] = genC04
	generators["C05"] = func(g *gen) {
		genC05(g)
		genC05mult(g)
		// masked stepping (NextValid / NextInvalid / NextValidity with their skip counts, every mask over few
		// elements): the programs of the mask generator that run a masked iterator
		if f, ok := generators["C15"]; ok {
			for _, line := range captureGen(g, f) {
				j := strings.Index(line, " ; ")
				if j < 0 || !strings.Contains(line, "miter ") {
					continue
				}
				g.n++
				fmt.Fprintf(g.w, "%s%d%s\n", g.pfx, g.n, line[j:])
			}
		}
	}
	generators["C13"] = genC13
}
