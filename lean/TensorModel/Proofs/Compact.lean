import TensorModel.Proofs.FreshCopy
import TensorModel.Proofs.Assemble
/-!
  `compacted()` / `compact()` (dense.go): the copy of a tensor into the default layout of its shape and data order
  that `Reshape` and the reductions make of a tensor that owns its data without holding it in that layout (the clone
  of a non-contiguous view, the `UT()` of a `SafeT()` of a lazily transposed tensor). Metadata, frame, and — on the
  iterator path — the copy by coordinate.
-/
namespace TM
open Asm

/-- `copyMask` hands back the destination, at most with another mask -/
theorem copyMask_dst {s s' : St} {dst src d' : Dense} (h : Dense.copyMask s dst src = .ok (s', d')) :
    ∃ m, d' = { dst with mask := m } := by
  unfold Dense.copyMask at h
  cases hsm : src.mask with
  | none =>
    simp only [hsm, pure, Except.pure, Except.ok.injEq, Prod.mk.injEq] at h
    obtain ⟨_, rfl⟩ := h
    exact ⟨_, rfl⟩
  | some sm =>
    simp only [hsm] at h
    split at h
    · simp only [pure, Except.pure, Except.ok.injEq, Prod.mk.injEq] at h
      obtain ⟨_, rfl⟩ := h
      exact ⟨_, rfl⟩
    · simp only [bind, Except.bind] at h
      cases hv : (rangeI sm.len).mapM (fun i => s.mget sm i) with
      | error e => simp [hv] at h
      | ok svals =>
        simp only [hv] at h
        cases hdm : dst.mask with
        | none =>
          simp only [hdm] at h
          split at h
          · simp only [St.allocMask, pure, Except.pure, Except.ok.injEq, Prod.mk.injEq] at h
            obtain ⟨_, rfl⟩ := h
            exact ⟨_, rfl⟩
          · simp only [pure, Except.pure, Except.ok.injEq, Prod.mk.injEq] at h
            obtain ⟨_, rfl⟩ := h
            exact ⟨_, rfl⟩
        | some dm =>
          simp only [hdm] at h
          split at h
          · simp only [St.allocMask, pure, Except.pure, Except.ok.injEq, Prod.mk.injEq] at h
            obtain ⟨_, rfl⟩ := h
            exact ⟨_, rfl⟩
          · cases hw : Dense.copyMask.wr dm (min dm.len sm.len) s 0 svals with
            | error e => simp [hw] at h
            | ok s1 =>
              simp only [hw, pure, Except.pure, Except.ok.injEq, Prod.mk.injEq] at h
              obtain ⟨_, rfl⟩ := h
              exact ⟨_, rfl⟩

theorem maskGrow_dst (s : St) (dst : Dense) (dm0 : Win) (s0 : St) (d0 : Dense) (dm : Win)
    (hx : (if dm0.len < dst.win.len then do
        let old ← (rangeI dm0.len).mapM (fun i => s.mget dm0 i)
        let (s, b) := s.allocMask (old ++ List.replicate (dst.win.len - dm0.len) false).toArray
        let dm : Win := ⟨b, 0, dst.win.len, dst.win.len⟩
        pure (s, { dst with mask := some dm }, dm)
      else pure (s, dst, dm0) : Res (St × Dense × Win)) = .ok (s0, d0, dm)) : ∃ m, d0 = { dst with mask := m } := by
  split at hx
  · simp only [bind, Except.bind] at hx
    cases hv : (rangeI dm0.len).mapM (fun i => s.mget dm0 i) with
    | error e => simp [hv] at hx
    | ok old =>
      simp only [hv, St.allocMask, pure, Except.pure, Except.ok.injEq, Prod.mk.injEq] at hx
      obtain ⟨_, rfl, _⟩ := hx
      exact ⟨_, rfl⟩
  · simp only [pure, Except.pure, Except.ok.injEq, Prod.mk.injEq] at hx
    obtain ⟨_, rfl, _⟩ := hx
    exact ⟨dst.mask, rfl⟩

/-- `copyMaskIter` hands back the destination, at most with another mask -/
theorem copyMaskIter_dst {s s' : St} {dst src d' : Dense} {doffs soffs : List Int}
    (h : Dense.copyMaskIter s dst src doffs soffs = .ok (s', d')) : ∃ m, d' = { dst with mask := m } := by
  unfold Dense.copyMaskIter at h
  split at h
  · simp only [pure, Except.pure, Except.ok.injEq, Prod.mk.injEq] at h
    obtain ⟨_, rfl⟩ := h
    exact ⟨_, rfl⟩
  · obtain ⟨⟨s0, d0, dm⟩, hx, h⟩ := bind_ok h
    obtain ⟨s1, _, h⟩ := bind_ok h
    simp only [pure, Except.pure, Except.ok.injEq, Prod.mk.injEq] at h
    obtain ⟨_, rfl⟩ := h
    exact maskGrow_dst _ _ _ _ _ _ hx

/-- `copyDenseIter(dst, src, nil, nil)` hands back the destination, at most with another mask -/
theorem copyDenseIter_dst {s s' : St} {dst src d' : Dense} (h : Dense.copyDenseIter s dst src = .ok (s', d')) :
    ∃ m, d' = { dst with mask := m } := by
  unfold Dense.copyDenseIter at h
  split at h
  · unfold Dense.copyDense at h
    obtain ⟨⟨s1, d1⟩, h1, h⟩ := bind_ok h
    obtain ⟨s2, _, h⟩ := bind_ok h
    simp only [pure, Except.pure, Except.ok.injEq, Prod.mk.injEq] at h
    obtain ⟨_, rfl⟩ := h
    exact copyMask_dst h1
  · obtain ⟨s1, _, h⟩ := bind_ok h
    exact copyMaskIter_dst h

/-- number of cells `newDenseLike` allocates -/
def compactLen (t : Dense) : Nat := if t.shape.isEmpty then 1 else (totalSize t.shape).toNat

/-- **What `compacted()` returns**: a tensor of the receiver's shape, element type and engine over a buffer that did
    not exist before, exactly `Size()` cells long, under the default strides of the receiver's data order, flagged
    contiguous, neither a view nor lazily transposed; no cell that existed before is changed. -/
theorem compacted_spec (st st' : St) (t c : Dense) (h : t.compacted st = .ok (st', c)) :
    c.ap = { shape := t.shape, strides := Dense.defaultStrides t.ap.o.col t.shape, fin := true, o := { col := t.ap.o.col } } ∧
    c.win = ⟨st.heap.size, 0, compactLen t, compactLen t⟩ ∧ c.dt = t.dt ∧ c.view = false ∧ c.old = none ∧
    c.tw = none ∧ c.eng = t.eng ∧ st'.heap.size = st.heap.size + 1 ∧
    (∀ b, b < st.heap.size → st'.heap[b]? = st.heap[b]?) := by
  unfold Dense.compacted at h
  simp only [Dense.fresh, St.alloc] at h
  obtain ⟨m, hm⟩ := copyDenseIter_dst h
  obtain ⟨a1, a2⟩ := copyDenseIter_keeps h
  subst hm
  refine ⟨rfl, ?_, rfl, rfl, rfl, rfl, rfl, ?_, ?_⟩
  · simp [compactLen]
  · rw [a1]; simp
  · intro b hb
    rw [a2 b (by simp only; omega)]
    simp only
    rw [Array.getElem?_push_lt hb]
    simp

/-- **`compacted()` copies by coordinate** (the receiver needs its iterator — it is flagged non-contiguous — and is
    unmasked; `ds`, the default strides of its data order, address `Size()` distinct cells): the call succeeds, and
    the new buffer holds at the default address of every coordinate the receiver's element at that coordinate; no
    cell that existed before is changed. Any rank, any receiver strides. -/
theorem compacted_by_coordinate (st : St) (t : Dense)
    (hit : t.requiresIterator = true) (hnm : t.mask = none) (hlen0 : t.win.len ≠ 0) (hne : t.ap.shape ≠ [])
    (hl : t.ap.strides.length = t.ap.shape.length) (hp : ∀ d ∈ t.ap.shape, 0 < d)
    (hcap : t.win.len ≤ t.win.cap) (hbuf : t.win.buf < st.heap.size)
    (hr : ∀ c ∈ allCoords t.ap.shape, 0 ≤ dot c t.ap.strides ∧ dot c t.ap.strides < (t.win.len : Int))
    (hs : Has st t.win.buf t.win.off t.win.len)
    (hdl : (Dense.defaultStrides t.ap.o.col t.ap.shape).length = t.ap.shape.length)
    (hdr : ∀ c ∈ allCoords t.ap.shape, 0 ≤ dot c (Dense.defaultStrides t.ap.o.col t.ap.shape) ∧
      dot c (Dense.defaultStrides t.ap.o.col t.ap.shape) < prod t.ap.shape)
    (hdinj : ((allCoords t.ap.shape).map (fun c => dot c (Dense.defaultStrides t.ap.o.col t.ap.shape))).Nodup) :
    ∃ st' c, t.compacted st = .ok (st', c) ∧ c.mask = none ∧
      (∀ x ∈ allCoords t.ap.shape,
        cell st' st.heap.size (dot x (Dense.defaultStrides t.ap.o.col t.ap.shape)).toNat =
          some (cellD st t.win.buf (t.win.off + (dot x t.ap.strides).toNat))) ∧
      (∀ b k, b < st.heap.size → cell st' b k = cell st b k) := by
  have hmask : t.isMasked = false := by
    unfold Dense.isMasked; rw [hnm]; simpa using hlen0
  have hnemp : t.shape.isEmpty = false := by
    unfold Dense.shape; cases hsh : t.ap.shape with
    | nil => exact absurd hsh hne
    | cons _ _ => rfl
  have hpp : 0 ≤ prod t.ap.shape := Int.le_of_lt (prod_pos _ hp)
  unfold Dense.compacted
  simp only [hnemp, Bool.false_eq_true, if_false, Dense.fresh, St.alloc]
  generalize hr0 : ({ ap := { shape := t.shape, strides := Dense.defaultStrides t.ap.o.col t.shape, fin := true,
                              o := { col := t.ap.o.col } },
                      win := ⟨st.heap.size, 0, (Array.replicate (totalSize t.shape).toNat Val.zero).size,
                              (Array.replicate (totalSize t.shape).toNat Val.zero).size⟩,
                      dt := t.dt, eng := t.eng } : Dense) = r0
  generalize hst1 : ({ st with heap := st.heap.push (Array.replicate (totalSize t.shape).toNat Val.zero) } : St) = st1
  have hsh0 : r0.ap.shape = t.ap.shape := by rw [← hr0]; rfl
  have hstr0 : r0.ap.strides = Dense.defaultStrides t.ap.o.col t.ap.shape := by rw [← hr0]; rfl
  have hwin0 : r0.win = ⟨st.heap.size, 0, (prod t.ap.shape).toNat, (prod t.ap.shape).toNat⟩ := by
    rw [← hr0]; simp [Dense.shape, totalSize]
  have hmask0 : r0.mask = none := by rw [← hr0]
  obtain ⟨s2, h2, _, hv, hf⟩ := copyIterOffsets_by_coordinate st1 r0 t t.ap.shape hsh0 rfl
    (by rw [hstr0]; exact hdl) hl hp (by rw [hwin0]; exact Nat.ne_of_gt hbuf)
    (by rw [hwin0]; exact Nat.le_refl _) hcap
    (by
      intro c hc
      rw [hstr0, hwin0]
      have hb := hdr c hc
      simp only
      omega)
    hr
    (by rw [hstr0]; exact hdinj)
    (by
      rw [hwin0, ← hst1]
      intro i hi
      simp only [Nat.zero_add]
      rw [cell_push_new]
      have hi' : i < (prod t.ap.shape).toNat := hi
      simp [Dense.shape, totalSize, hi'])
    (by rw [← hst1]; exact hs.push hbuf _)
  refine ⟨s2, r0, ?_, hmask0, ?_, ?_⟩
  · unfold Dense.copyDenseIter
    simp only [hit, Bool.not_true, Bool.and_false, Bool.false_and, Bool.false_eq_true, if_false, bind, Except.bind, h2,
      Dense.copyMaskIter, hmask, Bool.not_false, if_true, pure, Except.pure]
  · intro x hx
    have := hv x hx
    rw [hstr0, hwin0] at this
    simp only [Nat.zero_add] at this
    refine this.trans ?_
    rw [← hst1]
    congr 1
    unfold cellD
    rw [cell_push_lt _ _ _ _ hbuf]
  · intro b' k' hb'
    rw [hf b' k' (Or.inl (by rw [hwin0]; exact Nat.ne_of_lt hb')), ← hst1, cell_push_lt _ _ _ _ hb']

/-- the row-major default strides address `prod shape` distinct cells -/
theorem rowDefault_wf (sh : Shape) (hp : ∀ d ∈ sh, 0 < d) :
    (calcStrides sh).length = sh.length ∧
    (∀ c ∈ allCoords sh, 0 ≤ dot c (calcStrides sh) ∧ dot c (calcStrides sh) < prod sh) ∧
    ((allCoords sh).map (fun c => dot c (calcStrides sh))).Nodup := by
  refine ⟨calcStrides_length sh, fun c hc => rowRank_bounds' sh c (C17compat.allCoords_inBox _ _ hc), ?_⟩
  have : (fun c => dot c (calcStrides sh)) = rowRank sh := by funext c; rfl
  rw [this, C17compat.allCoords_map_rowRank _ hp]
  exact rangeI_pairwise _

theorem allCoords_nodup (sh : Shape) (hp : ∀ d ∈ sh, 0 < d) : (allCoords sh).Nodup := by
  have h : ((allCoords sh).map (rowRank sh)).Nodup := by
    rw [C17compat.allCoords_map_rowRank _ hp]; exact rangeI_pairwise _
  exact (List.pairwise_map.mp h).imp (fun hne e => hne (by rw [e]))

/-- the column-major default strides of a shape that is neither scalar-equivalent nor a vector (one stride per
    axis) address `prod shape` distinct cells -/
theorem colDefault_wf (sh : Shape) (hp : ∀ d ∈ sh, 0 < d) (hse : isScalarEquiv sh = false) (hv : isVector sh = false) :
    calcStridesCol sh = prefixProds 1 sh ∧ (calcStridesCol sh).length = sh.length ∧
    (∀ c ∈ allCoords sh, 0 ≤ dot c (calcStridesCol sh) ∧ dot c (calcStridesCol sh) < prod sh) ∧
    ((allCoords sh).map (fun c => dot c (calcStridesCol sh))).Nodup := by
  have e : calcStridesCol sh = prefixProds 1 sh := by simp [calcStridesCol, hse, hv]
  rw [e]
  refine ⟨rfl, prefixProds_length sh 1, fun c hc => colRank_bounds' sh c (C17compat.allCoords_inBox _ _ hc), ?_⟩
  have : (fun c => dot c (prefixProds 1 sh)) = colRank sh := by funext c; rfl
  rw [this]
  refine List.pairwise_map.mpr ((allCoords_nodup sh hp).imp_of_mem ?_)
  intro x y hx hy hne hxy
  exact hne (colRank_inj' sh x y (C17compat.allCoords_inBox _ _ hx) (C17compat.allCoords_inBox _ _ hy) hxy)

/-! ### `Reshape` of a tensor that owns its data without holding it in the default layout -/

theorem compactLen_eq (t : Dense) : compactLen t = (totalSize t.shape).toNat := by
  unfold compactLen
  cases hs : t.shape with
  | nil => simp [totalSize, prod]
  | cons _ _ => simp

/-- `Reshape` on such a tensor (not a view, nothing pending): whenever the call returns it has succeeded — never an
    error, never half-done — and the tensor has the requested shape with the default strides of its data order over
    a buffer of its own, exactly `size` cells long, that did not exist before; it is flagged contiguous; no cell
    that existed before is changed. -/
theorem reshape_compacts' (st : St) (t : Dense) (dims : List Int)
    (hsz : totalSize t.shape = totalSize dims) (hold : t.old = none) (hv : t.view = false)
    (hnd : t.hasDefaultLayout = false) (hne : dims ≠ []) (hnn : 0 ≤ totalSize dims)
    (res : Dense.ReshapeRes) (h : t.reshape st dims = .ok res) :
    ∃ st' t', res = .ok st' t' ∧ t'.ap.shape = dims ∧ t'.ap.strides = Dense.defaultStrides t.ap.o.col dims ∧
      t'.ap.o = { col := t.ap.o.col } ∧
      t'.win = ⟨st.heap.size, 0, (totalSize dims).toNat, (totalSize dims).toNat⟩ ∧ t'.view = false ∧ t'.old = none ∧
      t'.dt = t.dt ∧ st'.heap.size = st.heap.size + 1 ∧ (∀ b, b < st.heap.size → st'.heap[b]? = st.heap[b]?) := by
  have h1 : (totalSize t.shape != totalSize dims) = false := by simpa using hsz
  have h2 : dims.isEmpty = false := by cases dims <;> simp_all
  unfold Dense.reshape at h
  simp only [h1, hold, hv, hnd, Bool.false_eq_true, if_false, Bool.false_and, Option.isSome_none, Bool.not_false,
    Bool.and_self, if_true, bind, Except.bind, pure, Except.pure] at h
  unfold Dense.compact at h
  simp only [bind, Except.bind, pure, Except.pure] at h
  cases hc : t.compacted st with
  | error e => rw [hc] at h; cases h
  | ok p =>
    obtain ⟨st1, c⟩ := p
    rw [hc] at h
    obtain ⟨cap, cwin, cdt, _, _, _, _, hsz1, hfr⟩ := compacted_spec st st1 t c hc
    have hlen : compactLen t = (totalSize dims).toNat := by rw [compactLen_eq, hsz]
    simp only [hv, cwin, hlen, h2, Bool.not_false, Bool.true_and, Bool.false_eq_true, if_false] at h
    have hpos : ((totalSize dims).toNat : Int) = totalSize dims := Int.toNat_of_nonneg hnn
    simp only [hpos, bne_self_eq_false, Bool.false_eq_true, if_false, Bool.false_and, Except.ok.injEq] at h
    subst h
    have hcol : c.ap.o.col = t.ap.o.col := by rw [cap]
    refine ⟨st1, _, rfl, rfl, ?_, ?_, rfl, ?_, ?_, rfl, hsz1, hfr⟩
    · show Dense.defaultStrides c.ap.o.col dims = _
      rw [hcol]
    · show c.ap.o = _
      rw [cap]
    · rfl
    · exact hold

/-- … and when the tensor needs its iterator (it is flagged non-contiguous) and is unmasked, the call does succeed and
    **the flat element sequence in the tensor's own data order is preserved**: the cell of the new buffer at the
    default address of coordinate `x` (the position of `x` in that sequence) holds the element the tensor had at `x`.
    `hdl/hdr/hdinj`: the default strides of the data order address `size` distinct cells (`rowDefault_wf`,
    `colDefault_wf`). -/
theorem reshape_keeps_sequence' (st : St) (t : Dense) (dims : List Int)
    (hsz : totalSize t.shape = totalSize dims) (hold : t.old = none) (hv : t.view = false)
    (hnd : t.hasDefaultLayout = false) (hne : dims ≠ []) (hne' : t.ap.shape ≠ [])
    (hit : t.requiresIterator = true) (hnm : t.mask = none) (hlen0 : t.win.len ≠ 0)
    (hl : t.ap.strides.length = t.ap.shape.length) (hp : ∀ d ∈ t.ap.shape, 0 < d)
    (hcap : t.win.len ≤ t.win.cap) (hbuf : t.win.buf < st.heap.size)
    (hr : ∀ c ∈ allCoords t.ap.shape, 0 ≤ dot c t.ap.strides ∧ dot c t.ap.strides < (t.win.len : Int))
    (hs : Has st t.win.buf t.win.off t.win.len)
    (hdl : (Dense.defaultStrides t.ap.o.col t.ap.shape).length = t.ap.shape.length)
    (hdr : ∀ c ∈ allCoords t.ap.shape, 0 ≤ dot c (Dense.defaultStrides t.ap.o.col t.ap.shape) ∧
      dot c (Dense.defaultStrides t.ap.o.col t.ap.shape) < prod t.ap.shape)
    (hdinj : ((allCoords t.ap.shape).map (fun c => dot c (Dense.defaultStrides t.ap.o.col t.ap.shape))).Nodup) :
    ∃ st' t', t.reshape st dims = .ok (.ok st' t') ∧ t'.ap.shape = dims ∧
      t'.ap.strides = Dense.defaultStrides t.ap.o.col dims ∧
      t'.win = ⟨st.heap.size, 0, (totalSize dims).toNat, (totalSize dims).toNat⟩ ∧ t'.mask = none ∧
      (∀ x ∈ allCoords t.ap.shape,
        cell st' st.heap.size (dot x (Dense.defaultStrides t.ap.o.col t.ap.shape)).toNat =
          some (cellD st t.win.buf (t.win.off + (dot x t.ap.strides).toNat))) ∧
      (∀ b k, b < st.heap.size → cell st' b k = cell st b k) := by
  have hnn : 0 ≤ totalSize dims := by
    rw [← hsz]; exact Int.le_of_lt (prod_pos _ hp)
  obtain ⟨st1, c, hc, hcm, hvals, hfr⟩ := compacted_by_coordinate st t hit hnm hlen0 hne' hl hp hcap hbuf hr hs hdl hdr hdinj
  obtain ⟨cap, cwin, _⟩ := compacted_spec st st1 t c hc
  have h1 : (totalSize t.shape != totalSize dims) = false := by simpa using hsz
  have h2 : dims.isEmpty = false := by cases dims <;> simp_all
  have hlen : compactLen t = (totalSize dims).toNat := by rw [compactLen_eq, hsz]
  have hpos : ((totalSize dims).toNat : Int) = totalSize dims := Int.toNat_of_nonneg hnn
  have hcol : c.ap.o.col = t.ap.o.col := by rw [cap]
  let ap' : AP := { t.ap with shape := dims, strides := Dense.defaultStrides t.ap.o.col dims, fin := true, o := c.ap.o }
  let t' : Dense := { t with win := c.win, mask := c.mask, ap := ap' }
  refine ⟨st1, t', ?_, rfl, rfl, ?_, hcm, hvals, hfr⟩
  · unfold Dense.reshape
    simp only [h1, hold, hv, hnd, Bool.false_eq_true, if_false, Bool.false_and, Option.isSome_none, Bool.not_false,
      Bool.and_self, if_true, bind, Except.bind, pure, Except.pure]
    unfold Dense.compact
    simp only [bind, Except.bind, pure, Except.pure, hc, hv, cwin, hlen, h2, Bool.not_false, Bool.true_and,
      Bool.false_eq_true, if_false, hpos, bne_self_eq_false, Bool.false_and, hcol]
    simp only [t', ap', cwin, hlen, hv]
  · show c.win = _
    rw [cwin, hlen]

/-! ### the compact copy read left to right (what the reduction kernels are handed) -/

/-- the compact copy of a tensor of non-negative size has the default layout -/
theorem compacted_hasDefaultLayout (st st' : St) (t c : Dense) (h : t.compacted st = .ok (st', c))
    (hnn : 0 ≤ totalSize t.shape) : c.hasDefaultLayout = true := by
  obtain ⟨cap, cwin, _⟩ := compacted_spec st st' t c h
  unfold Dense.hasDefaultLayout
  rw [Dense.shape, cap, cwin, compactLen_eq]
  simp only [Dense.shape] at hnn ⊢
  simp
  omega

/-- **The storage window of the compact copy of a row-major tensor, read left to right, is the row-major listing
    of the tensor's elements** (the receiver needs its iterator and is unmasked; any rank, any strides): the
    reduction kernels, which fold the window as it is, fold exactly the elements. -/
theorem compacted_rawCells_rowMajor (st : St) (t : Dense) (hrow : t.ap.o.col = false)
    (hit : t.requiresIterator = true) (hnm : t.mask = none) (hlen0 : t.win.len ≠ 0) (hne : t.ap.shape ≠ [])
    (hl : t.ap.strides.length = t.ap.shape.length) (hp : ∀ d ∈ t.ap.shape, 0 < d)
    (hcap : t.win.len ≤ t.win.cap) (hbuf : t.win.buf < st.heap.size)
    (hr : ∀ c ∈ allCoords t.ap.shape, 0 ≤ dot c t.ap.strides ∧ dot c t.ap.strides < (t.win.len : Int))
    (hs : Has st t.win.buf t.win.off t.win.len) :
    ∃ st' c, t.compacted st = .ok (st', c) ∧ c.shape = t.shape ∧ c.dt = t.dt ∧ c.mask = none ∧
      c.rawCells st' = .ok ((allCoords t.ap.shape).map
        (fun x => cellD st t.win.buf (t.win.off + (dot x t.ap.strides).toNat))) ∧
      (∀ b k, b < st.heap.size → cell st' b k = cell st b k) := by
  obtain ⟨w1, w2, w3⟩ := rowDefault_wf t.ap.shape hp
  have e : Dense.defaultStrides t.ap.o.col t.ap.shape = calcStrides t.ap.shape := by
    simp [Dense.defaultStrides, hrow]
  obtain ⟨st', c, hc, hcm, hvals, hfr⟩ := compacted_by_coordinate st t hit hnm hlen0 hne hl hp hcap hbuf hr hs
    (by rw [e]; exact w1) (by rw [e]; exact w2) (by rw [e]; exact w3)
  obtain ⟨cap, cwin, cdt, _⟩ := compacted_spec st st' t c hc
  have hnemp : t.shape.isEmpty = false := by
    unfold Dense.shape; cases hsh : t.ap.shape with
    | nil => exact absurd hsh hne
    | cons _ _ => rfl
  have hlen : compactLen t = (prod t.ap.shape).toNat := by
    unfold compactLen; rw [hnemp]; simp [Dense.shape, totalSize]
  refine ⟨st', c, hc, by rw [Dense.shape, cap], cdt, hcm, ?_, hfr⟩
  unfold Dense.rawCells
  rw [cwin, hlen]
  simp only
  rw [← C17compat.allCoords_map_rowRank _ hp, C17compat.mapM_map']
  apply mapM_ok_of
  intro x hx
  have hb := rowRank_bounds' t.ap.shape x (C17compat.allCoords_inBox _ _ hx)
  have hpp : 0 < prod t.ap.shape := prod_pos _ hp
  apply St.get_of_cell hb.1
  · simp only; omega
  · simp only [Nat.zero_add]
    have := hvals x hx
    rw [e] at this
    exact this

/-! ### `Transpose()` of a tensor that owns its data, the array not being in the default layout of the shape it had
    before `T()` -/

theorem copyPrefix_self : ∀ (l : List Int), Dense.copyPrefix l l = l
  | [] => rfl
  | x :: xs => by simp [Dense.copyPrefix, copyPrefix_self xs]

/-- **`Transpose()` collects the elements by coordinate into a new array** when the tensor owns its data and the
    array is not in the default layout of the pattern the pending transpose started from (the clone of a
    non-contiguous view, the `SafeT()` copy of a lazily transposed tensor — after the repair of findings F16 / F120;
    neither transposition engine, copying or in place, is asked): the call succeeds; the pending transpose is gone;
    the tensor keeps its (transposed) shape under the default strides of its data order over a buffer of its own of
    exactly `size` cells; the cell at the default address of every coordinate holds the element the lazily transposed
    tensor had at that coordinate — no logical element changes and the storage is in the logical order of the
    transposed tensor; no cell that existed before is changed. Any rank, any pattern, unmasked. -/
theorem transpose_compacts' (st : St) (t : Dense) (o : AP)
    (hold : t.old = some o) (hv : t.view = false) (hnd : Dense.isDefaultLayout o t.win.len = false)
    (hns : isScalar t.shape = false)
    (hnm : t.mask = none) (hlen0 : t.win.len ≠ 0) (hlen1 : t.win.len ≠ 1)
    (hl : t.ap.strides.length = t.ap.shape.length) (hp : ∀ d ∈ t.ap.shape, 0 < d)
    (hcap : t.win.len ≤ t.win.cap) (hbuf : t.win.buf < st.heap.size)
    (hr : ∀ c ∈ allCoords t.ap.shape, 0 ≤ dot c t.ap.strides ∧ dot c t.ap.strides < (t.win.len : Int))
    (hs : Has st t.win.buf t.win.off t.win.len)
    (hdl : (Dense.defaultStrides t.ap.o.col t.ap.shape).length = t.ap.shape.length)
    (hdr : ∀ c ∈ allCoords t.ap.shape, 0 ≤ dot c (Dense.defaultStrides t.ap.o.col t.ap.shape) ∧
      dot c (Dense.defaultStrides t.ap.o.col t.ap.shape) < prod t.ap.shape)
    (hdinj : ((allCoords t.ap.shape).map (fun c => dot c (Dense.defaultStrides t.ap.o.col t.ap.shape))).Nodup) :
    ∃ st' t', Dense.transpose st t = .ok (st', t') ∧ t'.old = none ∧ t'.tw = none ∧ t'.ap.shape = t.ap.shape ∧
      t'.ap.strides = Dense.defaultStrides t.ap.o.col t.ap.shape ∧ t'.ap.o = { col := t.ap.o.col } ∧
      t'.win = ⟨st.heap.size, 0, (totalSize t.shape).toNat, (totalSize t.shape).toNat⟩ ∧ t'.mask = none ∧
      (∀ x ∈ allCoords t.ap.shape,
        cell st' st.heap.size (dot x (Dense.defaultStrides t.ap.o.col t.ap.shape)).toNat =
          some (cellD st t.win.buf (t.win.off + (dot x t.ap.strides).toNat))) ∧
      (∀ b k, b < st.heap.size → cell st' b k = cell st b k) := by
  have hne : t.ap.shape ≠ [] := by
    intro e; unfold isScalar Dense.shape at hns; rw [e] at hns; simp at hns
  have hit : t.requiresIterator = true := by
    unfold Dense.requiresIterator
    simp [hlen1, hold]
  obtain ⟨st1, c, hc, hcm, hvals, hfr⟩ := compacted_by_coordinate st t hit hnm hlen0 hne hl hp hcap hbuf hr hs hdl hdr hdinj
  obtain ⟨cap, cwin, _⟩ := compacted_spec st st1 t c hc
  let str' : List Int := Dense.copyPrefix c.ap.strides (Dense.defaultStrides t.ap.o.col t.shape)
  let ap' : AP := { t.ap with o := c.ap.o, fin := true, strides := str' }
  let t' : Dense := { t with win := c.win, mask := c.mask, ap := ap', old := none, tw := none }
  refine ⟨st1, t', ?_, ?_, ?_, ?_, ?_, ?_, ?_, ?_, hvals, hfr⟩
  · unfold Dense.transpose
    simp only [hold, hns, hv, hnd, Bool.false_eq_true, if_false, Bool.not_false, Bool.and_self, if_true,
      Dense.compact, hc, bind, Except.bind, pure, Except.pure]
    simp only [t', ap', str', hv]
  all_goals simp only [t', ap', str', cap, cwin, hcm, compactLen_eq, Dense.shape, copyPrefix_self]

end TM
