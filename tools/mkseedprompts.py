#!/usr/bin/env python3
"""tools/mkseedprompts.py <round letter> <outdir>: writes one self-contained task description per property for the
independent sub-agents that seed breaking changes (they get only the property text and the one-line summaries of the
earlier seeds of that property, nothing else from /verif)."""
import json, os, sys
SUF=sys.argv[1]  # letter of this round, e.g. f
OUT=sys.argv[2]  # directory for the prompt files
os.makedirs(OUT, exist_ok=True)
PREV=[chr(c) for c in range(ord('a'), ord(SUF))]
NUM={1:'One',2:'Two',3:'Three',4:'Four',5:'Five',6:'Six',7:'Seven'}
props={json.loads(l)['id']:json.loads(l) for l in open('/verif/properties.jsonl')}
for pid in sorted(props):
    d=props[pid]
    prevs=[]
    for suf in PREV:
        try:
            m=json.load(open(f'/verif/seeded/{pid}-{suf}/meta.json')); prevs.append((m.get('short') or m['summary'][:200]))
        except Exception: pass
    prevtxt='\n'.join(f'  ({i+1}) {p}' for i,p in enumerate(prevs))
    race = ' (For this property the demo test may need `go test -race`; if so record "demo_race": true in meta.json.)' if pid=='C18' else ''
    tagnote = ' (This property also covers the alternative builds selected by the build tags `inplacetranspose` and `noasm`; if your demo needs a tag, record e.g. "demo_tags": "inplacetranspose" in meta.json.)' if pid in ('C20','C03') else ''
    txt=f'''You are helping to evaluate a verification effort for the Go library gorgonia/tensor (source in /repo, a git repository; do NOT modify /repo's working tree itself and do NOT read anything under /verif).

Your task: produce ONE realistic, subtle code change ("seeded fault") to the library that BREAKS the following semantic property, while the library still compiles and its existing test suite still passes. The change must look like something a developer could plausibly commit, not sabotage with obviously silly code.

PROPERTY {pid}: {d['title']}
Statement: {d['statement']}
Quantified over: {d['quantifier']['text']}
Anchored in files: {', '.join(d['anchors']['files'])}
Mechanisms: {json.dumps(d['anchors']['mechanism'])}
Observed at: {json.dumps(d['anchors']['observe_at'])}

{NUM.get(len(prevs),str(len(prevs)))} earlier changes for this property exist; yours must differ from ALL of them in function and mechanism:
{prevtxt}
Those were found by checks that run many generated programs against a model. To be worth anything, yours must hide where such checks are least likely to look: a clause of the statement above that none of the earlier changes touches; a helper several operations share but only in a corner (a particular rank, a length-one or length-zero extent, the LAST element, an offset view whose window starts late, a tensor that was reshaped or cloned first); a combination of two features (mask + transposition, column-major + slicing, reuse + scalar operand, pool on + returned tensor + reuse); state left behind for the next call; an element type with its own code path (bool, string, complex64, uintptr, int8 overflow); the method form vs the package-function form of an operation.{race}{tagnote}

Procedure (follow exactly):
1. Create your own scratch worktree: `git -C /repo worktree add /tmp/seed_{pid}_{SUF} HEAD` and work ONLY there. Never use `git stash`. Environment for every shell: `export GOFLAGS=-mod=mod GOPROXY=off GOSUMDB=off GOTOOLCHAIN=local` (no network).
2. Read the anchored code, pick a change, make it.
3. It must build (`go build ./...`) and the suite must still pass: `go test -vet=off -count=1 . ./internal/... ./native/...` — the only failure allowed is TestSaveLoadNumpy (fails on the unchanged tree too; TestDense_SVD is flaky on the unchanged tree as well). If another test fails, choose a different change.
4. Write a demonstration test file `zz_demo_test.go` (package tensor, one function `func TestDemo{pid}{SUF}(t *testing.T)`) that PASSES on the unchanged tree and FAILS with your change, using only the public API, showing a concrete input on which the property is violated. Verify both directions (`git diff > patch; git checkout -- <files>` / `git apply`, not stash).
5. Deliver into /tmp/seedout_{pid}_{SUF}/ (create it): `patch.diff` (`git diff` of the library change only, WITHOUT the demo file; must apply with `git apply` to a clean checkout of /repo HEAD), `zz_demo_test.go`, and `meta.json` with keys: "property" ("{pid}"), "summary" (2-4 sentences), "short" (one line, at most 100 characters), "needs" (what input exposes it), "files" (list), "ran" (commands and outcomes).
6. Remove your worktree: `git -C /repo worktree remove --force /tmp/seed_{pid}_{SUF}`.
Report in at most 8 lines.'''
    open(f'{OUT}/{pid}.txt','w').write(txt)
print('ok')
