/-
  C18 — "Goroutines that operate on disjoint tensors, or that only read tensors they share, never
  race on the shared tensors or on library-internal state, and each obtains exactly the result it
  would obtain running alone, under every interleaving."

  Check:  (cd /verif/lean && lake build TensorModel.Props.C18)

  Lean carries the *logic* of the claim, over the interleaving semantics of `TensorModel.Conc`
  (threads = deterministic sequential programs over abstract locations; schedules = `List Nat`):

  * `conflictFreeB_sound`       the executable footprint checker implies `conflictFree`;
  * `interleave_deterministic`  conflict-free threads, EVERY complete schedule: every thread's result
                                is its solo result, and the final memory is that of running the
                                threads one after another, in any order (any number of threads, any
                                program length);
  * `no_race`                   no configuration reachable under any schedule has a data race;
  * `readonly_sharing_ok`       the property's own hypothesis (write only what you own, read what
                                you own or what nobody writes) implies conflict-freedom;
                                `disjoint_ok` is the special case without sharing, and
                                `c18` puts the pieces together;
  * `write_sharing_breaks`      the converse witness: one writer on a shared location suffices to
                                make a reader's result schedule-dependent.

  The runtime half (the implementation's accesses *are* such footprints; the synchronised pools are
  race-free under the Go memory model) is the business of the race-detector harness, not of Lean.
-/
import TensorModel.Proofs.Conc
namespace TM.C18
open TM.Conc

/-- the Bool checker on static footprints is sound -/
theorem conflictFreeB_sound (ps : List (List Action)) (h : conflictFreeB ps = true) :
    conflictFree ps :=
  conflictFree_of_pairwise (conflictFreeB_pairwise ps h)

/-- Conflict-free threads: under EVERY complete schedule `σ`
    (1) each thread's result is the result it gets when run alone from the same initial memory;
    (2) the final memory is the memory after running the threads sequentially one after another;
    (3) … in any order. -/
theorem interleave_deterministic (ps : List (List Action)) (m0 : Mem) (σ : List Nat)
    (hcf : conflictFree ps) (hσ : Complete σ (init ps m0)) :
    (∀ i (hi : i < ps.length), result (runSched σ (init ps m0)) i = (solo ps[i] m0).2) ∧
    (runSched σ (init ps m0)).mem = seqRun ps m0 ∧
    (∀ ps', ps'.Perm ps → seqRun ps' m0 = seqRun ps m0) := by
  have hpw := pairwise_of_conflictFree hcf
  obtain ⟨ha, hb, hc⟩ := run_char σ (init ps m0) (CFc_init m0 hcf) hσ
  obtain ⟨sb, sc⟩ := seqRun_char ps m0 hpw
  refine ⟨fun i hi => ?_, ?_, fun ps' hp => seqRun_perm m0 hp hpw⟩
  · rw [result, ha i, init_prog_lt hi]; rfl
  · funext l
    by_cases hw : ∃ i, ∃ hi : i < ps.length, l ∈ writes ps[i]
    · obtain ⟨i, hi, hl⟩ := hw
      rw [hb i l (by rw [init_prog_lt hi]; exact hl), init_prog_lt hi,
        sb ps[i] (List.getElem_mem hi) l hl]; rfl
    · rw [hc l, sc l]
      · rfl
      · intro p hp hl
        obtain ⟨i, hi, rfl⟩ := List.getElem_of_mem hp
        exact hw ⟨i, hi, hl⟩
      · intro i hl
        by_cases hi : i < ps.length
        · rw [init_prog_lt hi] at hl; exact hw ⟨i, hi, hl⟩
        · rw [init_prog_ge (Nat.le_of_not_lt hi)] at hl; cases hl

/-- two complete schedules are indistinguishable -/
theorem schedule_irrelevant (ps : List (List Action)) (m0 : Mem) (σ τ : List Nat)
    (hcf : conflictFree ps) (hσ : Complete σ (init ps m0)) (hτ : Complete τ (init ps m0)) :
    (runSched σ (init ps m0)).mem = (runSched τ (init ps m0)).mem ∧
    ∀ i, i < ps.length → result (runSched σ (init ps m0)) i = result (runSched τ (init ps m0)) i := by
  obtain ⟨a, b, _⟩ := interleave_deterministic ps m0 σ hcf hσ
  obtain ⟨a', b', _⟩ := interleave_deterministic ps m0 τ hcf hτ
  exact ⟨b.trans b'.symm, fun i hi => (a i hi).trans (a' i hi).symm⟩

/-- complete schedules always exist (so the theorems above are never vacuous) … -/
theorem complete_exists (ps : List (List Action)) (m0 : Mem) :
    ∃ σ, Complete σ (init ps m0) :=
  ⟨seqSched ps, seqSched_complete ps m0⟩

/-- no reachable configuration of conflict-free threads has two threads about to touch the same
    location with at least one write — under any schedule, complete or not -/
theorem no_race (ps : List (List Action)) (m0 : Mem) (σ : List Nat) (hcf : conflictFree ps) :
    ¬ Race (runSched σ (init ps m0)) :=
  no_race_of_CFc (CFc_run σ _ (CFc_init m0 hcf))

/-- The property's hypothesis in its own words. `owner l = some i`: location `l` belongs to a tensor
    private to thread `i`; `owner l = none`: `l` belongs to a shared tensor (or to library state)
    that nobody writes. Threads that write only their own locations and read only their own or the
    shared read-only ones are conflict-free. -/
theorem readonly_sharing_ok (ps : List (List Action)) (owner : Loc → Option Nat)
    (hw : ∀ i (hi : i < ps.length), ∀ l ∈ writes ps[i], owner l = some i)
    (hr : ∀ i (hi : i < ps.length), ∀ l ∈ reads ps[i], owner l = some i ∨ owner l = none) :
    conflictFree ps := by
  intro i j hi hj hij l hl
  have hi' := hw i hi l hl
  refine ⟨fun h => ?_, fun h => ?_⟩
  · have := hw j hj l h
    rw [hi'] at this; exact hij (Option.some.inj this)
  · rcases hr j hj l h with h' | h'
    · rw [hi'] at h'; exact hij (Option.some.inj h')
    · rw [hi'] at h'; cases h'

/-- threads on disjoint tensors (every access is to a location the thread owns) -/
theorem disjoint_ok (ps : List (List Action)) (owner : Loc → Option Nat)
    (hw : ∀ i (hi : i < ps.length), ∀ l ∈ writes ps[i], owner l = some i)
    (hr : ∀ i (hi : i < ps.length), ∀ l ∈ reads ps[i], owner l = some i) :
    conflictFree ps :=
  readonly_sharing_ok ps owner hw (fun i hi l hl => Or.inl (hr i hi l hl))

/-- C18, assembled: disjoint or read-only-shared ⇒ no race, and solo results under every
    interleaving. -/
theorem c18 (ps : List (List Action)) (owner : Loc → Option Nat) (m0 : Mem) (σ : List Nat)
    (hw : ∀ i (hi : i < ps.length), ∀ l ∈ writes ps[i], owner l = some i)
    (hr : ∀ i (hi : i < ps.length), ∀ l ∈ reads ps[i], owner l = some i ∨ owner l = none) :
    (∀ τ, ¬ Race (runSched τ (init ps m0))) ∧
    (Complete σ (init ps m0) →
      (∀ i (hi : i < ps.length), result (runSched σ (init ps m0)) i = (solo ps[i] m0).2) ∧
      (runSched σ (init ps m0)).mem = seqRun ps m0) := by
  have hcf := readonly_sharing_ok ps owner hw hr
  refine ⟨fun τ => no_race ps m0 τ hcf, fun hσ => ?_⟩
  obtain ⟨a, b, _⟩ := interleave_deterministic ps m0 σ hcf hσ
  exact ⟨a, b⟩

/-! ### non-vacuity: a concrete instance meeting the hypotheses

  Two goroutines computing into their own result tensors (buffers 1 and 2) from a shared input
  tensor (metadata field 0 of tensor 0 and cell 0 of buffer 0), which both only read. -/

def shX : Loc := .tensorField 0 0
def shC : Loc := .cell 0 0

def okThreads : List (List Action) :=
  [ [.read shX, .read shC, .write (.cell 1 0) (fun tr => tr.foldl (· + ·) 0)],
    [.read shC, .write (.cell 2 0) (fun tr => 2 * tr.foldl (· + ·) 0), .read (.cell 2 0)] ]

def okOwner : Loc → Option Nat
  | .cell 1 _ => some 0
  | .cell 2 _ => some 1
  | _ => none

def okMem : Mem := fun l => if l = shX then 3 else if l = shC then 4 else 0

example : conflictFreeB okThreads = true := by decide

example : (∀ i (hi : i < okThreads.length), ∀ l ∈ writes okThreads[i], okOwner l = some i) ∧
    (∀ i (hi : i < okThreads.length), ∀ l ∈ reads okThreads[i],
        okOwner l = some i ∨ okOwner l = none) := by
  refine ⟨fun i hi => ?_, fun i hi => ?_⟩
  · match i, hi with
    | 0, _ => simp [okThreads, writes, okOwner]
    | 1, _ => simp [okThreads, writes, okOwner]
  · match i, hi with
    | 0, _ => simp [okThreads, reads, okOwner, shX, shC]
    | 1, _ => simp [okThreads, reads, okOwner, shX, shC]

/-- an interleaved complete schedule of `okThreads` … -/
theorem okSched_complete : Complete [1, 0, 1, 0, 0, 1] (init okThreads okMem) := by
  intro i
  match i with
  | 0 => rfl
  | 1 => rfl
  | _ + 2 => rfl

/-- … on which the results are indeed the solo ones (what the theorem predicts, evaluated) -/
example : result (runSched [1, 0, 1, 0, 0, 1] (init okThreads okMem)) 0 = [3, 4] ∧
    result (runSched [1, 0, 1, 0, 0, 1] (init okThreads okMem)) 1 = [4, 8] ∧
    (solo okThreads[0] okMem).2 = [3, 4] ∧ (solo okThreads[1] okMem).2 = [4, 8] := by decide

/-! ### the converse: write-sharing breaks it

  Shape of the known defect "`Dot(vector, matrix)` transposes and un-transposes the caller's shared
  matrix" (`b.T(); defer b.UT()` in the vector·matrix path): goroutine 0, which was only supposed to
  *read* the shared matrix, temporarily rewrites one of its metadata fields (`shX`: 0 → 1 → 0) and
  restores it; goroutine 1 reads that field. Sequentially nothing is visible (the field is
  restored), but a schedule that runs the read between the two writes gives goroutine 1 a result it
  could never obtain alone. -/

def badThreads : List (List Action) :=
  [ [.write shX (fun _ => 1), .write shX (fun _ => 0)],   -- b.T() … b.UT()
    [.read shX] ]                                          -- another goroutine using b

def zeroMem : Mem := fun _ => 0

theorem write_sharing_breaks :
    conflictFreeB badThreads = false ∧
    Complete [0, 0, 1] (init badThreads zeroMem) ∧ Complete [0, 1, 0] (init badThreads zeroMem) ∧
    result (runSched [0, 0, 1] (init badThreads zeroMem)) 1 = [0] ∧
    result (runSched [0, 1, 0] (init badThreads zeroMem)) 1 = [1] ∧
    (solo badThreads[1] zeroMem).2 = [0] ∧
    Race (init badThreads zeroMem) := by
  refine ⟨by decide, ?_, ?_, by decide, by decide, by decide, ?_⟩
  · intro i
    match i with
    | 0 => rfl
    | 1 => rfl
    | _ + 2 => rfl
  · intro i
    match i with
    | 0 => rfl
    | 1 => rfl
    | _ + 2 => rfl
  · exact ⟨0, 1, shX, true, false, by decide, rfl, rfl, Or.inl rfl⟩

/-- hence the conflict-freedom hypothesis of `interleave_deterministic` cannot be dropped -/
theorem interleave_needs_conflictFree :
    ¬ (∀ (ps : List (List Action)) (m0 : Mem) (σ : List Nat), Complete σ (init ps m0) →
        ∀ i (hi : i < ps.length), result (runSched σ (init ps m0)) i = (solo ps[i] m0).2) := by
  intro h
  have := h badThreads zeroMem [0, 1, 0] write_sharing_breaks.2.2.1 1 (by decide)
  rw [write_sharing_breaks.2.2.2.2.1, write_sharing_breaks.2.2.2.2.2.1] at this
  exact absurd this (by decide)

end TM.C18
