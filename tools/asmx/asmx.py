#!/usr/bin/env python3
"""asmx - translate a (tiny) Plan-9 amd64 assembly function into a Lean instruction list.

usage: asmx.py <file.s> <out.lean>

The output defines `def <name>Asm : List TM.Asm.Instr` (name taken from the TEXT
symbol) over the instruction set of lean/TensorModel/Asm.lean.  Jump targets are
resolved to indices into the list; labels stay in the list as no-op
`Instr.label "<name>"` so that list positions follow the text.

Anything that is not understood - mnemonic, operand form, operand count, a frame
reference whose name/offset does not match the Go declaration
`func divmod(a, b int) (q, r int)`, an undefined or duplicate label - becomes
`Instr.unknown "<text>"`, on which the Lean interpreter is stuck, so the proofs
in Props/C20.lean fail loudly instead of the translator guessing.

The output file is rewritten only when its content changes.  Stdlib only.
"""
import os
import re
import sys

REGS = ["AX", "BX", "CX", "DX", "SI", "DI", "BP", "SP",
        "R8", "R9", "R10", "R11", "R12", "R13", "R14", "R15"]

# frame layout of `func divmod(a, b int) (q, r int)` on amd64 (ABI0)
FRAME = {"a": 0, "b": 8, "q": 16, "r": 24}

IMM_RE = re.compile(r"^\$(-?(?:0x[0-9a-fA-F]+|[0-9]+))$")
FRAME_RE = re.compile(r"^([A-Za-z_][A-Za-z0-9_]*)\+([0-9]+)\(FP\)$")
LABEL_RE = re.compile(r"^([A-Za-z_][A-Za-z0-9_]*):\s*(.*)$")
TEXT_RE = re.compile(r"^TEXT\s+[^\s(]*?([A-Za-z_][A-Za-z0-9_]*)\(SB\)\s*,(.*)$")
IDENT_RE = re.compile(r"^[A-Za-z_][A-Za-z0-9_]*$")


class Unknown(Exception):
    pass


def lean_str(s):
    return '"' + s.replace("\\", "\\\\").replace('"', '\\"') + '"'


def operand(tok):
    """Operand text -> Lean `Opd` term."""
    tok = tok.strip()
    if tok in REGS:
        return "(.reg .%s)" % tok
    m = IMM_RE.match(tok)
    if m:
        v = int(m.group(1), 0)
        if not -(2 ** 63) <= v < 2 ** 64:
            raise Unknown("immediate out of range")
        return "(.imm (%d))" % v
    m = FRAME_RE.match(tok)
    if m:
        name, off = m.group(1), int(m.group(2))
        if FRAME.get(name) != off:
            raise Unknown("frame reference does not match the Go signature")
        return "(.frame .%s)" % name
    raise Unknown("operand form")


def split_operands(rest):
    rest = rest.strip()
    if not rest:
        return []
    return [t.strip() for t in rest.split(",")]


def strip_comment(line):
    i = line.find("//")
    return (line if i < 0 else line[:i]).strip()


def parse(text):
    """-> (function name, [(kind, payload, source text)])
    kind: 'label' (payload = name), 'ins' (payload = (mnemonic, [operand text]))."""
    name = None
    items = []
    for raw in text.splitlines():
        line = strip_comment(raw)
        if not line or line.startswith("#include"):
            continue
        m = TEXT_RE.match(line)
        if m:
            if name is not None:
                items.append(("ins", ("TEXT", [line]), line))  # second function: not supported
            else:
                name = m.group(1)
            continue
        m = LABEL_RE.match(line)
        if m:
            items.append(("label", m.group(1), m.group(1) + ":"))
            line = m.group(2).strip()
            if not line:
                continue
        parts = line.split(None, 1)
        mnem = parts[0]
        ops = split_operands(parts[1] if len(parts) > 1 else "")
        items.append(("ins", (mnem, ops), " ".join(line.split())))
    return name, items


def translate(items):
    labels = {}
    dup = set()
    for idx, (kind, payload, _) in enumerate(items):
        if kind == "label":
            if payload in labels:
                dup.add(payload)
            labels[payload] = idx

    def target(ops):
        # `JEQ $1, label`: the optional first operand is the (ignored) branch
        # prediction hint of the Plan-9 assemblers; only $0/$1 are accepted.
        if len(ops) == 2 and ops[0] in ("$0", "$1"):
            ops = ops[1:]
        if len(ops) != 1 or not IDENT_RE.match(ops[0]) or ops[0] in REGS:
            raise Unknown("jump operand")
        lab = ops[0]
        if lab not in labels or lab in dup:
            raise Unknown("undefined or duplicate label")
        return labels[lab]

    out = []
    for kind, payload, src in items:
        if kind == "label":
            if payload in dup:
                out.append(".unknown %s" % lean_str(src))
            else:
                out.append(".label %s" % lean_str(payload))
            continue
        mnem, ops = payload
        try:
            if mnem == "MOVQ" and len(ops) == 2:
                out.append(".movq %s %s" % (operand(ops[0]), operand(ops[1])))
            elif mnem == "CMPQ" and len(ops) == 2:
                out.append(".cmpq %s %s" % (operand(ops[0]), operand(ops[1])))
            elif mnem == "JEQ":
                out.append(".jeq %d" % target(ops))
            elif mnem == "JNE":
                out.append(".jne %d" % target(ops))
            elif mnem == "JMP":
                out.append(".jmp %d" % target(ops))
            elif mnem == "CQO" and not ops:
                out.append(".cqo")
            elif mnem == "IDIVQ" and len(ops) == 1:
                out.append(".idivq %s" % operand(ops[0]))
            elif mnem == "NEGQ" and len(ops) == 1:
                out.append(".negq %s" % operand(ops[0]))
            elif mnem == "RET" and not ops:
                out.append(".ret")
            else:
                raise Unknown("mnemonic / operand count")
        except Unknown:
            out.append(".unknown %s" % lean_str(src))
    return out


def render(srcname, name, items, instrs):
    lines = []
    lines.append("-- GENERATED by tools/asmx/asmx.py from %s. DO NOT EDIT." % srcname)
    lines.append("import TensorModel.Asm")
    lines.append("namespace TM.Generated")
    lines.append("open TM.Asm")
    lines.append("")
    lines.append("/-- `TEXT ·%s(SB)` of `%s`, one entry per label / instruction. -/" % (name, srcname))
    lines.append("def %sAsm : List Instr := [" % name)
    n = len(instrs)
    for i, (ins, (_, _, src)) in enumerate(zip(instrs, items)):
        sep = "," if i + 1 < n else ""
        lines.append("  /- %2d -/ %s%s  -- %s" % (i, ins, sep, src))
    lines.append("]")
    lines.append("")
    lines.append("end TM.Generated")
    return "\n".join(lines) + "\n"


def main(argv):
    if len(argv) != 3:
        sys.stderr.write(__doc__)
        return 2
    src, dst = argv[1], argv[2]
    with open(src, "r", encoding="utf-8") as f:
        text = f.read()
    name, items = parse(text)
    if name is None:
        name = "unnamed"
    instrs = translate(items)
    content = render(os.path.basename(src), name, items, instrs)
    old = None
    if os.path.exists(dst):
        with open(dst, "r", encoding="utf-8") as f:
            old = f.read()
    nunk = sum(1 for i in instrs if i.startswith(".unknown"))
    if old == content:
        print("asmx: %s up to date (%d entries, %d unknown)" % (dst, len(instrs), nunk))
    else:
        os.makedirs(os.path.dirname(os.path.abspath(dst)), exist_ok=True)
        tmp = dst + ".tmp"
        with open(tmp, "w", encoding="utf-8") as f:
            f.write(content)
        os.replace(tmp, dst)
        print("asmx: wrote %s (%d entries, %d unknown)" % (dst, len(instrs), nunk))
    return 0


if __name__ == "__main__":
    sys.exit(main(sys.argv))
