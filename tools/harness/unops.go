package main

import (
	"fmt"
	"strings"

	"gorgonia.org/tensor"
)

type fnUn func(a tensor.Tensor, opts ...tensor.FuncOpt) (tensor.Tensor, error)

var unFns = map[string]fnUn{
	"neg": tensor.Neg, "inv": tensor.Inv, "square": tensor.Square, "cube": tensor.Cube, "exp": tensor.Exp,
	"tanh": tensor.Tanh, "log": tensor.Log, "log2": tensor.Log2, "log10": tensor.Log10, "sqrt": tensor.Sqrt,
	"cbrt": tensor.Cbrt, "invsqrt": tensor.InvSqrt, "abs": tensor.Abs, "sign": tensor.Sign,
}

// applyFn is the user function handed to Dense.Apply: x ↦ x + x in the element type.
func applyFn(dt *dtInfo) interface{} {
	switch dt.name {
	case "i":
		return func(x int) int { return x + x }
	case "i8":
		return func(x int8) int8 { return x + x }
	case "i16":
		return func(x int16) int16 { return x + x }
	case "i32":
		return func(x int32) int32 { return x + x }
	case "i64":
		return func(x int64) int64 { return x + x }
	case "u":
		return func(x uint) uint { return x + x }
	case "u8":
		return func(x uint8) uint8 { return x + x }
	case "u16":
		return func(x uint16) uint16 { return x + x }
	case "u32":
		return func(x uint32) uint32 { return x + x }
	case "u64":
		return func(x uint64) uint64 { return x + x }
	case "f32":
		return func(x float32) float32 { return x + x }
	case "f64":
		return func(x float64) float64 { return x + x }
	case "c64":
		return func(x complex64) complex64 { return x + x }
	case "c128":
		return func(x complex128) complex128 { return x + x }
	case "str":
		return func(x string) string { return x + x }
	}
	return func(x bool) bool { return x }
}

func withErr[T any](f func(T) T) func(T) (T, error) { return func(x T) (T, error) { return f(x), nil } }

// applyErrFn: the same function in the error-returning form the map kernels also accept (`func(T) (T, error)`).
func applyErrFn(dt *dtInfo) interface{} {
	switch f := applyFn(dt).(type) {
	case func(int) int:
		return withErr(f)
	case func(int8) int8:
		return withErr(f)
	case func(int16) int16:
		return withErr(f)
	case func(int32) int32:
		return withErr(f)
	case func(int64) int64:
		return withErr(f)
	case func(uint) uint:
		return withErr(f)
	case func(uint8) uint8:
		return withErr(f)
	case func(uint16) uint16:
		return withErr(f)
	case func(uint32) uint32:
		return withErr(f)
	case func(uint64) uint64:
		return withErr(f)
	case func(float32) float32:
		return withErr(f)
	case func(float64) float64:
		return withErr(f)
	case func(complex64) complex64:
		return withErr(f)
	case func(complex128) complex128:
		return withErr(f)
	case func(string) string:
		return withErr(f)
	case func(bool) bool:
		return withErr(f)
	}
	return nil
}

func (p *prog) stepUn(toks []string) *rec {
	if len(toks) < 3 {
		return simple("badprog")
	}
	op, at := toks[1], toks[2]
	rest := toks[3:]
	var params []string
	for len(rest) > 0 && strings.HasPrefix(rest[0], "#") {
		params = append(params, rest[0])
		rest = rest[1:]
	}
	opts, ok := p.parseFuncOpts(rest)
	a, adt := p.get(at)
	if !ok || a == nil {
		p.push(nil, nil)
		return simple("skip")
	}
	return p.finishTensorOp(func() (*tensor.Dense, error) {
		var ret tensor.Tensor
		var err error
		switch {
		case op == "apply":
			ret, err = a.Apply(applyFn(adt), opts...)
		case op == "applyerr":
			ret, err = a.Apply(applyErrFn(adt), opts...)
		case op == "clamp":
			if len(params) != 2 {
				return nil, fmt.Errorf("clamp needs two bounds")
			}
			lo, e1 := scalarLit(params[0], adt)
			hi, e2 := scalarLit(params[1], adt)
			if e1 != nil || e2 != nil {
				return nil, fmt.Errorf("bad bounds")
			}
			ret, err = tensor.Clamp(a, lo, hi, opts...)
		default:
			fn := unFns[op]
			if fn == nil {
				return nil, fmt.Errorf("unknown unary op")
			}
			ret, err = fn(a, opts...)
		}
		if err != nil {
			return nil, err
		}
		d, ok := ret.(*tensor.Dense)
		if !ok {
			return nil, fmt.Errorf("not dense")
		}
		return d, nil
	})
}
