package main

import (
	"fmt"
	"runtime"
	"strings"

	"gorgonia.org/tensor"
)

func init() {
	extSteps["ret"] = func(p *prog, idx int, toks []string) *rec {
		t, _ := p.get(toks[1])
		if t == nil {
			return simple("skip")
		}
		res := guard(func() error { tensor.ReturnTensor(t); return nil })
		for i, v := range p.vars {
			if v == t {
				p.vars[i] = nil
			}
		}
		return simple(res)
	}
	// the caller reuses every slice it handed to the library earlier
	extSteps["scribble"] = func(p *prog, idx int, toks []string) *rec {
		for i, s := range p.held {
			for j := range s {
				s[j] = -7
			}
			p.heldCopy[i] = append([]int(nil), s...)
		}
		return simple("ok")
	}
	extSteps["pool"] = func(p *prog, idx int, toks []string) *rec {
		if len(toks) > 1 && toks[1] == "off" {
			tensor.DontUsePool()
		} else {
			tensor.UsePool()
		}
		return simple("ok")
	}
	extSteps["gc"] = func(p *prog, idx int, toks []string) *rec {
		if own.enabled {
			// ownership tracing identifies slices by address: no collection while a program runs
			return simple("ok")
		}
		runtime.GC()
		// churn: whatever the collection has freed is given a chance to be handed out again and overwritten, so that a
		// tensor element the collector could not see (a string kept only in untyped memory) no longer reads back
		var sink [][]byte
		for i := 0; i < 1500; i++ {
			sink = append(sink, []byte(fmt.Sprintf("churn-%d-%d-xxxxxxxx", idx, i)))
		}
		gcSink = len(sink)
		runtime.GC()
		runtime.Gosched()
		return simple("ok")
	}
	extSteps["norm"] = func(p *prog, idx int, toks []string) *rec {
		// norm <ord> $a <axes>: the result is discarded; the caller's axes are a held slice
		if len(toks) != 4 {
			return simple("badprog")
		}
		t, _ := p.get(toks[2])
		axes, err := parseInts(toks[3])
		if t == nil || err != nil {
			return simple("skip")
		}
		ord := map[string]tensor.NormOrder{"inf": tensor.InfNorm(), "ninf": tensor.NegInfNorm(), "fro": tensor.FrobeniusNorm(), "1": tensor.Norm(1), "2": tensor.Norm(2), "0": tensor.Norm(0)}[toks[1]]
		guard(func() error {
			_, err := t.Norm(ord, p.hold(axes)...)
			return err
		})
		return simple("ok")
	}
	generators["C19"] = genC19
}

var gcSink int

// C19: long operation histories over a population of live tensors; every live tensor is dumped
// after every step and compared with the (value-semantics) model; caller-owned slices are re-checked
// after every step (field argmut) and occasionally overwritten by the caller (scribble).
// genC19Products: directed histories around the products, which transpose temporaries and - for a vector times a
// matrix - the caller's own matrix for the duration of the call: operands with a pending lazy transpose, then pool
// activity (new tensors, reshapes: borrowed metadata slices), then the undo of the pending transpose; every tensor is
// dumped at the end (and the pool-event trace is judged by the ownership machine).
func genC19Products(g *gen) {
	for _, dt := range []string{"f64", "f32", "c128"} {
		for _, pool := range []string{"pool on", "pool off"} {
			for _, op := range []string{"dot", "mv", "mm", "outer", "inner"} {
				for _, tr := range []int{0, 1, 2} { // which operands carry a pending transpose
					a, b := "3,4", "4,3"
					cmd := fmt.Sprintf("la %s fn $0 $1", op)
					switch op {
					case "dot":
						a, b = "4", "3,4" // vector x (matrix transposed to 4,3)
						if tr == 0 {
							b = "4,3"
						}
					case "mv":
						a, b = "4,3", "4"
						if tr == 0 {
							a = "3,4"
						}
					case "mm":
						a, b = "3,4", "3,4"
						if tr == 0 {
							b = "4,3"
						}
					case "outer", "inner":
						a, b = "4", "4"
					}
					steps := []string{"vset=2", pool, fmt.Sprintf("new %s %s C", dt, a), fmt.Sprintf("new %s %s C", dt, b)}
					if tr >= 1 {
						switch op {
						case "dot", "mm":
							steps = append(steps, "T $1 1,0")
						case "mv":
							steps = append(steps, "T $0 1,0")
						}
					}
					if tr == 2 && op == "mm" {
						steps = append(steps, "T $0 1,0", "T $1 1,0") // a: (4,3); b back to (3,4) by the undo
					}
					steps = append(steps, cmd)
					nv := 2
					if op != "inner" {
						nv++
					}
					// pool activity after the call, then the undo
					steps = append(steps, fmt.Sprintf("new %s 4,5 C", dt), fmt.Sprintf("reshape $%d 5,4", nv), fmt.Sprintf("new %s 2,2 C", dt),
						fmt.Sprintf("new %s 2,3,2 C", dt), "UT $1", "UT $0", fmt.Sprintf("slice $%d 0:2,0:2", nv), "gc")
					for v := 0; v < nv+4; v++ {
						steps = append(steps, fmt.Sprintf("dump $%d", v))
					}
					g.emit(steps...)
				}
			}
		}
	}
}

// products with destination tensors (WithReuse, WithIncr, both): the destination is the caller's tensor - it must come
// back holding the product and stay the caller's (never handed to the library's pool), whatever is created afterwards
func genC19ProductDests(g *gen) {
	for _, dt := range []string{"f64", "f32"} {
		for _, pool := range []string{"pool on", "pool off"} {
			for _, op := range []string{"dot", "mv", "mm", "outer"} {
				for _, via := range []string{"fn", "meth"} {
					if op == "dot" && via == "meth" {
						continue
					}
					for _, mode := range []string{"reuse", "incr", "both"} {
						a, b, exp := "3,4", "4,3", "3,3"
						switch op {
						case "dot":
							a, b, exp = "4", "4,3", "3"
						case "mv":
							a, b, exp = "3,4", "4", "3"
						case "outer":
							a, b, exp = "4", "4", "4,4"
						}
						steps := []string{"vset=2", pool, fmt.Sprintf("new %s %s C", dt, a), fmt.Sprintf("new %s %s C", dt, b),
							fmt.Sprintf("new %s %s C", dt, exp), fmt.Sprintf("new %s %s C", dt, exp)}
						opts := map[string]string{"reuse": "reuse=$2", "incr": "incr=$2", "both": "reuse=$2 incr=$3"}[mode]
						steps = append(steps, fmt.Sprintf("la %s %s $0 $1 %s", op, via, opts))
						// $4: the returned tensor; then pool activity: new tensors and views get their headers from the pool
						steps = append(steps, "dump $2", "dump $3", fmt.Sprintf("new %s %s C", dt, exp), fmt.Sprintf("slice $5 %s", map[string]string{"3": "0:2", "3,3": "0:2,0:2", "4,4": "1:3,0:2"}[exp]),
							fmt.Sprintf("new %s 2,2 C", dt), "memset $5", "memset $7", "gc", fmt.Sprintf("new %s 2,3 C", dt), "T $8 1,0")
						for v := 0; v < 9; v++ {
							steps = append(steps, fmt.Sprintf("dump $%d", v))
						}
						g.emit(steps...)
					}
				}
			}
		}
	}
}

// results are tensors of their own, also when nothing had to be done: Repeat with every count 1, Concat / Stack of a
// single operand, a full-range slice materialised, Transpose with the identity - the result is then written in place,
// or handed back to the pool and the pool is used; the operand must not notice
func genC19Identities(g *gen) {
	for _, dt := range []string{"f64", "i32", "u8"} {
		for _, pool := range []string{"pool on", "pool off"} {
			for _, mk := range []string{"repeat fn $0 0 1", "repeat meth $0 1 1", "repeat fn $0 0 1,1", "repeat fn $0 all 1", "concat fn 0 $0", "concat meth 1 $0",
				"stack fn 0 $0", "clone $0", "mat $0", "safeT $0 0,1", "apiTranspose $0 0,1", "reshape1"} {
				sh := "2,3"
				if strings.HasSuffix(mk, "all 1") {
					sh = "4"
				}
				for _, after := range [][]string{{"memset $1", "dump $0"}, {"un neg $1 unsafe", "dump $0"}, {"bin add fn $1 #k3 unsafe", "dump $0"},
					{"ret $1", fmt.Sprintf("new %s %s C", dt, sh), "memset $2", "dump $0", "gc", fmt.Sprintf("new %s 2,2 C", dt), "T $3 1,0", "dump $0"},
					{"setat $0 " + map[bool]string{true: "1", false: "0,1"}[sh == "4"], "dump $1"}} {
					if mk == "reshape1" {
						continue
					}
					if strings.HasPrefix(mk, "repeat fn $0 0 1,1") && sh != "2,3" {
						continue
					}
					steps := []string{"vset=2", pool, fmt.Sprintf("new %s %s C", dt, sh), mk, "dump $1"}
					steps = append(steps, after...)
					g.emit(steps...)
				}
			}
		}
	}
}

// the shape a tensor is constructed from is the caller's slice: the caller overwrites it afterwards (scribble), the tensor is
// handed back to the pool or reshaped, views and new tensors are created - tensor and slice must not notice each other
func genC19CallerShapes(g *gen) {
	for _, dt := range []string{"f64", "i32"} {
		for _, cons := range []string{"CN", "C"} {
			for _, sh := range []string{"2,3", "4", "2,2,2"} {
				g.emit("pool on", fmt.Sprintf("new %s %s %s", dt, sh, cons), "scribble", "dump $0", "slice $0 0", "dump $1", "dump $0")
				g.emit("pool on", fmt.Sprintf("new %s %s %s", dt, sh, cons), fmt.Sprintf("new %s %s %s", dt, sh, cons), "ret $0", "slice $1 0", "dump $2", "dump $1",
					fmt.Sprintf("new %s 3,2 C", dt), "T $3 1,0", "dump $3", "dump $1")
				g.emit("pool on", fmt.Sprintf("new %s %s %s", dt, sh, cons), "reshape $0 "+map[string]string{"2,3": "3,2", "4": "2,2", "2,2,2": "4,2"}[sh], "dump $0", "scribble", "dump $0",
					"slice $0 0", "dump $1")
			}
		}
	}
}

// norms are outside the properties' statements, but they take the caller's axes: whatever they compute, the axes slice, the
// operand and every other live tensor stay as they were
func genC19Norms(g *gen) {
	for _, dt := range []string{"f64", "f32"} {
		for _, ord := range []string{"inf", "ninf", "fro", "1", "2", "0"} {
			for _, c := range []struct{ sh, ax string }{{"2,3", "1,0"}, {"2,3", "0,1"}, {"2,3", "1"}, {"2,3", "0"}, {"2,3,2", "2,0"}, {"2,3,2", "1,2"}, {"4", "0"}} {
				g.emit("vset=2", fmt.Sprintf("new %s %s C", dt, c.sh), fmt.Sprintf("new %s 2,2 C", dt), fmt.Sprintf("norm %s $0 %s", ord, c.ax), "dump $0", "dump $1",
					"slice $0 0", "dump $2", fmt.Sprintf("norm %s $0 %s", ord, c.ax), "dump $0")
			}
		}
	}
}

func genC19(g *gen) {
	genC19Norms(g)
	genC19Products(g)
	genC19ProductDests(g)
	genC19Identities(g)
	genC19CallerShapes(g)
	nprog := 400
	maxLen := 40
	if g.thorough() {
		nprog = 12000
		maxLen = 200
	}
	type tv struct {
		v     int
		shape []int
		dt    string
	}
	for k := 0; k < nprog; k++ {
		var steps []string
		nv := 0
		dt := g.r.pick([]string{"f64", "i32", "f32", "i64", "u8", "c128"})
		steps = append(steps, fmt.Sprintf("vset=%d", 2))
		var live []tv
		newT := func() {
			sh := [][]int{{2, 3}, {3, 2}, {2, 3, 2}, {4}, {3, 3}, {2, 2, 2}, {6}, {1, 4}, {1, 1}, {1, 1, 1}, {2, 1}}[g.r.intn(11)]
			steps = append(steps, fmt.Sprintf("new %s %s %s", dt, ints(sh), g.r.pick([]string{"C", "C", "CN", "Fraw"})))
			live = append(live, tv{nv, sh, dt})
			nv++
		}
		for i := 0; i < 2+g.r.intn(3); i++ {
			newT()
		}
		n := 5 + g.r.intn(maxLen-4)
		dumpAll := func() {
			for _, t := range live {
				steps = append(steps, fmt.Sprintf("dump $%d", t.v))
			}
		}
		for s := 0; s < n; s++ {
			if len(live) == 0 {
				newT()
			}
			ti := g.r.intn(len(live))
			t := live[ti]
			switch g.r.intn(20) {
			case 19:
				// products (float types): they permute / transpose temporaries and, for a vector times a matrix, the
				// caller's matrix itself for the duration of the call
				if (dt == "f64" || dt == "f32" || dt == "c128") && t.shape != nil {
					o := live[g.r.intn(len(live))]
					if o.shape == nil {
						break
					}
					op := ""
					switch {
					case len(t.shape) == 1 && len(o.shape) == 2 && t.shape[0] == o.shape[0]:
						op = "dot"
					case len(t.shape) == 2 && len(o.shape) == 2 && t.shape[1] == o.shape[0]:
						op = g.r.pick([]string{"mm", "dot"})
					case len(t.shape) == 2 && len(o.shape) == 1 && t.shape[1] == o.shape[0]:
						op = g.r.pick([]string{"mv", "dot"})
					case len(t.shape) == 1 && len(o.shape) == 1:
						op = "outer"
					}
					if op != "" {
						// (no destination option here: a destination sharing storage with an operand is outside what BLAS
						// defines; the option modes of the products are C09's matrix)
						steps = append(steps, fmt.Sprintf("la %s fn $%d $%d", op, t.v, o.v))
						nv++
					}
				}
			case 18:
				// a multi-iterator over two or three live tensors (equal shapes, vector shapes of different classes, or
				// anything else: it borrows and returns pool slices and must leave every operand as it was)
				if len(live) >= 2 {
					ops := []string{fmt.Sprintf("$%d", t.v)}
					// partners the multi-iterator accepts (unequal non-vector shapes make it panic, which would end the
					// history here): tensors of the same shape, or - for vectors - vectors of the same length in any form
					size := func(sh []int) int {
						n := 1
						for _, d := range sh {
							n *= d
						}
						return n
					}
					isVec := func(sh []int) bool {
						return len(sh) == 1 || (len(sh) == 2 && (sh[0] == 1 || sh[1] == 1))
					}
					var partners []int
					for _, o := range live {
						if o.shape == nil || t.shape == nil {
							continue
						}
						if ints(o.shape) == ints(t.shape) || (isVec(o.shape) && isVec(t.shape) && size(o.shape) == size(t.shape)) {
							partners = append(partners, o.v)
						}
					}
					if len(partners) == 0 {
						partners = []int{t.v}
					}
					for j := 0; j < 1+g.r.intn(2); j++ {
						ops = append(ops, fmt.Sprintf("$%d", partners[g.r.intn(len(partners))]))
					}
					steps = append(steps, fmt.Sprintf("multi %s %s", strings.Join(ops, " "), g.r.pick([]string{"N", "nn", "rN", "nxN"})))
				}
			case 17:
				// a reduction that only reads its operand (arg-reductions build their result from AP.T / AP.S copies)
				if t.shape != nil && len(t.shape) > 0 && dt != "c128" {
					steps = append(steps, fmt.Sprintf("arg %s fn $%d %d vs=2", g.r.pick([]string{"argmax", "argmin"}), t.v, g.r.intn(len(t.shape))))
					nv++
				}
			case 0:
				if len(live) < 8 {
					newT()
				}
			case 1:
				if len(t.shape) >= 2 {
					p := g.randPerm(len(t.shape))
					steps = append(steps, fmt.Sprintf("T $%d %s", t.v, ints(p)))
					ns := make([]int, len(p))
					for i, a := range p {
						ns[i] = t.shape[a]
					}
					live[ti].shape = ns
				}
			case 2:
				steps = append(steps, fmt.Sprintf("UT $%d", t.v))
				live[ti].shape = nil
			case 3:
				steps = append(steps, fmt.Sprintf("transpose $%d", t.v))
			case 4:
				if t.shape != nil && len(live) < 8 {
					spec := g.randSliceList(t.shape)
					steps = append(steps, fmt.Sprintf("slice $%d %s", t.v, spec))
					live = append(live, tv{nv, sliceShapeGuess(t.shape, spec), dt})
					nv++
				}
			case 5:
				if len(live) < 8 {
					steps = append(steps, fmt.Sprintf("clone $%d", t.v))
					live = append(live, tv{nv, t.shape, dt})
					nv++
				}
			case 6:
				if t.shape != nil {
					fs := factorisations(size(t.shape), 3)
					if len(fs) > 0 {
						f := fs[g.r.intn(len(fs))]
						if g.r.chance(1, 6) {
							// an "inferred" dimension is not supported: refused, the tensor and the caller's slice untouched
							f = append([]int{}, f...)
							f[g.r.intn(len(f))] = -1
						}
						steps = append(steps, fmt.Sprintf("reshape $%d %s", t.v, ints(f)))
						live[ti].shape = nil
					}
				}
			case 7:
				steps = append(steps, fmt.Sprintf("memset $%d", t.v))
			case 8:
				// arithmetic between two live tensors in a random mode
				o := live[g.r.intn(len(live))]
				mode := g.r.pick([]string{"", " unsafe", fmt.Sprintf(" reuse=$%d", live[g.r.intn(len(live))].v), fmt.Sprintf(" incr=$%d", live[g.r.intn(len(live))].v)})
				steps = append(steps, fmt.Sprintf("bin %s fn $%d $%d%s", g.r.pick([]string{"add", "mul", "sub"}), t.v, o.v, mode))
				nv++ // result variable (may alias); not tracked as live
			case 9:
				steps = append(steps, fmt.Sprintf("bin %s fn $%d #k3%s", g.r.pick([]string{"add", "mul"}), t.v, g.r.pick([]string{"", " unsafe"})))
				nv++
			case 10:
				steps = append(steps, fmt.Sprintf("un %s $%d%s", g.r.pick([]string{"neg", "square", "abs"}), t.v, g.r.pick([]string{"", " unsafe"})))
				nv++
			case 11:
				if len(live) > 2 {
					steps = append(steps, fmt.Sprintf("ret $%d", t.v))
					live = append(live[:ti], live[ti+1:]...)
				}
			case 12:
				steps = append(steps, "scribble")
			case 13:
				steps = append(steps, "pool "+g.r.pick([]string{"on", "off", "on"}))
			case 14:
				steps = append(steps, "gc")
			case 15:
				if t.shape != nil && len(live) < 8 {
					steps = append(steps, fmt.Sprintf("safeT $%d -", t.v))
					live = append(live, tv{nv, nil, dt})
					nv++
				}
			case 16:
				if len(live) < 8 {
					steps = append(steps, fmt.Sprintf("mat $%d", t.v))
					nv++
				}
			}
			dumpAll()
		}
		steps = append(steps, "pool on")
		g.n++
		fmt.Fprintf(g.w, "%s%d ; %s\n", g.pfx, g.n, strings.Join(steps, " ; "))
	}
	genC19Masked(g)
}

// genC19Masked: histories over masked tensors (value set 0, where the model decides the predicates): masked
// tensors, views of them, tensors handed back to the pool and re-borrowed, masks (re)created by predicates on
// other tensors; after every step the logical mask and the elements of every live tensor are observed.
func genC19Masked(g *gen) {
	nprog := 150
	maxLen := 14
	if g.thorough() {
		nprog = 4000
		maxLen = 40
	}
	type tv struct {
		v     int
		shape []int
	}
	shapes := [][]int{{6}, {2, 3}, {3, 2}, {4}, {2, 2}, {8}, {2, 4}}
	// directed histories: a view of a masked tensor is handed back, a smaller tensor is built and masked by a
	// predicate (makeMask), a view of it is returned in turn, …; every live tensor is observed after each step
	for _, dt := range []string{"f64", "i16", "u8"} {
		for _, c := range []struct {
			sh   []int
			spec string
		}{{[]int{2, 4}, "1"}, {[]int{2, 4}, "0"}, {[]int{6}, "2:6"}, {[]int{2, 3}, "n,1:3"}, {[]int{8}, "0:8:2"}, {[]int{3, 2}, "1:3"}} {
			for _, bsh := range [][]int{{3}, {2}, {4}, {2, 2}} {
				steps := []string{"vset=0", "pool on",
					fmt.Sprintf("mnew %s %s C %s", dt, ints(c.sh), g.maskBits(size(c.sh), "rand")),
					fmt.Sprintf("slice $0 %s", c.spec), "mdump $1", "ret $1",
					fmt.Sprintf("new %s %s C", dt, ints(bsh)),
					fmt.Sprintf("mpred %s $2 %s #k%d", g.r.pick([]string{"gt", "lte", "ne"}), g.r.pick([]string{"hard", "soft", "dflt"}), 2+g.r.intn(60)),
					"mdump $0", "mdump $2",
					fmt.Sprintf("mpred %s $0 hard #k%d", g.r.pick([]string{"gt", "lte"}), 2+g.r.intn(8)), "mdump $0", "mdump $2",
					"slice $2 0:1", "ret $3", fmt.Sprintf("new %s 2 C", dt), "mpred gt $4 dflt #k1", "mdump $0", "mdump $2", "mdump $4"}
				g.emit(steps...)
			}
		}
	}
	for k := 0; k < nprog; k++ {
		dt := g.r.pick([]string{"i16", "f64", "i32", "u8", "f32"})
		steps := []string{"vset=0", "pool on"}
		nv := 0
		var live []tv
		newM := func(masked bool) {
			sh := shapes[g.r.intn(len(shapes))]
			if masked {
				steps = append(steps, fmt.Sprintf("mnew %s %s C %s", dt, ints(sh), g.maskBits(size(sh), g.r.pick([]string{"rand", "alt", "zeros", "rand"}))))
			} else {
				steps = append(steps, fmt.Sprintf("new %s %s C", dt, ints(sh)))
			}
			live = append(live, tv{nv, sh})
			nv++
		}
		dumpAll := func() {
			for _, t := range live {
				steps = append(steps, fmt.Sprintf("mdump $%d", t.v))
			}
		}
		newM(true)
		newM(g.r.chance(1, 2))
		n := 4 + g.r.intn(maxLen-3)
		justReturned := false
		for s := 0; s < n; s++ {
			if len(live) == 0 {
				newM(true)
			}
			ti := g.r.intn(len(live))
			t := live[ti]
			c := g.r.intn(9)
			if justReturned { // re-borrow right after a return: that is when a recycled struct shows
				c = 1 + g.r.intn(2)
				justReturned = false
			}
			switch c {
			case 0:
				if len(live) < 6 && t.shape != nil {
					spec := g.randSliceList(t.shape)
					steps = append(steps, fmt.Sprintf("slice $%d %s", t.v, spec))
					live = append(live, tv{nv, sliceShapeGuess(t.shape, spec)})
					nv++
				}
			case 1:
				if len(live) < 6 {
					newM(false)
				}
			case 2:
				if len(live) < 6 {
					newM(true)
				}
			case 3, 4:
				op := g.r.pick([]string{"gt", "lte", "eq", "ne", "lt", "gte"})
				steps = append(steps, fmt.Sprintf("mpred %s $%d %s #k%d", op, t.v, g.r.pick([]string{"soft", "hard", "dflt"}), 2+g.r.intn(40)))
			case 5:
				if len(live) > 1 {
					steps = append(steps, fmt.Sprintf("ret $%d", t.v))
					live = append(live[:ti], live[ti+1:]...)
					justReturned = true
				}
			case 6:
				if len(live) < 6 {
					steps = append(steps, fmt.Sprintf("clone $%d", t.v))
					live = append(live, tv{nv, t.shape})
					nv++
				}
			case 7:
				steps = append(steps, g.r.pick([]string{"gc", "pool on", "harden $" + fmt.Sprint(t.v), "soften $" + fmt.Sprint(t.v)}))
			case 8:
				steps = append(steps, fmt.Sprintf("memset $%d", t.v))
			}
			dumpAll()
		}
		g.n++
		fmt.Fprintf(g.w, "%s%d ; %s\n", g.pfx, g.n, strings.Join(steps, " ; "))
	}
}
