import TensorModel.Ext.Hooks
import TensorModel.Ext.MinMax
import TensorModel.Ext.Engines
import TensorModel.Ext.History
import TensorModel.Ext.Linalg
import TensorModel.Ext.Serial
import TensorModel.Ext.Reduce
import TensorModel.Ext.Mask
import TensorModel.Ext.Assemble
import TensorModel.Ext.Compat
import TensorModel.Ext.MultIter
import TensorModel.Ext.MaskOps
/-! Registry of operation families (one import + one list entry per family). -/
namespace TM

def families : List Family := [minMaxFamily, enginesFamily, historyFamily, linalgFamily, serialFamily, reduceFamily, maskFamily, assembleFamily, compatFamily, multIterFamily, maskOpsFamily]

end TM
