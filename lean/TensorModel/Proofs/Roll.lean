import TensorModel.Proofs.Transpose
/-! Helper lemmas about `Dense.rollAxes` (the axes vector `RollAxis` builds). -/
namespace TM

theorem rollAxes_ok_iff (dims : Nat) (axis start : Int) :
    (∃ r, Dense.rollAxes dims axis start = .ok r) ↔ (0 ≤ axis ∧ axis < dims) ∧ (0 ≤ start ∧ start ≤ dims) := by
  unfold Dense.rollAxes
  by_cases h1 : (0 ≤ axis ∧ axis < dims)
  · by_cases h2 : (0 ≤ start ∧ start ≤ dims)
    · have e1 : (!(decide (axis ≥ 0) && decide (axis < (dims : Int)))) = false := by simp [h1.1, h1.2]
      have e2 : (!(decide (start ≥ 0) && decide (start ≤ (dims : Int)))) = false := by simp [h2.1, h2.2]
      simp only [e1, e2]
      constructor
      · intro _; exact ⟨h1, h2⟩
      · intro _
        simp only [Bool.false_eq_true, ↓reduceIte, bind, Except.bind, pure, Except.pure]
        split <;> split <;> exact ⟨_, rfl⟩
    · have e1 : (!(decide (axis ≥ 0) && decide (axis < (dims : Int)))) = false := by simp [h1.1, h1.2]
      have e2 : (!(decide (start ≥ 0) && decide (start ≤ (dims : Int)))) = true := by
        simp only [Bool.not_eq_true', Bool.and_eq_false_iff, decide_eq_false_iff_not]
        by_cases hs : 0 ≤ start
        · right; intro hle; exact h2 ⟨hs, hle⟩
        · left; exact hs
      simp only [e1, e2]
      constructor
      · rintro ⟨r, hr⟩; simp [bind, Except.bind, throwErr, throw, throwThe, MonadExceptOf.throw] at hr
      · rintro ⟨_, h⟩; exact absurd h h2
  · have e1 : (!(decide (axis ≥ 0) && decide (axis < (dims : Int)))) = true := by
      simp only [Bool.not_eq_true', Bool.and_eq_false_iff, decide_eq_false_iff_not]
      by_cases hs : 0 ≤ axis
      · right; intro hle; exact h1 ⟨hs, hle⟩
      · left; exact hs
    simp only [e1]
    constructor
    · rintro ⟨r, hr⟩; simp [bind, Except.bind, throwErr, throw, throwThe, MonadExceptOf.throw] at hr
    · rintro ⟨h, _⟩; exact absurd h h1

/-- the other axes, in their order -/
def rollBase (dims : Nat) (axis : Int) : List Int := (rangeI dims).filter (· != axis)

/-- the position the rolled axis ends up at -/
def rollPos (axis start : Int) : Int := if axis < start then start - 1 else start

theorem rollAxes_unfold (dims : Nat) (axis start : Int)
    (h1 : 0 ≤ axis ∧ axis < dims) (h2 : 0 ≤ start ∧ start ≤ dims) :
    Dense.rollAxes dims axis start =
      if axis == rollPos axis start then .ok none
      else .ok (some ((rollBase dims axis).take (rollPos axis start).toNat ++ [axis] ++ (rollBase dims axis).drop (rollPos axis start).toNat)) := by
  have e1 : (!(decide (axis ≥ 0) && decide (axis < (dims : Int)))) = false := by simp [h1.1, h1.2]
  have e2 : (!(decide (start ≥ 0) && decide (start ≤ (dims : Int)))) = false := by simp [h2.1, h2.2]
  unfold Dense.rollAxes rollPos rollBase
  simp only [e1, e2, Bool.false_eq_true, ↓reduceIte, bind, Except.bind, pure, Except.pure]

theorem rollAxes_some {dims : Nat} {axis start : Int} {a : List Int}
    (h : Dense.rollAxes dims axis start = .ok (some a)) :
    axis ≠ rollPos axis start ∧
    a = (rollBase dims axis).take (rollPos axis start).toNat ++ [axis] ++ (rollBase dims axis).drop (rollPos axis start).toNat := by
  obtain ⟨h1, h2⟩ := (rollAxes_ok_iff dims axis start).mp ⟨_, h⟩
  rw [rollAxes_unfold dims axis start h1 h2] at h
  split at h
  · simp at h
  · rename_i hne
    simp only [Except.ok.injEq, Option.some.injEq] at h
    exact ⟨by simpa using hne, h.symm⟩

theorem rollAxes_none {dims : Nat} {axis start : Int}
    (h : Dense.rollAxes dims axis start = .ok none) : axis = rollPos axis start := by
  obtain ⟨h1, h2⟩ := (rollAxes_ok_iff dims axis start).mp ⟨_, h⟩
  rw [rollAxes_unfold dims axis start h1 h2] at h
  split at h
  · rename_i he; simpa using he
  · simp at h

theorem rollBase_not_mem (dims : Nat) (axis : Int) : axis ∉ rollBase dims axis := by
  simp [rollBase]

theorem rollBase_length {dims : Nat} {axis : Int} (h0 : 0 ≤ axis) (h1 : axis < dims) :
    (rollBase dims axis).length = dims - 1 := by
  have hm : axis ∈ rangeI dims := mem_rangeI.mpr ⟨axis.toNat, by omega, by simp [Int.toNat_of_nonneg h0]⟩
  have he : rollBase dims axis = (rangeI dims).erase axis := by
    unfold rollBase; rw [(rangeI_nodup dims).erase_eq_filter]
  rw [he, List.length_erase_of_mem hm, rangeI_length]

theorem rollBase_mem {dims : Nat} {axis x : Int} : x ∈ rollBase dims axis ↔ x ∈ rangeI dims ∧ x ≠ axis := by
  simp [rollBase]

/-- the other axes keep their relative order -/
theorem rollAxes_others {dims : Nat} {axis start : Int} {a : List Int}
    (h : Dense.rollAxes dims axis start = .ok (some a)) : a.filter (· != axis) = rollBase dims axis := by
  obtain ⟨_, rfl⟩ := rollAxes_some h
  have hb : (rollBase dims axis).filter (· != axis) = rollBase dims axis := by
    unfold rollBase; simp [List.filter_filter]
  simp only [List.filter_append, List.filter_cons, bne_self_eq_false, Bool.false_eq_true, ↓reduceIte, List.filter_nil,
    List.append_nil]
  rw [← List.filter_append, List.take_append_drop, hb]

theorem rollAxes_mem {dims : Nat} {axis start : Int} {a : List Int}
    (h : Dense.rollAxes dims axis start = .ok (some a)) (x : Int) : x ∈ a ↔ x ∈ rangeI dims := by
  obtain ⟨h1, _⟩ := (rollAxes_ok_iff dims axis start).mp ⟨_, h⟩
  obtain ⟨_, rfl⟩ := rollAxes_some h
  have hm : axis ∈ rangeI dims := mem_rangeI.mpr ⟨axis.toNat, by omega, by simp [Int.toNat_of_nonneg h1.1]⟩
  constructor
  · intro hx
    simp only [List.mem_append, List.mem_singleton] at hx
    rcases hx with (hx | hx) | hx
    · exact (rollBase_mem.mp (List.mem_of_mem_take hx)).1
    · exact hx ▸ hm
    · exact (rollBase_mem.mp (List.mem_of_mem_drop hx)).1
  · intro hx
    by_cases he : x = axis
    · simp [he]
    · have hb : x ∈ rollBase dims axis := rollBase_mem.mpr ⟨hx, he⟩
      rw [← List.take_append_drop (rollPos axis start).toNat (rollBase dims axis)] at hb
      simp only [List.mem_append] at hb ⊢
      rcases hb with hb | hb
      · exact Or.inl (Or.inl hb)
      · exact Or.inr hb

theorem rollAxes_length {dims : Nat} {axis start : Int} {a : List Int}
    (h : Dense.rollAxes dims axis start = .ok (some a)) : a.length = dims := by
  obtain ⟨h1, _⟩ := (rollAxes_ok_iff dims axis start).mp ⟨_, h⟩
  obtain ⟨_, rfl⟩ := rollAxes_some h
  have hl := rollBase_length h1.1 h1.2
  simp only [List.length_append, List.length_take, List.length_drop, List.length_cons, List.length_nil]
  omega

theorem rollAxes_isPerm {dims : Nat} {axis start : Int} {a : List Int}
    (h : Dense.rollAxes dims axis start = .ok (some a)) : isPerm a dims = true := by
  unfold isPerm
  simp only [Bool.and_eq_true, beq_iff_eq, List.all_eq_true, List.mem_range, List.contains_iff_mem]
  refine ⟨rollAxes_length h, fun j hj => ?_⟩
  exact (rollAxes_mem h _).mpr (mem_rangeI.mpr ⟨j, hj, rfl⟩)

/-- the rolled axis sits at position `rollPos` -/
theorem rollAxes_pos {dims : Nat} {axis start : Int} {a : List Int}
    (h : Dense.rollAxes dims axis start = .ok (some a)) : a[(rollPos axis start).toNat]? = some axis := by
  obtain ⟨h1, h2⟩ := (rollAxes_ok_iff dims axis start).mp ⟨_, h⟩
  obtain ⟨_, rfl⟩ := rollAxes_some h
  have hl := rollBase_length h1.1 h1.2
  have hp : (rollPos axis start).toNat ≤ (rollBase dims axis).length := by
    unfold rollPos; split <;> omega
  have ht : ((rollBase dims axis).take (rollPos axis start).toNat).length = (rollPos axis start).toNat := by
    simp [List.length_take, Nat.min_eq_left hp]
  rw [List.append_assoc, List.getElem?_append_right (by omega), ht]
  simp

end TM
