/-
  Conc — a small-step shared-memory semantics for the *logic* of property C18
  ("goroutines on disjoint tensors, or sharing tensors read-only, never race and each obtains the
  result it would obtain alone, under every interleaving").

  What is modelled
  * abstract memory locations `Loc` (a metadata field of a tensor, a cell of a backing buffer, a slot
    of library-internal state such as a pool);
  * a thread = a deterministic sequential program, i.e. a list of `Action`s; the value stored by a
    `write` is a function of the values the thread has read so far, and the *result* of a thread is
    the list of values it read (`TState.trace`);
  * a configuration = shared memory + the state of every thread; `step i` lets thread `i` execute its
    next action atomically (a finished / non-existent thread stutters); a schedule is a `List Nat`,
    `runSched` executes it; a schedule is `Complete` when every thread has run to completion;
  * `conflictFree` = no location written by one thread is read or written by another
    (static footprints), with the executable checker `conflictFreeB`.

  What is *not* modelled (the runtime half of C18, covered by the race-detector harness): the Go
  memory model itself, i.e. that the implementation's accesses really are the footprints claimed, and
  that the synchronised library pools (`sync.Pool`, channels) are race-free.

  Core Lean only, executable.
-/
import TensorModel.Basic
namespace TM.Conc

/-- abstract shared locations -/
inductive Loc where
  /-- metadata field `f` (shape, strides, old, transposeWith, flag, …) of tensor object `k` -/
  | tensorField (k : Nat) (f : Nat)
  /-- element `i` of backing buffer `buf` -/
  | cell (buf : Nat) (i : Nat)
  /-- slot `p` of library-internal state (pools, `usePool`, …) -/
  | pool (p : Nat)
deriving DecidableEq, Repr

abbrev Val := Int
abbrev Mem := Loc → Val

def setLoc (m : Mem) (l : Loc) (v : Val) : Mem := fun l' => if l' = l then v else m l'

/-- one atomic action of a thread; the written value is a function of the values read so far -/
inductive Action where
  | read (l : Loc)
  | write (l : Loc) (f : List Val → Val)

/-- static footprints -/
def reads : List Action → List Loc
  | [] => []
  | .read l :: p => l :: reads p
  | .write _ _ :: p => reads p

def writes : List Action → List Loc
  | [] => []
  | .read _ :: p => writes p
  | .write l _ :: p => l :: writes p

/-- execute one action on memory `m` with local trace `tr` (values read so far, oldest first) -/
def stepAct (a : Action) (m : Mem) (tr : List Val) : Mem × List Val :=
  match a with
  | .read l => (m, tr ++ [m l])
  | .write l f => (setLoc m l (f tr), tr)

/-- run a whole program alone -/
def soloRun : List Action → Mem → List Val → Mem × List Val
  | [], m, tr => (m, tr)
  | a :: p, m, tr => soloRun p (stepAct a m tr).1 (stepAct a m tr).2

/-- run program `p` alone from memory `m0`: (final memory, result) -/
def solo (p : List Action) (m0 : Mem) : Mem × List Val := soloRun p m0 []

/-- run the programs one after another, in list order -/
def seqRun : List (List Action) → Mem → Mem
  | [], m => m
  | p :: ps, m => seqRun ps (solo p m).1

/-- local state of a thread: what remains to execute, and the values read so far (its result) -/
structure TState where
  prog : List Action
  trace : List Val

structure Cfg where
  mem : Mem
  threads : Nat → TState

def upd (f : Nat → TState) (i : Nat) (t : TState) : Nat → TState :=
  fun j => if j = i then t else f j

/-- thread `i` executes its next action (stutters if it has none) -/
def step (i : Nat) (c : Cfg) : Cfg :=
  match (c.threads i).prog with
  | [] => c
  | a :: rest =>
    { mem := (stepAct a c.mem (c.threads i).trace).1
      threads := upd c.threads i ⟨rest, (stepAct a c.mem (c.threads i).trace).2⟩ }

/-- execute a schedule: the list of thread ids chosen by the scheduler, in order -/
def runSched : List Nat → Cfg → Cfg
  | [], c => c
  | i :: σ, c => runSched σ (step i c)

/-- initial configuration of the thread programs `ps` (thread `i` runs `ps[i]`) -/
def init (ps : List (List Action)) (m0 : Mem) : Cfg :=
  { mem := m0, threads := fun i => ⟨ps[i]?.getD [], []⟩ }

def Done (c : Cfg) : Prop := ∀ i, (c.threads i).prog = []

/-- `σ` is a complete (fair) merge for `c`: after it every thread has run to completion -/
def Complete (σ : List Nat) (c : Cfg) : Prop := Done (runSched σ c)

/-- result of thread `i` in a configuration -/
def result (c : Cfg) (i : Nat) : List Val := (c.threads i).trace

/-- the schedule "thread 0 to completion, then thread 1, …" -/
def seqSchedFrom : Nat → List (List Action) → List Nat
  | _, [] => []
  | i, p :: ps => List.replicate p.length i ++ seqSchedFrom (i + 1) ps

def seqSched (ps : List (List Action)) : List Nat := seqSchedFrom 0 ps

/-! ### conflicts -/

/-- no location written by one of `p`, `q` is read or written by the other -/
def Indep (p q : List Action) : Prop :=
  (∀ l ∈ writes p, l ∉ writes q ∧ l ∉ reads q) ∧ (∀ l ∈ writes q, l ∉ writes p ∧ l ∉ reads p)

/-- pairwise: no location written by one thread is read or written by another -/
def conflictFree (ps : List (List Action)) : Prop :=
  ∀ (i j : Nat) (hi : i < ps.length) (hj : j < ps.length), i ≠ j →
    ∀ l ∈ writes ps[i], l ∉ writes ps[j] ∧ l ∉ reads ps[j]

def disjointB (xs ys : List Loc) : Bool := xs.all fun x => !(ys.contains x)

def indepB (p q : List Action) : Bool :=
  disjointB (writes p) (writes q) && disjointB (writes p) (reads q) &&
  disjointB (writes q) (writes p) && disjointB (writes q) (reads p)

/-- executable checker on the static footprints -/
def conflictFreeB : List (List Action) → Bool
  | [] => true
  | p :: ps => ps.all (indepB p) && conflictFreeB ps

/-- a data race in a configuration: two different threads whose *next* actions touch the same
    location, at least one of them writing -/
def nextAccess (t : TState) : Option (Loc × Bool) :=
  match t.prog with
  | [] => none
  | .read l :: _ => some (l, false)
  | .write l _ :: _ => some (l, true)

def Race (c : Cfg) : Prop :=
  ∃ i j l wi wj, i ≠ j ∧ nextAccess (c.threads i) = some (l, wi) ∧
    nextAccess (c.threads j) = some (l, wj) ∧ (wi = true ∨ wj = true)

end TM.Conc
