import TensorModel.Shape
/-!
  Model of `ap.go`, `utils.go` (Ltoi, Itol, UnsafePermute, CheckSlice, SliceDetails) and `flags.go`
  (DataOrder). Every function mirrors the control flow of the Go function named in its comment.
-/
namespace TM

/-- `DataOrder` bit flags. -/
structure Order where
  col : Bool := false
  nonContig : Bool := false
  transposed : Bool := false
deriving Repr, DecidableEq, Inhabited

structure AP where
  shape : Shape := []
  strides : List Int := []
  fin : Bool := false
  o : Order := {}
deriving Repr, DecidableEq, Inhabited

/-- A slice argument: `none` is Go's nil Slice (`a[:]`). -/
structure Sl where
  start : Int
  stop : Int
  step : Int
deriving Repr, DecidableEq, Inhabited

/-- `utils.go:Ltoi` (with the lower-bound test of the `fix:` commit). -/
def ltoi (shape : Shape) (strides : List Int) (coords : List Int) : Res Int :=
  if isScalarEquiv shape then
    if coords.all (· == 0) then .ok 0 else throwErr "scalar shape only allows 0"
  else
    let rec go (i : Nat) (at_ : Int) : List Int → Res Int
      | [] => .ok at_
      | coord :: rest =>
        match shape[i]? with
        | none => throwErr "dimMismatch"
        | some size =>
          if coord < 0 || coord ≥ size then throwErr "indexOOB"
          else
            if isVector shape && strides.length == 1 then
              match strides[0]? with
              | some st => go (i + 1) (at_ + st * coord) rest
              | none => throwPanic "unreachable"
            else match strides[i]? with
              | none => throwErr "dimMismatch strides"
              | some st => go (i + 1) (at_ + st * coord) rest
    go 0 0 coords

/-- `utils.go:CheckSlice` + `SliceDetails`: returns (start, end, step). -/
def sliceDetails (s : Option Sl) (size : Int) : Res (Int × Int × Int) :=
  match s with
  | none => .ok (0, size, 1)
  | some s =>
    if s.start > s.stop then throwErr "invalidSliceIndex start>end"
    else if s.start < 0 then throwErr "invalidSliceIndex start<0"
    else if s.step == 0 && s.stop - s.start > 1 then throwErr "zero step"
    else if s.start ≥ size then throwErr "start>=size"
    else .ok (s.start, if s.stop > size then size else s.stop, s.step)

/-- per-axis result of the loop body of `AP.S` -/
structure AxisRes where
  n : Int
  stride : Int
  dStart : Int   -- start*stride
  dEnd : Int     -- (size-end)*stride
  nonContig : Bool
deriving Repr

/-- Loop body of `AP.S` for axis `i`. `leadFloor` is the `i > 0` test guarding the round-up. -/
def sliceAxis (isVec : Bool) (outerDim : Nat) (i : Nat) (size stride : Int) (sl : Option Sl) :
    Res AxisRes := do
  let (start, stop, step) ← sliceDetails sl size
  let (n, st) :=
    if step > 0 then
      let q := goDiv (stop - start) step
      let q := if goMod (stop - start) step > 0 && i > 0 then q + 1 else q
      let q := if q ≤ 0 then 1 else q
      (q, stride * step)
    else (stop - start, stride)
  let nc := (sl.isSome && (!isVec && i != outerDim)) || step > 1
  pure { n := n, stride := st, dStart := start * stride, dEnd := (size - stop) * stride, nonContig := nc }

def apSLoop (isVec : Bool) (outerDim : Nat) : Nat → Shape → List Int → List (Option Sl) → Res (List AxisRes)
  | _, [], _, _ => .ok []
  | i, size :: shape, strides, sls =>
    match strides with
    | [] => throwPanic "strides[i] out of range"
    | stride :: strides => do
      let r ← sliceAxis isVec outerDim i size stride sls.head?.join
      let rs ← apSLoop isVec outerDim (i + 1) shape strides sls.tail
      pure (r :: rs)

/-- `AP.S`: returns (newAP, ndStart, ndEnd). -/
def AP.S (ap : AP) (size : Int) (sls : List (Option Sl)) : Res (AP × Int × Int) := do
  if sls.length > ap.shape.length then throwErr "dimMismatch"
  let isVec := isVector ap.shape
  let outerDim := if !ap.o.col || isVec then 0 else ap.shape.length - 1
  let rs ← apSLoop isVec outerDim 0 ap.shape ap.strides sls
  let ndStart := sumI (rs.map (·.dStart))
  let ndEnd := size - sumI (rs.map (·.dEnd))
  let nc := rs.any (·.nonContig)
  let order := if nc then { ap.o with nonContig := true } else ap.o
  if ndEnd - ndStart == 1 then
    pure ({ shape := [], strides := [], fin := true, o := {} }, ndStart, ndEnd)
  else
    -- drop loop: original axis j is removed iff its new extent is 1 and slices[j] is a non-nil slice
    let keep := (rs.zip (sls.map Option.isSome ++ List.replicate rs.length false)).filter
      (fun (r, given) => !(r.n == 1 && given))
    let kept := keep.map (·.1)
    pure ({ shape := kept.map (·.n), strides := kept.map (·.stride), fin := true, o := order }, ndStart, ndEnd)

/-- `shape.go:Shape.S` — the shape-only slicing calculator (never rounds a stepped length up). -/
def shapeS (shape : Shape) (sls : List (Option Sl)) : Res Shape := do
  if sls.length > shape.length then throwErr "dimMismatch"
  let rec loop : Shape → List (Option Sl) → Res (List (Int × Bool))
    | [], _ => .ok []
    | size :: rest, sls => do
      let sl := sls.head?.join
      let (start, stop, step) ← sliceDetails sl size
      let n := if step > 0 then (let q := goDiv (stop - start) step; if q ≤ 0 then 1 else q) else stop - start
      let tl ← loop rest sls.tail
      pure ((n, sl.isSome) :: tl)
  let ns ← loop shape sls
  pure ((ns.filter (fun (n, given) => !(n == 1 && given))).map (·.1))

/-- `utils.go:UnsafePermute` swap loop for dims ≥ 3 on one list (applied to shape and strides alike). -/
def swapAt {α} (xs : List α) (i j : Nat) : List α :=
  match xs[i]?, xs[j]? with
  | some a, some b => (xs.set i b).set j a
  | _, _ => xs

/-- follow `to = pattern[to]` while `to < i`; `none` = index out of range (panic). -/
def followTo (pattern : List Int) (i : Nat) : Nat → Int → Option Nat
  | 0, _ => none
  | fuel + 1, to =>
    if to < 0 then none
    else if to.toNat < i then
      match pattern[to.toNat]? with
      | none => none
      | some t => followTo pattern i fuel t
    else some to.toNat

def permuteLoop {α} (pattern : List Int) (dims : Nat) : Nat → Nat → List α → Res (List α)
  | 0, _, xs => .ok xs
  | fuel + 1, i, xs =>
    if i ≥ dims then .ok xs else
    match pattern[i]? with
    | none => throwPanic "pattern[i]"
    | some p =>
      match followTo pattern i (dims + 1) p with
      | none => throwPanic "pattern index out of range"
      | some to =>
        if to ≥ dims then throwPanic "swap index out of range"
        else permuteLoop pattern dims fuel (i + 1) (swapAt xs i to)

inductive PermRes (α : Type) where
  | ok (xs : List α)
  | noop
deriving Repr

/-- `UnsafePermute(pattern, xs)` for one list. Validation: every axis `< dims` (no lower bound),
    no repeats; monotonic+incr1 = no-op. -/
def unsafePermute {α} (pattern : List Int) (xs : List α) : Res (PermRes α) := do
  let dims := xs.length
  if pattern.length != dims then throwErr "dimMismatch"
  let rec check (seen : List Int) : List Int → Res Unit
    | [] => .ok ()
    | a :: as =>
      if a ≥ dims then throwErr "invalidAxis"
      else if seen.contains a then throwErr "repeatedAxis"
      else check (a :: seen) as
  check [] pattern
  let (mono, incr1) := isMonotonicInts pattern
  if mono && incr1 then return .noop
  if dims ≤ 1 then return .ok xs
  if dims == 2 then
    match xs with
    | [a, b] => return .ok [b, a]
    | _ => return .ok xs
  let r ← permuteLoop pattern dims dims 0 xs
  return .ok r

inductive TRes where
  | noop (ap : AP) (axes : List Int)
  | ok (ap : AP) (axes : List Int)
deriving Repr

/-- strides `AP.T` gives the transpose `(b, a)` of a two-dimensional vector `(a, b)` with strides `(s0, s1)`: the axis
    that holds the elements keeps its stride, the axis of extent one gets 1 -/
def vectorTStrides (b s0 s1 : Int) : List Int := if b > 1 then [s1, 1] else [1, s0]

/-- `AP.T(axes...)`. -/
def AP.T (ap : AP) (axes : List Int) : Res TRes := do
  let dims := ap.shape.length
  if axes.length > 0 && axes.length != dims then throwErr "dimMismatch"
  let axes := if axes.isEmpty then (rangeI dims).reverse else axes
  if isScalarEquiv ap.shape then return .noop ap axes
  let (mono, incr1) := isMonotonicInts axes
  if mono && incr1 && axes.head? == some 0 then return .noop ap axes
  if isVector ap.shape then
    if axes.head? == some 0 then
      -- Go returns the zero AP with a nil error here
      return .ok {} axes
    -- `strides := make([]int, len(currentStride)); strides[0], strides[1] = 1, 1`, then the axis that holds the
    -- elements takes over its stride (`if shape[0] > 1 { strides[0] = currentStride[1] } else { strides[1] = currentStride[0] }`)
    if ap.strides.length < 2 then throwPanic "vector with fewer than two strides: strides[1] out of range"
    match ap.shape, ap.strides with
    | [a, b], s0 :: s1 :: _ =>
      return .ok { shape := [b, a], strides := vectorTStrides b s0 s1, fin := true, o := { ap.o with transposed := true } } axes
    | _, _ => throwPanic "vector of rank 1 with axes[0] != 0: shape[1] out of range"
  else
    let sh ← unsafePermute axes ap.shape
    let st ← unsafePermute axes ap.strides
    match sh, st with
    | .ok sh, .ok st =>
      return .ok { shape := sh, strides := st, fin := true, o := { ap.o with transposed := true } } axes
    | _, _ =>
      -- UnsafePermute's own no-op (monotonic pattern not starting at 0, i.e. negative axes):
      -- the error is swallowed and the unpermuted copy is returned flagged as transposed
      return .ok { shape := ap.shape, strides := ap.strides, fin := true, o := { ap.o with transposed := true } } axes

/-- `Itol` with the divisor supplied by `divmod` (Go truncated division; stride 0 panics). -/
def itol (i : Int) (shape : Shape) (strides : List Int) : Res (List Int) :=
  let rec go (i : Int) : Shape → List Int → Res (List Int)
    | _, [] => .ok []
    | sh, st :: sts =>
      if st == 0 then throwPanic "divide by zero" else do
      let rest ← go (goMod i st) sh.tail sts
      pure (goDiv i st :: rest)
  go i shape strides

end TM
