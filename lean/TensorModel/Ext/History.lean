import TensorModel.Ext.Hooks
/-!
  Family `History` (C19): steps that only matter for long operation histories —
  `ret $k` (`ReturnTensor`: the tensor is handed back to the library's pool and is dead afterwards),
  `scribble` (the caller overwrites every slice it passed to the library earlier — legitimate: they
  are the caller's), `pool on|off` (`UsePool` / `DontUsePool`), `gc` (`runtime.GC()`).
  In the value-semantics model none of them changes any *other* tensor: that is the property.
-/
namespace TM

def PState.killObj (ps : PState) (id : Nat) : PState :=
  { ps with vars := ps.vars.map (fun v => if v == some id then none else v) }

def historyStepM (ps : PState) (_i : Nat) (toks : List String) : PState × StepOut :=
  match toks with
  | ["ret", v] =>
    match ps.obj v with
    | some (id, _) => (ps.killObj id, .fields "r=ok")
    | none => (ps, .fields "r=skip")
  | ["scribble"] => (ps, .fields "r=ok")
  | ["pool", _] => (ps, .fields "r=ok")
  | ["gc"] => (ps, .fields "r=ok")
  -- `t.Norm(ord, axes...)`: the value is not modelled (norms are outside the properties); the step exists for what the
  -- call must leave alone - the operand, every other tensor, and the caller's axes slice (field `argmut` of the harness)
  | ["norm", _, _, _] => (ps, .fields "r=ok")
  | _ => (ps, .fields "r=badprog")

def historyStepS (_psBefore psAfter : PState) (ss : SState) (_i : Nat) (_toks : List String) (_mres : String) : SOut :=
  finS psAfter ss (some "r=ok")

def historyFamily : Family :=
  { name := "History", keys := ["ret", "scribble", "pool", "gc", "norm"], stepM := historyStepM, stepS := historyStepS,
    excl := fun _ _ => ([], false) }

end TM
