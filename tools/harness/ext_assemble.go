package main

// Family "Assemble" (property C10, and the repeat / concat calculators of C13):
//
//	concat <fn|meth> <axis> $a $b …      tensor.Concat(axis, a, b…)      | a.Concat(axis, b…)
//	stack  <fn|meth> <axis> $a $b …      tensor.Stack(axis, a, b…)       | a.Stack(axis, b…)
//	hstack $a $b …                       a.Hstack(b…)
//	vstack $a $b …                       a.Vstack(b…)
//	repeat <fn|meth> $a <axis|all> r1,r2,…   tensor.Repeat(a, axis, r…)  | a.Repeat(axis, r…)
//	repeatreuse $a <axis|all> r1,r2,… $reuse tensor.RepeatReuse(a, reuse, axis, r…)
//	calcRepeat $a <axis|all> r1,r2,…     a.Shape().Repeat(axis, r…)   (shape-only calculator)
//	calcConcat <axis> $a $b …            a.Shape().Concat(axis, b.Shape()…)
//	amask $a 0110…                       a.SetMask([]bool{…})  (to exercise the mask handling of Concat / Stack)
//
// Every tensor-producing step pushes exactly one variable (empty on failure); `ident=` tells which
// program variable the returned tensor is (`new` for a fresh one).

import (
	"fmt"
	"strconv"

	"gorgonia.org/tensor"
)

func asmParseAxis(s string) (int, error) {
	if s == "all" {
		return tensor.AllAxes, nil
	}
	return strconv.Atoi(s)
}

// asmOperandsOf resolves `$k` tokens; ok=false when one of them is an empty slot or malformed.
func (p *prog) asmOperandsOf(toks []string) ([]*tensor.Dense, bool) {
	out := make([]*tensor.Dense, len(toks))
	for i, t := range toks {
		d, _ := p.get(t)
		if d == nil {
			return nil, false
		}
		out[i] = d
	}
	return out, len(out) > 0
}

func asmTensors(ds []*tensor.Dense) []tensor.Tensor {
	out := make([]tensor.Tensor, len(ds))
	for i, d := range ds {
		out[i] = d
	}
	return out
}

func asmAsDense(t tensor.Tensor, err error) (*tensor.Dense, error) {
	if err != nil {
		return nil, err
	}
	if t == nil {
		return nil, fmt.Errorf("nil result")
	}
	d, ok := t.(*tensor.Dense)
	if !ok {
		return nil, fmt.Errorf("not dense")
	}
	return d, nil
}

// asmMetaSnap is what "the operand is left unchanged" means for the metadata: access pattern, pending
// transpose, mask. (Element contents are checked by the dumps that follow the operation.)
func asmMetaSnap(t *tensor.Dense) string {
	oz, _, _ := tensor.VerifOld(t)
	m, _ := tensor.VerifMaskInfo(t)
	ms := "-"
	if m != nil {
		ms = ""
		for _, b := range m {
			ms += b01(b)
		}
	}
	return showInts(t.Shape()) + "/" + showInts(t.Strides()) + "/" + orderStr(t.DataOrder()) + "/" + b01(!oz) + "/" + ms
}

// finishAsm runs a tensor-producing operation of the family: records the returned tensor as a new
// variable (aliasing an existing one when the library returned one of its arguments), its identity
// and shape, and whether the metadata of every operand is what it was before the call.
func (p *prog) finishAsm(operands []*tensor.Dense, f func() (*tensor.Dense, error)) *rec {
	before := make([]string, len(operands))
	for i, o := range operands {
		before[i] = asmMetaSnap(o)
	}
	var out *tensor.Dense
	res := guard(func() error {
		t, err := f()
		if err != nil {
			return err
		}
		out = t
		return nil
	})
	if res == "panic" {
		p.push(nil, nil)
		return simple(res)
	}
	same := "1"
	for i, o := range operands {
		if asmMetaSnap(o) != before[i] {
			same = "0"
		}
	}
	if res != "ok" || out == nil {
		p.push(nil, nil)
		r := simple("err")
		r.fields["opsame"] = same
		return r
	}
	id := p.identOf(out)
	p.push(out, dtOf(out.Dtype()))
	r := simple("ok")
	r.fields["ident"] = id
	r.fields["shape"] = showInts(out.Shape())
	r.fields["opsame"] = same
	return r
}

func (p *prog) asmSkipNew() *rec {
	p.push(nil, nil)
	return simple("skip")
}

func stepAssembleJoin(p *prog, idx int, toks []string) *rec {
	// concat|stack <fn|meth> <axis> $a …
	if len(toks) < 4 {
		p.push(nil, nil)
		return simple("badprog")
	}
	axis, err := strconv.Atoi(toks[2])
	ops, ok := p.asmOperandsOf(toks[3:])
	if err != nil || !ok || (toks[1] != "fn" && toks[1] != "meth") {
		return p.asmSkipNew()
	}
	a, others := ops[0], ops[1:]
	return p.finishAsm(ops, func() (*tensor.Dense, error) {
		switch {
		case toks[0] == "concat" && toks[1] == "fn":
			return asmAsDense(tensor.Concat(axis, a, asmTensors(others)...))
		case toks[0] == "concat":
			return a.Concat(axis, others...)
		case toks[1] == "fn":
			return asmAsDense(tensor.Stack(axis, a, asmTensors(others)...))
		default:
			return a.Stack(axis, others...)
		}
	})
}

func stepAssembleHV(p *prog, idx int, toks []string) *rec {
	if len(toks) < 2 {
		p.push(nil, nil)
		return simple("badprog")
	}
	ops, ok := p.asmOperandsOf(toks[1:])
	if !ok {
		return p.asmSkipNew()
	}
	a, others := ops[0], ops[1:]
	return p.finishAsm(ops, func() (*tensor.Dense, error) {
		if toks[0] == "hstack" {
			return a.Hstack(others...)
		}
		return a.Vstack(others...)
	})
}

func stepAssembleRepeat(p *prog, idx int, toks []string) *rec {
	// repeat <fn|meth> $a axis reps
	if len(toks) != 5 {
		p.push(nil, nil)
		return simple("badprog")
	}
	a, _ := p.get(toks[2])
	axis, e1 := asmParseAxis(toks[3])
	reps, e2 := parseInts(toks[4])
	if a == nil || e1 != nil || e2 != nil || (toks[1] != "fn" && toks[1] != "meth") {
		return p.asmSkipNew()
	}
	return p.finishAsm([]*tensor.Dense{a}, func() (*tensor.Dense, error) {
		if toks[1] == "fn" {
			return asmAsDense(tensor.Repeat(a, axis, reps...))
		}
		return asmAsDense(a.Repeat(axis, reps...))
	})
}

func stepAssembleRepeatReuse(p *prog, idx int, toks []string) *rec {
	// repeatreuse $a axis reps $reuse
	if len(toks) != 5 {
		p.push(nil, nil)
		return simple("badprog")
	}
	a, _ := p.get(toks[1])
	axis, e1 := asmParseAxis(toks[2])
	reps, e2 := parseInts(toks[3])
	reuse, _ := p.get(toks[4])
	if a == nil || reuse == nil || e1 != nil || e2 != nil {
		return p.asmSkipNew()
	}
	return p.finishAsm([]*tensor.Dense{a}, func() (*tensor.Dense, error) {
		return asmAsDense(tensor.RepeatReuse(a, reuse, axis, reps...))
	})
}

func stepCalcRepeat(p *prog, idx int, toks []string) *rec {
	if len(toks) != 4 {
		return simple("badprog")
	}
	a, _ := p.get(toks[1])
	axis, e1 := asmParseAxis(toks[2])
	reps, e2 := parseInts(toks[3])
	if a == nil || e1 != nil || e2 != nil {
		return simple("skip")
	}
	var sh tensor.Shape
	var fin []int
	var size int
	before := showInts(a.Shape())
	res := guard(func() error {
		s, f, n, err := a.Shape().Repeat(axis, reps...)
		sh, fin, size = s, f, n
		return err
	})
	r := simple(res)
	if res == "ok" {
		r.fields["shape"] = showInts(sh)
		r.fields["reps"] = showInts(fin)
		r.fields["size"] = strconv.Itoa(size)
	}
	// the calculator must not touch the receiver's shape
	if res != "panic" {
		r.fields["recv"] = before + ">" + showInts(a.Shape())
	}
	return r
}

func stepCalcConcat(p *prog, idx int, toks []string) *rec {
	if len(toks) < 3 {
		return simple("badprog")
	}
	axis, err := strconv.Atoi(toks[1])
	ops, ok := p.asmOperandsOf(toks[2:])
	if err != nil || !ok {
		return simple("skip")
	}
	ss := make([]tensor.Shape, len(ops)-1)
	for i, o := range ops[1:] {
		ss[i] = o.Shape()
	}
	var sh tensor.Shape
	before := showInts(ops[0].Shape())
	res := guard(func() error {
		s, err := ops[0].Shape().Concat(axis, ss...)
		sh = s
		return err
	})
	r := simple(res)
	if res == "ok" {
		r.fields["shape"] = showInts(sh)
	}
	if res != "panic" {
		r.fields["recv"] = before + ">" + showInts(ops[0].Shape())
	}
	return r
}

func stepAMask(p *prog, idx int, toks []string) *rec {
	if len(toks) != 3 {
		return simple("badprog")
	}
	a, _ := p.get(toks[1])
	if a == nil {
		return simple("skip")
	}
	m := make([]bool, len(toks[2]))
	for i, c := range toks[2] {
		m[i] = c == '1'
	}
	return simple(guard(func() error { a.SetMask(m); return nil }))
}

func init() {
	extSteps["concat"] = stepAssembleJoin
	extSteps["stack"] = stepAssembleJoin
	extSteps["hstack"] = stepAssembleHV
	extSteps["vstack"] = stepAssembleHV
	extSteps["repeat"] = stepAssembleRepeat
	extSteps["repeatreuse"] = stepAssembleRepeatReuse
	extSteps["calcRepeat"] = stepCalcRepeat
	extSteps["calcConcat"] = stepCalcConcat
	extSteps["amask"] = stepAMask
}
