/-
  MiniGo: the small Go-subset AST into which `tools/gox` dumps the generated per-type kernels
  and dispatchers of `internal/execution` (core Lean only).

  * Operator tokens, callee names, literals and identifiers are *names* (strings); nothing here
    interprets them.  `$T` stands for the element type of the row, `$S` for the kernel-name
    suffix of that type, `$acc` for the typed accessor of that type (see tools/gox/README.md).
  * Lists of expressions / statements are explicit mutual inductives (`Exprs`, `Stmts`) so that
    `DecidableEq` can be derived and evaluated by the kernel (`decide +kernel`); the notations
    `e[ .. ]` and `s[ .. ]` build them.
  * `Expr.opaque` / `Stmt.opaque` carry the printed source of anything outside the subset.  No
    reference template ever produces them, so an opaque node can never conform.
-/
namespace TM.MiniGo

mutual
inductive Expr where
  | ident (n : String)                         -- identifier (canonical local / global / `$T`)
  | lit (v : String)                           -- basic literal, token text
  | absent                                     -- absent optional expression
  | idx (x i : Expr)                           -- x[i]
  | slc (x lo hi : Expr)                       -- x[lo:hi], missing bound = absent
  | un (op : String) (x : Expr)                -- op x
  | bin (op : String) (l r : Expr)             -- l op r
  | call (fn : String) (args : Exprs)          -- f(args), callee as dotted name
  | callv (fn : String) (args : Exprs)         -- f(args...) (variadic spread)
  | conv (ty x : Expr)                         -- T(x)
  | sel (x : Expr) (f : String)                -- x.f (not in callee position)
  | star (x : Expr)                            -- *x
  | assert (x ty : Expr)                       -- x.(T)
  | comp (ty : Expr) (elts : Exprs)            -- T{...}
  | kv (k v : Expr)                            -- k: v
  | sliceTy (elem : Expr)                      -- []T
  | variadicTy (elem : Expr)                   -- ...T
  | funcTy (params results : Exprs)            -- func(params) results
  | opaque (src : String)
inductive Exprs where
  | nil
  | cons (e : Expr) (es : Exprs)
end

mutual
inductive Stmt where
  | asg (lhs : Exprs) (tok : String) (rhs : Exprs)       -- lhs tok rhs ; tok ∈ {=, :=, +=, ...}
  | var (names : Exprs) (ty : Expr) (vals : Exprs)       -- var names ty = vals
  | expr (e : Expr)
  | incdec (x : Expr) (tok : String)
  | range (k v : Expr) (tok : String) (x : Expr) (body : Stmts)   -- for k, v tok range x { body }
  | for_ (init : Stmt) (cond : Expr) (post : Stmt) (body : Stmts) -- `for { }` = skip/none/skip
  | ifs (init : Stmt) (cond : Expr) (thn els : Stmts)    -- else-if = els is a single `ifs`
  | switch (init : Stmt) (tag : Expr) (clauses : Stmts)
  | tswitch (bind subject : Expr) (clauses : Stmts)      -- switch bind := subject.(type)
  | case (vals : Exprs) (body : Stmts)
  | dflt (body : Stmts)
  | ret (vals : Exprs)
  | brk
  | cont
  | skip
  | block (body : Stmts)
  | opaque (src : String)
inductive Stmts where
  | nil
  | cons (s : Stmt) (ss : Stmts)
end

deriving instance DecidableEq for Expr, Exprs
deriving instance DecidableEq for Stmt, Stmts
deriving instance Repr for Expr, Exprs
deriving instance Repr for Stmt, Stmts
instance : Inhabited Expr := ⟨.absent⟩
instance : Inhabited Stmt := ⟨.skip⟩

syntax "e[" term,* "]" : term
syntax "s[" term,* "]" : term
macro_rules
  | `(e[]) => `(Exprs.nil)
  | `(e[$x]) => `(Exprs.cons $x Exprs.nil)
  | `(e[$x, $xs,*]) => `(Exprs.cons $x e[$xs,*])
macro_rules
  | `(s[]) => `(Stmts.nil)
  | `(s[$x]) => `(Stmts.cons $x Stmts.nil)
  | `(s[$x, $xs,*]) => `(Stmts.cons $x s[$xs,*])

def Exprs.ofList : List Expr → Exprs
  | [] => .nil
  | x :: xs => .cons x (ofList xs)

def Stmts.ofList : List Stmt → Stmts
  | [] => .nil
  | x :: xs => .cons x (ofList xs)

def Stmts.append : Stmts → Stmts → Stmts
  | .nil, t => t
  | .cons x xs, t => .cons x (append xs t)

instance : Append Stmts := ⟨Stmts.append⟩

@[simp] theorem Stmts.nil_append (t : Stmts) : Stmts.nil ++ t = t := rfl
@[simp] theorem Stmts.cons_append (x : Stmt) (xs t : Stmts) :
    Stmts.cons x xs ++ t = Stmts.cons x (xs ++ t) := rfl
@[simp] theorem Stmts.append_nil : ∀ t : Stmts, t ++ Stmts.nil = t
  | .nil => rfl
  | .cons x xs => by rw [Stmts.cons_append, Stmts.append_nil xs]

/-- A function: receiver+parameter types, result types, body.  Parameters are named
`p0, p1, …` (receiver `rcv0`), named results `r0, …`, locals `v0, v1, …` in order of first
binding occurrence. -/
structure Fn where
  params : Exprs
  results : Exprs
  body : Stmts
  deriving DecidableEq, Repr

/-! ### Boolean structural equality -/
mutual
def beqE : Expr → Expr → Bool
  | .ident a, .ident b => a == b
  | .lit a, .lit b => a == b
  | .absent, .absent => true
  | .idx a b, .idx c d => beqE a c && beqE b d
  | .slc a b c, .slc d e f => beqE a d && beqE b e && beqE c f
  | .un o a, .un o' b => o == o' && beqE a b
  | .bin o a b, .bin o' c d => o == o' && beqE a c && beqE b d
  | .call f a, .call g b => f == g && beqEs a b
  | .callv f a, .callv g b => f == g && beqEs a b
  | .conv a b, .conv c d => beqE a c && beqE b d
  | .sel a f, .sel b g => beqE a b && f == g
  | .star a, .star b => beqE a b
  | .assert a b, .assert c d => beqE a c && beqE b d
  | .comp a b, .comp c d => beqE a c && beqEs b d
  | .kv a b, .kv c d => beqE a c && beqE b d
  | .sliceTy a, .sliceTy b => beqE a b
  | .variadicTy a, .variadicTy b => beqE a b
  | .funcTy a b, .funcTy c d => beqEs a c && beqEs b d
  | .opaque a, .opaque b => a == b
  | _, _ => false
def beqEs : Exprs → Exprs → Bool
  | .nil, .nil => true
  | .cons a as, .cons b bs => beqE a b && beqEs as bs
  | _, _ => false
end
mutual
def beqS : Stmt → Stmt → Bool
  | .asg a t b, .asg c t' d => beqEs a c && t == t' && beqEs b d
  | .var a t b, .var c t' d => beqEs a c && beqE t t' && beqEs b d
  | .expr a, .expr b => beqE a b
  | .incdec a t, .incdec b t' => beqE a b && t == t'
  | .range k v t x b, .range k' v' t' x' b' => beqE k k' && beqE v v' && t == t' && beqE x x' && beqSs b b'
  | .for_ i c p b, .for_ i' c' p' b' => beqS i i' && beqE c c' && beqS p p' && beqSs b b'
  | .ifs i c t e, .ifs i' c' t' e' => beqS i i' && beqE c c' && beqSs t t' && beqSs e e'
  | .switch i t c, .switch i' t' c' => beqS i i' && beqE t t' && beqSs c c'
  | .tswitch b s c, .tswitch b' s' c' => beqE b b' && beqE s s' && beqSs c c'
  | .case v b, .case v' b' => beqEs v v' && beqSs b b'
  | .dflt b, .dflt b' => beqSs b b'
  | .ret v, .ret v' => beqEs v v'
  | .brk, .brk => true
  | .cont, .cont => true
  | .skip, .skip => true
  | .block b, .block b' => beqSs b b'
  | .opaque a, .opaque b => a == b
  | _, _ => false
def beqSs : Stmts → Stmts → Bool
  | .nil, .nil => true
  | .cons a as, .cons b bs => beqS a b && beqSs as bs
  | _, _ => false
end
def beqFn (a b : Fn) : Bool := beqEs a.params b.params && beqEs a.results b.results && beqSs a.body b.body

/-! Soundness of the Boolean structural equality (used instead of the derived `DecidableEq`
because it evaluates about twice as fast in the kernel). -/
mutual
theorem beqE_sound : ∀ (a b : Expr), beqE a b = true → a = b
  | .ident _, b, h | .lit _, b, h | .opaque _, b, h | .absent, b, h => by
      cases b <;> simp_all [beqE]
  | .idx x i, b, h => by
      cases b <;> simp [beqE] at h
      exact congr (congrArg _ (beqE_sound _ _ h.1)) (beqE_sound _ _ h.2)
  | .slc x l u, b, h => by
      cases b <;> simp [beqE] at h
      rw [beqE_sound _ _ h.1.1, beqE_sound _ _ h.1.2, beqE_sound _ _ h.2]
  | .un o x, b, h => by
      cases b <;> simp [beqE] at h
      rw [h.1, beqE_sound _ _ h.2]
  | .bin o x y, b, h => by
      cases b <;> simp [beqE] at h
      rw [h.1.1, beqE_sound _ _ h.1.2, beqE_sound _ _ h.2]
  | .call f a, b, h => by
      cases b <;> simp [beqE] at h
      rw [h.1, beqEs_sound _ _ h.2]
  | .callv f a, b, h => by
      cases b <;> simp [beqE] at h
      rw [h.1, beqEs_sound _ _ h.2]
  | .conv t x, b, h => by
      cases b <;> simp [beqE] at h
      rw [beqE_sound _ _ h.1, beqE_sound _ _ h.2]
  | .sel x f, b, h => by
      cases b <;> simp [beqE] at h
      rw [beqE_sound _ _ h.1, h.2]
  | .star x, b, h => by
      cases b <;> simp [beqE] at h
      rw [beqE_sound _ _ h]
  | .assert x t, b, h => by
      cases b <;> simp [beqE] at h
      rw [beqE_sound _ _ h.1, beqE_sound _ _ h.2]
  | .comp t a, b, h => by
      cases b <;> simp [beqE] at h
      rw [beqE_sound _ _ h.1, beqEs_sound _ _ h.2]
  | .kv k v, b, h => by
      cases b <;> simp [beqE] at h
      rw [beqE_sound _ _ h.1, beqE_sound _ _ h.2]
  | .sliceTy t, b, h => by
      cases b <;> simp [beqE] at h
      rw [beqE_sound _ _ h]
  | .variadicTy t, b, h => by
      cases b <;> simp [beqE] at h
      rw [beqE_sound _ _ h]
  | .funcTy p r, b, h => by
      cases b <;> simp [beqE] at h
      rw [beqEs_sound _ _ h.1, beqEs_sound _ _ h.2]
theorem beqEs_sound : ∀ (a b : Exprs), beqEs a b = true → a = b
  | .nil, b, h => by cases b <;> simp_all [beqEs]
  | .cons x xs, b, h => by
      cases b <;> simp [beqEs] at h
      rw [beqE_sound _ _ h.1, beqEs_sound _ _ h.2]
end

mutual
theorem beqS_sound : ∀ (a b : Stmt), beqS a b = true → a = b
  | .brk, b, h | .cont, b, h | .skip, b, h | .opaque _, b, h => by
      cases b <;> simp_all [beqS]
  | .asg l t r, b, h => by
      cases b <;> simp [beqS] at h
      rw [beqEs_sound _ _ h.1.1, h.1.2, beqEs_sound _ _ h.2]
  | .var n t v, b, h => by
      cases b <;> simp [beqS] at h
      rw [beqEs_sound _ _ h.1.1, beqE_sound _ _ h.1.2, beqEs_sound _ _ h.2]
  | .expr e, b, h => by
      cases b <;> simp [beqS] at h
      rw [beqE_sound _ _ h]
  | .incdec x t, b, h => by
      cases b <;> simp [beqS] at h
      rw [beqE_sound _ _ h.1, h.2]
  | .range k v t x bd, b, h => by
      cases b <;> simp [beqS] at h
      rw [beqE_sound _ _ h.1.1.1.1, beqE_sound _ _ h.1.1.1.2, h.1.1.2, beqE_sound _ _ h.1.2, beqSs_sound _ _ h.2]
  | .for_ i c p bd, b, h => by
      cases b <;> simp [beqS] at h
      rw [beqS_sound _ _ h.1.1.1, beqE_sound _ _ h.1.1.2, beqS_sound _ _ h.1.2, beqSs_sound _ _ h.2]
  | .ifs i c t e, b, h => by
      cases b <;> simp [beqS] at h
      rw [beqS_sound _ _ h.1.1.1, beqE_sound _ _ h.1.1.2, beqSs_sound _ _ h.1.2, beqSs_sound _ _ h.2]
  | .switch i t c, b, h => by
      cases b <;> simp [beqS] at h
      rw [beqS_sound _ _ h.1.1, beqE_sound _ _ h.1.2, beqSs_sound _ _ h.2]
  | .tswitch bd s c, b, h => by
      cases b <;> simp [beqS] at h
      rw [beqE_sound _ _ h.1.1, beqE_sound _ _ h.1.2, beqSs_sound _ _ h.2]
  | .case v bd, b, h => by
      cases b <;> simp [beqS] at h
      rw [beqEs_sound _ _ h.1, beqSs_sound _ _ h.2]
  | .dflt bd, b, h => by
      cases b <;> simp [beqS] at h
      rw [beqSs_sound _ _ h]
  | .ret v, b, h => by
      cases b <;> simp [beqS] at h
      rw [beqEs_sound _ _ h]
  | .block bd, b, h => by
      cases b <;> simp [beqS] at h
      rw [beqSs_sound _ _ h]
theorem beqSs_sound : ∀ (a b : Stmts), beqSs a b = true → a = b
  | .nil, b, h => by cases b <;> simp_all [beqSs]
  | .cons x xs, b, h => by
      cases b <;> simp [beqSs] at h
      rw [beqS_sound _ _ h.1, beqSs_sound _ _ h.2]
end

theorem beqFn_sound (a b : Fn) (h : beqFn a b = true) : a = b := by
  cases a; cases b
  simp [beqFn] at h
  simp [beqEs_sound _ _ h.1.1, beqEs_sound _ _ h.1.2, beqSs_sound _ _ h.2]

/-- Kernel family: all generated functions `base ++ suffix` sharing the base name `base`, as
(type suffix, abstracted function) pairs in source order. -/
structure KFam where
  base : String
  members : List (String × Fn)

/-- Dispatcher method: name, frame (the method with its type switch reduced to the `default:`
arm) and the `case T:` arms as (case name e.g. `Int16`, abstracted arm body) in source order. -/
structure DMethod where
  name : String
  frame : Fn
  arms : List (String × Stmts)

/-! ### opaque-freeness -/
mutual
def Expr.clean : Expr → Bool
  | .opaque _ => false
  | .idx x i => x.clean && i.clean
  | .slc x l h => x.clean && l.clean && h.clean
  | .un _ x => x.clean
  | .bin _ l r => l.clean && r.clean
  | .call _ a => a.clean
  | .callv _ a => a.clean
  | .conv t x => t.clean && x.clean
  | .sel x _ => x.clean
  | .star x => x.clean
  | .assert x t => x.clean && t.clean
  | .comp t a => t.clean && a.clean
  | .kv k v => k.clean && v.clean
  | .sliceTy t => t.clean
  | .variadicTy t => t.clean
  | .funcTy p r => p.clean && r.clean
  | .ident _ => true
  | .lit _ => true
  | .absent => true
def Exprs.clean : Exprs → Bool
  | .nil => true
  | .cons e es => e.clean && es.clean
end

mutual
def Stmt.clean : Stmt → Bool
  | .opaque _ => false
  | .asg l _ r => l.clean && r.clean
  | .var n t v => n.clean && t.clean && v.clean
  | .expr e => e.clean
  | .incdec x _ => x.clean
  | .range k v _ x b => k.clean && v.clean && x.clean && b.clean
  | .for_ i c p b => i.clean && c.clean && p.clean && b.clean
  | .ifs i c t e => i.clean && c.clean && t.clean && e.clean
  | .switch i t c => i.clean && t.clean && c.clean
  | .tswitch b s c => b.clean && s.clean && c.clean
  | .case v b => v.clean && b.clean
  | .dflt b => b.clean
  | .ret v => v.clean
  | .block b => b.clean
  | .brk => true
  | .cont => true
  | .skip => true
def Stmts.clean : Stmts → Bool
  | .nil => true
  | .cons s ss => s.clean && ss.clean
end

def Fn.clean (f : Fn) : Bool := f.params.clean && f.results.clean && f.body.clean

open Expr Stmt

/-! ## A small executable semantics for the loop skeletons -/
namespace Sem

/-- Interpretation of names: operator tokens and callee names are *uninterpreted* binary
operations on the element type, conversions are uninterpreted unary operations. -/
structure Interp (α : Type) where
  op : String → α → α → α
  cv : String → α → α

/-- Machine state of the fragment. -/
structure St (α : Type) where
  sl : String → List α              -- element-typed slice variables
  sc : String → α                   -- element-typed scalar variables
  ix : String → Nat                 -- int variables
  bl : String → Bool                -- bool variables
  it : String → List (Nat × Bool)   -- iterators (keyed by the callee `x.NextValidity`): remaining (index, valid)
  err : Bool                        -- `err != nil`

inductive Sig where | norm | brk | cont | ret
  deriving DecidableEq, Repr

def upd {β : Type} (f : String → β) (n : String) (v : β) : String → β := fun m => if m = n then v else f m

variable {α : Type}

def St.setSl (st : St α) (n : String) (v : List α) : St α := { st with sl := upd st.sl n v }
def St.setIx (st : St α) (n : String) (v : Nat) : St α := { st with ix := upd st.ix n v }

/-- element-valued expressions: scalar variable, cell `a[i]`, `x tok y`, `callee(x, y)`, `T(x)` -/
def evalA (I : Interp α) (st : St α) : Expr → Option α
  | .ident n => some (st.sc n)
  | .idx (.ident a) (.ident i) => (st.sl a)[st.ix i]?
  | .bin t l r =>
      match evalA I st l, evalA I st r with
      | some x, some y => some (I.op t x y)
      | _, _ => none
  | .call c (.cons l (.cons r .nil)) =>
      match evalA I st l, evalA I st r with
      | some x, some y => some (I.op c x y)
      | _, _ => none
  | .conv (.ident t) x => (evalA I st x).map (I.cv t)
  | _ => none

/-- bool-valued expressions: flag variable, `l && r`, `err != nil` -/
def evalB (st : St α) : Expr → Option Bool
  | .ident n => some (st.bl n)
  | .bin t l r =>
      if t = "&&" then
        match evalB st l, evalB st r with
        | some x, some y => some (x && y)
        | _, _ => none
      else if t = "!=" ∧ l = .ident "r0" ∧ r = .ident "nil" then some st.err
      else none
  | _ => none

abbrev Res (α : Type) := Option (St α × Sig)

/-- assignments of the fragment -/
def execAsg (I : Interp α) (lhs : Exprs) (tok : String) (rhs : Exprs) (st : St α) : Res α :=
  match lhs, rhs with
  -- `x = x[:]`  /  `x = x[:len(z)]`  (re-slicing; capacity is modelled as the length)
  | .cons (.ident x) .nil, .cons (.slc (.ident y) .absent hi) .nil =>
      if tok = "=" ∧ x = y then
        match hi with
        | .absent => some (st, .norm)
        | .call c (.cons (.ident z) .nil) =>
            if c = "len" ∧ (st.sl z).length ≤ (st.sl x).length
            then some (st.setSl x ((st.sl x).take (st.sl z).length), .norm) else none
        | _ => none
      else none
  -- `d[i] = e`  /  `d[i] += e`   (`x += e` is `x = x + e`)
  | .cons (.idx (.ident d) (.ident i)) .nil, .cons e .nil =>
      match evalA I st e, (st.sl d)[st.ix i]? with
      | some v, some old =>
          if tok = "=" then some (st.setSl d ((st.sl d).set (st.ix i) v), .norm)
          else if tok = "+=" then some (st.setSl d ((st.sl d).set (st.ix i) (I.op "+" old v)), .norm)
          else none
      | _, _ => none
  -- `i, valid, err = it.NextValidity()`: next (index, validity) of the iterator, or an error
  | .cons (.ident i) (.cons (.ident b) (.cons (.ident r) .nil)), .cons (.call c .nil) .nil =>
      if tok = "=" ∧ r = "r0" then
        match st.it c with
        | [] => some ({ st with err := true }, .norm)
        | (k, ok) :: rest =>
            some ({ st with ix := upd st.ix i k, bl := upd st.bl b ok, it := upd st.it c rest, err := false }, .norm)
      else none
  -- `err = handleNoOp(err)`: the exhausted-iterator error is not an error
  | .cons (.ident r) .nil, .cons (.call c (.cons (.ident r') .nil)) .nil =>
      if tok = "=" ∧ r = "r0" ∧ r' = "r0" ∧ c = "handleNoOp" then some ({ st with err := false }, .norm) else none
  | _, _ => none

/-- `for i := range a`: the body at i = 0 .. len(a)-1 (`idxs`), honouring break / continue / return -/
def rangeLoop (step : Nat → St α → Res α) : List Nat → St α → Res α
  | [], st => some (st, .norm)
  | k :: ks, st =>
      match step k st with
      | some (st1, .norm) => rangeLoop step ks st1
      | some (st1, .cont) => rangeLoop step ks st1
      | some (st1, .brk) => some (st1, .norm)
      | some (st1, .ret) => some (st1, .ret)
      | none => none

/-- `for { body }` with at most `fuel` iterations -/
def forever (step : St α → Res α) : Nat → St α → Res α
  | 0, _ => none
  | n + 1, st =>
      match step st with
      | some (st1, .norm) => forever step n st1
      | some (st1, .cont) => forever step n st1
      | some (st1, .brk) => some (st1, .norm)
      | some (st1, .ret) => some (st1, .ret)
      | none => none

def declare (st : St α) (ty : Expr) : Exprs → Option (St α)
  | .nil => some st
  | .cons (.ident n) ns =>
      if ty = .ident "int" then declare { st with ix := upd st.ix n 0 } ty ns
      else if ty = .ident "bool" then declare { st with bl := upd st.bl n false } ty ns
      else none
  | _ => none

mutual
/-- Statements of the fragment; anything else is `none` (not interpreted). `fuel` bounds the
iterations of every `for { }` loop. -/
def exec (I : Interp α) (fuel : Nat) : Stmt → St α → Res α
  | .skip, st => some (st, .norm)
  | .brk, st => some (st, .brk)
  | .cont, st => some (st, .cont)
  | .ret .nil, st => some (st, .ret)
  | .var names ty .nil, st => (declare st ty names).map (·, .norm)
  | .asg lhs tok rhs, st => execAsg I lhs tok rhs st
  | .ifs init c thn els, st =>
      match exec I fuel init st with
      | some (st1, .norm) =>
          (match evalB st1 c with
           | some true => execs I fuel thn st1
           | some false => execs I fuel els st1
           | none => none)
      | _ => none
  | .range (.ident i) .absent tok (.ident a) body, st =>
      if tok = ":=" then
        rangeLoop (fun k s => execs I fuel body (s.setIx i k)) (List.range (st.sl a).length) st
      else none
  | .for_ .skip .absent .skip body, st => forever (fun s => execs I fuel body s) fuel st
  | _, _ => none
def execs (I : Interp α) (fuel : Nat) : Stmts → St α → Res α
  | .nil, st => some (st, .norm)
  | .cons s ss, st =>
      match exec I fuel s st with
      | some (st1, .norm) => execs I fuel ss st1
      | r => r
end

/-- run a function body from a state binding its parameters -/
def run (I : Interp α) (fuel : Nat) (f : Fn) (st : St α) : Res α := execs I fuel f.body st

end Sem
end TM.MiniGo
