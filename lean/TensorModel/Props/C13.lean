import TensorModel.Proofs.ShapeAlg
import TensorModel.Proofs.CoreEq
import TensorModel.Proofs.Inject
import TensorModel.Proofs.Compact
/-!
  C13 — shape algebra agrees with execution; reshape; metadata invariant.
  Property theorems only; helper lemmas live in `TensorModel/Proofs/ShapeAlg.lean` and `Proofs/Compact.lean`.
-/
namespace TM.C13

/-- `Shape.S` and `AP.S` refuse (with an error) exactly the same slice lists. -/
theorem shapeS_err_iff_apS_err (ap : AP) (size : Int) (sls : List (Option Sl))
    (hl : ap.strides.length = ap.shape.length) :
    (∃ tag, shapeS ap.shape sls = .error (.err tag)) ↔ (∃ tag, ap.S size sls = .error (.err tag)) := by
  constructor
  · intro ⟨tag, h⟩; exact ⟨tag, (ShapeAlg.shapeS_error_iff_apS_error ap size sls hl _).1 h⟩
  · intro ⟨tag, h⟩; exact ⟨tag, (ShapeAlg.shapeS_error_iff_apS_error ap size sls hl _).2 h⟩

/-- Neither of them panics on a pattern with one stride per axis. -/
theorem shapeS_apS_no_panic (ap : AP) (size : Int) (sls : List (Option Sl))
    (hl : ap.strides.length = ap.shape.length) :
    (∀ tag, shapeS ap.shape sls ≠ .error (.panic tag)) ∧ (∀ tag, ap.S size sls ≠ .error (.panic tag)) := by
  refine ⟨fun tag => ShapeAlg.shapeS_not_panic _ _ tag, fun tag h => ?_⟩
  exact ShapeAlg.shapeS_not_panic _ _ tag ((ShapeAlg.shapeS_error_iff_apS_error ap size sls hl _).2 h)

/-- Agreement of the predicted and the executed shape — partial: outside the defect regions
    F3 (`Shape.S` floors stepped lengths: `Excl_shapeSFloor`) and F25 (one-cell windows become
    scalars: `ndEnd - ndStart = 1`). -/
theorem shapeS_eq_apS_partial (ap nap : AP) (size ndStart ndEnd : Int) (sls : List (Option Sl))
    (hl : ap.strides.length = ap.shape.length)
    (h : ap.S size sls = .ok (nap, ndStart, ndEnd)) (hns : ndEnd - ndStart ≠ 1)
    (hx : Excl_shapeSFloor ap.shape sls = false) :
    shapeS ap.shape sls = .ok nap.shape := by
  have _ := hl  -- implied by `h`; not needed
  exact ShapeAlg.shapeS_eq_apS_of_excl ap nap size ndStart ndEnd sls h hns hx

/-- The full statement fails (finding F3): witness (2,5)[:, 0:5:2]. -/
theorem shapeS_eq_apS_full_fails :
    ∃ (ap nap : AP) (s e : Int) (sls : List (Option Sl)),
      ap.strides.length = ap.shape.length ∧ ap.S 10 sls = .ok (nap, s, e) ∧ e - s ≠ 1 ∧
      (match shapeS ap.shape sls with | .ok sh => sh != nap.shape | _ => true) = true := by
  exact ⟨{ shape := [2, 5], strides := [5, 1] }, _, _, _, [none, some ⟨0, 5, 2⟩], rfl, rfl, by decide, by decide⟩

/-- `Reshape` refuses a shape of different total size with an error and leaves the tensor as it is. -/
theorem reshape_size_mismatch (st : St) (t : Dense) (dims : List Int)
    (h : totalSize t.shape ≠ totalSize dims) :
    ∃ t', t.reshape st dims = .ok (.errKept t') ∧ t' = t := by
  exact ⟨t, ShapeAlg.reshape_mismatch st t dims h, rfl⟩

/-- On a plain tensor (no pending transpose, its window holds exactly its elements under the default strides of its
    data order) a reshape of equal size succeeds, sets the requested shape with the default strides of the tensor's own
    data order, and touches neither the storage nor the window: the flat element sequence in the tensor's data order
    is preserved. -/
theorem reshape_plain (st : St) (t : Dense) (dims : List Int)
    (hsz : totalSize t.shape = totalSize dims) (hold : t.old = none) (hv : t.view = false)
    (hlen : (t.win.len : Int) = totalSize dims) (hst : t.ap.strides = Dense.defaultStrides t.ap.o.col t.shape)
    (hne : dims ≠ []) :
    ∃ t', t.reshape st dims = .ok (.ok st t') ∧ t'.win = t.win ∧ t'.ap.shape = dims ∧
      t'.ap.strides = Dense.defaultStrides t.ap.o.col dims ∧ t'.ap.o = t.ap.o := by
  exact ⟨_, ShapeAlg.reshape_plain' st t dims hsz hold hv hlen hst hne, rfl, rfl, rfl, rfl⟩

/-- **A tensor that owns its data without holding it in the default layout of its shape** (the clone of a
    non-contiguous view keeps the view's window and strides; so does the `UT()` of a `SafeT()` of a lazily transposed
    tensor) **is compacted by `Reshape`** (after the repair of findings F16 / F97, which installed the default strides
    of the new shape over data that had not moved): whenever the call returns it has succeeded — no error, no
    half-done state — the tensor has the requested shape with the default strides of its data order over a buffer of
    its own of exactly `size` cells, flagged contiguous, and no cell that existed before is changed (the views taken
    from the tensor before keep their elements). -/
theorem reshape_compacts (st : St) (t : Dense) (dims : List Int)
    (hsz : totalSize t.shape = totalSize dims) (hold : t.old = none) (hv : t.view = false)
    (hnd : t.hasDefaultLayout = false) (hne : dims ≠ []) (hnn : 0 ≤ totalSize dims)
    (res : Dense.ReshapeRes) (h : t.reshape st dims = .ok res) :
    ∃ st' t', res = .ok st' t' ∧ t'.ap.shape = dims ∧ t'.ap.strides = Dense.defaultStrides t.ap.o.col dims ∧
      t'.ap.o = { col := t.ap.o.col } ∧
      t'.win = ⟨st.heap.size, 0, (totalSize dims).toNat, (totalSize dims).toNat⟩ ∧ t'.view = false ∧ t'.old = none ∧
      t'.dt = t.dt ∧ st'.heap.size = st.heap.size + 1 ∧ (∀ b, b < st.heap.size → st'.heap[b]? = st.heap[b]?) :=
  reshape_compacts' st t dims hsz hold hv hnd hne hnn res h

/-- … **and the flat element sequence in the tensor's own data order is preserved**, row-major tensors: the call
    succeeds, and cell `k` of the new buffer — the `k`-th element of the reshaped tensor in row-major order, whatever
    the new shape — holds the element the tensor had at the coordinate of row-major rank `k`. Any rank, any strides
    of the receiver (flagged non-contiguous, unmasked, its pattern inside its window). -/
theorem reshape_keeps_sequence_rowMajor (st : St) (t : Dense) (dims : List Int)
    (hsz : totalSize t.shape = totalSize dims) (hold : t.old = none) (hv : t.view = false)
    (hnd : t.hasDefaultLayout = false) (hne : dims ≠ []) (hne' : t.ap.shape ≠ []) (hrow : t.ap.o.col = false)
    (hit : t.requiresIterator = true) (hnm : t.mask = none) (hlen0 : t.win.len ≠ 0)
    (hl : t.ap.strides.length = t.ap.shape.length) (hp : ∀ d ∈ t.ap.shape, 0 < d)
    (hcap : t.win.len ≤ t.win.cap) (hbuf : t.win.buf < st.heap.size)
    (hr : ∀ c ∈ allCoords t.ap.shape, 0 ≤ dot c t.ap.strides ∧ dot c t.ap.strides < (t.win.len : Int))
    (hs : Has st t.win.buf t.win.off t.win.len) :
    ∃ st' t', t.reshape st dims = .ok (.ok st' t') ∧ t'.ap.shape = dims ∧ t'.ap.strides = calcStrides dims ∧
      t'.win = ⟨st.heap.size, 0, (totalSize dims).toNat, (totalSize dims).toNat⟩ ∧ t'.mask = none ∧
      (∀ x ∈ allCoords t.ap.shape,
        cell st' st.heap.size (rowRank t.ap.shape x).toNat =
          some (cellD st t.win.buf (t.win.off + (dot x t.ap.strides).toNat))) ∧
      (∀ b k, b < st.heap.size → cell st' b k = cell st b k) := by
  obtain ⟨w1, w2, w3⟩ := rowDefault_wf t.ap.shape hp
  have e : ∀ sh, Dense.defaultStrides t.ap.o.col sh = calcStrides sh := by
    intro sh; simp [Dense.defaultStrides, hrow]
  have := reshape_keeps_sequence' st t dims hsz hold hv hnd hne hne' hit hnm hlen0 hl hp hcap hbuf hr hs
    (by rw [e]; exact w1) (by rw [e]; exact w2) (by rw [e]; exact w3)
  simp only [e] at this
  exact this

/-- … column-major tensors (shapes with one stride per axis: neither scalar-equivalent nor a vector): cell `k` of
    the new buffer holds the element the tensor had at the coordinate of column-major rank `k`. -/
theorem reshape_keeps_sequence_colMajor (st : St) (t : Dense) (dims : List Int)
    (hsz : totalSize t.shape = totalSize dims) (hold : t.old = none) (hv : t.view = false)
    (hnd : t.hasDefaultLayout = false) (hne : dims ≠ []) (hne' : t.ap.shape ≠ []) (hcol : t.ap.o.col = true)
    (hse : isScalarEquiv t.ap.shape = false) (hvec : isVector t.ap.shape = false)
    (hit : t.requiresIterator = true) (hnm : t.mask = none) (hlen0 : t.win.len ≠ 0)
    (hl : t.ap.strides.length = t.ap.shape.length) (hp : ∀ d ∈ t.ap.shape, 0 < d)
    (hcap : t.win.len ≤ t.win.cap) (hbuf : t.win.buf < st.heap.size)
    (hr : ∀ c ∈ allCoords t.ap.shape, 0 ≤ dot c t.ap.strides ∧ dot c t.ap.strides < (t.win.len : Int))
    (hs : Has st t.win.buf t.win.off t.win.len) :
    ∃ st' t', t.reshape st dims = .ok (.ok st' t') ∧ t'.ap.shape = dims ∧ t'.ap.strides = calcStridesCol dims ∧
      t'.win = ⟨st.heap.size, 0, (totalSize dims).toNat, (totalSize dims).toNat⟩ ∧ t'.mask = none ∧
      (∀ x ∈ allCoords t.ap.shape,
        cell st' st.heap.size (colRank t.ap.shape x).toNat =
          some (cellD st t.win.buf (t.win.off + (dot x t.ap.strides).toNat))) ∧
      (∀ b k, b < st.heap.size → cell st' b k = cell st b k) := by
  obtain ⟨w0, w1, w2, w3⟩ := colDefault_wf t.ap.shape hp hse hvec
  have e : ∀ sh, Dense.defaultStrides t.ap.o.col sh = calcStridesCol sh := by
    intro sh; simp [Dense.defaultStrides, hcol]
  have := reshape_keeps_sequence' st t dims hsz hold hv hnd hne hne' hit hnm hlen0 hl hp hcap hbuf hr hs
    (by rw [e]; exact w1) (by rw [e]; exact w2) (by rw [e]; exact w3)
  simp only [e, w0] at this
  exact this

/-- non-vacuity (the witness of finding F16): the clone of the first two columns of a 3×3 matrix — window of eight
    cells, strides (3, 1), flagged non-contiguous, not a view — meets the hypotheses; reshaped to (6) it gets a
    buffer of six cells holding its elements in order (before the repair: error, strides overwritten) -/
def rsSt : St := { heap := #[#[.src 0 0, .src 0 1, .src 0 2, .src 0 3, .src 0 4, .src 0 5, .src 0 6, .src 0 7]] }
def rsClone : Dense := { ap := { shape := [3, 2], strides := [3, 1], fin := true, o := { nonContig := true } },
                         win := ⟨0, 0, 8, 8⟩, dt := "i16" }
example : rsClone.hasDefaultLayout = false ∧ rsClone.requiresIterator = true ∧ rsClone.view = false ∧
    (match rsClone.reshape rsSt [6] with
     | .ok (.ok s r) => r.ap.shape == [6] && r.ap.strides == [1] && r.win == ⟨1, 0, 6, 6⟩ && !r.ap.o.nonContig &&
         (s.heap[1]? == some #[.src 0 0, .src 0 1, .src 0 3, .src 0 4, .src 0 6, .src 0 7]) && (s.heap[0]? == rsSt.heap[0]?)
     | _ => false) = true := by decide
/-- … and (the shape of finding F97) a tensor of the right length whose strides are not the default ones: the
    elements come out in their logical order, not in storage order -/
def rsPerm : Dense := { ap := { shape := [2, 3], strides := [1, 2], fin := true, o := { nonContig := true } },
                        win := ⟨0, 0, 6, 6⟩, dt := "i16" }
example : rsPerm.hasDefaultLayout = false ∧
    (match rsPerm.reshape rsSt [3, 2] with
     | .ok (.ok s r) => r.ap.strides == [2, 1] &&
         (s.heap[1]? == some #[.src 0 0, .src 0 2, .src 0 4, .src 0 1, .src 0 3, .src 0 5])
     | _ => false) = true := by decide

/-- A "covering" access pattern: one non-negative stride per axis, positive dimensions, and the
    largest address lies inside a window of `len` cells. (All in-box addresses are then in-window.) -/
def Covers (ap : AP) (len : Int) : Prop :=
  ap.strides.length = ap.shape.length ∧ (∀ s ∈ ap.strides, 0 ≤ s) ∧ (∀ d ∈ ap.shape, 0 < d) ∧
    dot (ap.shape.map (· - 1)) ap.strides < len

/-- Every in-box coordinate of a covering pattern addresses a cell of the window. -/
theorem covers_inbox (ap : AP) (len : Int) (h : Covers ap len) (c : List Int) (hc : inBox ap.shape c = true) :
    0 ≤ dot c ap.strides ∧ dot c ap.strides < len := by
  obtain ⟨_, hs, _, hlt⟩ := h
  have := ShapeAlg.dot_box_bounds ap.shape ap.strides c hs hc
  exact ⟨this.1, by omega⟩

/-- Default row-major strides cover exactly the backing. -/
theorem covers_default (shape : Shape) (hpos : ∀ d ∈ shape, 0 < d) :
    Covers { shape := shape, strides := calcStrides shape } (prod shape) := by
  refine ⟨calcStrides_length shape, ShapeAlg.calcStrides_nonneg shape hpos, hpos, ?_⟩
  show dot (shape.map (· - 1)) (calcStrides shape) < prod shape
  rw [ShapeAlg.dot_calcStrides_max]; omega

/-- **Slicing preserves the invariant** (non-negative steps, non-empty ranges; the scalar special
    case included), hence nested slicing to any depth stays in bounds. -/
theorem slice_covers (ap nap : AP) (size ndStart ndEnd : Int) (sls : List (Option Sl))
    (hcov : Covers ap size)
    (hstep : ∀ s ∈ sls, ∀ x, s = some x → 0 ≤ x.step ∧ x.start < x.stop)
    (h : ap.S size sls = .ok (nap, ndStart, ndEnd)) :
    0 ≤ ndStart ∧ ndStart ≤ ndEnd ∧ ndEnd ≤ size ∧ Covers nap (ndEnd - ndStart) := by
  obtain ⟨_, hs, hd, hlt⟩ := hcov
  exact ShapeAlg.apS_cov ap nap size ndStart ndEnd sls hs hd hlt hstep h

/-- Lazy transposition preserves the invariant, for every pattern — two-dimensional vectors (whose long axis keeps
    its stride) included (rank ≤ 5 through `unsafePermute_gather`). -/
theorem T_covers (ap tap : AP) (len : Int) (axes ax' : List Int) (hr : ap.shape.length ≤ 5)
    (hcov : Covers ap len) (hp : isPerm axes ap.shape.length = true)
    (h : ap.T axes = .ok (.ok tap ax')) :
    Covers tap len := by
  obtain ⟨hl, hs, hd, hlt⟩ := hcov
  exact ShapeAlg.apT_cov ap tap len axes ax' hr hl hs hd hlt hp h

-- non-vacuity
example : Covers { shape := [2, 3], strides := [3, 1] } 6 := by
  refine ⟨rfl, ?_, ?_, by decide⟩ <;> intro x hx <;> simp at hx <;> omega
-- a column of a 3×3 matrix as a (3, 1) vector with strides (3, 1) over a window of 7 cells, and its transpose
example : Covers { shape := [3, 1], strides := [3, 1] } 7 := by
  refine ⟨rfl, ?_, ?_, by decide⟩ <;> intro x hx <;> simp at hx <;> omega
example : (match ({ shape := [3, 1], strides := [3, 1] } : AP).T [] with
  | .ok (.ok tap _) => tap.shape == [1, 3] && tap.strides == [1, 3] | _ => false) = true := by decide

/-! ## distinct positions: different in-box coordinates address different cells -/

/-- default row-major strides address distinct cells -/
theorem default_distinct (shape : Shape) : InjectivePat shape (calcStrides shape) :=
  fun c c' hc hc' h => rowRank_inj' shape c c' hc hc' h

/-- default column-major strides (one per axis) address distinct cells -/
theorem default_col_distinct (shape : Shape) : InjectivePat shape (prefixProds 1 shape) :=
  fun c c' hc hc' h => colRank_inj' shape c c' hc hc' h

/-- **Transposition preserves distinctness**: permuting shape and strides by any permutation of the axes (what
    `AP.T` does, `apT_gather`) keeps distinct coordinates on distinct cells. Any rank. -/
theorem T_distinct (p : List Int) (shape strides : List Int) (hp : isPerm p shape.length = true)
    (hl : strides.length = shape.length) (h : InjectivePat shape strides) :
    InjectivePat (gatherI p shape) (gatherI p strides) :=
  gather_injective hp shape strides rfl hl h

example : InjectivePat (gatherI [1, 0] [2, 3]) (gatherI [1, 0] (calcStrides [2, 3])) :=
  T_distinct [1, 0] [2, 3] _ (by decide) (by decide) (default_distinct [2, 3])

/-! ## the source of the shape calculator

`shape.go:Shape.S` — per-axis lengths through `SliceDetails`, then the in-place loop that deletes the
dimensions of extent one selected by a non-nil slice while adjusting its own counters (`d--`, `dims--`,
`offset++`) — is translated by `tools/gol` on every run; `Proofs/CoreEq.lean` proves the translation equal to
the model function `shapeS` (value / error class) for every shape and slice list. -/

theorem ShapeS_source_is_model (s : Shape) (sls : List (Option Sl)) :
    Gen.clsE (Gen.Shape_S s sls) = Gen.clsM (shapeS s sls) := Gen.Shape_S_eq s sls

/-- hence: the source calculator refuses exactly when the executed slicing (`AP.S`, model) refuses -/
theorem ShapeS_source_err_iff_apS_err (ap : AP) (size : Int) (sls : List (Option Sl))
    (hlen : ap.strides.length = ap.shape.length) :
    Gen.clsE (Gen.Shape_S ap.shape sls) = .err ↔ ∃ t, ap.S size sls = .error (.err t) := by
  rw [ShapeS_source_is_model, ← shapeS_err_iff_apS_err ap size sls hlen]
  constructor
  · intro h
    cases hr : shapeS ap.shape sls with
    | ok v => rw [hr] at h; cases h
    | error e => cases e with
      | err t => exact ⟨t, rfl⟩
      | panic t => rw [hr] at h; cases h
  · intro ⟨t, h⟩; rw [h]; rfl

-- (finding F3 at work: the stepped axis 1:4:2 has two elements, the source floors it to one and then drops it)
example : Gen.clsE (Gen.Shape_S [2, 3, 4] [some ⟨0, 1, 1⟩, none, some ⟨1, 4, 2⟩]) = .val [3] := by decide
example : Gen.clsE (Gen.Shape_S [2, 3, 4] [some ⟨0, 1, 1⟩, none, some ⟨0, 4, 2⟩]) = .val [3, 2] := by decide

/-- **The metadata invariants are what the operation theorems ask for.** A tensor whose access pattern covers its storage
    window (`Covers`, preserved by slicing and transposing: `slice_covers`, `T_covers`) and addresses distinct cells
    (`InjectivePat`: `default_distinct`, `T_distinct`) satisfies the two hypotheses the iterator-path theorems of
    C06 / C07 / C11 / C12 make about an operand: its iterator stays inside its window and never yields a cell twice. -/
theorem wf_offsets (t : Dense) (n : Nat) (hcov : Covers t.ap (n : Int)) (hinj : InjectivePat t.ap.shape t.ap.strides) :
    (∀ i ∈ t.offsets, 0 ≤ i ∧ i < (n : Int)) ∧ t.offsets.Nodup := by
  obtain ⟨hl, hs, hp, hlt⟩ := hcov
  have ho : t.offsets = (allCoords t.ap.shape).map (fun c => dot c t.ap.strides) := by
    unfold Dense.offsets
    exact offsets_rowmajor t.ap hl hp
  rw [ho]
  constructor
  · intro i hi
    obtain ⟨c, hc, rfl⟩ := List.mem_map.mp hi
    exact covers_inbox t.ap n ⟨hl, hs, hp, hlt⟩ c (C17compat.allCoords_inBox _ _ hc)
  · refine List.pairwise_map.mpr ((allCoords_nodup t.ap.shape hp).imp_of_mem ?_)
    intro x y hx hy hne hxy
    exact hne (hinj x y (C17compat.allCoords_inBox _ _ hx) (C17compat.allCoords_inBox _ _ hy) hxy)

/-- non-vacuity: the lazily transposed (2,3) matrix over six cells -/
example : Covers { shape := [3, 2], strides := [1, 3] } 6 ∧ InjectivePat [3, 2] [1, 3] := by
  refine ⟨⟨rfl, by decide, by decide, by decide⟩, ?_⟩
  have := T_distinct [1, 0] [2, 3] [3, 1] (by decide) rfl (default_distinct [2, 3])
  simpa [gatherI] using this

end TM.C13
